#!/usr/bin/env python3
"""verify_seed.py <seed_dir> <place_dir> <run_pattern> [pkg]
Confirms a seeded defect independently in a scratch worktree of /repo:
 patch applies, builds, existing suite passes, demo fails with / passes without.
On success copies it to /verif/seeded/<name>/ with a 'verified' record."""
import json, os, shutil, subprocess, sys, glob
seed, place, pat = sys.argv[1], sys.argv[2], sys.argv[3]
name = os.path.basename(seed.rstrip("/"))
WT = "/tmp/wt/verify-" + name
env = dict(os.environ, GOFLAGS="-mod=mod", GOPROXY="off")
def sh(cmd, cwd=WT, timeout=1500):
    p = subprocess.run(cmd, shell=True, cwd=cwd, env=env, stdout=subprocess.PIPE, stderr=subprocess.STDOUT, text=True, timeout=timeout)
    return p.returncode, p.stdout
subprocess.run(["git", "-C", "/repo", "worktree", "remove", "--force", WT], stderr=subprocess.DEVNULL)
subprocess.check_call(["git", "-C", "/repo", "worktree", "add", "--detach", "-q", WT, "HEAD"])
rec = {}
try:
    demos = glob.glob(os.path.join(seed, "*_test.go"))
    os.makedirs(os.path.join(WT, place), exist_ok=True)
    for d in demos:
        shutil.copy(d, os.path.join(WT, place))
    pkg = "./" + place.strip("/") + "/"
    rc, out = sh("go test -vet=off -count=1 -run '%s' %s" % (pat, pkg))
    rec["demo_clean_rc"] = rc
    if rc != 0:
        print("demo FAILS on clean tree:\n", out[-3000:]); sys.exit(1)
    rc, out = sh("git apply %s" % os.path.join(seed, "patch.diff"))
    if rc != 0:
        print("patch does not apply:", out); sys.exit(1)
    rc, out = sh("go build ./...")
    if rc != 0:
        print("mutant does not build:", out); sys.exit(1)
    rc, out = sh("go test -vet=off -count=1 -run '%s' %s" % (pat, pkg))
    rec["demo_mutant_rc"] = rc
    rec["demo_mutant_tail"] = out[-600:]
    if rc == 0:
        print("demo PASSES with mutant (not a demonstration)"); sys.exit(1)
    for d in demos:
        os.remove(os.path.join(WT, place, os.path.basename(d)))
    rc, out = sh("go test -vet=off -count=1 ./... 2>&1 | grep -v 'no test files'")
    fails = [l for l in out.splitlines() if l.startswith("FAIL") or l.startswith("--- FAIL")]
    fails = [l for l in fails if "AuthorizedFail" not in l and "TestInteropRemoteDaemonSSH" not in l and l.strip() != "FAIL"
             and not l.startswith("FAIL\tgithub.com/gokrazy/rsync/integration/interop")]
    rec["suite_failures_with_mutant"] = fails
    if fails:
        print("existing suite fails with the mutant:", fails); sys.exit(1)
    dst = os.path.join("/verif/seeded", name)
    os.makedirs(dst, exist_ok=True)
    for f in os.listdir(seed):
        shutil.copy(os.path.join(seed, f), dst)
    mp = os.path.join(dst, "meta.json")
    meta = json.load(open(mp)) if os.path.exists(mp) else {}
    meta["verified_by_me"] = {"place_demo_in": place, "run": "go test -vet=off -count=1 -run '%s' %s" % (pat, pkg),
                              "clean_tree": "demo passes", "with_patch": "builds, existing suite passes, demo fails", **rec}
    json.dump(meta, open(mp, "w"), indent=1)
    print("VERIFIED", name)
finally:
    subprocess.run(["git", "-C", "/repo", "worktree", "remove", "--force", WT])
