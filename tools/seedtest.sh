#!/bin/sh
# tools/seedtest.sh <seed-dir-name> [property]   — apply a seeded defect to /repo, run the check, undo.
set -u
S=$1; P=${2:-${S%_*}}
cd /verif
if ! git -C /repo diff --quiet HEAD; then echo "/repo not clean"; exit 2; fi
if git -C /repo apply --check /verif/seeded/$S/patch.diff 2>/dev/null; then
  git -C /repo apply /verif/seeded/$S/patch.diff
elif git -C /repo apply -3 /verif/seeded/$S/patch.diff >/dev/null 2>&1; then
  git -C /repo reset -q
  git -C /repo diff > /verif/seeded/$S/patch.diff   # rebased onto the current HEAD
  echo "(patch rebased)"
else
  echo "PATCH-DOES-NOT-APPLY $S"; git -C /repo checkout HEAD -- .; exit 3
fi
./check $P 2>&1 | grep -E "^(OK|VIOLATION|KNOWN)" | head -3
git -C /repo checkout HEAD -- .
(cd /verif/tools/gen && go run . -repo /repo -out /verif/coq/Gen)
git -C /repo status --short
