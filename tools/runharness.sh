#!/bin/sh
# tools/runharness.sh <component> <tier> <seed> <outdir>
# Runs the built harness inside a private mount namespace in which everything
# except <outdir> is read-only (the code under test may be arbitrarily broken).
set -e
comp=$1; tier=$2; seed=$3; out=$4
mkdir -p "$out"
exec env VERIF_ROOT=/verif VERIF_TMP="$out" TMPDIR="$out" GOFLAGS=-mod=mod GOPROXY=off \
  unshare -m sh -c 'mount --make-rprivate / && mount -o remount,ro,bind / && mount --bind "$0" "$0" && mount -o remount,rw,bind "$0" && cd "$0" && exec "$@"' \
  "$out" /verif/harness/bin/verifharness -component "$comp" -tier "$tier" -seed "$seed" -out "$out/$comp"
