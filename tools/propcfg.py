"""Per-property configuration of the check driver."""

KERNEL = "Coq 8.16.1 kernel (coqc, full .vo build; vm_compute used for finite enumerations and witnesses; no native_compute)"
EXTRACT = "correspondence leg only: Coq extraction (ExtrOcamlBasic, no Extract Constant), OCaml 4.13.1, coq/Extract/driver.ml line parser"
HARNESSTB = "correspondence leg only: Go harness /verif/harness + verif-tagged hook files in /repo (generators bound what was compared)"
GEN = "translator tools/gen (Go AST -> coq/Gen/*.v), fails closed on unrecognised source shapes"

PROPS = {
    "C19": {
        "components": ["acl"],
        "trusted_base": [KERNEL, EXTRACT, HARNESSTB,
                         "Go net package (SplitHostPort, ParseIP, ParseCIDR, IPNet.Contains) is modelled (Model/Acl.v: To4 normalisation of addresses and networks), validated by the correspondence run, not verified"],
        "assumptions": [
            "string-level glue of checkACL (first-space split, action keyword, 'all', CIDR syntax) is covered by correspondence only; the theorems speak about structured rules",
            "oracle uses net/netip as an independent notion of 'network contains address' (IPv4-mapped networks unmapped)",
        ],
        "rule": "all rule lists of length 0..2 (quick) / 0..3 (thorough) over a pool of 43 rules (allow/deny x all, IPv4 /0 /8 /16 /24 /32 incl. unmasked bases, IPv6 /0 /32 /64 /128, IPv4-mapped /104, 12 malformed shapes) x 54 remote addresses on and around every prefix boundary (plain, IPv4-mapped, unparsable), plus random lists of length 3..7 and real TCP sessions from 127.0.0.1 and ::1; non-trivial = list of >= 2 rules and a parsable address",
        "exhaustive": True,
        "exhaustive_note": "the finite pool part (lists up to the stated length x all pool addresses) is enumerated completely",
        "label": "full on structured rules; string parsing is glue covered by correspondence",
    },
}
