"""Per-property configuration of the check driver."""

KERNEL = "Coq 8.16.1 kernel (coqc, full .vo build; vm_compute used for finite enumerations and witnesses; no native_compute)"
EXTRACT = "correspondence leg only: Coq extraction (ExtrOcamlBasic, no Extract Constant), OCaml 4.13.1, coq/Extract/driver.ml line parser"
HARNESSTB = "correspondence leg only: Go harness /verif/harness + verif-tagged hook files in /repo (generators bound what was compared)"
GEN = "translator tools/gen (Go AST -> coq/Gen/*.v), fails closed on unrecognised source shapes"

MD4NOTE = "strong hash: theorems are parametric in H; the model is executed with a native OCaml MD4 in the driver (the Gallina MD4 of Model/Md4.v is cross-checked against the implementation by component md4)"

FSNOTE = "file-system and OS behaviour (os.Root, renameio, rename(2), utimes, real sockets/pipes) is observed through end-to-end sessions run in worker subprocesses, not modelled in this property"

PROPS = {
    "C01": {
        "components": ["sync", "sender", "recv", "serve"],
        "trusted_base": [KERNEL, EXTRACT, HARNESSTB, GEN, MD4NOTE, FSNOTE,
                         "modelled, not verified: source-argument -> destination-path mapping across arrangements, file-list walk (covered by the end-to-end oracle only)"],
        "assumptions": [
            "sync_file_correct covers one file through generator+sender+receiver for sizes < 2^40 under the explicit no_collision hypothesis; sync_session_correct lifts it to any file list with distinct names over any destination state (requested files end equal to the source, every other path unchanged); the mapping of source arguments to destination paths and the walk across the arrangements are decided by the end-to-end oracle, not by a theorem (label partial)",
            "oracle: standard rsync mapping of source arguments (dir vs dir/) to destination paths, byte comparison of every selected regular file",
        ],
        "rule": "end to end: random source trees (nesting, names with spaces / non-UTF-8 bytes, sizes 0,1,699..701,1399..1401,4096,7000,64Ki,256Ki-1..256Ki+1 and 0.7-1.3 MiB incl. n*700 and 1000*1000, high/low entropy) x prior destination per file (absent, identical, identical with older mtime, unrelated, edited, emptied, truncated, extended, same-size with unchanged tail, symlink / empty dir / fifo in the way) x 10 option sets x 5 arrangements (pull, push, local, library pull, library push) x source shapes (root, dir/, dir, two sources); every session runs in a worker subprocess. plus the C02 sender/receiver correspondence. non-trivial = session with at least one delta transfer",
        "exhaustive": False,
        "label": "partial: per-file pipeline and its lift to a whole file list are theorems; argument-to-path mapping and the walk by end-to-end oracle",
    },
    "C09": {
        "components": ["delete"],
        "trusted_base": [KERNEL, EXTRACT, HARNESSTB, FSNOTE,
                         "modelled, not verified: io/fs.WalkDir over os.Root.FS() (lexical order, SkipDir) as a recursive walk over a tree; RemoveAll as subtree removal"],
        "assumptions": [
            "listed = membership by name in the sender's sorted list (find_is_membership); protected = the user's plain-name exclude rules",
            "type conflicts (file <-> directory at the same path) are skipped by the end-to-end oracle (the delete pass runs before the generator replaces them)",
        ],
        "rule": "unit: real deleteFiles on generated destination trees (2..7 entries per directory in every sort position incl. non-ASCII names, nesting 3, files / directories / symlinks) x listed subsets (ancestor-closed and not) x 0..3 exclude/include rules x I/O-error flag x dry-run x missing top directory, surviving entry set compared with the model and with the property's definition. end to end: pull / push / local sessions with -a --delete [--exclude], the sender's I/O-error flag forced by a missing source argument, --delete absent; non-trivial = some but not all entries removed",
        "exhaustive": False,
        "label": "full",
    },
    "C04": {
        "components": ["atomic", "crash", "faults"],
        "trusted_base": [KERNEL, EXTRACT, HARNESSTB, FSNOTE,
                         "modelled, not verified: rename(2) as one atomic step (ACommit / OpSymlink), the pending file as a separately named object, the deferred Cleanup as the last step of recvFile1; goroutine scheduling between generator and receiver, and the asynchronous clean-up after Do returned an error, are observed end to end, not modelled"],
        "assumptions": [
            "observation = the receiving side blocked in Read at byte N of the stream towards it (library pull: client receives; library push: daemon handler receives); SIGKILL is delivered by the receiving process to itself at byte N",
            "after an error return the other goroutine's clean-up is asynchronous: the oracle polls up to 3 s after the connection was closed",
            "power-loss durability (fsync ordering) is outside what can be observed here",
        ],
        "rule": "unit: real recvFile1 fed through a reader that stops at every token boundary (header, each literal / block-reference token, end marker) and observes target + pending file; streams over new and existing files, good and corrupted trailers, stream cut at every boundary; compared step by step with the model and with the property oracle. end to end: multi-file sessions (new, edited, unrelated, truncated priors; replaced and new symlinks; files of many tokens) in library pull and push, one session with 80 (quick) / 1500 (thorough) freeze points across the whole stream, sessions cut at random offsets of either direction, sessions killed at random offsets; every listed path must hold its complete previous or complete new content, no temporary entry may remain after an error return. plus the C03 fault component. non-trivial = stream of at least one data token",
        "exhaustive": False,
        "label": "full for the receiver's commit protocol; scheduling / asynchronous clean-up by end-to-end oracle",
    },
    "C05": {
        "components": ["confine", "osroot"],
        "trusted_base": [KERNEL, GEN, HARNESSTB, FSNOTE,
                         "os.Root (Go standard library) is modelled, not verified: Model/Root.v mirrors its resolution (doInRoot: component walk, '..' by restart, relative links spliced, absolute links and '..' at the root refused, final link followed or not per operation); theorem root_resolution_stays_inside is about that model; component osroot compares the model with the real os.Root on random trees and flags any resolution that ends outside the root. session_confined_given_root keeps the confinement of the real os.Root as an explicit hypothesis",
                         "translator tools/gen/fssites.go decides which calls count as file-system call sites (packages os, unix, syscall, renameio, ioutil, exec; methods on the root expressions rt.DestRoot, root, subRoot, parentRoot; handles parentDir/in/out/localFile; helpers symlink, newPendingFile, RootChecksum)",
                         "linux build only (generatormknod_darwin.go uses a plain path join and is outside this check)"],
        "assumptions": [
            "the hand-written sender (harness/fakesender.go) speaks protocol 27 to a real library client and to a real writable daemon module over buffered in-memory pipes; a benign control list must be received completely, else the run fails",
            "reads are observed through the block checksums the generator sends back for an escaping name (a non-empty checksum list means outside data was read)",
        ],
        "rule": "matrix: escape vector {.., absolute name, pre-existing relative symlink, pre-existing absolute symlink, nested .., nested pre-existing symlink, symlink sent earlier in the same list, symlink then directory of the same name in one list, daemon upload subdirectory = symlink / symlink with trailing slash / .. / nested symlink} x outside target {existing file, absent name, existing directory, file in a subdirectory, symlink} x entry {regular with new content (create temp, rename), regular with equal size+mtime (chmod/chown/chtimes only), directory, read-only directory (touch-up), symlink, fifo, socket, character device} x {-rlptgoD, + --delete} x {receiving client, writable daemon module}; --delete walks over destinations holding symlinks to outside directories; random hostile lists built from the components of those names; symlink chains whose link target ends in a slash (chain -> 'hop/', hop -> '../outside') as pre-existing entries, as entries of the same list and as the daemon subdirectory. osroot: random trees of directories, files and symbolic links (relative, absolute, dangling, cyclic, with '..', with trailing slashes, chained) x cleaned names walking existing entries and random components x {final link followed (Stat), not followed (Lstat)}: the object reached (by inode) vs the model, never outside the root. oracle: content+metadata snapshot (type, content, mode, mtime incl. ns, owner, rdev) of everything around the destination identical before and after, no checksum list for an escaping name. quick tier runs a third of the matrix (rotating with the seed) plus all daemon-subdirectory vectors",
        "exhaustive": False,
        "label": "partial: os.Root is modelled and checked against the real one, not verified; the code's obligation (all destination access goes through the root) is a regenerated theorem",
    },
    "C06": {
        "components": ["serve"],
        "trusted_base": [KERNEL, EXTRACT, HARNESSTB, GEN, FSNOTE,
                         "ASSUMED and exercised: os.Root / the module's fs.FS never resolves a name through a symbolic link out of the module (Go standard library); symbolic links are leaves of the model's tree",
                         "modelled, not verified: filepath.Clean (Model/Flist.v path_clean), io/fs.ValidPath, fs.WalkDir's handling of an invalid or absent root (reported to the walk function: I/O error flag, nothing listed)"],
        "assumptions": [
            "requests whose path touches a symbolic link are outside the model's domain and decided by the canary oracle only",
            "fs.FS-backed modules are given an fs.FS that is itself confined (os.Root.FS()); os.DirFS follows symbolic links out of its directory by design, which is the embedding application's choice, not the daemon's",
            "the hand-written receiving client reads the daemon's stream until it goes quiet for 120 ms, decodes the file list with the reference decoder, optionally requests every regular file, and scans the raw byte stream for the canaries",
        ],
        "rule": "three modules whose names are prefixes of each other (mo, mod, mod2), directory- and fs.FS-backed, each containing files, nested directories, inside-pointing and outside-pointing (relative and absolute) symlinks to files and directories next to an outside area holding canary names and contents; request paths from the traversal grammar: module/.., module/../x, module//../, absolute paths, paths through inside- and outside-pointing symlinks with and without trailing slash, empty and '.' components, another module's name in front, no module prefix, two paths per request; options -r, -rl, -rc, -rlc, -rlptgoD; with and without fetching every listed regular file. compared: sorted name list vs model; oracle: no canary name or content anywhere in the daemon's byte stream. non-trivial = non-empty listing",
        "exhaustive": False,
        "label": "partial: relies on os.Root / fs.FS confinement for symbolic links (assumed, exercised); path handling and listing are theorems",
    },
    "C07": {
        "components": ["daemonreq"],
        "trusted_base": [KERNEL, EXTRACT, HARNESSTB, GEN, FSNOTE,
                         "modelled, not verified: HandleDaemonConn's line protocol (greeting, module line, flag lines) as the function daemon_request over the model of the option parser; ACL verdict as an input (decided by C19's model)",
                         "translator tools/gen/fssites.go: position of the `if !module.Writable { return ... }` statement among the file-system call sites of handleConnReceiver; inventory of the sending side's call sites"],
        "assumptions": [
            "flag sets that make the parser exit the process (--help, --version, --info=help) are outside this component (C08 finding)",
            "observation classes: list / unknown-module / denied / parse-error / badargs / sender (daemon sends a file list) / refused-read-only (error frame) / receiver (daemon starts requesting or fails later with a [receiver] error)",
        ],
        "rule": "unit: raw daemon-protocol exchanges over in-memory pipes and TCP against servers with 1-3 modules (names that are prefixes of each other, mixed writability, directory- and fs.FS-backed), requested module lines (exact, prefix, unknown, empty, #list, other case, trailing space), flag lines from canonical pull / push / push --delete to a subdirectory / -n and random sequences from a 22-flag pool incl. unknown options, followed by an upload file list; how far the request got vs the model, module snapshots before/after. end to end: real client pushes and hand-written senders into a read-only module x 5 option sets (incl. --delete, -n) x subdirectory targets: snapshot unchanged and an error naming the read-only refusal. fs.FS modules cannot be configured writable. non-trivial = request that reached sender / receiver / refusal",
        "exhaustive": False,
        "label": "full",
    },
    "C08": {
        "components": ["hostile", "ssession", "daemonreq"],
        "trusted_base": [KERNEL, EXTRACT, HARNESSTB, GEN, MD4NOTE, FSNOTE,
                         "translator tools/gen/aborts.go: which calls count as process-ending (panic, os.Exit, log.Fatal*, log.Panic*, runtime.Goexit, syscall.Exit) and which directories are library code (everything except cmd/, integration/, verifhook/ and the test helper packages)",
                         "modelled, not verified: Go runtime panics on slice / index / allocation errors are represented only where the model has a crash value (sender search loop, demultiplexer buffer); other decoders are covered by the correspondence components of C15 / C17 / C03 (malformed streams) and by the survival oracle here"],
        "assumptions": [
            "stalled peers and declared multi-gigabyte sizes are outside the property: count-like fields are mutated to values below 2^20 (or negative); a session found busy allocating / filling a literal-token buffer after the peer closed, or a process that died with an out-of-memory error, is counted as out of scope, not as a violation",
            "the hostile peer writes its whole (mutated) stream and closes; the target must return within 4-5 s after the close",
        ],
        "rule": "scripted valid sessions in four roles (daemon serving a pull, daemon receiving an upload with --delete into a subdirectory, library client receiving from a server, library client sending to a server), split into labelled fields: greeting, module line, every argument line, filter-list lengths and rule text, file indices, the four checksum-header fields, block checksums, file-list flags / name lengths / names / sizes / times / modes / link lengths and targets, the I/O-error word, token lengths and data, whole-file checksums, phase markers, multiplex headers, statistics; each field mutated to boundary integers (-1, -2, -2^31, 0, 1, v-1, v+1, 2^20-1 or 2^31-1), every single-bit flip of flag bytes, emptied / halved / doubled / zeroed / 0xff / traversal / 4 kB names and data, garbled / over-long / NUL-containing lines, bad multiplex tags and lengths; truncation of the stream at byte offsets (every offset in the thorough tier); random noise; every option of the parser's table as an extra argument line (with =1, =help, =-5 for options taking a value). oracle: the worker process neither dies nor hangs, the session ends, and the same daemon then lists and serves a canonical request; unmutated control sessions must be accepted. plus the request-loop and request-dispatch correspondences. quick tier: every sixth mutation (rotating with the seed), every 17th offset",
        "exhaustive": False,
        "label": "partial: crash-freedom is a theorem for the sender's request loop, the demultiplexer, header / name-length validation, rule rejection and the abort-site inventory; for the remaining decoders it rests on the malformed-stream correspondences and the survival oracle",
    },
    "C18": {
        "components": ["interleave", "concurrent"],
        "trusted_base": [KERNEL, HARNESSTB, FSNOTE,
                         "modelled, not verified: the goroutine structure of a transfer (generator and receiver goroutines of Transfer.Do, the sender's single read-request / write-answer loop) as the three-process transition system of Model/Pipeline.v; the Go scheduler, io.Pipe and TCP as unconstrained interleaving over bounded FIFO channels; error paths and the race-freedom of concurrent sessions are decided by the harness (deadline oracle, Go race detector), not by a theorem",
                         "Go race detector (go build -race) for the simultaneous-session component"],
        "assumptions": [
            "completion deadline: 120 s per session (30 s for sessions expected to fail); sessions are run in worker processes, a goroutine dump is attached when the deadline passes",
            "simultaneous sessions run real command-line clients in one race-instrumented process against one daemon over TCP; 'the result it would produce alone' = destination tree equal to the source tree",
        ],
        "rule": "library pull and push over transports with capacity {0 (io.Pipe), 1, 19, 65536, unbounded} per direction x writes split into chunks of at most {unsplit, 1, 7, 4096} bytes with random microsecond delays x trees {250 tiny files, one large new file (huge literal), a 16 MiB file already present with five changed bytes (about 4000 block checksums = 80 kB of requests in one message), a mix}; local copies (the implementation's own unbuffered in-process pipes); sessions that must fail (a non-empty directory where a file must go; a wildcard filter rule the sender rejects) over capacities 0, 1, 65536; oracle: completion before the deadline, success and identical content for the sessions that succeed over an unbounded transport. simultaneous sessions: 2..32 pulls, uploads to distinct targets, uploads to one target, mixed, GOMAXPROCS 1/2/4/16, under the race detector; oracle: no race report, every session's result equals the source. quick tier: a third of the capacity grid, 2 and 9 simultaneous sessions",
        "exhaustive": False,
        "label": "partial: deadlock-freedom of the modelled pipeline for every capacity and schedule is a theorem; its fit to the code, the error paths and race-freedom are decided by the harness",
    },
    "C20": {
        "components": ["ssh"],
        "trusted_base": [KERNEL, EXTRACT, HARNESSTB, GEN,
                         "golang.org/x/crypto/ssh (handshake, signature verification, channel and request handling) is used, not modelled; the public-key callback is modelled as list membership on the marshalled key",
                         "the daemon option table's parse (after --daemon has been seen) is a parameter of the model; the correspondence supplies the implementation parser's own Daemon()/Server() verdict for it",
                         "hook verifhook.ServeSSH wires the listener exactly as internal/maincmd's daemon mode and internal/rsynctest do"],
        "assumptions": [
            "what a session ran is classified by the first bytes on the channel: the daemon greeting (@RSYNCD:) = daemon protocol; nothing plus a non-zero exit status or a denied request = refused; anything else is a violation",
            "side-effect canaries: a secret file outside every module must never appear in a channel's output, and no path under the scratch directory may be created by a refused command",
        ],
        "rule": "listeners: anonymous; authorised with an empty file, a comments-and-blank-lines-only file, one key, several keys with comments / blank lines / trailing comments, keys with options; client keys: three ed25519, RSA 2048, ECDSA P-256 and P-384; handshake result per (listener, key) vs model and expectation. anonymous sessions: 40 fixed command lines (daemon protocol in several spellings; plain server mode reading and writing arbitrary paths; client-mode copies; -e / --rsh; rsync:// and host:: specs; shells; --help / --version; --daemon without --server and vice versa; daemon options such as --config / --no-detach / --gokr.listen; unparsable quoting) plus random lines over that vocabulary; shell / subsystem / pty-req / x11 / agent / signal / window-change requests; direct-tcpip / forwarded-tcpip / x11 / unknown channel types. non-trivial = a session that got the daemon protocol",
        "exhaustive": False,
        "label": "full for the gate and key-list logic; the SSH transport itself is trusted",
    },
    "C10": {
        "components": ["genops", "recvmeta", "ssession", "dryrun"],
        "trusted_base": [KERNEL, EXTRACT, HARNESSTB, GEN, MD4NOTE, FSNOTE,
                         "modelled, not verified: the generator's / receiver's file-system calls as an operation list interpreted on a one-path state (Model/GenOps.v); os.Root call semantics, umask, renameio are observed by the correspondence and the end-to-end snapshot oracle"],
        "assumptions": [
            "the harness runs as root (mknod, chown); fresh objects belong to uid/gid 0",
            "wire-byte oracle: in arrangements with an observable byte stream (pull, push, library pull / push) a dry run moves less than a quarter of the source data size, for sources of at least 300 kB of incompressible data; the sender unit oracle is exact (output = echoed input)",
        ],
        "rule": "unit: real recvGenerator+touchUpDirs on one entry {regular, directory, symlink, fifo, socket, char, block} x prior {absent, regular same/different/longer, directory empty/non-empty, symlink, fifo, socket, char, block} x 10 option bits incl. -n, lstat tuple and request kind vs model; real recvFile1 (commit+setPerms) vs model; real SendFiles loop over multi-file sessions, normal and -n, well-formed / truncated / bad index / bad header vs model (byte-exact output) with oracle out = echoed input under -n; end to end: -n sessions over trees with all entry types and every update situation, option subsets incl. --delete, five arrangements, full snapshot (type, content, mode, mtime incl. ns, owner, rdev, inode) before = after, exit success, wire-byte bound. non-trivial = destination differs before/after without -n (unit) / session with at least one pending change",
        "exhaustive": False,
        "label": "full",
    },
    "C11": {
        "components": ["genops", "recvmeta", "meta"],
        "trusted_base": [KERNEL, EXTRACT, HARNESSTB, GEN, FSNOTE,
                         "modelled, not verified: Lstat/Chtimes/Lchown/Chmod/Mkdir/mknodat/bind/rename as operations on a one-path state record (kind, perm, mtime seconds, uid, gid, link target, rdev); uid/gid name mapping (uidlist.go) is exercised end to end only"],
        "assumptions": [
            "the harness runs as root; am_root = true in the model runs (theorems quantify over am_root)",
            "directory modification times are outside the property's statement (regular-file mtime only) and not compared",
            "uid/gid mapping by name: real sender and receiver share one user database in the sandbox (identity on named ids); the mapping itself is exercised by a hand-written sender that lists id 4242 as 'nobody', 4343 as 'nogroup' and other ids with unknown names or not at all; theorems listed_known_name_maps_to_local_id / listed_unknown_name_keeps_the_id / unlisted_id_is_kept are about map_id, which setUid's lookup in Transfer.Users / Groups is modelled by (oracle-checked, no unit correspondence)",
        ],
        "rule": "unit: real recvGenerator+touchUpDirs and recvFile1 on all 512 permission values (sampled), mtimes {0, 1, -1, -86400, pre-1970, 2^31-1, -2^31, > 2^31}, uid/gid {0, 1234, 65534}, link targets incl. non-UTF-8 / absolute / '..', rdev values, every subset of -l -p -t -o -g --devices --specials, vs the model and the property oracle; end to end: trees with every entry type, modes 0000..0777 on files and directories (read-only directories with contents), mtimes across the signed 32-bit range with sub-second parts, uids/gids with and without local names, prior destination per entry {missing, same, same with other metadata, different, wrong type}, option subsets, five arrangements; lstat of every destination entry vs source per option. non-trivial = entry whose prior state differs from the source",
        "exhaustive": False,
        "label": "full for the generator / receiver metadata logic; id-name mapping by end-to-end oracle only",
    },
    "C13": {
        "components": ["filter"],
        "trusted_base": [KERNEL, EXTRACT, HARNESSTB, FSNOTE,
                         "modelled, not verified: fs.WalkDir as a recursive walk; filepath.Base for slash-less patterns"],
        "assumptions": [
            "plain-name rules only; a rule with a trailing slash is matched like the bare name (the implementation does not restrict it to directories) and is excluded from the oracle",
            "wildcard sessions are run in pull/push/local only; an error while the peer is still writing over a zero-capacity pipe belongs to C18",
        ],
        "rule": "unit: random lists of 0..4 rules (exclude / include / unprefixed, names incl. paths with '/', trailing slash, wildcards) x names at several depths through the real parser+matcher vs model and reference semantics; walk: real SendFileList over generated trees with 0..4 rules vs the model's select and the reference; end to end: pull / push / local / library-pull sessions with rules given as --exclude, --include and -f, wildcard rules expected to fail with an error. non-trivial = at least two rules / one rule and more than three entries",
        "exhaustive": False,
        "label": "full for plain-name rules",
    },
    "C12": {
        "components": ["update"],
        "trusted_base": [KERNEL, EXTRACT, HARNESSTB, GEN, MD4NOTE, FSNOTE],
        "assumptions": [
            "a transfer is observed as a change of the destination file's inode (every transfer re-creates the file through a temporary file)",
            "directory mtimes are outside this property",
        ],
        "rule": "the complete decision table {missing, symlink, directory, file with same / larger / smaller size} x {mtime equal, +1 s, -1 s, +0.4 s, +0.9 s, -0.3 s, +1 day} x {content equal, different} x {default, -c, -I, -c -I} x {-t on, off} x {pull, local, push}, embedded in random trees, through real sessions; each cell also evaluated by the model (gen_decision) and by the property's rule; generator block checksums for sizes around the 700-byte and sqrt boundaries vs the model; repeat-sync idempotence on random trees (no inode change, identical file snapshot). non-trivial = every table cell",
        "exhaustive": True,
        "exhaustive_note": "the decision table is enumerated completely in every tier",
        "label": "full",
    },
    "C02": {
        "components": ["sender", "recv"],
        "trusted_base": [KERNEL, EXTRACT, HARNESSTB, GEN, MD4NOTE,
                         "modelled, not verified: reading the source file through the sliding window (fileio.go mapStruct.ptr) is abstracted to slices of the file; Go sort.Slice order among identical blocks is abstracted (references normalised to the least identical block)"],
        "assumptions": [
            "sender_exact assumes the checksum set was computed over the basis with block length >= 1 (legal sums) and the explicit no_collision hypothesis on these strings",
            "harness oracle: independent token application + golang.org/x/crypto/md4 for the trailer",
        ],
        "rule": "sender: all (basis,target) pairs over alphabet {01,ff} up to length 5 (quick) / 6 (thorough) x block length 1..3 x strong length {0,2,16}; random small cases over {00,01,7f,80,ff} with block permutations/duplications/remainder reuse; algebraic weak-checksum collisions; structured large files 0.2-3 MiB (identical, edits, unmatched runs longer than the read window, long tails) at generator and foreign block lengths 700..131072. receiver: all token lists of length 0..3 over a 6-token pool x 6 bases x block length 1..3 x right/wrong trailer, plus random valid/invalid/truncated/flipped streams. non-trivial = stream with at least one literal and one reference (sender) / commit or checksum reject (receiver)",
        "exhaustive": True,
        "exhaustive_note": "the small-alphabet sender pairs and the receiver token-list pool are enumerated completely; large files are sampled",
        "label": "full on the model; window reads (mapStruct) covered by correspondence only",
    },
    "C17": {
        "components": ["mux"],
        "trusted_base": [KERNEL, EXTRACT, HARNESSTB, GEN,
                         "modelled, not verified: Go bufio.Reader.Read and io.ReadFull semantics (Model/Mux.v bufio_read/read_full), validated by the unit correspondence; the client's consumers issue reads through io.ReadFull only (checked by reading the code, exercised end to end)"],
        "assumptions": [
            "server_frames_wellformed assumes payloads within maxMessageSize; the sender's data writes are bounded by chunkSize (theorem over generated constants), file-list entries and id lists are assumed below 256 KiB",
            "end-to-end leg: a real server's stream is re-framed by a proxy and fed to a real client in a subprocess; outcome = exit status + destination tree digest",
        ],
        "rule": "unit: random sequences of 1..12 frames (data 0..40 bytes and, in 2% of the cases, sizes around maxMessageSize and its half; info, error, unknown-tag, over-limit and low-tag frames; truncated streams) read with random request sizes through the real MultiplexReader + bufio.Reader of the source's size (and of sizes 16..300 to exercise the too-small-buffer panic), compared read by read with the model. end-to-end: 9 adversarial re-framings (1-byte, 3-byte mid-integer, 7-byte with info+empty frames, random, maximum-size and half-maximum+1 coalesced, 1000-info burst) and error frames injected at 8 (quick) / 32 (thorough) stages; non-trivial = more than two reads",
        "exhaustive": False,
        "label": "full",
    },
    "C14": {
        "components": ["popt"],
        "trusted_base": [KERNEL, EXTRACT, HARNESSTB, FSNOTE,
                         GEN + " — here: the option table gokrazyTable(), the assignment-only arms of the ParseArguments switch (other arms are fingerprinted and modelled by hand), gokrazyDefaults, the boolean accessors, ServerOptions(), and the two receiver.TransferOpts literals"],
        "assumptions": [
            "the option part of the theorems is a complete enumeration (inside Coq) of 4144 argument vectors: all sub-lists of 12 preserve options and all sub-lists of -c -I -n --delete after three prefixes; other argument vectors are covered by the parser correspondence only",
            "arrangement independence of the destination is decided by the end-to-end oracle, not by a theorem",
            "string-valued options (-e, --rsh) are parsed but their values not tracked by the model",
        ],
        "rule": "parser: every vocabulary token alone / followed by an argument / after --server (quick: ~300 vectors) plus random vectors of 0..6 tokens over 50 plain options, 21 argument-taking forms, 26 odd inputs (exit paths --version/--help/--info=help run in worker subprocesses and observed as process exit), compared with the model on wire view, filter rules, remaining args, ServerOptions in both roles. end to end: a tree with every entry type (files incl. empty/owned/read-only dir, symlinks incl. dangling, fifo, socket, char and block device) over a prior destination, for 8 fixed + 14 singleton + 25 (quick) / 400 (thorough) random option vectors x 5 arrangements; oracle: every arrangement completes and the destinations are identical (type, content, mode, owner, rdev; mtime of regular files under -t). non-trivial = accepted vector of >= 2 tokens",
        "exhaustive": False,
        "label": "full for option transport and field agreement on the enumerated vectors; arrangement independence by oracle",
    },
    "C15": {
        "components": ["flist"],
        "trusted_base": [KERNEL, EXTRACT, HARNESSTB, GEN,
                         "modelled, not verified: Go filepath.Clean (Model/Flist.v path_clean), Go string comparison / sort.Slice (bytewise order, insertion sort in the model, uniqueness of the sorted order proved), os.FileMode -> S_IF* mapping (observed through lstat in the harness)"],
        "assumptions": [
            "flist theorems assume clean names shorter than PATH_MAX, int32/int64 field ranges, and that untransmitted fields carry their zero value (entry_ok)",
            "the daemon / remote-shell handshake strings are covered by the session-level properties (C07/C08/C19 harness legs), not by a theorem here",
            "tridge rsync 3.2.7 is used as an independent protocol-27 sender when the binary is present (skipped and recorded otherwise)",
        ],
        "rule": "decoder: random entry lists (0..8, sometimes 30..230 entries; names with shared prefixes, bytes >= 0x80, 250+200-byte names; lengths 0, 2^31-1, 2^31, 2^40; all types; mtimes at the int32 boundaries; option sets over uid/gid/links/devices/checksum) encoded by an independent reference encoder with random or maximally compressing conforming choices, fed to the real ReceiveFileList and to the model; plus truncated, bit-flipped and hostile-length streams. encoder: real SendFileList over generated trees (regular files, directories, symlinks, fifo, socket, char/block devices, owners 0/65534, sparse files at the 32/64-bit length boundaries) under 9 option sets, compared byte for byte with the model's encoder and decoded by an independent decoder; file numbering compared with the bytewise name order. non-trivial = list of >= 2 entries (decoder) / > 3 entries (encoder)",
        "exhaustive": False,
        "label": "full for file list, id lists, length encoding and numbering; handshake strings by correspondence only",
    },
    "C16": {
        "components": ["edits", "sender"],
        "trusted_base": [KERNEL, EXTRACT, HARNESSTB, GEN, MD4NOTE,
                         "modelled, not verified: window reads (mapStruct.ptr) abstracted to slices; sort order among identical blocks abstracted"],
        "assumptions": [
            "edit_bound (literal <= edited + 2*blen*(e+1)) is NOT a theorem: it is checked by the harness oracle on the real sender only; rolling_invariant, no_false_negative, identical_costs_nothing and sender_total are theorems",
            "high-entropy data: coincidental strong-sum matches do not occur, so the bound has no slack for them",
        ],
        "rule": "edits: high-entropy files 0.1-3 MiB (quick) / up to 33 MiB (thorough), 0..6 insert/delete/replace/prepend/append edits of up to 20000 bytes at arbitrary offsets, identical files, a prepended weak-checksum collision of block 0; generator block length and foreign ones 700..65536; oracle = literal bytes <= edited + 2*blen*(e+1), identical => 0; targets up to 3 MiB are also compared token-for-token with the model. plus the C02 sender correspondence. non-trivial = stream with both literals and references",
        "exhaustive": False,
        "label": "partial: edit_bound not proved (oracle only); the other three headline statements are theorems",
    },
    "C03": {
        "components": ["faults", "recv"],
        "trusted_base": [KERNEL, EXTRACT, HARNESSTB, GEN, MD4NOTE,
                         "renameio / os.Root file-system effects are observed, not modelled, in this property (destination content before/after)"],
        "assumptions": [
            "the only escape is an exhibited collision of the whole-file sum (no_silent_corruption's right disjunct)",
            "bit flips that turn a length field into a value above 2^20 are skipped and counted (declared multi-gigabyte sizes are outside the project's guarantees)",
        ],
        "rule": "honest sender streams (real sender) for 7 session shapes (whole-file new/over unrelated, pure delta identical/permuted, mixed insert/tail, emptied) [+25 random shapes in thorough]; every single-bit flip at every position of the data segment, every substitution of a block reference by another valid one, token drop/duplicate/swap, literal truncation, basis modified after its sums were sent; real receiver against a real directory; non-trivial = fault detected by checksum or committed",
        "exhaustive": True,
        "exhaustive_note": "all single-bit flips of each listed session's data segment are enumerated (minus the counted skips)",
        "label": "full",
    },
    "C19": {
        "components": ["acl"],
        "trusted_base": [KERNEL, EXTRACT, HARNESSTB,
                         "Go net package (SplitHostPort, ParseIP, ParseCIDR, IPNet.Contains) is modelled (Model/Acl.v: To4 normalisation of addresses and networks), validated by the correspondence run, not verified"],
        "assumptions": [
            "string-level glue of checkACL (first-space split, action keyword, 'all', CIDR syntax) is covered by correspondence only; the theorems speak about structured rules",
            "oracle uses net/netip as an independent notion of 'network contains address' (IPv4-mapped networks unmapped)",
        ],
        "rule": "all rule lists of length 0..2 (quick) / 0..3 (thorough) over a pool of 43 rules (allow/deny x all, IPv4 /0 /8 /16 /24 /32 incl. unmasked bases, IPv6 /0 /32 /64 /128, IPv4-mapped /104, 12 malformed shapes) x 54 remote addresses on and around every prefix boundary (plain, IPv4-mapped, unparsable), plus random lists of length 3..7 and real TCP sessions from 127.0.0.1 and ::1; non-trivial = list of >= 2 rules and a parsable address",
        "exhaustive": True,
        "exhaustive_note": "the finite pool part (lists up to the stated length x all pool addresses) is enumerated completely",
        "label": "full on structured rules; string parsing is glue covered by correspondence",
    },
}
