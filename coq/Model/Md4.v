(** MD4 (RFC 1320) over lists of bytes, used to instantiate the strong hash
    when the model is executed; the theorems are parametric in the hash. *)
From Coq Require Import ZArith List Bool.
From RV Require Import Model.Bytes.
Import ListNotations.
Open Scope Z_scope.

Definition M32 : Z := 4294967296.
Definition add32 (a b : Z) : Z := (a + b) mod M32.
Definition not32 (a : Z) : Z := 4294967295 - a.
Definition rotl32 (x : Z) (s : Z) : Z :=
  ((Z.shiftl x s) mod M32) + Z.shiftr x (32 - s).

Definition fF (x y z : Z) := Z.lor (Z.land x y) (Z.land (not32 x) z).
Definition fG (x y z : Z) := Z.lor (Z.lor (Z.land x y) (Z.land x z)) (Z.land y z).
Definition fH (x y z : Z) := Z.lxor (Z.lxor x y) z.

Definition st4 := (Z * Z * Z * Z)%type.

Definition step (f : Z -> Z -> Z -> Z) (cst : Z) (st : st4) (x s : Z) : st4 :=
  let '(a, b, c, d) := st in
  let a' := rotl32 (add32 (add32 (add32 a (f b c d)) x) cst) s in
  (d, a', b, c).

Fixpoint words (l : list Z) : list Z :=
  match l with
  | b0 :: b1 :: b2 :: b3 :: r => u32_of4 b0 b1 b2 b3 :: words r
  | _ => []
  end.

Definition nthw (X : list Z) (k : nat) : Z := nth k X 0.

Fixpoint run_round (f : Z -> Z -> Z -> Z) (cst : Z) (X : list Z)
         (order : list nat) (shifts : list Z) (all_shifts : list Z) (st : st4) : st4 :=
  match order with
  | [] => st
  | k :: order' =>
      match shifts with
      | s :: shifts' => run_round f cst X order' shifts' all_shifts (step f cst st (nthw X k) s)
      | [] => match all_shifts with
              | s :: shifts' => run_round f cst X order' shifts' all_shifts (step f cst st (nthw X k) s)
              | [] => st
              end
      end
  end.

Definition order1 : list nat := [0;1;2;3;4;5;6;7;8;9;10;11;12;13;14;15]%nat.
Definition order2 : list nat := [0;4;8;12;1;5;9;13;2;6;10;14;3;7;11;15]%nat.
Definition order3 : list nat := [0;8;4;12;2;10;6;14;1;9;5;13;3;11;7;15]%nat.

Definition block (st : st4) (blk : list Z) : st4 :=
  let X := words blk in
  let '(a0, b0, c0, d0) := st in
  let s1 := run_round fF 0 X order1 [] [3;7;11;19] st in
  let s2 := run_round fG 1518500249 X order2 [] [3;5;9;13] s1 in
  let '(a, b, c, d) := run_round fH 1859775393 X order3 [] [3;9;11;15] s2 in
  (add32 a0 a, add32 b0 b, add32 c0 c, add32 d0 d).

Fixpoint blocks (fuel : nat) (st : st4) (l : list Z) : st4 :=
  match fuel with
  | O => st
  | S fuel' =>
      match l with
      | [] => st
      | _ => blocks fuel' (block st (firstn 64 l)) (skipn 64 l)
      end
  end.

Definition pad (msg : list Z) : list Z :=
  let n := Z.of_nat (length msg) in
  let zeros := Z.to_nat ((55 - n) mod 64) in
  msg ++ [128] ++ repeat 0 zeros ++ le64 (8 * n).

Definition md4 (msg : list Z) : list Z :=
  let p := pad msg in
  let '(a, b, c, d) := blocks (S (length p / 64)) (1732584193, 4023233417, 2562383102, 271733878) p in
  le32 a ++ le32 b ++ le32 c ++ le32 d.
