(** Bytes, little-endian wire integers (internal/rsyncwire/wire.go). *)
From Coq Require Import ZArith List Bool.
Import ListNotations.
Open Scope Z_scope.

Definition byte := Z.
Definition is_byte (b : Z) : bool := (0 <=? b) && (b <? 256).
Definition bytesb (l : list Z) : bool := forallb is_byte l.

Definition le32 (v : Z) : list Z :=
  [v mod 256; (v / 256) mod 256; (v / 65536) mod 256; (v / 16777216) mod 256].

Definition le64 (v : Z) : list Z :=
  le32 (v mod 4294967296) ++ le32 ((v / 4294967296) mod 4294967296).

Definition u32_of4 (b0 b1 b2 b3 : Z) : Z := b0 + 256 * b1 + 65536 * b2 + 16777216 * b3.

(** int32(binary.LittleEndian.Uint32(buf)) *)
Definition s32 (u : Z) : Z := if u <? 2147483648 then u else u - 4294967296.
Definition s64 (u : Z) : Z := if u <? 9223372036854775808 then u else u - 18446744073709551616.

Definition rd32 (s : list Z) : option (Z * list Z) :=
  match s with
  | b0 :: b1 :: b2 :: b3 :: r => Some (s32 (u32_of4 b0 b1 b2 b3), r)
  | _ => None
  end.

Definition rdu32 (s : list Z) : option (Z * list Z) :=
  match s with
  | b0 :: b1 :: b2 :: b3 :: r => Some (u32_of4 b0 b1 b2 b3, r)
  | _ => None
  end.

(** Conn.WriteInt64 / ReadInt64: 4 bytes when 0 <= v <= 2^31-1, else
    int32(-1) followed by the 8-byte value. *)
Definition enc_i64 (v : Z) : list Z :=
  if (0 <=? v) && (v <=? 2147483647) then le32 v else le32 (-1) ++ le64 v.

Definition rd_i64 (s : list Z) : option (Z * list Z) :=
  match rd32 s with
  | None => None
  | Some (v, r) =>
      if v =? -1 then
        match rdu32 r with
        | None => None
        | Some (lo, r1) =>
            match rdu32 r1 with
            | None => None
            | Some (hi, r2) => Some (s64 (lo + 4294967296 * hi), r2)
            end
        end
      else Some (v, r)
  end.

(** Z-indexed list slicing: the executable model never builds unary numbers
    of data-dependent size.  Proofs/BytesProofs.v relates them to
    firstn/skipn/length. *)
Fixpoint takeZ (n : Z) (l : list Z) : list Z :=
  match l with
  | [] => []
  | x :: r => if n <=? 0 then [] else x :: takeZ (n - 1) r
  end.
Fixpoint dropZ (n : Z) (l : list Z) : list Z :=
  match l with
  | [] => []
  | x :: r => if n <=? 0 then l else dropZ (n - 1) r
  end.
Fixpoint lenZ_acc (l : list Z) (acc : Z) : Z :=
  match l with [] => acc | _ :: r => lenZ_acc r (acc + 1) end.
Definition lenZ (l : list Z) : Z := lenZ_acc l 0.

(** Splitting off [n] bytes (io.ReadFull): [None] on a short stream. *)
Definition take (n : Z) (s : list Z) : option (list Z * list Z) :=
  if (0 <=? n) && (n <=? lenZ s) then Some (takeZ n s, dropZ n s) else None.

Fixpoint list_eqb (a b : list Z) : bool :=
  match a, b with
  | [], [] => true
  | x :: a', y :: b' => (x =? y) && list_eqb a' b'
  | _, _ => false
  end.
