(** The sender's per-file transmission: internal/sender/sender.go (SendFiles
    body, receiveSums' block lengths, sendFile), match.go (hashSearch,
    matched), token.go (simpleSendToken).

    The file is a list of bytes; the search carries *cursors* (suffixes of the
    file at the current offset, at offset+k and at lastMatch) next to the
    numeric offsets so that the extracted code is linear in the file size.
    Reading through the sliding window (fileio.go) is modelled separately in
    Model/MapWindow.v and shown to return these very slices. *)
From Coq Require Import ZArith List Bool FMapPositive.
From RV Require Import Model.Bytes Model.Checksum Model.Delta Gen.Consts.
Import ListNotations.
Open Scope Z_scope.

(** One received block checksum: (sum1 as uint32, sum2 truncated to slen). *)
Definition sumbuf := (Z * list Z)%type.

(** Candidate entry kept in the tag table: (block index, sum1, sum2). *)
Definition cand := (Z * Z * list Z)%type.
Definition tagtable := PositiveMap.t (list cand).

Definition tagkey (t : Z) : positive := Z.to_pos (t + 1).

Definition tt_find (tt : tagtable) (t : Z) : list cand :=
  match PositiveMap.find (tagkey t) tt with Some l => l | None => [] end.

(** build_hash_table: blocks grouped by the 16-bit tag of sum1.  Within a tag
    the model keeps ascending block order (Go's sort.Slice is unstable; which
    of several *identical* candidates is chosen is not an observable). *)
Fixpoint tt_build (sums : list sumbuf) (i : Z) (tt : tagtable) : tagtable :=
  match sums with
  | [] => tt
  | (s1, s2) :: r =>
      let tt' := tt_build r (i + 1) tt in
      PositiveMap.add (tagkey (tag s1)) ((i, s1, s2) :: tt_find tt' (tag s1)) tt'
  end.

Inductive crash_site := CrashUpdate0 | CrashUpdateK.

Inductive sender_result :=
| SOk (h : sum_head) (toks : list token) (trailer : list Z)
| SCrash (site : crash_site)
| SFuel.

(** simpleSendToken's literal part: [n] bytes from the cursor in chunks of at
    most [chunk] bytes (tokens accumulated in reverse). *)
Fixpoint lit_chunks (fuel : nat) (chunk : Z) (l : list Z) (racc : list token) : list token :=
  match fuel with
  | O => racc
  | S f => match l with
           | [] => racc
           | _ => lit_chunks f chunk (dropZ chunk l) (Lit (takeZ chunk l) :: racc)
           end
  end.

Section Sender.
  Variable H : list Z -> list Z.
  Variable seed : Z.
  Variable chunk : Z.          (* chunkSize *)

  Definition emit_lit (n : Z) (lmc : list Z) (rtoks : list token) : list token :=
    let bs := takeZ n lmc in
    lit_chunks (length bs) chunk bs rtoks.

  Section Search.
    Variable h : sum_head.
    Variable tt : tagtable.
    Variable size : Z.
    Variable end_ : Z.

    (** The inner loop over the candidates with the current tag
        (match.go:108-169).  The strong sum of the window is computed at most
        once, and only once a candidate passed the weak-sum and length tests. *)
    Fixpoint scan (cs : list cand) (sum l : Z) (cur : list Z) (cache : option (list Z)) : option Z :=
      match cs with
      | [] => None
      | (i, s1i, s2i) :: r =>
          if (sum =? s1i) && (l =? block_len h i) then
            let str := match cache with
                       | Some s => s
                       | None => takeZ (h_slen h) (checksum2 H seed (takeZ l cur))
                       end in
            if list_eqb str s2i then Some i else scan r sum l cur (Some str)
          else scan r sum l cur cache
      end.

    (** readChunk: k and the two 16-bit halves of Checksum1 at the cursor. *)
    Definition read_chunk (off : Z) (cur : list Z) : Z * Z * Z :=
      let k := Z.min (h_blen h) (size - off) in
      let sum := checksum1 (takeZ k cur) in
      (k, sum_lo sum, sum_hi sum).

    (** State at the top of the Outer loop of hashSearch. *)
    Record sstate := mkS {
      st_off : Z; st_k : Z; st_s1 : Z; st_s2 : Z; st_lastm : Z;
      st_cur : list Z;      (* file from offset *)
      st_ahead : list Z;    (* file from offset + k *)
      st_lmc : list Z;      (* file from lastMatch *)
      st_rtoks : list token (* tokens emitted so far, newest first *)
    }.

    Inductive step_result :=
    | Done (lastm : Z) (lmc : list Z) (rtoks : list token)
    | Next (st : sstate)
    | Crashed (c : crash_site).

    (** One run of the Outer loop body (match.go:95-209). *)
    Definition body (st : sstate) : step_result :=
      let off := st_off st in let k := st_k st in
      let s1 := st_s1 st in let s2 := st_s2 st in let lastm := st_lastm st in
      let cur := st_cur st in let ahead := st_ahead st in
      let lmc := st_lmc st in let rtoks := st_rtoks st in
      let sum := (s1 mod 65536) + (s2 mod 65536) * 65536 in
      let l := Z.min (h_blen h) (size - off) in
      let m := scan (tt_find tt (tag2 s1 s2)) sum l cur None in
      (* state after the optional match *)
      let '(matched, off1, k1, s11, s21, lastm1, cur1, ahead1, lmc1, rtoks1) :=
        match m with
        | Some i =>
            let n := off - lastm in
            let len := block_len h i in
            let rt := Ref i :: emit_lit n lmc rtoks in
            let lmc' := dropZ (n + len) lmc in
            let off' := off + len - 1 in
            let cur' := dropZ (len - 1) cur in
            let '(k', a, b) := read_chunk off' cur' in
            (true, off', k', a, b, off + len, cur', dropZ k' cur', lmc', rt)
        | None => (false, off, k, s1, s2, lastm, cur, ahead, lmc, rtoks)
        end in
      if matched && (end_ <=? off1) then Done lastm1 lmc1 rtoks1 else
      (* rolling update *)
      let backup := Z.max (off1 - lastm1) 0 in
      let more := off1 + k1 <? size in
      match cur1 with
      | [] => Crashed CrashUpdate0
      | u0 :: cur2 =>
        let r :=
          if more then
            match ahead1 with
            | [] => inr CrashUpdateK
            | uk :: ahead2 =>
                let a := s11 - se u0 + se uk in
                inl (k1, a mod 65536, (s21 - k1 * se u0 + a) mod 65536, ahead2)
            end
          else inl (k1 - 1, (s11 - se u0) mod 65536, (s21 - k1 * se u0) mod 65536, ahead1) in
        match r with
        | inr c => Crashed c
        | inl (k2, s12, s22, ahead2) =>
          (* flush of a long unmatched run (token -2) *)
          let '(lastm2, lmc2, rtoks2) :=
            if (h_blen h + chunk <=? backup) && (chunk <? end_ - off1) then
              let n := (off1 - h_blen h) - lastm1 in
              (off1 - h_blen h, dropZ n lmc1, emit_lit n lmc1 rtoks1)
            else (lastm1, lmc1, rtoks1) in
          let off2 := off1 + 1 in
          if end_ <=? off2 then Done lastm2 lmc2 rtoks2
          else Next (mkS off2 k2 s12 s22 lastm2 cur2 ahead2 lmc2 rtoks2)
        end
      end.

    Fixpoint search (fuel : nat) (st : sstate) : option (Z * list Z * list token) + crash_site :=
      match fuel with
      | O => inl None
      | S fuel' =>
          match body st with
          | Done lastm lmc rtoks => inl (Some (lastm, lmc, rtoks))
          | Crashed c => inr c
          | Next st' => search fuel' st'
          end
      end.
  End Search.

  (** sendFile: the whole file as literal chunks, header from SumSizesSqroot. *)
  Definition send_whole (target : list Z) : sender_result :=
    let size := lenZ target in
    SOk (sum_sizes_sqroot size)
        (rev (lit_chunks (length target) chunk target []))
        (filesum H seed target).

  (** The body of SendFiles for one requested file, after receiveSums. *)
  Definition send_one (h : sum_head) (sums : list sumbuf) (target : list Z) : sender_result :=
    let size := lenZ target in
    match sums with
    | [] => send_whole target
    | _ =>
      if size =? 0 then send_whole target else
      let tt := tt_build sums 0 (PositiveMap.empty _) in
      let lastlen := block_len h (h_count h - 1) in
      let end_ := size + 1 - lastlen in
      let '(k, a, b) := read_chunk h size 0 target in
      match search h tt size end_ (S (length target))
                   (mkS 0 k a b 0 target (dropZ k target) target []) with
      | inr c => SCrash c
      | inl None => SFuel
      | inl (Some (lastm, lmc, rtoks)) =>
          (* matched(size, -1): the remaining literal; the end marker 0 is
             written by the encoder *)
          SOk h (rev (emit_lit (size - lastm) lmc rtoks)) (filesum H seed target)
      end
    end.
End Sender.

(** Wire form of one file's transmission after the echoed index. *)
Definition enc_file (h : sum_head) (toks : list token) (trailer : list Z) : list Z :=
  enc_head h ++ enc_tokens toks ++ le32 0 ++ trailer.
