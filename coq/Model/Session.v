(** The sender's request loop (internal/sender/sender.go SendFiles with
    receiveSums) at byte level: what it reads from the receiving side and
    what it writes back, over a whole session with many files, in normal and
    in dry-run mode. *)
From Coq Require Import ZArith List Bool.
From RV Require Import Model.Bytes Model.Checksum Model.Delta Model.Sender Gen.Consts.
Import ListNotations.
Open Scope Z_scope.

Inductive sess_err := SeShort | SeIndex | SeHead | SeCrash | SeFuel.
Inductive sess_result :=
| SessDone (out : list Z) (rest : list Z)
| SessErr (out : list Z) (e : sess_err).

(** receiveSums after the header: [cnt] (sum1, sum2[:slen]) pairs. Fuel is
    the stream length (each pair takes at least four bytes). *)
Fixpoint read_sums (fuel : nat) (cnt slen : Z) (s : list Z) : option (list sumbuf * list Z) :=
  if cnt <=? 0 then Some ([], s) else
  match fuel with
  | O => None
  | S f =>
      match rd32 s with
      | None => None
      | Some (s1, r) =>
          if lenZ r <? slen then None else
          match read_sums f (cnt - 1) slen (dropZ slen r) with
          | None => None
          | Some (l, r') => Some ((s1 mod 4294967296, takeZ slen r) :: l, r')
          end
      end
  end.

Section SSession.
  Variable H : list Z -> list Z.
  Variable seed chunk : Z.

  (** one iteration = one int32 read from the peer *)
  Fixpoint sender_session (fuel : nat) (dry : bool) (files : list (list Z)) (phase : Z)
           (s out : list Z) : sess_result :=
    match fuel with
    | O => SessErr out SeFuel
    | S f =>
        match rd32 s with
        | None => SessErr out SeShort
        | Some (idx, r) =>
            if idx =? -1 then
              if phase =? 0 then sender_session f dry files 1 r (out ++ le32 (-1))
              else SessDone (out ++ le32 (-1)) r
            else if dry then sender_session f dry files phase r (out ++ le32 idx)
            else if (idx <? 0) || (Z.of_nat (length files) <=? idx) then SessErr out SeIndex
            else
              match read_head r with
              | HeadShort => SessErr out SeShort
              | HeadInvalid => SessErr out SeHead
              | HeadOk h r1 =>
                  if (0 <? h_count h) && (h_blen h =? 0) then SessErr out SeHead else
                  match read_sums (length r1) (h_count h) (h_slen h) r1 with
                  | None => SessErr out SeShort
                  | Some (sums, r2) =>
                      match send_one H seed chunk h sums (nth (Z.to_nat idx) files []) with
                      | SOk h' toks tr =>
                          sender_session f dry files phase r2 (out ++ le32 idx ++ enc_file h' toks tr)
                      | SCrash _ => SessErr out SeCrash
                      | SFuel => SessErr out SeFuel
                      end
                  end
              end
        end
    end.

  Definition run_sender_session (dry : bool) (files : list (list Z)) (s : list Z) : sess_result :=
    sender_session (S (length s)) dry files 0 s [].
End SSession.

(** what a dry-run sender echoes: every int32 up to and including the second -1 *)
Fixpoint echo (fuel : nat) (phase : Z) (s : list Z) : option (list Z) :=
  match fuel with
  | O => None
  | S f =>
      match rd32 s with
      | None => None
      | Some (v, r) =>
          if v =? -1 then
            if phase =? 0 then option_map (app (le32 (-1))) (echo f 1 r) else Some (le32 (-1))
          else option_map (app (le32 v)) (echo f phase r)
      end
  end.
