(** Model of rsyncd.checkACL (rsyncd/rsyncd.go:140-185) over structured rules.

    The string-level glue (net.SplitHostPort, net.ParseIP, strings.Index,
    net.ParseCIDR) is covered by the correspondence harness, which renders
    structured rules and addresses to the strings the Go code parses. *)
From Coq Require Import ZArith List Bool.
Import ListNotations.
Open Scope Z_scope.

(** A remote address after Go's [IP.To4] normalisation inside
    [IPNet.Contains]: IPv4 and IPv4-mapped IPv6 addresses are [V4]. *)
Inductive addr := V4 (a : Z) | V6 (a : Z).

(** Result of [net.ParseCIDR]: the family is decided by the *syntax* of the
    rule (a rule written with ':' is a 16-byte network even if it is
    IPv4-mapped), [base] is the masked network address. *)
Inductive who :=
| WAll
| WNet4 (base : Z) (plen : Z)
| WNet6 (base : Z) (plen : Z).

Inductive action := Allow | Deny.

Inductive rule :=
| Rule (act : action) (w : who)
| Malformed.   (* no space / action not allow|deny / who neither all nor CIDR *)

Definition in_prefix (width base plen a : Z) : bool :=
  Z.eqb (Z.shiftr a (width - plen)) (Z.shiftr base (width - plen)).

(** [net.networkNumberAndMask] applies [To4] to the network as well: a
    network written in IPv6 syntax whose masked base is IPv4-mapped
    (::ffff:a.b.c.d/p with p >= 96) is the IPv4 network a.b.c.d/(p-96). *)
Definition v4mapped_prefix : Z := 65535.   (* 0xffff, bits 32..47 *)
Definition norm_who (w : who) : who :=
  match w with
  | WNet6 b p =>
      if andb (Z.leb 96 p) (Z.eqb (Z.shiftr b 32) v4mapped_prefix)
      then WNet4 (Z.land b 4294967295) (p - 96) else w
  | _ => w
  end.

(** [IPNet.Contains]: family mismatch is [false]. *)
Definition matches (w : who) (a : addr) : bool :=
  match norm_who w, a with
  | WAll, _ => true
  | WNet4 b p, V4 x => in_prefix 32 b p x
  | WNet6 b p, V6 x => in_prefix 128 b p x
  | _, _ => false
  end.

Inductive verdict := Granted | Denied | DeniedMalformed | DeniedBadAddr.

Fixpoint eval_rules (rs : list rule) (a : addr) : verdict :=
  match rs with
  | [] => Granted
  | Malformed :: _ => DeniedMalformed
  | Rule act w :: rs' =>
      if matches w a then
        match act with Allow => Granted | Deny => Denied end
      else eval_rules rs' a
  end.

(** [remote = None] models a connection name that is not host:port
    (e.g. "<remote-shell-daemon>"): the empty list still grants. *)
Definition check_acl (rs : list rule) (remote : option addr) : verdict :=
  match rs with
  | [] => Granted
  | _ => match remote with
         | None => DeniedBadAddr
         | Some a => eval_rules rs a
         end
  end.

(** Daemon stage around the check (rsyncd.go:221-232): what is written
    after the greeting, and whether the session continues. *)
Inductive acl_reply := ReplyOk | ReplyError.
Definition acl_stage (rs : list rule) (remote : option addr) : acl_reply * bool :=
  match check_acl rs remote with
  | Granted => (ReplyOk, true)
  | _ => (ReplyError, false)
  end.
