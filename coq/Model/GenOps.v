(** The generator's file-system effects per file-list entry
    (internal/receiver/generator.go recvGenerator, setPerms, touchUpDirs;
    generatoruid.go setUid; generatormknod_linux.go createDevice) and the
    receiver's commit sequence (receiver.go recvFile1/receiveData,
    receiverrenameio.go), as data: lists of operations on destination paths.
    Every operation is issued through the destination root (see
    Gen/FsSites.v for the source-level inventory). *)
From Coq Require Import ZArith List Bool.
From RV Require Import Model.Bytes Model.Checksum Model.Flist Model.Generator Gen.Consts.
Import ListNotations.
Open Scope Z_scope.

Inductive fsop :=
| OpRemove (p : list Z)
| OpMkdirAll (p : list Z) (perm : Z)
| OpSymlink (target : list Z) (p : list Z)          (* atomic: temp symlink + rename *)
| OpMknod (p : list Z) (ftype perm rdev : Z)         (* mknodat / mkfifoat / bind relative to the parent dir fd *)
| OpChtimes (p : list Z) (mtime : Z)
| OpLchown (p : list Z) (uid gid : Z)
| OpChmod (p : list Z) (perm : Z)
| OpCreateTemp (p : list Z)                          (* renameio pending file next to p *)
| OpCommitTemp (p : list Z) (content : list Z)       (* CloseAtomicallyReplace: rename temp over p *)
| OpCleanupTemp (p : list Z).                        (* deferred Cleanup: remove the temp file if still there *)

Record gopts := mkG {
  g_dry : bool; g_links : bool; g_devices : bool; g_specials : bool;
  g_perms : bool; g_times : bool; g_uid : bool; g_gid : bool;
  g_am_root : bool;
  g_umask : Z                 (* process umask: applies to mkdir and mknod, not to chmod *)
}.

(** Lstat of the destination path *)
Inductive lkind := KDir | KReg | KLnk | KOther (ftype : Z).
Record lstat := mkL { l_kind : lkind; l_perm : Z; l_mtime : Z; l_uid : Z; l_gid : Z; l_link : list Z;
                       l_rdev : Z; l_nonempty : bool (* a directory with entries: unlink fails *) }.

Definition perm_of (mode : Z) : Z := Z.land mode 511.    (* os.ModePerm = 0777 *)

(** setUid: chown when preserving and different (uid needs root; gid root or membership, modelled as root) *)
Definition set_uid_ops (o : gopts) (e : fentry) (st : lstat) : list fsop :=
  let change_uid := g_uid o && g_am_root o && negb (l_uid st =? e_uid e) in
  let change_gid := g_gid o && g_am_root o && negb (l_gid st =? e_gid e) in
  if change_uid || change_gid then
    [OpLchown (e_name e) (if change_uid then e_uid e else l_uid st) (if change_gid then e_gid e else l_gid st)]
  else [].

(** setPerms(f, mode) given the current Lstat [st] of the path *)
Definition set_perms_ops (o : gopts) (e : fentry) (mode : Z) (st : lstat) : list fsop :=
  if g_dry o then [] else
  let is_lnk := ftype mode =? c_S_IFLNK in
  (if g_times o && negb is_lnk && negb (l_mtime st =? e_mtime e) then [OpChtimes (e_name e) (e_mtime e)] else []) ++
  set_uid_ops o e st ++
  (if negb is_lnk && negb (l_perm st =? perm_of mode) then [OpChmod (e_name e) (perm_of mode)] else []).

Inductive gen_request := ReqNone | ReqFull | ReqDelta | ReqError.

(** a freshly created object: owner = the process (root in the model when
    am_root), mode as created, mtime "now" (never equal to a listed mtime in
    the model: represented by a value the caller supplies) *)
Definition fresh (k : lkind) (perm now : Z) : lstat := mkL k perm now 0 0 [] 0 false.
Definition masked (o : gopts) (perm : Z) : Z := Z.land perm (Z.lnot (g_umask o)).
Definition removable (s : lstat) : bool := negb (l_nonempty s).

(** recvGenerator for one entry; [dst] = Lstat result (None = does not
    exist), [skip] = the update rule's verdict for an existing regular file,
    [now] = the clock. Returns the operations and what is requested;
    [ReqError] = the session fails at this entry (after the listed
    operations were carried out). *)
(** sameDevice: same type and, for devices, the same device numbers *)
Definition same_device (e : fentry) (s : lstat) : bool :=
  match l_kind s with
  | KOther t => (t =? ftype (e_mode e)) && (negb (is_dev (e_mode e)) || (l_rdev s =? e_rdev e))
  | _ => false
  end.

Definition new_symlink (o : gopts) (e : fentry) (now : Z) : list fsop * gen_request :=
  ([OpSymlink (e_link e) (e_name e)] ++ set_perms_ops o e (e_mode e) (mkL KLnk 511 now 0 0 (e_link e) 0 false), ReqNone).

Definition gen_entry (o : gopts) (e : fentry) (dst : option lstat) (skip : bool) (now : Z)
  : list fsop * gen_request :=
  let mode := e_mode e in
  if is_dir mode then
    if g_dry o then ([], ReqNone) else
    (* a directory without owner write permission is created writable and touched up later *)
    let mode' := if Z.land mode 128 =? 0 then Z.lor mode 128 else mode in
    let mk := [OpMkdirAll (e_name e) (masked o (perm_of mode))] in
    let st' := fresh KDir (masked o (perm_of mode)) now in
    match dst with
    | Some s => match l_kind s with
                | KDir => (set_perms_ops o e mode' s, ReqNone)
                | _ => (OpRemove (e_name e) :: mk ++ set_perms_ops o e mode' st', ReqNone)
                end
    | None => (mk ++ set_perms_ops o e mode' st', ReqNone)
    end
  else if g_links o && is_link mode then
    if g_dry o then ([], ReqNone) else
    match dst with
    | Some s =>
        match l_kind s with
        | KLnk => if list_eqb (l_link s) (e_link e) then (set_perms_ops o e mode s, ReqNone)
                  else new_symlink o e now
        | KDir => ([], ReqError)               (* rename(2) of a symlink over a directory fails *)
        | _ => new_symlink o e now
        end
    | None => new_symlink o e now
    end
  else if (g_devices o && is_dev mode) || (g_specials o && is_special mode) then
    if g_dry o then ([], ReqNone) else
    let mk := [OpMknod (e_name e) (ftype mode)
                       (masked o (if ftype mode =? c_S_IFSOCK then 511 else perm_of mode))   (* bind(2) takes no mode *)
                       (e_rdev e)] in
    let st' := mkL (KOther (ftype mode)) (masked o (if ftype mode =? c_S_IFSOCK then 511 else perm_of mode))
                   now 0 0 [] (if is_dev mode then e_rdev e else 0) false in
    match dst with
    | None => (mk ++ set_perms_ops o e mode st', ReqNone)
    | Some s =>
        if same_device e s then (set_perms_ops o e mode s, ReqNone)
        else if removable s then (OpRemove (e_name e) :: mk ++ set_perms_ops o e mode st', ReqNone)
        else ([], ReqError)
    end
  else if negb (is_reg mode) then ([], ReqNone)
  else
    match dst with
    | None => ([], ReqFull)
    | Some s =>
        match l_kind s with
        | KReg =>
            if skip then
              (* without -p an up-to-date file keeps its own permissions *)
              let m := if g_perms o then mode else Z.lor (Z.land mode (Z.lnot 511)) (l_perm s) in
              (set_perms_ops o e m s, ReqNone)
            else ([], ReqDelta)
        | _ => if g_dry o then ([], ReqFull)
               else if removable s then ([OpRemove (e_name e)], ReqFull) else ([], ReqError)
        end
    end.

(** the dir branch's unlink can fail as well *)
Definition gen_entry' (o : gopts) (e : fentry) (dst : option lstat) (skip : bool) (now : Z)
  : list fsop * gen_request :=
  match dst with
  | Some s => if is_dir (e_mode e) && negb (g_dry o) && negb (removable s)
                 && match l_kind s with KDir => false | _ => true end
              then ([], ReqError) else gen_entry o e dst skip now
  | None => gen_entry o e dst skip now
  end.

(** touchUpDirs: directories lacking owner write get their final mode *)
Definition touch_up_ops (o : gopts) (e : fentry) (st : lstat) : list fsop :=
  if negb (is_dir (e_mode e)) || g_dry o || negb (Z.land (e_mode e) 128 =? 0) then []
  else set_perms_ops o e (e_mode e) st.

(** recvFile1 + receiveData for one requested file: [verified] = the
    whole-file checksum matched; [old_perm] = permissions of an existing
    regular destination file (openLocalFile), used when -p is off *)
Definition recv_ops (o : gopts) (e : fentry) (content : list Z) (verified : bool)
           (old_perm : option Z) (now : Z) : list fsop :=
  if g_dry o then [] else
  let mode := match old_perm with
              | Some p => if g_perms o then e_mode e else p
              | None => e_mode e
              end in
  [OpCreateTemp (e_name e)] ++
  (if verified
   then [OpCommitTemp (e_name e) content] ++ set_perms_ops o e mode (fresh KReg 384 now)   (* temp files are created 0600 *)
   else []) ++
  [OpCleanupTemp (e_name e)].

(** ** a one-path file-system state and the interpretation of operations *)
Inductive pstate :=
| PAbsent
| PNode (st : lstat) (content : list Z).

Definition apply_op (p : list Z) (now : Z) (s : pstate) (op : fsop) : pstate :=
  let same q := list_eqb q p in
  match op with
  | OpRemove q => if same q then PAbsent else s
  | OpMkdirAll q perm => if same q then match s with PAbsent => PNode (fresh KDir perm now) [] | _ => s end else s
  | OpSymlink tgt q => if same q then PNode (mkL KLnk 511 now 0 0 tgt 0 false) [] else s
  | OpMknod q t perm rdev => if same q then match s with PAbsent => PNode (mkL (KOther t) perm now 0 0 [] (if is_dev t then rdev else 0) false) [] | _ => s end else s
  | OpChtimes q mt => if same q then match s with PNode st c => PNode (mkL (l_kind st) (l_perm st) mt (l_uid st) (l_gid st) (l_link st) (l_rdev st) (l_nonempty st)) c | _ => s end else s
  | OpLchown q u g => if same q then match s with PNode st c => PNode (mkL (l_kind st) (l_perm st) (l_mtime st) u g (l_link st) (l_rdev st) (l_nonempty st)) c | _ => s end else s
  | OpChmod q pm => if same q then match s with PNode st c => PNode (mkL (l_kind st) pm (l_mtime st) (l_uid st) (l_gid st) (l_link st) (l_rdev st) (l_nonempty st)) c | _ => s end else s
  | OpCreateTemp _ => s                      (* a separately named file *)
  | OpCommitTemp q content => if same q then PNode (fresh KReg 384 now) content else s
  | OpCleanupTemp _ => s
  end.

Definition run_ops (p : list Z) (now : Z) (s : pstate) (ops : list fsop) : pstate :=
  fold_left (apply_op p now) ops s.

(** the path an operation acts on *)
Definition op_path (op : fsop) : list Z :=
  match op with
  | OpRemove p | OpMkdirAll p _ | OpSymlink _ p | OpMknod p _ _ _ | OpChtimes p _
  | OpLchown p _ _ | OpChmod p _ | OpCreateTemp p | OpCommitTemp p _ | OpCleanupTemp p => p
  end.

(** ** one entry against one destination path, end to end *)
Section Entry.
  Variable Hplain : list Z -> list Z.

  Definition lstat_of (s : pstate) : option lstat :=
    match s with PAbsent => None | PNode st _ => Some st end.

  Definition skip_of (ac it : bool) (e : fentry) (s : pstate) : bool :=
    match s with
    | PNode st c => match l_kind st with
                    | KReg => skip_file Hplain ac it (lenZ c) (l_mtime st) c (e_len e) (e_mtime e) (e_csum e)
                    | _ => false
                    end
    | PAbsent => false
    end.

  (** generator pass then (for directories) the touch-up pass *)
  Definition entry_step (o : gopts) (ac it : bool) (e : fentry) (now : Z) (s : pstate)
    : pstate * gen_request :=
    let '(ops, rq) := gen_entry' o e (lstat_of s) (skip_of ac it e s) now in
    let s1 := run_ops (e_name e) now s ops in
    match rq with
    | ReqError => (s1, rq)
    | _ => match s1 with
           | PNode st _ => (run_ops (e_name e) now s1 (touch_up_ops o e st), rq)
           | PAbsent => (s1, rq)
           end
    end.
End Entry.

(** ** what the generator writes to the sender for one entry *)
Section Wire.
  Variable H : list Z -> list Z.
  Variable seed : Z.

  Definition gen_wire (o : gopts) (idx : Z) (rq : gen_request) (s : pstate) : list Z :=
    match rq with
    | ReqNone | ReqError => []
    | ReqFull => le32 idx ++ (if g_dry o then [] else enc_head (mkHead 0 0 0 0))
    | ReqDelta =>
        le32 idx ++
        (if g_dry o then [] else
           match s with
           | PNode _ c => let '(h, sums) := gen_sums H seed c in enc_sums h sums
           | PAbsent => []
           end)
    end.
End Wire.

(** ** a whole receiving session as the list of its file-system operations.
    Each entry comes with whatever Lstat / the update rule / the checksum
    verification yield at that moment (all universally quantified in the
    theorems). *)
Record work := mkW {
  w_entry : fentry; w_dst : option lstat; w_skip : bool;
  w_content : list Z; w_verified : bool; w_oldperm : option Z; w_after : lstat
}.

Definition entry_ops (o : gopts) (now : Z) (w : work) : list fsop :=
  let '(ops, rq) := gen_entry' o (w_entry w) (w_dst w) (w_skip w) now in
  ops ++ match rq with
         | ReqFull | ReqDelta => recv_ops o (w_entry w) (w_content w) (w_verified w) (w_oldperm w) now
         | _ => []
         end.

Definition receiver_session_ops (o : gopts) (now : Z) (ws : list work) : list fsop :=
  flat_map (entry_ops o now) ws ++ flat_map (fun w => touch_up_ops o (w_entry w) (w_after w)) ws.

(** ** owner and group by name (internal/receiver/uidlist.go RecvIdList,
    generatoruid.go setUid): the sender lists (id, name) pairs for the ids it
    used; an id whose name exists locally is replaced by the local id of that
    name, every other id is used as it is. *)
Definition id_map := list (Z * Z).

Fixpoint map_id (m : id_map) (id : Z) : Z :=
  match m with
  | [] => id
  | (k, v) :: r => if k =? id then v else map_id r id
  end.

Section IdNames.
  Variable lookup : list Z -> option Z.          (* user.Lookup / user.LookupGroup: name -> local id *)

  Definition id_map_of (ids : list (Z * list Z)) : id_map :=
    map (fun p => (fst p, match lookup (snd p) with Some l => l | None => fst p end)) ids.
End IdNames.

Definition localise (um gm : id_map) (e : fentry) : fentry :=
  mkEntry (e_name e) (e_len e) (e_mtime e) (e_mode e) (map_id um (e_uid e)) (map_id gm (e_gid e))
          (e_rdev e) (e_link e) (e_csum e).
