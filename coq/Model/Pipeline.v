(** The three-stage pipeline of a transfer over transports of bounded
    capacity (internal/receiver/do.go: generator and receiver goroutines;
    internal/sender/sender.go: one goroutine that alternately reads a request
    and writes the file's data).  Byte-granular: the generator has [g_left]
    bytes of requests still to write; channel A (towards the sender) holds
    [ch_a] bytes and has capacity [cap_a]; the sender is either reading the
    request at the head of its plan ([s_write] = 0, [s_read] bytes of it read
    so far) or writing the [s_write] remaining bytes of the answer; channel B
    (towards the receiver) holds [ch_b] bytes, capacity [cap_b]; the receiver
    only reads.  Capacity 0 is a rendezvous (io.Pipe): a byte is handed over
    when writer and reader are both ready. *)
From Coq Require Import List Arith Lia.
Import ListNotations.

Record pst := mkP {
  g_left : nat;
  ch_a : nat;
  s_plan : list (nat * nat);     (* (request bytes, answer bytes) of the requests not yet fully read *)
  s_read : nat;
  s_write : nat;
  ch_b : nat
}.

(** the sender has read one more byte of the request at the head of its plan *)
Definition advance (st : pst) (g a : nat) : pst :=
  match s_plan st with
  | (r, d) :: rest =>
      if Nat.eqb (S (s_read st)) r then mkP g a rest 0 d (ch_b st)
      else mkP g a (s_plan st) (S (s_read st)) 0 (ch_b st)
  | [] => st
  end.

Inductive step (cap_a cap_b : nat) : pst -> pst -> Prop :=
| gen_put st : 0 < g_left st -> ch_a st < cap_a ->
    step cap_a cap_b st (mkP (g_left st - 1) (S (ch_a st)) (s_plan st) (s_read st) (s_write st) (ch_b st))
| gen_rendezvous st : cap_a = 0 -> 0 < g_left st -> s_write st = 0 -> s_plan st <> [] ->
    step cap_a cap_b st (advance st (g_left st - 1) (ch_a st))
| snd_get st : s_write st = 0 -> s_plan st <> [] -> 0 < ch_a st ->
    step cap_a cap_b st (advance st (g_left st) (ch_a st - 1))
| snd_put st : 0 < s_write st -> ch_b st < cap_b ->
    step cap_a cap_b st (mkP (g_left st) (ch_a st) (s_plan st) (s_read st) (s_write st - 1) (S (ch_b st)))
| snd_rendezvous st : cap_b = 0 -> 0 < s_write st ->
    step cap_a cap_b st (mkP (g_left st) (ch_a st) (s_plan st) (s_read st) (s_write st - 1) (ch_b st))
| rcv_get st : 0 < ch_b st ->
    step cap_a cap_b st (mkP (g_left st) (ch_a st) (s_plan st) (s_read st) (s_write st) (ch_b st - 1)).

Definition final (st : pst) : Prop :=
  g_left st = 0 /\ ch_a st = 0 /\ s_plan st = [] /\ s_write st = 0 /\ ch_b st = 0.

Definition sum_r (l : list (nat * nat)) : nat := fold_right (fun p n => fst p + n) 0 l.
Definition sum_d (l : list (nat * nat)) : nat := fold_right (fun p n => snd p + n) 0 l.

(** every request byte is either still with the generator, in channel A, or
    already read as part of the request the sender is working on *)
Definition inv (st : pst) : Prop :=
  g_left st + ch_a st + s_read st = sum_r (s_plan st) /\
  Forall (fun p => 1 <= fst p) (s_plan st) /\
  match s_plan st with (r, _) :: _ => s_read st < r | [] => s_read st = 0 end /\
  (0 < s_write st -> s_read st = 0).

Definition init (plan : list (nat * nat)) : pst := mkP (sum_r plan) 0 plan 0 0 0.

(** work left, weighted so that every step decreases it *)
Definition measure (st : pst) : nat :=
  3 * g_left st + 2 * ch_a st + 2 * (s_write st + sum_d (s_plan st)) + ch_b st.

Inductive steps (cap_a cap_b : nat) : nat -> pst -> pst -> Prop :=
| steps_0 st : steps cap_a cap_b 0 st st
| steps_S n st st' st'' : step cap_a cap_b st st' -> steps cap_a cap_b n st' st'' -> steps cap_a cap_b (S n) st st''.
