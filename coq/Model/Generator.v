(** The generator's update decision and checksum generation
    (internal/receiver/generator.go: skipFile, recvGenerator's regular-file
    branch, generateAndSendSums), and the per-file pipeline
    generator -> sender -> receiver. *)
From Coq Require Import ZArith List Bool.
From RV Require Import Model.Bytes Model.Checksum Model.Delta Model.Sender Gen.Consts.
Import ListNotations.
Open Scope Z_scope.

(** What the generator sees at the destination path (Lstat + content). *)
Inductive dst_state :=
| DstMissing
| DstOther                                   (* exists, not a regular file *)
| DstFile (size : Z) (mtime_sec : Z) (content : list Z).   (* mtime floored to the second *)

Inductive decision := DSkip | DFull | DDelta.

Section Decision.
  Variable Hplain : list Z -> list Z.    (* MD4 of a whole file, no seed (-c) *)

  (** skipFile (generator.go:77-103) *)
  Definition skip_file (always_checksum ignore_times : bool)
             (dsize dmtime : Z) (dcontent : list Z) (ssize smtime : Z) (scsum : list Z) : bool :=
    if negb (dsize =? ssize) then false
    else if always_checksum then list_eqb scsum (Hplain dcontent)
    else if ignore_times then false
    else dmtime =? smtime.

  (** the regular-file branch of recvGenerator *)
  Definition gen_decision (always_checksum ignore_times : bool) (d : dst_state)
             (ssize smtime : Z) (scsum : list Z) : decision :=
    match d with
    | DstMissing => DFull
    | DstOther => DFull
    | DstFile dsize dmtime dcontent =>
        if skip_file always_checksum ignore_times dsize dmtime dcontent ssize smtime scsum
        then DSkip else DDelta
    end.
End Decision.

Section Sums.
  Variable H : list Z -> list Z.
  Variable seed : Z.

  (** generateAndSendSums: consecutive blocks of the local file *)
  Fixpoint gen_blocks (fuel : nat) (blen : Z) (data : list Z) : list sumbuf :=
    match fuel with
    | O => []
    | S f =>
        match data with
        | [] => []
        | _ => let b := takeZ blen data in
               (checksum1 b, checksum2 H seed b) :: gen_blocks f blen (dropZ blen data)
        end
    end.

  Definition gen_sums (data : list Z) : sum_head * list sumbuf :=
    let h := sum_sizes_sqroot (lenZ data) in
    (h, gen_blocks (length data) (h_blen h) data).

  Definition enc_sums (h : sum_head) (sums : list sumbuf) : list Z :=
    enc_head h ++ flat_map (fun s => le32 (fst s) ++ snd s) sums.

  (** One file through the whole pipeline: the generator's request for the
      destination's current state, the sender's answer for the source bytes,
      the receiver's reconstruction. *)
  Definition file_transfer (chunk : Z) (src : list Z) (dst : option (list Z)) : recv_result :=
    let '(h, sums) := match dst with
                      | Some b => gen_sums b
                      | None => (mkHead 0 0 0 0, [])      (* requestFullFile: zero header *)
                      end in
    match send_one H seed chunk h sums src with
    | SOk h' toks tr => fst (receive_data H seed dst (enc_file h' toks tr))
    | SCrash _ => RErrFuel
    | SFuel => RErrFuel
    end.
End Sums.
