(** Directory trees, the receiver's --delete walk (internal/receiver/do.go
    deleteFiles over fs.WalkDir) and the sender's filtered walk
    (internal/sender/flist.go walkFn, exclude.go). Paths are lists of
    components; children are kept in name order (ReadDir order). *)
From Coq Require Import ZArith List Bool.
From RV Require Import Model.Bytes Model.Flist.
Import ListNotations.
Open Scope Z_scope.

Definition name := list Z.
Definition path := list name.          (* root-relative, [] = the root "." *)

Inductive ftree :=
| TFile
| TOther                                (* symlink, device, fifo, socket *)
| TDir (children : list (name * ftree)).

Fixpoint assoc_name (n : name) (cs : list (name * ftree)) : option ftree :=
  match cs with
  | [] => None
  | (m, t) :: r => if list_eqb m n then Some t else assoc_name n r
  end.

Fixpoint lookup (t : ftree) (p : path) : option ftree :=
  match p with
  | [] => Some t
  | c :: r => match t with
              | TDir cs => match assoc_name c cs with Some t' => lookup t' r | None => None end
              | _ => None
              end
  end.

(** "a/b/c" as the walk callbacks see it ("." for the root) *)
Fixpoint render_from (p : path) : list Z :=
  match p with
  | [] => []
  | [c] => c
  | c :: r => c ++ [47] ++ render_from r
  end.
Definition render (p : path) : list Z := match p with [] => [46] | _ => render_from p end.

(** ** --delete *)
Section Delete.
  Variable listed : path -> bool.        (* findInFileList on the rendered path *)
  Variable protected : path -> bool.     (* the user's filter rules exclude the path *)

  (** the walk below directory [prefix] (prefix kept reversed) *)
  Fixpoint del_tree (fuel : nat) (rprefix : path) (t : ftree) : ftree :=
    match fuel with
    | O => t
    | S f =>
      match t with
      | TDir cs =>
          TDir (flat_map (fun nt =>
                  let p := rev (fst nt :: rprefix) in
                  if listed p then [(fst nt, del_tree f (fst nt :: rprefix) (snd nt))]
                  else if protected p then [nt]        (* SkipDir for a directory, keep walking for a file *)
                  else []                               (* RemoveAll *)
                ) cs)
      | _ => t
      end
    end.

  Fixpoint depth (t : ftree) : nat :=
    match t with
    | TDir cs => S (fold_right (fun nt m => Nat.max (depth (snd nt)) m) O cs)
    | _ => 1
    end.

  (** deleteFiles: nothing happens when the sender reported I/O errors, in a
      dry run, or when the list has no top directory "." *)
  Definition delete_files (has_top : bool) (ioerrors : Z) (dry_run : bool) (t : ftree) : ftree :=
    if (0 <? ioerrors) || dry_run || negb has_top then t
    else del_tree (depth t) [] t.

  (** does a path survive?  walking down, every component must be listed,
      until a protected one (below which everything stays) *)
  Fixpoint keeps (rprefix : path) (p : path) : bool :=
    match p with
    | [] => true
    | c :: r => let q := rev (c :: rprefix) in
                if listed q then keeps (c :: rprefix) r else protected q
    end.
End Delete.

(** ** filter rules (exclude.go) *)
Record frule := mkRule { r_include : bool; r_pattern : list Z; r_wild : bool }.

Definition has_slash (s : list Z) : bool := existsb (fun c => c =? 47) s.

(** parseFilter + addRule for one transmitted line *)
Definition strip_prefix2 (a b : Z) (l : list Z) : option (list Z) :=
  match l with x :: y :: r => if (x =? a) && (y =? b) then Some r else None | _ => None end.
Fixpoint strip_trailing_slash (l : list Z) : list Z :=
  match l with
  | [] => []
  | [c] => if c =? 47 then [] else [c]
  | c :: r => c :: strip_trailing_slash r
  end.
Definition is_wild_char (c : Z) : bool := (c =? 42) || (c =? 91) || (c =? 63).   (* * [ ? *)
Definition parse_rule (line : list Z) : frule :=
  let '(incl, pat) :=
    match strip_prefix2 45 32 line with       (* "- " *)
    | Some r => (false, r)
    | None => match strip_prefix2 43 32 line with   (* "+ " *)
              | Some r => (true, r)
              | None => (false, line)
              end
    end in
  let pat' := strip_trailing_slash pat in
  mkRule incl pat' (existsb is_wild_char pat').

Definition base_name (p : path) : list Z := match rev p with c :: _ => c | [] => [46] end.

(** filterRule.matches on a walked entry *)
Definition rule_matches (r : frule) (p : path) : bool :=
  if has_slash (r_pattern r) then list_eqb (r_pattern r) (render p)
  else list_eqb (r_pattern r) (base_name p).

(** filterRuleList.matches: the first matching rule decides *)
Fixpoint excluded (rules : list frule) (p : path) : bool :=
  match rules with
  | [] => false
  | r :: rest => if rule_matches r p then negb (r_include r) else excluded rest p
  end.

(** the sender's recursive walk with rules applied (transfer names in walk order) *)
Section Select.
  Variable rules : list frule.
  Fixpoint select (fuel : nat) (rprefix : path) (t : ftree) : list path :=
    match fuel with
    | O => []
    | S f =>
      match t with
      | TDir cs =>
          flat_map (fun nt =>
            let p := rev (fst nt :: rprefix) in
            if excluded rules p then []
            else p :: select f (fst nt :: rprefix) (snd nt)) cs
      | _ => []
      end
    end.
  Definition select_all (t : ftree) : list path := [] :: select (depth t) [] t.

  (** selected iff no component on the way (the entry itself included) is excluded *)
  Fixpoint allowed (rprefix : path) (p : path) : bool :=
    match p with
    | [] => true
    | c :: r => if excluded rules (rev (c :: rprefix)) then false else allowed (c :: rprefix) r
    end.
End Select.

(** RecvFilterList / NewFilterRuleList: a rule containing * [ or ? is an
    error (reported to the peer), never a silently different selection. *)
Definition check_rules (lines : list (list Z)) : option (list frule) :=
  let rs := map parse_rule lines in
  if existsb r_wild rs then None else Some rs.
