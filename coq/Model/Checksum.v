(** Weak (rolling) and strong checksums: internal/rsyncchecksum/rsyncchecksum.go,
    block-size rule: internal/rsynccommon/rsynccommon.go. *)
From Coq Require Import ZArith List Bool.
From RV Require Import Model.Bytes Gen.Consts.
Import ListNotations.
Open Scope Z_scope.

(** SignExtend: bytes are treated as C signed chars. *)
Definition se (b : Z) : Z := if b <? 128 then b else b - 256.

(** Exact (unbounded) sums: S1 = sum of se(b_i); S2 = sum of prefix sums,
    i.e. sum of (n - i) * se(b_i). *)
Fixpoint S1 (w : list Z) : Z :=
  match w with [] => 0 | b :: r => se b + S1 r end.
Fixpoint S2 (w : list Z) : Z :=
  match w with [] => 0 | b :: r => Z.of_nat (length w) * se b + S2 r end.

(** The loop of Checksum1, accumulating in uint32 registers (tail recursive). *)
Fixpoint csum_loop (w : list Z) (s1 s2 : Z) : Z * Z :=
  match w with
  | [] => (s1, s2)
  | b :: r => let s1' := (s1 + se b) mod 4294967296 in
              csum_loop r s1' ((s2 + s1') mod 4294967296)
  end.

(** Checksum1's result: (s1 & 0xffff) + (s2 << 16) in uint32. *)
Definition checksum1 (w : list Z) : Z :=
  let '(s1, s2) := csum_loop w 0 0 in
  (s1 mod 65536 + (s2 * 65536)) mod 4294967296.

Definition sum_lo (sum : Z) : Z := sum mod 65536.
Definition sum_hi (sum : Z) : Z := (sum / 65536) mod 65536.

(** Tag2 / Tag *)
Definition tag2 (s1 s2 : Z) : Z := (s1 + s2) mod 65536.
Definition tag (sum : Z) : Z := tag2 (sum_lo sum) (sum_hi sum).

Section Strong.
  Variable H : list Z -> list Z.      (* the strong hash, MD4 in the code *)
  (** Checksum2(seed, buf) = H(buf ++ le32 seed) *)
  Definition checksum2 (seed : Z) (buf : list Z) : list Z := H (buf ++ le32 seed).
  (** whole-file sum: H(le32 seed ++ data) *)
  Definition filesum (seed : Z) (data : list Z) : list Z := H (le32 seed ++ data).
End Strong.

(** SumSizesSqroot: blockLength = max(floor(sqrt n), 700), 16-byte strong sums. *)
Record sum_head := mkHead { h_count : Z; h_blen : Z; h_slen : Z; h_rem : Z }.

Definition sum_sizes_sqroot (n : Z) : sum_head :=
  let bl := Z.max (Z.sqrt n) c_blockSize in
  mkHead ((n + (bl - 1)) / bl) bl c_checksumLength (n mod bl).

Definition enc_head (h : sum_head) : list Z :=
  le32 (h_count h) ++ le32 (h_blen h) ++ le32 (h_slen h) ++ le32 (h_rem h).

(** SumHead.ReadFrom with its four range checks (types.go:37-77). *)
Inductive head_result := HeadOk (h : sum_head) (rest : list Z) | HeadShort | HeadInvalid.

Definition read_head (s : list Z) : head_result :=
  match rd32 s with
  | None => HeadShort
  | Some (cnt, s1) =>
    if cnt <? 0 then HeadInvalid else
    match rd32 s1 with
    | None => HeadShort
    | Some (bl, s2) =>
      if (bl <? 0) || (c_maxBlockLen <? bl) then HeadInvalid else
      match rd32 s2 with
      | None => HeadShort
      | Some (sl, s3) =>
        if (sl <? 0) || (16 <? sl) then HeadInvalid else
        match rd32 s3 with
        | None => HeadShort
        | Some (rm, s4) =>
          if (rm <? 0) || (bl <? rm) then HeadInvalid else
          HeadOk (mkHead cnt bl sl rm) s4
        end
      end
    end
  end.

(** Length of block [i] (receiveSums / receiveData): the last block has the
    remainder length when that is non-zero. *)
Definition block_len (h : sum_head) (i : Z) : Z :=
  if (i =? h_count h - 1) && negb (h_rem h =? 0) then h_rem h else h_blen h.
