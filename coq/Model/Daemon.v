(** The daemon's request handling up to the point where a transfer starts
    (rsyncd/rsyncd.go HandleDaemonConn, handleConn, handleConnReceiver head):
    module lookup, ACL verdict, option parsing, sender / receiver dispatch,
    the read-only refusal. *)
From Coq Require Import ZArith String List Bool.
From RV Require Import Model.Popt.
Import ListNotations.
Open Scope string_scope.

Record dmodule := mkMod { m_name : string; m_writable : bool }.

Fixpoint get_module (mods : list dmodule) (name : string) : option dmodule :=
  match mods with
  | [] => None
  | m :: r => if String.eqb (m_name m) name then Some m else get_module r name
  end.

Inductive dresult :=
| DList                         (* module listing, connection ends *)
| DUnknownModule
| DDenied                       (* ACL *)
| DParseError (e : perr)        (* error frame, connection ends (or the process exits: EExit) *)
| DBadArgs                      (* fewer than two remaining arguments / first is not "." *)
| DSender (m : dmodule) (paths : list string)       (* read-only use of the module *)
| DRefusedReadOnly (m : dmodule)                     (* "module is read only", nothing touched *)
| DReceiver (m : dmodule) (paths : list string).     (* the only outcome that writes *)

Definition strip_prefix (pre s : string) : string :=
  if String.prefix pre s then String.substring (String.length pre) (String.length s - String.length pre) s else s.

Definition trim_module (mname : string) (p : string) : string :=
  let t := strip_prefix mname p in if String.eqb t "" then "." else t.

Definition daemon_request (mods : list dmodule) (requested : string) (acl_ok : bool) (flags : list string) : dresult :=
  if String.eqb requested "" || String.eqb requested "#list" then DList else
  match get_module mods requested with
  | None => DUnknownModule
  | Some m =>
      if negb acl_ok then DDenied else
      match parse_arguments flags with
      | inr e => DParseError e
      | inl st =>
          match o_remaining st with
          | dot :: p :: ps =>
              if negb (String.eqb dot ".") then DBadArgs else
              let paths := map (trim_module (m_name m)) (p :: ps) in
              if negb (getf st "am_sender" =? 0)%Z then DSender m paths
              else if m_writable m then DReceiver m paths
              else DRefusedReadOnly m
          | _ => DBadArgs
          end
      end
  end.

Definition writes (r : dresult) : bool := match r with DReceiver _ _ => true | _ => false end.
