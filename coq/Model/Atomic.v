(** Atomic replacement of destination files (internal/receiver/receiver.go
    receiveData with receiverrenameio.go, generatorsymlink.go): the receiver's
    work on one requested file at token granularity, on a state that has the
    destination path and the separately named pending file. *)
From Coq Require Import ZArith List Bool.
From RV Require Import Model.Bytes Model.Flist Model.GenOps Gen.Consts.
Import ListNotations.
Open Scope Z_scope.

(** one step of recvFile1 as seen by the file system *)
Inductive astep :=
| ACreateTemp                        (* newPendingFile: O_EXCL temp file next to the target *)
| AWriteTemp (d : list Z)            (* a literal run or a copied block appended to the temp file *)
| ACommit                            (* CloseAtomicallyReplace: fsync + rename(temp, target) *)
| AMeta (ops : list fsop)            (* setPerms on the (new) target *)
| ACleanup.                          (* deferred Cleanup: unlink the temp file if it still exists *)

Record astate := mkA { a_path : pstate; a_temp : option (list Z) }.

Definition a_apply (p : list Z) (now : Z) (s : astate) (st : astep) : astate :=
  match st with
  | ACreateTemp => mkA (a_path s) (Some [])
  | AWriteTemp d => mkA (a_path s) (option_map (fun t => t ++ d) (a_temp s))
  | ACommit => match a_temp s with
               | Some t => mkA (PNode (fresh KReg 384 now) t) None
               | None => s
               end
  | AMeta ops => mkA (run_ops p now (a_path s) ops) (a_temp s)
  | ACleanup => mkA (a_path s) None
  end.

Definition a_run (p : list Z) (now : Z) (s : astate) (l : list astep) : astate :=
  fold_left (a_apply p now) l s.

(** recvFile1 for a requested file: [chunks] are the data runs the token
    stream denotes (literal or copied from the old file), in order; [upto]
    = how many of them arrive before the stream fails (None = all arrive);
    [verified] = the whole-file checksum matches. *)
Definition recv_steps (o : gopts) (e : fentry) (chunks : list (list Z)) (upto : option nat)
           (verified : bool) (old_perm : option Z) (now : Z) : list astep :=
  if g_dry o then [] else
  let mode := match old_perm with
              | Some p => if g_perms o then e_mode e else p
              | None => e_mode e
              end in
  match upto with
  | Some k => ACreateTemp :: map AWriteTemp (firstn k chunks) ++ [ACleanup]        (* error return *)
  | None =>
      ACreateTemp :: map AWriteTemp chunks ++
      (if verified
       then [ACommit; AMeta (set_perms_ops o e mode (fresh KReg 384 now))]
       else []) ++ [ACleanup]
  end.

Definition content_of (s : pstate) : option (list Z) :=
  match s with
  | PAbsent => None
  | PNode st c => match l_kind st with KReg => Some c | _ => None end
  end.
