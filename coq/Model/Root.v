(** A model of os.Root path resolution (Go 1.25, Linux: openat-based walk
    with symlink handling in user space, os/root_openat.go doInRoot): a tree
    of directories, files and symbolic links; a name is resolved component by
    component, never leaving the tree's root.  Names are the cleaned,
    slash-separated relative names the receiver uses (no empty or "."
    components, no trailing slash). *)
From Coq Require Import ZArith List Bool.
From RV Require Import Model.Bytes Model.Flist.
Import ListNotations.
Open Scope Z_scope.

Inductive rnode :=
| RFile (content : list Z)
| RLink (target : list Z)                    (* the link's text, any bytes *)
| RDir (children : list (list Z * rnode)).

Fixpoint rassoc (n : list Z) (cs : list (list Z * rnode)) : option rnode :=
  match cs with
  | [] => None
  | (m, t) :: r => if list_eqb m n then Some t else rassoc n r
  end.

(** the node at a directory path (a list of names from the root, no links on the way) *)
Fixpoint rlookup (t : rnode) (p : list (list Z)) : option rnode :=
  match p with
  | [] => Some t
  | c :: r => match t with
              | RDir cs => match rassoc c cs with Some u => rlookup u r | None => None end
              | _ => None
              end
  end.

Inductive rerr := EEscapes | ENotExist | ENotDir | ELoop.

(** Resolution state: [dir] = the directory reached so far, as a path of
    names from the root (so it is inside the root by construction and ".."
    from the root itself is an escape); [todo] = components still to walk.
    [follow_last] = whether a symbolic link in the final component is
    followed (Open, Stat, Chmod, Chtimes, OpenRoot, MkdirAll's walk) or is
    the object itself (Lstat, Remove, Lchown, Readlink, Rename, Symlink). *)
Definition dotdot : list Z := [dot; dot].

Fixpoint resolve (fuel : nat) (t : rnode) (follow_last : bool) (dir : list (list Z)) (todo : list (list Z))
  : (list (list Z)) + rerr :=
  match fuel with
  | O => inr ELoop
  | S f =>
      match todo with
      | [] => inl dir
      | c :: rest =>
          if list_eqb c [] || list_eqb c [dot] then resolve f t follow_last dir rest
          else if list_eqb c dotdot then
            match rev dir with
            | [] => inr EEscapes                               (* ".." at the root *)
            | _ :: rd => resolve f t follow_last (rev rd) rest
            end
          else
            match rlookup t dir with
            | Some (RDir cs) =>
                match rassoc c cs with
                | None => match rest with [] => inl (dir ++ [c])      (* the final component need not exist (create) *)
                                     | _ => inr ENotExist end
                | Some (RLink target) =>
                    match rest, follow_last with
                    | [], false => inl (dir ++ [c])                  (* the link itself *)
                    | _, _ =>
                        match target with
                        | s :: _ => if s =? slash then inr EEscapes   (* absolute link target *)
                                    else resolve f t follow_last dir (split_slash target [] ++ rest)
                        | [] => inr ENotExist
                        end
                    end
                | Some (RDir _) => resolve f t follow_last (dir ++ [c]) rest
                | Some (RFile _) => match rest with [] => inl (dir ++ [c]) | _ => inr ENotDir end
                end
            | Some _ => inr ENotDir
            | None => inr ENotExist
            end
      end
  end.

(** the object a root-relative name denotes: always a path from the root *)
Definition root_fuel : nat := 255.     (* maxSteps of doInRoot *)
Definition root_resolve (t : rnode) (follow_last : bool) (name : list Z) : (list (list Z)) + rerr :=
  resolve root_fuel t follow_last [] (split_slash name []).
