(** SSH listeners (internal/anonssh/anonssh.go): who gets a session, and what
    a session on an anonymous listener may run. *)
From Coq Require Import ZArith String List Bool.
From RV Require Import Model.Popt.
Import ListNotations.
Open Scope string_scope.

(** ** public-key callback *)
Section Keys.
  Variable key : Type.
  Variable key_eqb : key -> key -> bool.

  (** [None] = anonymous listener (no authorized_keys configured) *)
  Definition admits (authorized : option (list key)) (presented : key) : bool :=
    match authorized with
    | None => true
    | Some l => existsb (key_eqb presented) l
    end.

  (** loadAuthorizedKeys: blank lines and comment lines are skipped, every
      other line must parse; [parse_line] is ssh.ParseAuthorizedKey *)
  Variable parse_line : string -> option key.
  Variable is_blank_or_comment : string -> bool.

  Fixpoint load_keys (lines : list string) : option (list key) :=
    match lines with
    | [] => Some []
    | l :: r =>
        if is_blank_or_comment l then load_keys r
        else match parse_line l, load_keys r with
             | Some k, Some ks => Some (k :: ks)
             | _, _ => None
             end
    end.
End Keys.

(** ** the exec request of a session on an anonymous listener.
    [cmdline] is the shlex-split command; its tail is parsed by the option
    parser.  A command line selecting daemon mode is re-parsed with the
    daemon option table (not modelled: its outcome — error, or whether
    --server was present — is the parameter [daemon_stage]). *)
Inductive verdict := DaemonProtocol | Refused.

Definition anon_exec (daemon_stage : list string -> option bool) (cmdline : list string) : verdict :=
  match cmdline with
  | [] => Refused
  | _ :: args =>
      match parse_arguments args with
      | inr EDaemonMode =>
          match daemon_stage args with
          | Some true => DaemonProtocol          (* --daemon and --server *)
          | _ => Refused
          end
      | _ => Refused                              (* every non-daemon command line, and every parse error *)
      end
  end.
