(** What a serving daemon puts into its file list for a requested path
    (rsyncd.go: module-name prefix stripped; sender/flist.go: getStrip, walk
    = fs.WalkDir over the module root's FS at filepath.Clean of the request,
    names trimmed by the strip prefix). The module directory is a tree
    (Model/Tree.v); symbolic links are leaves that resolution never passes
    through (os.Root's part, see C05). *)
From Coq Require Import ZArith List Bool.
From RV Require Import Model.Bytes Model.Flist Model.Tree.
Import ListNotations.
Open Scope Z_scope.

(** strings.TrimPrefix *)
Definition trim_prefix (pre s : list Z) : list Z :=
  if list_eqb (firstn (length pre) s) pre then skipn (length pre) s else s.

(** rsyncd.go:286-298: the module name is cut off the front of the path; an empty rest means "." *)
Definition strip_module (mname req : list Z) : list Z :=
  match trim_prefix mname req with [] => [dot] | r => r end.

(** scopedWalker.walk: absolute requests are made relative, then cleaned *)
Definition walk_root (req : list Z) : list Z :=
  path_clean (match req with c :: _ => if c =? slash then dot :: req else req | [] => req end).

(** io/fs.ValidPath: "." or slash-separated elements none of which is empty, "." or ".." *)
Definition valid_elem (c : list Z) : bool :=
  negb (list_eqb c []) && negb (list_eqb c [dot]) && negb (list_eqb c [dot; dot]).
Definition valid_path (p : list Z) : bool :=
  list_eqb p [dot] || forallb valid_elem (split_slash p []).

Definition comps_of (p : list Z) : path := if list_eqb p [dot] then [] else split_slash p [].

(** getStrip *)
Definition has_suffix_slash (s : list Z) : bool := match rev s with c :: _ => c =? slash | [] => false end.
Definition get_strip (req : list Z) : list Z :=
  if list_eqb req [slash] then []
  else if has_suffix_slash req then
    (match path_clean req with c :: r => if c =? slash then r else c :: r | [] => [] end) ++ [slash]
  else [].

(** the entries the walk visits, as module-relative paths *)
Definition serve_paths (t : ftree) (req : list Z) : list path :=
  let root := walk_root req in
  if negb (valid_path root) then [] else          (* fs.WalkDir reports the invalid root to walkFn: I/O error flag, nothing listed *)
  let p0 := comps_of root in
  match lookup t p0 with
  | None => []
  | Some sub => p0 :: select [] (depth sub) (rev p0) sub
  end.

(** the names on the wire (walkFn): the strip prefix is cut off; the directory
    whose contents were requested (its path followed by a slash *is* the
    prefix) is named "." *)
Definition wire_name (strip : list Z) (p : path) : list Z :=
  match strip with
  | [] => render p
  | s => if list_eqb (render p ++ [slash]) s then [dot] else trim_prefix s (render p)
  end.
Definition serve_names (t : ftree) (req : list Z) : list (list Z) :=
  map (wire_name (get_strip req)) (serve_paths t req).

(** a daemon request: module prefix stripped from every path argument *)
Definition daemon_serve (mname : list Z) (t : ftree) (reqs : list (list Z)) : list (list Z) :=
  flat_map (fun r => serve_names t (strip_module mname r)) reqs.

(** ** The client as sender (push / local copy): sender/flist.go SendFileList
    with the implicit module "/".  An absolute source path with a trailing
    slash becomes the directory to open, with "/" requested inside it; any
    other path is split into filepath.Dir (opened) and filepath.Base
    (requested). *)
Definition last_comp (s : list Z) : list Z := last (split_slash s []) [].
(** filepath.Base of a path that does not end in a slash: what follows the last slash *)
Definition path_base (s : list Z) : list Z := last_comp s.
(** filepath.Dir: everything up to and including the last slash, cleaned *)
Definition path_dir (s : list Z) : list Z :=
  path_clean (firstn (length s - length (last_comp s)) s).

Definition client_split (req : list Z) : list Z * list Z :=
  if has_suffix_slash req then (req, [slash]) else (path_dir req, path_base req).

(** os.OpenRoot(local) needs a directory; then the same walk and naming as for a module *)
Definition client_names (t : ftree) (req : list Z) : list (list Z) :=
  let '(local, requested) := client_split req in
  let root := walk_root local in
  if negb (valid_path root) then [] else
  match lookup t (comps_of root) with
  | Some (TDir cs) => serve_names (TDir cs) requested
  | _ => []
  end.
