(** Multiplexed framing (internal/rsyncwire/wire.go:18-93) and the client's
    buffered reader around the demultiplexer (clientmaincmd.go:283-296,
    Go's bufio.Reader.Read). *)
From Coq Require Import ZArith List Bool.
From RV Require Import Model.Bytes Gen.Consts.
Import ListNotations.
Open Scope Z_scope.

(** MultiplexWriter.WriteMsg: header = (mplexBase+tag)<<24 | len(p), then p. *)
Definition mux_header (tg len : Z) : Z := ((c_mplexBase + tg) * 16777216 + len) mod 4294967296.
Definition mux_frame (tg : Z) (p : list Z) : list Z := le32 (mux_header tg (lenZ p)) ++ p.

Inductive msg_result :=
| MsgOk (tg : Z) (p : list Z) (rest : list Z)
| MsgShort
| MsgTooLong (len : Z).

(** MultiplexReader.ReadMsg: tag = uint8(header>>24) - mplexBase (uint8
    arithmetic), length = header & 0xFFFFFF, bounded by maxMessageSize. *)
Definition read_msg (s : list Z) : msg_result :=
  match rdu32 s with
  | None => MsgShort
  | Some (hd, r) =>
      let tg := ((hd / 16777216) - c_mplexBase) mod 256 in
      let len := hd mod 16777216 in
      if c_maxMessageSize <? len then MsgTooLong len else
      match take len r with
      | None => MsgShort
      | Some (p, rest) => MsgOk tg p rest
      end
  end.

(** One call of MultiplexReader.Read with a caller buffer of [cap] bytes. *)
Inductive mread :=
| RData (p : list Z) (rest : list Z)     (* n = len p bytes copied; info frames give [] *)
| RErrMsg (m : list Z)                    (* error frame: fmt.Errorf("%s", payload) *)
| RErrTag (tg : Z)
| RErrIO                                  (* short stream / EOF *)
| RErrLong
| RCrash.                                 (* panic: not enough buffer space *)

Definition mux_read (cap : Z) (s : list Z) : mread :=
  match read_msg s with
  | MsgShort => RErrIO
  | MsgTooLong _ => RErrLong
  | MsgOk tg p rest =>
      if tg =? c_MsgError then RErrMsg p
      else if tg =? c_MsgInfo then RData [] rest
      else if tg =? c_MsgData then
        if cap <? lenZ p then RCrash else RData p rest
      else RErrTag tg
  end.

(** The client's bufio.Reader of size [bsz] around the demultiplexer:
    [bbuf] = bytes buffered and not yet handed out, [bsrc] = unread stream. *)
Record bstate := mkB { bbuf : list Z; bsrc : list Z }.

Inductive bread :=
| BOk (got : list Z) (st : bstate)
| BErrMsg (m : list Z) | BErrTag (tg : Z) | BErrIO | BErrLong | BCrash.

(** bufio.Reader.Read(p) with len(p) = n > 0. *)
Definition bufio_read (bsz : Z) (n : Z) (st : bstate) : bread :=
  match bbuf st with
  | _ :: _ =>
      BOk (takeZ n (bbuf st)) (mkB (dropZ n (bbuf st)) (bsrc st))
  | [] =>
      let cap := if bsz <=? n then n else bsz in
      match mux_read cap (bsrc st) with
      | RData p rest =>
          if bsz <=? n then BOk p (mkB [] rest)          (* large read: straight into p *)
          else BOk (takeZ n p) (mkB (dropZ n p) rest)    (* fill the empty buffer once, copy *)
      | RErrMsg m => BErrMsg m
      | RErrTag t => BErrTag t
      | RErrIO => BErrIO
      | RErrLong => BErrLong
      | RCrash => BCrash
      end
  end.

(** io.ReadFull: loop until [n] bytes were gathered (zero-length reads from
    info / empty frames are retried). *)
Fixpoint read_full (fuel : nat) (bsz : Z) (n : Z) (acc : list Z) (st : bstate) : bread :=
  if n <=? 0 then BOk acc st else
  match fuel with
  | O => BErrIO
  | S f =>
      match bufio_read bsz n st with
      | BOk got st' => read_full f bsz (n - lenZ got) (acc ++ got) st'
      | e => e
      end
  end.

(** Enough fuel: every iteration returns a byte or consumes a frame header. *)
Definition rf_fuel (n : Z) (st : bstate) : nat := S (Z.to_nat n + length (bsrc st)).
Definition client_read (n : Z) (st : bstate) : bread :=
  read_full (rf_fuel n st) c_clientBufioSize n [] st.
