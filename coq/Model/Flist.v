(** File-list wire format: the implementation's encoder
    (internal/sender/flist.go:160-295, 391-418), every conforming protocol-27
    encoding (name-prefix compression, "same as previous" flags, one- and
    four-byte name lengths), and the decoder
    (internal/receiver/flist.go:67-269, uidlist.go). *)
From Coq Require Import ZArith List Bool.
From RV Require Import Model.Bytes Gen.Consts.
Import ListNotations.
Open Scope Z_scope.

Record fopts := mkFopts {
  o_uid : bool; o_gid : bool; o_links : bool;
  o_devices : bool; o_specials : bool; o_checksum : bool
}.

Record fentry := mkEntry {
  e_name : list Z; e_len : Z; e_mtime : Z; e_mode : Z;
  e_uid : Z; e_gid : Z; e_rdev : Z; e_link : list Z; e_csum : list Z
}.

Definition ftype (mode : Z) : Z := Z.land mode c_S_IFMT.
Definition is_dev (mode : Z) : bool := (ftype mode =? c_S_IFCHR) || (ftype mode =? c_S_IFBLK).
Definition is_special (mode : Z) : bool := (ftype mode =? c_S_IFIFO) || (ftype mode =? c_S_IFSOCK).
Definition is_link (mode : Z) : bool := ftype mode =? c_S_IFLNK.
Definition is_dir (mode : Z) : bool := ftype mode =? c_S_IFDIR.
Definition is_reg (mode : Z) : bool := ftype mode =? c_S_IFREG.

(** Which side puts / expects the optional rdev field. *)
Definition sender_has_rdev (o : fopts) (mode : Z) : bool :=
  (o_devices o && is_dev mode) || (o_specials o && is_special mode).
Definition receiver_has_rdev (o : fopts) (mode : Z) : bool :=
  (o_devices o && is_dev mode) || (o_specials o && is_special mode).

Definition has_flag (flags f : Z) : bool := negb (Z.land flags f =? 0).

(** ** Encoders *)

(** Per-entry freedom of a conforming sender. *)
Record choice := mkChoice {
  ch_l1 : Z;            (* inherited prefix length; 0 = XMIT_SAME_NAME not used *)
  ch_long : bool;       (* XMIT_LONG_NAME: four-byte name length *)
  ch_same_time : bool; ch_same_mode : bool; ch_same_uid : bool;
  ch_same_gid : bool; ch_same_rdev : bool;
  ch_top : bool         (* XMIT_TOP_DIR (ignored by the decoder) *)
}.

Definition b2z (b : bool) (v : Z) : Z := if b then v else 0.

Definition flags_of (c : choice) : Z :=
  b2z (ch_top c) c_XMIT_TOP_DIR + b2z (ch_same_mode c) c_XMIT_SAME_MODE +
  b2z (ch_same_rdev c) c_XMIT_SAME_RDEV_pre28 + b2z (ch_same_uid c) c_XMIT_SAME_UID +
  b2z (ch_same_gid c) c_XMIT_SAME_GID + b2z (0 <? ch_l1 c) c_XMIT_SAME_NAME +
  b2z (ch_long c) c_XMIT_LONG_NAME + b2z (ch_same_time c) c_XMIT_SAME_TIME.

(** One entry under choice [c] (the writer decides the rdev field with
    [has_rdev]). *)
Definition enc_entry (has_rdev : fopts -> Z -> bool) (o : fopts) (c : choice) (e : fentry) : list Z :=
  let suffix := dropZ (ch_l1 c) (e_name e) in
  [flags_of c] ++
  (if 0 <? ch_l1 c then [ch_l1 c] else []) ++
  (if ch_long c then le32 (lenZ suffix) else [lenZ suffix]) ++
  suffix ++
  enc_i64 (e_len e) ++
  (if ch_same_time c then [] else le32 (e_mtime e)) ++
  (if ch_same_mode c then [] else le32 (e_mode e)) ++
  (if o_uid o then (if ch_same_uid c then [] else le32 (e_uid e)) else []) ++
  (if o_gid o then (if ch_same_gid c then [] else le32 (e_gid e)) else []) ++
  (if has_rdev o (e_mode e) then (if ch_same_rdev c then [] else le32 (e_rdev e)) else []) ++
  (if o_links o && is_link (e_mode e) then le32 (lenZ (e_link e)) ++ e_link e else []) ++
  (if o_checksum o then e_csum e else []).

Fixpoint enc_entries (has_rdev : fopts -> Z -> bool) (o : fopts) (ces : list (choice * fentry)) : list Z :=
  match ces with
  | [] => []
  | (c, e) :: r => enc_entry has_rdev o c e ++ enc_entries has_rdev o r
  end.

(** Id list: (id, name) pairs, id <> 0, one-byte name length, 0 terminator. *)
Fixpoint enc_idlist (l : list (Z * list Z)) : list Z :=
  match l with
  | [] => le32 0
  | (id, name) :: r => le32 id ++ [lenZ name mod 256] ++ name ++ enc_idlist r
  end.

Definition enc_trailer (o : fopts) (uids gids : list (Z * list Z)) (ioerr : Z) : list Z :=
  [0] ++ (if o_uid o then enc_idlist uids else []) ++
  (if o_gid o then enc_idlist gids else []) ++ le32 ioerr.

(** The implementation's own choice: always long names, nothing inherited. *)
Definition gokr_choice (e : fentry) : choice :=
  mkChoice 0 true false false false false false (list_eqb (e_name e) [46]).

Definition send_file_list (o : fopts) (es : list fentry) (uids gids : list (Z * list Z)) (ioerr : Z) : list Z :=
  enc_entries sender_has_rdev o (map (fun e => (gokr_choice e, e)) es) ++ enc_trailer o uids gids ioerr.

(** ** filepath.Clean on slash-separated byte strings *)
Definition slash : Z := 47.
Definition dot : Z := 46.

Fixpoint split_slash (s : list Z) (cur : list Z) : list (list Z) :=
  match s with
  | [] => [rev cur]
  | c :: r => if c =? slash then rev cur :: split_slash r [] else split_slash r (c :: cur)
  end.

(** stack of components, newest first *)
Fixpoint clean_comps (rooted : bool) (comps : list (list Z)) (stack : list (list Z)) : list (list Z) :=
  match comps with
  | [] => rev stack
  | c :: r =>
      if list_eqb c [] || list_eqb c [dot] then clean_comps rooted r stack
      else if list_eqb c [dot; dot] then
        match stack with
        | top :: below =>
            if list_eqb top [dot; dot] then clean_comps rooted r (c :: stack)
            else clean_comps rooted r below
        | [] => if rooted then clean_comps rooted r [] else clean_comps rooted r [c]
        end
      else clean_comps rooted r (c :: stack)
  end.

Fixpoint join_slash (cs : list (list Z)) : list Z :=
  match cs with
  | [] => []
  | [c] => c
  | c :: r => c ++ [slash] ++ join_slash r
  end.

Definition path_clean (s : list Z) : list Z :=
  match s with
  | [] => [dot]
  | c0 :: _ =>
      let rooted := c0 =? slash in
      let body := join_slash (clean_comps rooted (split_slash s []) []) in
      if rooted then slash :: body
      else match body with [] => [dot] | _ => body end
  end.

(** ** Decoder *)

Inductive flist_err := FShort | FOverflow | FBadLink.

Definition rd8 (s : list Z) : option (Z * list Z) :=
  match s with b :: r => Some (b, r) | [] => None end.

(** Names are Go strings: the inherited prefix is the first l1 bytes of the
    previous (cleaned) name, zero-padded if that is shorter (make+copy). *)
Fixpoint zeros (n : nat) : list Z := match n with O => [] | S k => 0 :: zeros k end.
Definition inherit (l1 : Z) (last_name : list Z) : list Z :=
  takeZ l1 (last_name ++ zeros (Z.to_nat (l1 - lenZ last_name))).

Definition opt_field (present same : bool) (lastv : Z) (s : list Z) : option (Z * list Z) :=
  if present then
    if same then Some (lastv, s) else rd32 s
  else Some (0, s).

Definition recv_entry (o : fopts) (flags : Z) (last : fentry) (s : list Z)
  : (fentry * list Z) + flist_err :=
  match (if has_flag flags c_XMIT_SAME_NAME then rd8 s else Some (0, s)) with
  | None => inr FShort
  | Some (l1, s1) =>
    match (if has_flag flags c_XMIT_LONG_NAME then rd32 s1 else rd8 s1) with
    | None => inr FShort
    | Some (l2, s2) =>
      if (l2 <? 0) || (c_PATH_MAX - l1 <=? l2) then inr FOverflow else
      match take l2 s2 with
      | None => inr FShort
      | Some (suffix, s3) =>
        let name := path_clean (inherit l1 (e_name last) ++ suffix) in
        match rd_i64 s3 with
        | None => inr FShort
        | Some (len, s4) =>
          match opt_field true (has_flag flags c_XMIT_SAME_TIME) (e_mtime last) s4 with
          | None => inr FShort
          | Some (mtime, s5) =>
            match opt_field true (has_flag flags c_XMIT_SAME_MODE) (e_mode last) s5 with
            | None => inr FShort
            | Some (mode, s6) =>
              match opt_field (o_uid o) (has_flag flags c_XMIT_SAME_UID) (e_uid last) s6 with
              | None => inr FShort
              | Some (uid, s7) =>
                match opt_field (o_gid o) (has_flag flags c_XMIT_SAME_GID) (e_gid last) s7 with
                | None => inr FShort
                | Some (gid, s8) =>
                  match opt_field (receiver_has_rdev o mode) (has_flag flags c_XMIT_SAME_RDEV_pre28) (e_rdev last) s8 with
                  | None => inr FShort
                  | Some (rdev, s9) =>
                    let after_link :=
                      if o_links o && is_link mode then
                        match rd32 s9 with
                        | None => inr FShort
                        | Some (ll, s10) =>
                            if ll <? 0 then inr FBadLink else
                            match take ll s10 with
                            | None => inr FShort
                            | Some (lk, s11) => inl (lk, s11)
                            end
                        end
                      else inl ([], s9) in
                    match after_link with
                    | inr e => inr e
                    | inl (lk, s12) =>
                      if o_checksum o then
                        match take 16 s12 with
                        | None => inr FShort
                        | Some (cs, s13) => inl (mkEntry name len mtime mode uid gid rdev lk cs, s13)
                        end
                      else inl (mkEntry name len mtime mode uid gid rdev lk [], s12)
                    end
                  end
                end
              end
            end
          end
        end
      end
    end
  end.

Definition empty_entry : fentry := mkEntry [] 0 0 0 0 0 0 [] [].

(** the entry loop of ReceiveFileList: until a zero flags byte *)
Fixpoint recv_entries (fuel : nat) (o : fopts) (last : fentry) (s : list Z) (acc : list fentry)
  : (list fentry * list Z) + flist_err :=
  match fuel with
  | O => inr FShort
  | S f =>
      match rd8 s with
      | None => inr FShort
      | Some (b, s1) =>
          if b =? 0 then inl (rev acc, s1) else
          match recv_entry o b last s1 with
          | inr e => inr e
          | inl (e, s2) => recv_entries f o e s2 (e :: acc)
          end
      end
  end.

Fixpoint recv_idlist (fuel : nat) (s : list Z) (acc : list (Z * list Z)) : option (list (Z * list Z) * list Z) :=
  match fuel with
  | O => None
  | S f =>
      match rd32 s with
      | None => None
      | Some (id, s1) =>
          if id =? 0 then Some (rev acc, s1) else
          match rd8 s1 with
          | None => None
          | Some (l, s2) =>
              match take l s2 with
              | None => None
              | Some (name, s3) => recv_idlist f s3 ((id, name) :: acc)
              end
          end
      end
  end.

(** bytewise name order (Go string <) and the sort both sides apply *)
Fixpoint lex_ltb (a b : list Z) : bool :=
  match a, b with
  | [], [] => false
  | [], _ :: _ => true
  | _ :: _, [] => false
  | x :: a', y :: b' => if x <? y then true else if y <? x then false else lex_ltb a' b'
  end.

Fixpoint insert_sorted (e : fentry) (l : list fentry) : list fentry :=
  match l with
  | [] => [e]
  | x :: r => if lex_ltb (e_name e) (e_name x) then e :: l else x :: insert_sorted e r
  end.
Definition sort_entries (l : list fentry) : list fentry := fold_right insert_sorted [] l.

Record flist_result := mkFR {
  fr_entries : list fentry;        (* sorted *)
  fr_uids : list (Z * list Z); fr_gids : list (Z * list Z);
  fr_ioerr : Z; fr_rest : list Z
}.

Definition recv_file_list (o : fopts) (s : list Z) : flist_result + flist_err :=
  match recv_entries (S (length s)) o empty_entry s [] with
  | inr e => inr e
  | inl (es, s1) =>
      let sorted := sort_entries es in
      match (if o_uid o then recv_idlist (S (length s1)) s1 [] else Some ([], s1)) with
      | None => inr FShort
      | Some (uids, s2) =>
        match (if o_gid o then recv_idlist (S (length s2)) s2 [] else Some ([], s2)) with
        | None => inr FShort
        | Some (gids, s3) =>
          match rd32 s3 with
          | None => inr FShort
          | Some (ioerr, s4) => inl (mkFR sorted uids gids ioerr s4)
          end
        end
      end
  end.

(** findInFileList: binary search on the sorted list = membership by name *)
Fixpoint find_in_list (name : list Z) (l : list fentry) : bool :=
  match l with
  | [] => false
  | x :: r => list_eqb (e_name x) name || find_in_list name r
  end.
