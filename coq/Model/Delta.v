(** Tokens, their denotation, and the receiver's token application
    (internal/receiver/receiver.go:receiveData, token.go:recvToken). *)
From Coq Require Import ZArith List Bool.
From RV Require Import Model.Bytes Model.Checksum.
Import ListNotations.
Open Scope Z_scope.

Inductive token := Lit (bs : list Z) | Ref (i : Z).

(** Bytes [off, off+len) of [l]; [None] unless entirely inside (ReadAt
    returns an error on a short read). *)
Definition sub (l : list Z) (off len : Z) : option (list Z) :=
  if (0 <=? off) && (0 <=? len) && (off + len <=? lenZ l)
  then Some (takeZ len (dropZ off l)) else None.

(** What a block reference denotes, given the header the *sender* echoed. *)
Definition ref_bytes (basis : list Z) (h : sum_head) (i : Z) : option (list Z) :=
  sub basis (i * h_blen h) (block_len h i).

(** Denotation of a token list against a basis. *)
Fixpoint denote (basis : list Z) (h : sum_head) (ts : list token) : option (list Z) :=
  match ts with
  | [] => Some []
  | Lit bs :: r =>
      match denote basis h r with Some d => Some (bs ++ d) | None => None end
  | Ref i :: r =>
      match ref_bytes basis h i, denote basis h r with
      | Some b, Some d => Some (b ++ d)
      | _, _ => None
      end
  end.

(** Wire form of tokens (simpleSendToken): a literal is its int32 length then
    the bytes, a reference to block i is int32 -(i+1), end of file is 0. *)
Definition enc_token (t : token) : list Z :=
  match t with
  | Lit bs => le32 (lenZ bs) ++ bs
  | Ref i => le32 (- (i + 1))
  end.
Definition enc_tokens (ts : list token) : list Z := flat_map enc_token ts.

(** Result of receiving one file's data. *)
Inductive recv_result :=
| Commit (bs : list Z)        (* checksum matched: temp file renamed over the destination *)
| Reject (bs : list Z)        (* "file corruption": nothing renamed *)
| RErrShort                   (* stream ended early (read error) *)
| RErrHead                    (* invalid checksum header *)
| RErrNoBasis                 (* block reference but no local file open *)
| RErrBasisRead               (* ReadAt failed: reference outside the local file *)
| RErrFuel.

Section Receiver.
  Variable H : list Z -> list Z.

  (** The token loop of receiveData. [acc] is what has been written to the
      temp file so far (reversed chunks are avoided: acc grows by append,
      which the proofs find convenient; the extracted code is only used on
      modest sizes for this component). The loop consumes the stream
      structurally in the literal case, so recursion is on fuel = stream
      length, each token consuming at least 4 bytes. *)
  Fixpoint recv_tokens (fuel : nat) (seed : Z) (basis : option (list Z)) (h : sum_head)
           (acc : list Z) (s : list Z) : recv_result * list Z :=
    match fuel with
    | O => (RErrFuel, s)
    | S fuel' =>
      match rd32 s with
      | None => (RErrShort, s)
      | Some (t, s1) =>
        if t =? 0 then
          (* end of tokens: compare the whole-file sum with the trailer *)
          match take 16 s1 with
          | None => (RErrShort, s1)
          | Some (trailer, rest) =>
              if list_eqb (filesum H seed acc) trailer then (Commit acc, rest) else (Reject acc, rest)
          end
        else if 0 <? t then
          match take t s1 with
          | None => (RErrShort, s1)
          | Some (data, s2) => recv_tokens fuel' seed basis h (acc ++ data) s2
          end
        else
          match basis with
          | None => (RErrNoBasis, s1)
          | Some b =>
              match ref_bytes b h (- (t + 1)) with
              | None => (RErrBasisRead, s1)
              | Some data => recv_tokens fuel' seed basis h (acc ++ data) s1
              end
          end
      end
    end.

  (** receiveData: header, tokens, trailer check.  The hash is fed
      le32 seed first, then everything written. *)
  Definition receive_data (seed : Z) (basis : option (list Z)) (s : list Z) : recv_result * list Z :=
    match read_head s with
    | HeadShort => (RErrShort, s)
    | HeadInvalid => (RErrHead, s)
    | HeadOk h s1 =>
        recv_tokens (S (length s1)) seed basis h [] s1
    end.
End Receiver.
