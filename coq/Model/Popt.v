(** The option parser (internal/rsyncopts/popt.go poptGetNextOpt and the
    special-case switch of rsyncopts.go ParseArguments), interpreting the
    option table / switch arms / defaults regenerated from the source
    (Gen/OptTable.v), and ServerOptions (serveroptions.go) interpreting
    Gen/ServerOpts.v. *)
From Coq Require Import ZArith String Ascii List Bool.
From RV Require Import Gen.OptTable Gen.ServerOpts.
Import ListNotations.
Open Scope string_scope.
Open Scope list_scope.
Open Scope Z_scope.

(** option state: integer fields, filter rules, remaining arguments *)
Record ostate := mkO {
  o_fields : list (string * Z);
  o_filters : list string;
  o_remaining : list string
}.

Fixpoint lookup (k : string) (l : list (string * Z)) : Z :=
  match l with
  | [] => 0
  | (k', v) :: r => if String.eqb k k' then v else lookup k r
  end.

Fixpoint set_field (k : string) (v : Z) (l : list (string * Z)) : list (string * Z) :=
  match l with
  | [] => [(k, v)]
  | (k', v') :: r => if String.eqb k k' then (k, v) :: r else (k', v') :: set_field k v r
  end.

Definition getf (st : ostate) (k : string) : Z := lookup k (o_fields st).
Definition setf (st : ostate) (k : string) (v : Z) : ostate :=
  mkO (set_field k v (o_fields st)) (o_filters st) (o_remaining st).

Definition init_state : ostate := mkO opt_defaults [] [].

Inductive perr :=
| EBadOpt (s : string) | EUnwantedArg | ENoArg | EBadNumber
| ENotImplemented (code : Z) | ESenderWithoutServer
| EExit (code : Z)        (* os.Exit paths: --help, --version, ... *)
| EDaemonMode             (* switches to the daemon option table: not modelled further *)
| EFuel.

Fixpoint find_long (name : string) (t : list opt_row) : option opt_row :=
  match t with
  | [] => None
  | ((ln, sn, ai, fld, val) as r) :: rest =>
      if negb (String.eqb name "") && String.eqb ln name then Some r else find_long name rest
  end.
Fixpoint find_short (c : string) (t : list opt_row) : option opt_row :=
  match t with
  | [] => None
  | ((ln, sn, ai, fld, val) as r) :: rest =>
      if negb (String.eqb c "") && String.eqb sn c then Some r else find_short c rest
  end.

Fixpoint find_arm (code : Z) (l : list opt_arm) : option opt_arm :=
  match l with
  | [] => None
  | ((c, k, a, fp) as arm) :: r => if c =? code then Some arm else find_arm code r
  end.

Fixpoint apply_assigns (a : list (string * Z * Z)) (st : ostate) : ostate :=
  match a with
  | [] => st
  | (f, op, v) :: r =>
      let st' := if op =? 0 then setf st f v
                 else if op =? 1 then setf st f (getf st f + v)
                 else if getf st f =? 0 then setf st f v else st in
      apply_assigns r st'
  end.

(** the special-case switch for a returned option code ([arg] = option argument) *)
Definition special (code : Z) (arg : string) (st : ostate) : ostate + perr :=
  if code =? c_OPT_SENDER then
    if getf st "am_server" =? 0 then inr ESenderWithoutServer else inl (setf st "am_sender" 1)
  else if code =? c_OPT_DAEMON then inr EDaemonMode
  else if code =? c_OPT_FILTER then inl (mkO (o_fields st) (o_filters st ++ [arg]) (o_remaining st))
  else if code =? c_OPT_EXCLUDE then inl (mkO (o_fields st) (o_filters st ++ [("- " ++ arg)%string]) (o_remaining st))
  else if code =? c_OPT_INCLUDE then inl (mkO (o_fields st) (o_filters st ++ [("+ " ++ arg)%string]) (o_remaining st))
  else if code =? c_OPT_HELP then inr (EExit 0)
  else if code =? 86 (* 'V': counted, the exit happens after the loop *) then
    inl (setf st "version_opt_cnt" (getf st "version_opt_cnt" + 1))
  else if (code =? c_OPT_INFO) || (code =? c_OPT_DEBUG) then
    (* --info=help / --debug=help exit; other words only set verbosity levels *)
    if String.eqb arg "help" then inr (EExit 0) else inl st
  else
    match find_arm code opt_arms with
    | Some (_, kind, assigns, _) =>
        if kind =? 0 then inl (apply_assigns assigns st)
        else inr (ENotImplemented code)
    | None => inr (ENotImplemented code)
    end.

Definition first_char (s : string) : string :=
  match s with EmptyString => "" | String c _ => String c EmptyString end.
Definition rest_chars (s : string) : string :=
  match s with EmptyString => "" | String _ r => r end.

Fixpoint cut_eq (s : string) (acc : string) : string * option string :=
  match s with
  | EmptyString => (acc, None)
  | String c r => if Ascii.eqb c "="%char then (acc, Some r) else cut_eq r (acc ++ String c EmptyString)%string
  end.

Definition starts_with (p s : string) : bool := String.prefix p s.

Definition arg_type (ai : Z) : Z := Z.land ai c_POPT_ARG_MASK.

(** is this a decimal integer (strconv.ParseInt base 0 also takes 0x.., 0o..;
    the harness only feeds decimals to integer options) *)
Fixpoint all_digits (s : string) : bool :=
  match s with
  | EmptyString => true
  | String c r => ((("0" <=? c)%char) && ((c <=? "9")%char))%bool && all_digits r
  end.
Fixpoint dec_val (s : string) (acc : Z) : Z :=
  match s with
  | EmptyString => acc
  | String c r => dec_val r (acc * 10 + Z.of_nat (nat_of_ascii c) - 48)
  end.

(** store the value of one recognised option; returns the new state and the
    code to hand to the switch (0 = none) *)
Definition store (row : opt_row) (arg : string) (st : ostate) : (ostate * Z) + perr :=
  let '(ln, sn, ai, fld, val) := row in
  let ty := arg_type ai in
  if (ty =? c_POPT_ARG_NONE) || (ty =? c_POPT_ARG_VAL) then
    let st' := if String.eqb fld "" then st
               else setf st fld (if ty =? c_POPT_ARG_VAL then val else 1) in
    inl (st', if (negb (val =? 0)) && negb (ty =? c_POPT_ARG_VAL) then val else 0)
  else if ty =? c_POPT_ARG_INT then
    if String.eqb fld "" then inl (st, val)
    else if all_digits arg && negb (String.eqb arg "") && (dec_val arg 0 <=? 2147483647)
         then inl (setf st fld (dec_val arg 0), val)
    else inr EBadNumber
  else (* POPT_ARG_STRING: string-valued fields are not tracked *)
    inl (st, val).

Definition needs_arg (row : opt_row) : bool :=
  let '(_, _, ai, _, _) := row in
  negb ((arg_type ai =? c_POPT_ARG_NONE) || (arg_type ai =? c_POPT_ARG_VAL)).

(** process the characters of a short-option bundle *)
Fixpoint short_bundle (fuel : nat) (chars : string) (args : list string) (st : ostate)
  : (ostate * list string) + perr :=
  match fuel with
  | O => inr EFuel
  | S f =>
    match chars with
    | EmptyString => inl (st, args)
    | _ =>
      match find_short (first_char chars) opt_table with
      | None => inr (EBadOpt ("-" ++ first_char chars)%string)
      | Some row =>
        let rest := rest_chars chars in
        if needs_arg row then
          (* the rest of the bundle (after an optional '=') or the next argument *)
          let '(arg, args', ok) :=
            match rest with
            | EmptyString => match args with a :: r => (a, r, true) | [] => ("", [], false) end
            | _ => ((if starts_with "=" rest then rest_chars rest else rest), args, true)
            end in
          if negb ok then inr ENoArg else
          match store row arg st with
          | inr e => inr e
          | inl (st1, code) =>
              if code =? 0 then inl (st1, args')
              else match special code arg st1 with inr e => inr e | inl st2 => inl (st2, args') end
          end
        else if starts_with "=" rest then inr EUnwantedArg
        else
          match store row "" st with
          | inr e => inr e
          | inl (st1, code) =>
              match (if code =? 0 then inl st1 else special code "" st1) with
              | inr e => inr e
              | inl st2 => short_bundle f rest args st2
              end
          end
      end
    end
  end.

Fixpoint parse_loop (fuel : nat) (args : list string) (st : ostate) : ostate + perr :=
  match fuel with
  | O => inr EFuel
  | S f =>
    match args with
    | [] => inl st
    | a :: rest =>
      if String.eqb a "" then inr (EBadOpt "")
      else if negb (starts_with "-" a) || String.eqb a "-" then
        parse_loop f rest (mkO (o_fields st) (o_filters st) (o_remaining st ++ [a]))
      else
        let '(before, long_arg) := cut_eq a "" in
        let b1 := rest_chars before in                       (* one dash removed *)
        let two := starts_with "-" b1 in
        let name := if two then rest_chars b1 else b1 in
        match find_long name opt_table with
        | Some row =>
            if needs_arg row then
              let '(arg, rest', ok) :=
                match long_arg with
                | Some v => if String.eqb v "" then
                              match rest with x :: r => (x, r, true) | [] => ("", [], false) end
                            else (v, rest, true)
                | None => match rest with x :: r => (x, r, true) | [] => ("", [], false) end
                end in
              if negb ok then inr ENoArg else
              match store row arg st with
              | inr e => inr e
              | inl (st1, code) =>
                  match (if code =? 0 then inl st1 else special code arg st1) with
                  | inr e => inr e
                  | inl st2 => parse_loop f rest' st2
                  end
              end
            else
              match long_arg with
              | Some v => if String.eqb v "" then
                            match store row "" st with
                            | inr e => inr e
                            | inl (st1, code) =>
                                match (if code =? 0 then inl st1 else special code "" st1) with
                                | inr e => inr e | inl st2 => parse_loop f rest st2 end
                            end
                          else inr EUnwantedArg
              | None =>
                  match store row "" st with
                  | inr e => inr e
                  | inl (st1, code) =>
                      match (if code =? 0 then inl st1 else special code "" st1) with
                      | inr e => inr e | inl st2 => parse_loop f rest st2 end
                  end
              end
        | None =>
            if two then inr (EBadOpt a)
            else
              match short_bundle (S (String.length a)) (rest_chars a) rest st with
              | inr e => inr e
              | inl (st1, rest') => parse_loop f rest' st1
              end
        end
    end
  end.

(** the defaults ParseArguments derives after the loop (only what the
    transfer uses: recurse implies xfer_dirs) *)
Definition finish (st : ostate) : ostate :=
  let st1 := if negb (getf st "recurse" =? 0) then setf st "xfer_dirs" 1 else st in
  if getf st1 "xfer_dirs" <? 0 then setf st1 "xfer_dirs" (if negb (getf st1 "list_only" =? 0) then 1 else 0) else st1.

Definition total_len (args : list string) : nat :=
  fold_right (fun a n => (String.length a + n + 2)%nat) 1%nat args.

Definition parse_arguments (args : list string) : ostate + perr :=
  match parse_loop (total_len args) args init_state with
  | inr e => inr e
  | inl st => if 0 <? getf st "version_opt_cnt" then inr (EExit 0) else inl (finish st)
  end.

(** ** ServerOptions *)
Fixpoint accessor_field (a : string) (l : list (string * string)) : string :=
  match l with
  | [] => ""
  | (n, f) :: r => if String.eqb n a then f else accessor_field a r
  end.
Definition acc (st : ostate) (a : string) : bool := negb (getf st (accessor_field a opt_accessors) =? 0).

Fixpoint conds_hold (st : ostate) (cs : list (bool * string)) : bool :=
  match cs with
  | [] => true
  | (negated, a) :: r => (if negated then negb (acc st a) else acc st a) && conds_hold st r
  end.

Fixpoint server_items (items : list sopt_item) (st : ostate) (bundle : string) (out : list string) : list string :=
  match items with
  | [] => out
  | (cs, kind, text) :: r =>
      if negb (conds_hold st cs) then server_items r st bundle out
      else match kind with
           | 0%nat => server_items r st bundle (out ++ [text])
           | 1%nat => server_items r st (bundle ++ text)%string out
           | _ => server_items r st "-" (if String.eqb bundle "-" then out else out ++ [bundle])
           end
  end.
Definition server_options (st : ostate) : list string := server_items server_opt_items st "-" [].

(** the fields on which both ends must agree for the byte stream and the
    remote side's obligations *)
Definition wire_fields : list string :=
  ["recurse_bool"; "preserve_links"; "preserve_perms"; "preserve_mtimes"; "preserve_gid"; "preserve_uid";
   "preserve_devices"; "preserve_specials"; "always_checksum"; "ignore_times"; "dry_run"; "delete_mode"].
Definition wire_view (st : ostate) : list bool :=
  [negb (getf st "recurse" =? 0); negb (getf st "preserve_links" =? 0); negb (getf st "preserve_perms" =? 0);
   negb (getf st "preserve_mtimes" =? 0); negb (getf st "preserve_gid" =? 0); negb (getf st "preserve_uid" =? 0);
   negb (getf st "preserve_devices" =? 0); negb (getf st "preserve_specials" =? 0);
   negb (getf st "always_checksum" =? 0); negb (getf st "ignore_times" =? 0);
   negb (getf st "dry_run" =? 0); negb (getf st "delete_mode" =? 0)].
