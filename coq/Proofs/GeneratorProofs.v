From Coq Require Import ZArith List Bool Lia FMapPositive.
From RV Require Import Model.Bytes Model.Checksum Model.Delta Model.Sender Model.Generator
     Proofs.BytesProofs Proofs.DeltaProofs Proofs.SenderProofs Proofs.SearchInv Proofs.Identical Gen.Consts.
Import ListNotations.
Open Scope Z_scope.

(** ** the update decision *)
Section DecisionProofs.
  Variable Hplain : list Z -> list Z.

  (** The receiver requests a regular file iff it is missing, is not a
      regular file, its size differs, or: by default the mtime differs at
      one-second granularity; with -c the content checksum differs; with -I
      (and no -c) always. *)
  Lemma decision_request_iff ac it d ssize smtime scsum :
    gen_decision Hplain ac it d ssize smtime scsum <> DSkip <->
    match d with
    | DstMissing => True
    | DstOther => True
    | DstFile dsize dmtime dcontent =>
        dsize <> ssize \/
        (if ac then scsum <> Hplain dcontent
         else if it then True else dmtime <> smtime)
    end.
  Proof.
    destruct d as [| |dsize dmtime dcontent]; cbn [gen_decision]; try (split; [trivial|discriminate]).
    unfold skip_file.
    destruct (Z.eqb_spec dsize ssize) as [Es|Ns]; cbn [negb].
    - destruct ac.
      + destruct (list_eqb scsum (Hplain dcontent)) eqn:El.
        * apply list_eqb_eq in El. split; [congruence|]. intros [?|?]; congruence.
        * split; [|discriminate]. intros _. right. intros E. rewrite E, list_eqb_refl in El. discriminate.
      + destruct it.
        * split; [auto|discriminate].
        * destruct (Z.eqb_spec dmtime smtime) as [Em|Nm].
          -- split; [congruence|]. intros [?|?]; congruence.
          -- split; [auto|discriminate].
    - split; [auto|discriminate].
  Qed.

  (** a skipped file is one whose size matches (no update rule skips on a
      size difference) *)
  Lemma skip_implies_same_size ac it dsize dmtime dcontent ssize smtime scsum :
    skip_file Hplain ac it dsize dmtime dcontent ssize smtime scsum = true -> dsize = ssize.
  Proof.
    unfold skip_file. destruct (Z.eqb_spec dsize ssize); cbn [negb]; [auto|discriminate].
  Qed.

  (** An immediately repeated sync is a no-op: once the destination holds the
      source's bytes with the source's mtime (what a successful -t sync
      leaves), the default rule and the -c rule both skip. *)
  Lemma resync_skips ac content mtime :
    gen_decision Hplain ac false (DstFile (lenZ content) mtime content) (lenZ content) mtime (Hplain content) = DSkip.
  Proof.
    cbn [gen_decision]. unfold skip_file. rewrite Z.eqb_refl. cbn [negb].
    destruct ac; [now rewrite list_eqb_refl|now rewrite Z.eqb_refl].
  Qed.

  (** ... and -c alone skips whenever the content is the same, whatever the mtime *)
  Lemma checksum_skips_equal_content it content m1 m2 :
    gen_decision Hplain true it (DstFile (lenZ content) m1 content) (lenZ content) m2 (Hplain content) = DSkip.
  Proof.
    cbn [gen_decision]. unfold skip_file. rewrite Z.eqb_refl. cbn [negb]. now rewrite list_eqb_refl.
  Qed.

  (** any change of size or of mtime seconds is picked up by the default rule,
      -I always transfers *)
  Lemma change_detected dsize dmtime dcontent ssize smtime scsum :
    dsize <> ssize \/ dmtime <> smtime ->
    gen_decision Hplain false false (DstFile dsize dmtime dcontent) ssize smtime scsum = DDelta.
  Proof.
    intros Hc. cbn [gen_decision]. unfold skip_file.
    destruct (Z.eqb_spec dsize ssize); cbn [negb]; [|reflexivity].
    destruct (Z.eqb_spec dmtime smtime); [|reflexivity]. destruct Hc; congruence.
  Qed.

  Lemma ignore_times_always dsize dmtime dcontent ssize smtime scsum :
    gen_decision Hplain false true (DstFile dsize dmtime dcontent) ssize smtime scsum = DDelta.
  Proof.
    cbn [gen_decision]. unfold skip_file. destruct (negb (dsize =? ssize)); reflexivity.
  Qed.
End DecisionProofs.

(** ** the generator's sums are legal for the file they were computed over *)
Section SumsProofs.
  Variable H : list Z -> list Z.
  Variable seed : Z.
  Hypothesis H16 : forall x, lenZ (H x) = 16.

  Lemma gen_blocks_nth fuel blen : forall data k x,
    1 <= blen -> (length data <= fuel)%nat ->
    nth_error (gen_blocks H seed fuel blen data) k = Some x ->
    Z.of_nat k * blen < lenZ data /\
    x = (checksum1 (takeZ blen (dropZ (Z.of_nat k * blen) data)),
         checksum2 H seed (takeZ blen (dropZ (Z.of_nat k * blen) data))).
  Proof.
    induction fuel as [|fuel IH]; intros data k x Hb Hf Hn.
    - destruct k; discriminate.
    - cbn [gen_blocks] in Hn. destruct data as [|d0 data'] eqn:Ed; [destruct k; discriminate|].
      rewrite <- Ed in *.
      assert (Hpos : 1 <= lenZ data) by (rewrite Ed, lenZ_cons; pose proof (lenZ_nonneg data'); lia).
      destruct k as [|k]; cbn [nth_error] in Hn.
      + inversion Hn; subst x. cbn [Z.of_nat Z.mul]. rewrite dropZ_0. split; [lia|reflexivity].
      + assert (Hlen : (length (dropZ blen data) <= fuel)%nat).
        { rewrite dropZ_skipn, skipn_length. rewrite Ed in *. cbn [length] in *. lia. }
        destruct (IH (dropZ blen data) k x Hb Hlen Hn) as [Hlt ->].
        destruct (Z.le_ge_cases blen (lenZ data)) as [Hle|Hge].
        * rewrite lenZ_dropZ in Hlt by lia.
          rewrite dropZ_dropZ by lia.
          replace (blen + Z.of_nat k * blen) with (Z.of_nat (S k) * blen) by lia.
          split; [lia|reflexivity].
        * rewrite dropZ_all in Hlt by lia. rewrite lenZ_nil in Hlt. lia.
  Qed.

  Lemma sqroot_blen n : 0 <= n -> 700 <= h_blen (sum_sizes_sqroot n) /\ h_slen (sum_sizes_sqroot n) = 16 /\
    h_count (sum_sizes_sqroot n) = (n + (h_blen (sum_sizes_sqroot n) - 1)) / h_blen (sum_sizes_sqroot n) /\
    h_rem (sum_sizes_sqroot n) = n mod h_blen (sum_sizes_sqroot n).
  Proof.
    intros Hn. unfold sum_sizes_sqroot, c_blockSize, c_checksumLength. cbn [h_blen h_slen h_count h_rem].
    repeat split. lia.
  Qed.

  Lemma gen_sums_legal basis :
    sums_legal H seed basis (fst (gen_sums H seed basis)) (snd (gen_sums H seed basis)).
  Proof.
    unfold gen_sums. cbn [fst snd]. set (n := lenZ basis). set (h := sum_sizes_sqroot n).
    pose proof (lenZ_nonneg basis) as Hn0. fold n in Hn0.
    destruct (sqroot_blen n Hn0) as (Hb & Hs & Hc & Hr). fold h in Hb, Hs, Hc, Hr.
    intros i s1 s2 Hi Hnth.
    apply gen_blocks_nth in Hnth; [|lia|lia].
    rewrite Z2Nat.id in Hnth by lia. destruct Hnth as [Hlt E]. inversion E; subst s1 s2. clear E.
    fold n in Hlt.
    assert (Hn : 0 < n) by nia.
    assert (Hcnt : 0 <= i < h_count h).
    { split; [lia|]. rewrite Hc, div_ceil by lia.
      pose proof (Z.div_mod n (h_blen h) ltac:(lia)) as Ed.
      pose proof (Z.mod_pos_bound n (h_blen h) ltac:(lia)) as Er.
      set (q := n / h_blen h) in *. set (r := n mod h_blen h) in *.
      destruct (Z.eqb_spec r 0); nia. }
    pose proof (layout n (h_blen h) i Hn ltac:(lia) ltac:(rewrite <- Hc; exact Hcnt)) as L. cbv zeta in L.
    rewrite <- Hc, <- Hr in L. destruct L as (L1 & L2 & _ & _).
    assert (Hbl : block_len h i = Z.min (h_blen h) (n - i * h_blen h)) by (unfold block_len; exact L1).
    assert (Hblk : takeZ (h_blen h) (dropZ (i * h_blen h) basis) = blk basis h i).
    { unfold blk. rewrite Hbl.
      destruct (Z.le_ge_cases (h_blen h) (n - i * h_blen h)) as [Hle|Hge].
      - now rewrite Z.min_l by lia.
      - rewrite Z.min_r by lia. rewrite !takeZ_all; try reflexivity; rewrite lenZ_dropZ; fold n; nia || lia. }
    split; [|split; [nia|rewrite Hbl; fold n; nia || lia]].
    unfold strong. fold n. fold h. change (Z.max (Z.sqrt n) c_blockSize) with (h_blen h). rewrite Hs, Hblk. symmetry. apply takeZ_all. unfold checksum2. rewrite H16. lia.
  Qed.
End SumsProofs.

(** ** one file through generator, sender and receiver *)

Lemma enc_tokens_app a b : enc_tokens (a ++ b) = enc_tokens a ++ enc_tokens b.
Proof. unfold enc_tokens. apply flat_map_app. Qed.


(** ** one file through generator, sender and receiver *)
Section FileTransfer.
  Variable H : list Z -> list Z.
  Variable seed : Z.
  Variable chunk : Z.
  Hypothesis H16 : forall x, lenZ (H x) = 16.
  Hypothesis Hchunk : 1 <= chunk < 2147483648.

  Lemma head_valid_sqroot n : 0 <= n < 1099511627776 -> head_valid (sum_sizes_sqroot n).
  Proof.
    intros Hn. unfold head_valid, sum_sizes_sqroot, c_blockSize, c_checksumLength, c_maxBlockLen.
    cbn [h_count h_blen h_slen h_rem].
    assert (Hsq : 0 <= Z.sqrt n < 1048576).
    { split; [apply Z.sqrt_nonneg|]. apply Z.sqrt_lt_square; lia. }
    set (bl := Z.max (Z.sqrt n) 700). assert (700 <= bl < 1048576) by (unfold bl; lia).
    pose proof (Z.mod_pos_bound n bl ltac:(lia)).
    assert (0 <= (n + (bl - 1)) / bl) by (apply Z.div_pos; lia).
    assert ((n + (bl - 1)) / bl < 2147483648) by (apply Z.div_lt_upper_bound; lia).
    lia.
  Qed.

  Lemma is_lit_lit_only ts : Forall is_lit ts -> Forall lit_only ts.
  Proof. induction 1 as [|t ts Ht _ IH]; constructor; [destruct t; exact Ht|exact IH]. Qed.

  (** a literal-only transmission commits the source whatever the basis *)
  Lemma lits_transfer bopt h' rt src :
    head_valid h' -> Forall is_lit rt -> Forall wf_token rt ->
    denote [] h' (rev rt) = Some src ->
    fst (receive_data H seed bopt (enc_file h' (rev rt) (filesum H seed src))) = Commit src.
  Proof.
    intros Hh Hl Hw Hd. unfold enc_file, receive_data.
    rewrite (read_head_enc H h' _ Hh).
    destruct (recv_tokens_exact_lits H seed bopt h' (rev rt)
                (Forall_rev Hw) (is_lit_lit_only _ (Forall_rev Hl))
                (S (length (enc_tokens (rev rt) ++ le32 0 ++ filesum H seed src))) [] (filesum H seed src) [])
      as (d & Hd' & E).
    - clear. rewrite app_length. generalize (rev rt). intros ts.
      induction ts as [|t ts IHts]; cbn [enc_tokens flat_map length]; [lia|].
      fold (enc_tokens ts). rewrite app_length.
      assert (1 <= length (enc_token t))%nat by (destruct t; cbn; lia). lia.
    - unfold filesum. apply H16.
    - rewrite app_nil_r in E. rewrite E. rewrite Hd in Hd'. inversion Hd'; subst d.
      cbn [app]. now rewrite list_eqb_refl.
  Qed.

  Lemma whole_transfer bopt src :
    lenZ src < 1099511627776 ->
    fst (receive_data H seed bopt
           (enc_file (sum_sizes_sqroot (lenZ src)) (rev (lit_chunks (length src) chunk src [])) (filesum H seed src)))
    = Commit src.
  Proof.
    intros Hn. pose proof (lenZ_nonneg src).
    assert (Hr : rcov H seed chunk (mkHead 0 0 0 0) [] src (lit_chunks (length src) chunk src []) (0 + lenZ src)).
    { apply lit_chunks_rcov; [lia|constructor| |lia|lia]. rewrite dropZ_0, takeZ_all; [reflexivity|lia]. }
    apply lits_transfer.
    - apply head_valid_sqroot. lia.
    - apply lit_chunks_lits. constructor.
    - eapply rcov_wf; [exact Hr|lia|cbn; lia].
    - apply (whole_exact H seed chunk ltac:(lia) [] (mkHead 0 0 0 0) [] src).
  Qed.

  (** The whole pipeline for one file: whatever the destination held (nothing,
      or any file used as delta basis), the receiver commits exactly the
      source bytes — unless a window of the source collides with a different
      basis block under the 16-byte strong checksum. *)
  Theorem file_transfer_correct src dst :
    lenZ src < 1099511627776 ->
    match dst with
    | Some b => lenZ b < 1099511627776 /\ no_collision H seed b (fst (gen_sums H seed b)) src
    | None => True
    end ->
    file_transfer H seed chunk src dst = Commit src.
  Proof.
    intros Hsrc Hdst. unfold file_transfer.
    destruct dst as [b|].
    - destruct Hdst as [Hb Hnc].
      destruct (gen_sums H seed b) as [h sums] eqn:Eg.
      assert (Eh : h = fst (gen_sums H seed b)) by (now rewrite Eg).
      assert (Es : sums = snd (gen_sums H seed b)) by (now rewrite Eg).
      pose proof (lenZ_nonneg b) as Hb0.
      assert (Ehh : h = sum_sizes_sqroot (lenZ b)) by (rewrite Eh; reflexivity).
      assert (Hblen : 1 <= h_blen h).
      { rewrite Ehh. destruct (sqroot_blen (lenZ b) Hb0) as (Hbl & _). lia. }
      assert (Hrm : 0 <= h_rem h).
      { rewrite Ehh. destruct (sqroot_blen (lenZ b) Hb0) as (Hbl & _ & _ & Hrem). rewrite Hrem.
        apply Z.mod_pos_bound. lia. }
      destruct (send_one_total H seed chunk h sums src ltac:(lia) Hblen Hrm) as (h' & toks & tr & Esend).
      rewrite Esend.
      destruct (send_one_rcov H seed chunk ltac:(lia) h sums src Hblen Hrm h' toks tr Esend)
        as (rt & -> & Hr & -> & [(-> & Hne & Hsz)|(-> & Hl)]).
      + (* delta transmission *)
        assert (Hleg : sums_legal H seed b h sums) by (rewrite Eh, Es; apply gen_sums_legal; exact H16).
        rewrite Eh in Hnc. rewrite <- Eh in Hnc.
        destruct (send_one_exact H seed chunk ltac:(lia) b h sums src Hblen Hrm h (rev rt) _ Esend Hleg Hnc) as [Hden _].
        assert (Hv : head_valid h) by (rewrite Ehh; apply head_valid_sqroot; lia).
        assert (Hw : Forall wf_token (rev rt)).
        { apply Forall_rev. eapply rcov_wf; [exact Hr|lia|].
          (* the list has at most ceil(n/blen) entries *)
          destruct (length sums) as [|k] eqn:El; [lia|].
          destruct (nth_error sums k) as [x|] eqn:En; [|apply nth_error_None in En; lia].
          rewrite Es in En. unfold gen_sums in En. cbn [snd] in En.
          assert (H700 : 700 <= h_blen (sum_sizes_sqroot (lenZ b))).
          { destruct (sqroot_blen (lenZ b) Hb0) as (Hbl & _). exact Hbl. }
          pose proof (gen_blocks_nth H seed H16 (length b) (h_blen (sum_sizes_sqroot (lenZ b))) b k x ltac:(lia) (le_n _) En) as [Hlt _]. nia. }
        pose proof (receive_data_exact H seed b h (rev rt) (filesum H seed src) [] Hv Hw
                      ltac:(unfold filesum; apply H16)) as Erecv.
        rewrite Hden in Erecv. unfold enc_file. rewrite app_nil_r in Erecv. rewrite Erecv.
        now rewrite list_eqb_refl.
      + (* the sender fell back to the whole file: literals only *)
        assert (Hw : Forall wf_token rt).
        { eapply rcov_wf; [exact Hr|lia|].
          destruct (length sums) as [|k] eqn:El; [lia|].
          destruct (nth_error sums k) as [x|] eqn:En; [|apply nth_error_None in En; lia].
          rewrite Es in En. unfold gen_sums in En. cbn [snd] in En.
          assert (H700 : 700 <= h_blen (sum_sizes_sqroot (lenZ b))).
          { destruct (sqroot_blen (lenZ b) Hb0) as (Hbl & _). exact Hbl. }
          pose proof (gen_blocks_nth H seed H16 (length b) (h_blen (sum_sizes_sqroot (lenZ b))) b k x ltac:(lia) (le_n _) En) as [Hlt _]. nia. }
        apply lits_transfer; [apply head_valid_sqroot; pose proof (lenZ_nonneg src); lia|exact Hl|exact Hw|].
        rewrite (denote_lits [] (sum_sizes_sqroot (lenZ src)) b h) by (apply Forall_rev; exact Hl).
        assert (Hgen : forall rt0 q, rcov H seed chunk h sums src rt0 q -> Forall is_lit rt0 ->
                          denote b h (rev rt0) = Some (takeZ q src)).
        { induction 1 as [|bs rt0 q Hr' IH Hbs Hlen Hq|i rt0 q Hr' IH Hj]; intros Hl0.
          - cbn. now rewrite takeZ_0.
          - cbn [rev]. rewrite denote_app, IH by (inversion Hl0; assumption). cbn [denote]. f_equal.
            rewrite app_nil_r. rewrite Hbs at 1.
            pose proof (rcov_nonneg _ _ _ _ _ _ _ _ Hr'). apply takeZ_takeZ_dropZ; lia.
          - inversion Hl0 as [|? ? Hbad _]. destruct Hbad. }
        rewrite (Hgen _ _ Hr Hl). f_equal. apply takeZ_all. lia.
    - cbn [send_one]. unfold send_whole. apply whole_transfer. exact Hsrc.
  Qed.
End FileTransfer.

Lemma gen_then_send_total :
  forall (H : list Z -> list Z) seed chunk src b,
    1 <= chunk ->
    exists h' toks tr,
      send_one H seed chunk (fst (gen_sums H seed b)) (snd (gen_sums H seed b)) src = SOk h' toks tr.
Proof.
  intros H seed chunk src b Hc.
  apply send_one_total; [exact Hc| |].
  - unfold gen_sums, sum_sizes_sqroot, c_blockSize. cbn [fst h_blen].
    pose proof (Z.le_max_r (Z.sqrt (lenZ b)) 700). lia.
  - unfold gen_sums, sum_sizes_sqroot, c_blockSize. cbn [fst h_rem].
    apply Z.mod_pos_bound. pose proof (Z.le_max_r (Z.sqrt (lenZ b)) 700). lia.
Qed.
