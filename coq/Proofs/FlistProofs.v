From Coq Require Import ZArith List Bool Lia Permutation Sorted.
From RV Require Import Model.Bytes Model.Flist Proofs.BytesProofs Gen.Consts.
Import ListNotations.
Open Scope Z_scope.

Ltac Zify.zify_post_hook ::= Z.div_mod_to_equations.

(** ** flag bits *)
Lemma flags_decode c :
  has_flag (flags_of c) c_XMIT_SAME_NAME = (0 <? ch_l1 c) /\
  has_flag (flags_of c) c_XMIT_LONG_NAME = ch_long c /\
  has_flag (flags_of c) c_XMIT_SAME_TIME = ch_same_time c /\
  has_flag (flags_of c) c_XMIT_SAME_MODE = ch_same_mode c /\
  has_flag (flags_of c) c_XMIT_SAME_UID = ch_same_uid c /\
  has_flag (flags_of c) c_XMIT_SAME_GID = ch_same_gid c /\
  has_flag (flags_of c) c_XMIT_SAME_RDEV_pre28 = ch_same_rdev c /\
  0 <= flags_of c < 256.
Proof.
  destruct c as [l1 lg st sm su sg sr tp]. unfold flags_of.
  cbn [ch_l1 ch_long ch_same_time ch_same_mode ch_same_uid ch_same_gid ch_same_rdev ch_top].
  destruct (0 <? l1), lg, st, sm, su, sg, sr, tp; vm_compute; repeat split; congruence.
Qed.

Lemma rd8_cons b s : rd8 (b :: s) = Some (b, s).
Proof. reflexivity. Qed.

(** ** one entry *)

Definition i32 (v : Z) : Prop := -2147483648 <= v < 2147483648.

Record entry_ok (o : fopts) (e : fentry) : Prop := {
  ok_clean : path_clean (e_name e) = e_name e;
  ok_namelen : lenZ (e_name e) < c_PATH_MAX;
  ok_len : -9223372036854775808 <= e_len e < 9223372036854775808;
  ok_mtime : i32 (e_mtime e); ok_mode : i32 (e_mode e);
  ok_uid : i32 (e_uid e); ok_gid : i32 (e_gid e); ok_rdev : i32 (e_rdev e);
  ok_link : lenZ (e_link e) < 2147483648;
  (* fields that are not transmitted under [o] carry their zero value *)
  canon_uid : o_uid o = false -> e_uid e = 0;
  canon_gid : o_gid o = false -> e_gid e = 0;
  canon_rdev : receiver_has_rdev o (e_mode e) = false -> e_rdev e = 0;
  canon_link : o_links o && is_link (e_mode e) = false -> e_link e = [];
  canon_csum : if o_checksum o then lenZ (e_csum e) = 16 else e_csum e = []
}.

(** what a conforming sender may choose for [e] after [prev] *)
Record choice_ok (prev e : fentry) (c : choice) : Prop := {
  co_l1 : 0 <= ch_l1 c <= 255;
  co_l1_name : ch_l1 c <= lenZ (e_name e);
  co_l1_prev : ch_l1 c <= lenZ (e_name prev);
  co_prefix : takeZ (ch_l1 c) (e_name prev) = takeZ (ch_l1 c) (e_name e);
  co_short : ch_long c = false -> lenZ (e_name e) - ch_l1 c <= 255;
  co_time : ch_same_time c = true -> e_mtime e = e_mtime prev;
  co_mode : ch_same_mode c = true -> e_mode e = e_mode prev;
  co_uid : ch_same_uid c = true -> e_uid e = e_uid prev;
  co_gid : ch_same_gid c = true -> e_gid e = e_gid prev;
  co_rdev : ch_same_rdev c = true -> e_rdev e = e_rdev prev;
  co_nonzero : flags_of c <> 0
}.

Lemma opt_field_present same lastv v s :
  i32 v -> (same = true -> v = lastv) ->
  opt_field true same lastv ((if same then [] else le32 v) ++ s) = Some (v, s).
Proof.
  intros Hv Hs. unfold opt_field. destruct same.
  - cbn [app]. now rewrite Hs.
  - apply rd32_le32. exact Hv.
Qed.

Lemma inherit_prefix l1 (prev name : list Z) :
  0 <= l1 <= lenZ prev -> takeZ l1 prev = takeZ l1 name -> l1 <= lenZ name ->
  inherit l1 prev ++ dropZ l1 name = name.
Proof.
  intros Hl Hp Hn. unfold inherit.
  replace (Z.to_nat (l1 - lenZ prev)) with 0%nat by lia. cbn [zeros]. rewrite app_nil_r.
  rewrite Hp. apply takeZ_app_dropZ.
Qed.

Lemma recv_entry_enc has_rdev o prev e c rest :
  entry_ok o e -> choice_ok prev e c ->
  has_rdev o (e_mode e) = receiver_has_rdev o (e_mode e) ->
  exists tl, enc_entry has_rdev o c e = flags_of c :: tl /\
    recv_entry o (flags_of c) prev (tl ++ rest) = inl (e, rest).
Proof.
  intros He Hc Hrd. destruct He, Hc.
  destruct (flags_decode c) as (F1 & F2 & F3 & F4 & F5 & F6 & F7 & F8).
  unfold enc_entry. cbn [app]. eexists. split; [reflexivity|].
  unfold recv_entry. rewrite F1, F2, F3, F4, F5, F6, F7.
  set (suffix := dropZ (ch_l1 c) (e_name e)).
  assert (Hsl : lenZ suffix = lenZ (e_name e) - ch_l1 c) by (unfold suffix; apply lenZ_dropZ; lia).
  pose proof (lenZ_nonneg suffix) as Hs0.
  (* inherited prefix length *)
  assert (S1 : (if 0 <? ch_l1 c then rd8 (((if 0 <? ch_l1 c then [ch_l1 c] else []) ++ (if ch_long c then le32 (lenZ suffix) else [lenZ suffix]) ++ suffix ++ enc_i64 (e_len e) ++ (if ch_same_time c then [] else le32 (e_mtime e)) ++ (if ch_same_mode c then [] else le32 (e_mode e)) ++ (if o_uid o then if ch_same_uid c then [] else le32 (e_uid e) else []) ++ (if o_gid o then if ch_same_gid c then [] else le32 (e_gid e) else []) ++ (if has_rdev o (e_mode e) then if ch_same_rdev c then [] else le32 (e_rdev e) else []) ++ (if o_links o && is_link (e_mode e) then le32 (lenZ (e_link e)) ++ e_link e else []) ++ (if o_checksum o then e_csum e else [])) ++ rest)
          else Some (0, ((if 0 <? ch_l1 c then [ch_l1 c] else []) ++ (if ch_long c then le32 (lenZ suffix) else [lenZ suffix]) ++ suffix ++ enc_i64 (e_len e) ++ (if ch_same_time c then [] else le32 (e_mtime e)) ++ (if ch_same_mode c then [] else le32 (e_mode e)) ++ (if o_uid o then if ch_same_uid c then [] else le32 (e_uid e) else []) ++ (if o_gid o then if ch_same_gid c then [] else le32 (e_gid e) else []) ++ (if has_rdev o (e_mode e) then if ch_same_rdev c then [] else le32 (e_rdev e) else []) ++ (if o_links o && is_link (e_mode e) then le32 (lenZ (e_link e)) ++ e_link e else []) ++ (if o_checksum o then e_csum e else [])) ++ rest))
         = Some (ch_l1 c, ((if ch_long c then le32 (lenZ suffix) else [lenZ suffix]) ++ suffix ++ enc_i64 (e_len e) ++ (if ch_same_time c then [] else le32 (e_mtime e)) ++ (if ch_same_mode c then [] else le32 (e_mode e)) ++ (if o_uid o then if ch_same_uid c then [] else le32 (e_uid e) else []) ++ (if o_gid o then if ch_same_gid c then [] else le32 (e_gid e) else []) ++ (if has_rdev o (e_mode e) then if ch_same_rdev c then [] else le32 (e_rdev e) else []) ++ (if o_links o && is_link (e_mode e) then le32 (lenZ (e_link e)) ++ e_link e else []) ++ (if o_checksum o then e_csum e else [])) ++ rest)).
  { destruct (Z.ltb_spec 0 (ch_l1 c)); cbn [app rd8]; [reflexivity|]. f_equal. f_equal. lia. }
  rewrite S1. clear S1.
  (* name length *)
  assert (S2 : (if ch_long c then rd32 (((if ch_long c then le32 (lenZ suffix) else [lenZ suffix]) ++ suffix ++ enc_i64 (e_len e) ++ (if ch_same_time c then [] else le32 (e_mtime e)) ++ (if ch_same_mode c then [] else le32 (e_mode e)) ++ (if o_uid o then if ch_same_uid c then [] else le32 (e_uid e) else []) ++ (if o_gid o then if ch_same_gid c then [] else le32 (e_gid e) else []) ++ (if has_rdev o (e_mode e) then if ch_same_rdev c then [] else le32 (e_rdev e) else []) ++ (if o_links o && is_link (e_mode e) then le32 (lenZ (e_link e)) ++ e_link e else []) ++ (if o_checksum o then e_csum e else [])) ++ rest)
          else rd8 (((if ch_long c then le32 (lenZ suffix) else [lenZ suffix]) ++ suffix ++ enc_i64 (e_len e) ++ (if ch_same_time c then [] else le32 (e_mtime e)) ++ (if ch_same_mode c then [] else le32 (e_mode e)) ++ (if o_uid o then if ch_same_uid c then [] else le32 (e_uid e) else []) ++ (if o_gid o then if ch_same_gid c then [] else le32 (e_gid e) else []) ++ (if has_rdev o (e_mode e) then if ch_same_rdev c then [] else le32 (e_rdev e) else []) ++ (if o_links o && is_link (e_mode e) then le32 (lenZ (e_link e)) ++ e_link e else []) ++ (if o_checksum o then e_csum e else [])) ++ rest))
         = Some (lenZ suffix, (suffix ++ enc_i64 (e_len e) ++ (if ch_same_time c then [] else le32 (e_mtime e)) ++ (if ch_same_mode c then [] else le32 (e_mode e)) ++ (if o_uid o then if ch_same_uid c then [] else le32 (e_uid e) else []) ++ (if o_gid o then if ch_same_gid c then [] else le32 (e_gid e) else []) ++ (if has_rdev o (e_mode e) then if ch_same_rdev c then [] else le32 (e_rdev e) else []) ++ (if o_links o && is_link (e_mode e) then le32 (lenZ (e_link e)) ++ e_link e else []) ++ (if o_checksum o then e_csum e else [])) ++ rest)).
  { unfold c_PATH_MAX in *. destruct (ch_long c).
    - rewrite <- app_assoc. apply rd32_le32. lia.
    - reflexivity. }
  rewrite S2. clear S2.
  unfold c_PATH_MAX in *.
  replace ((lenZ suffix <? 0) || (4096 - ch_l1 c <=? lenZ suffix)) with false
    by (symmetry; apply orb_false_iff; split; [apply Z.ltb_ge|apply Z.leb_gt]; lia).
  rewrite <- app_assoc, take_app.
  unfold suffix. rewrite inherit_prefix by (auto; lia). rewrite ok_clean0.
  rewrite <- app_assoc, rd_i64_enc by exact ok_len0.
  rewrite <- app_assoc, opt_field_present by auto.
  rewrite <- app_assoc, opt_field_present by auto.
  (* uid *)
  assert (S3 : forall tl, opt_field (o_uid o) (ch_same_uid c) (e_uid prev)
            ((if o_uid o then if ch_same_uid c then [] else le32 (e_uid e) else []) ++ tl) = Some (e_uid e, tl)).
  { intros tl. destruct (o_uid o) eqn:Eu.
    - apply opt_field_present; auto.
    - unfold opt_field. cbn [app]. now rewrite canon_uid0. }
  rewrite <- app_assoc, S3. clear S3.
  assert (S4 : forall tl, opt_field (o_gid o) (ch_same_gid c) (e_gid prev)
            ((if o_gid o then if ch_same_gid c then [] else le32 (e_gid e) else []) ++ tl) = Some (e_gid e, tl)).
  { intros tl. destruct (o_gid o) eqn:Eu.
    - apply opt_field_present; auto.
    - unfold opt_field. cbn [app]. now rewrite canon_gid0. }
  rewrite <- app_assoc, S4. clear S4.
  rewrite Hrd.
  assert (S5 : forall tl, opt_field (receiver_has_rdev o (e_mode e)) (ch_same_rdev c) (e_rdev prev)
            ((if receiver_has_rdev o (e_mode e) then if ch_same_rdev c then [] else le32 (e_rdev e) else []) ++ tl) = Some (e_rdev e, tl)).
  { intros tl. destruct (receiver_has_rdev o (e_mode e)) eqn:Eu.
    - apply opt_field_present; auto.
    - unfold opt_field. cbn [app]. now rewrite canon_rdev0. }
  rewrite <- app_assoc, S5. clear S5.
  rewrite <- app_assoc.
  destruct (o_links o && is_link (e_mode e)) eqn:El.
  - rewrite <- !app_assoc. pose proof (lenZ_nonneg (e_link e)).
    rewrite rd32_le32 by lia.
    replace (lenZ (e_link e) <? 0) with false by (symmetry; apply Z.ltb_ge; lia).
    rewrite take_app.
    destruct (o_checksum o).
    + rewrite <- canon_csum0, take_app. destruct e; reflexivity.
    + cbn [app]. destruct e; cbn in *; subst; reflexivity.
  - cbn [app]. pose proof (canon_link0 eq_refl) as Hlk.
    destruct (o_checksum o).
    + rewrite <- canon_csum0, take_app. destruct e; cbn in *; subst. reflexivity.
    + cbn [app]. destruct e; cbn in *; subst; reflexivity.
Qed.

(** ** the whole entry list *)

Inductive chain_ok (o : fopts) : fentry -> list (choice * fentry) -> Prop :=
| chain_nil prev : chain_ok o prev []
| chain_cons prev c e r :
    entry_ok o e -> choice_ok prev e c -> chain_ok o e r -> chain_ok o prev ((c, e) :: r).

Lemma recv_entries_enc has_rdev o : forall ces prev fuel acc rest,
  chain_ok o prev ces ->
  (forall c e, In (c, e) ces -> has_rdev o (e_mode e) = receiver_has_rdev o (e_mode e)) ->
  (length ces < fuel)%nat ->
  recv_entries fuel o prev (enc_entries has_rdev o ces ++ 0 :: rest) acc
  = inl (rev acc ++ map snd ces, rest).
Proof.
  induction ces as [|[c e] r IH]; intros prev fuel acc rest Hch Hrd Hf.
  - destruct fuel; [cbn in Hf; lia|]. cbn. now rewrite app_nil_r.
  - destruct fuel as [|fuel]; [cbn in Hf; lia|]. cbn [length] in Hf.
    inversion Hch as [|? ? ? ? He Hc Hr]; subst.
    cbn [enc_entries recv_entries].
    destruct (recv_entry_enc has_rdev o prev e c (enc_entries has_rdev o r ++ 0 :: rest) He Hc
                (Hrd c e (or_introl eq_refl))) as (tl & Etl & Erecv).
    rewrite Etl. cbn [app rd8].
    destruct (Z.eqb_spec (flags_of c) 0) as [E0|_]; [destruct Hc; contradiction|].
    rewrite <- app_assoc in *. rewrite Erecv.
    rewrite IH; [|exact Hr|intros c' e' Hin; apply (Hrd c' e'); right; exact Hin|lia].
    cbn [rev map snd]. now rewrite <- app_assoc.
Qed.

(** ** id lists *)
Definition id_ok (p : Z * list Z) : Prop :=
  fst p <> 0 /\ i32 (fst p) /\ lenZ (snd p) <= 255.

Lemma recv_idlist_enc : forall l fuel acc rest,
  Forall id_ok l -> (length l < fuel)%nat ->
  recv_idlist fuel (enc_idlist l ++ rest) acc = Some (rev acc ++ l, rest).
Proof.
  induction l as [|[id name] r IH]; intros fuel acc rest Hok Hf.
  - destruct fuel; [cbn in Hf; lia|]. cbn [enc_idlist recv_idlist].
    rewrite rd32_le32 by lia. cbn. now rewrite app_nil_r.
  - destruct fuel as [|fuel]; [cbn in Hf; lia|]. cbn [length] in Hf.
    inversion Hok as [|? ? (Hnz & Hi & Hl) Hr]; subst. cbn [fst snd] in *.
    cbn [enc_idlist recv_idlist]. rewrite <- !app_assoc. rewrite rd32_le32 by exact Hi.
    destruct (Z.eqb_spec id 0); [contradiction|].
    cbn [app rd8]. pose proof (lenZ_nonneg name).
    replace (lenZ name mod 256) with (lenZ name) by lia.
    rewrite take_app. rewrite IH by (auto; lia).
    cbn [rev]. now rewrite <- app_assoc.
Qed.

(** ** sorting by name *)
Definition name_le (a b : fentry) : Prop := lex_ltb (e_name b) (e_name a) = false.

Lemma insert_perm e l : Permutation (insert_sorted e l) (e :: l).
Proof.
  induction l as [|x r IH]; cbn [insert_sorted]; [reflexivity|].
  destruct (lex_ltb (e_name e) (e_name x)); [reflexivity|].
  rewrite IH. apply perm_swap.
Qed.

Lemma sort_perm l : Permutation (sort_entries l) l.
Proof.
  induction l as [|x r IH]; cbn; [reflexivity|].
  unfold sort_entries in *. cbn [fold_right]. rewrite insert_perm. now constructor.
Qed.

Lemma lex_ltb_irrefl a : lex_ltb a a = false.
Proof. induction a as [|x a IH]; cbn; [reflexivity|]. now rewrite Z.ltb_irrefl. Qed.

Lemma lex_total a : forall b, lex_ltb a b = false -> lex_ltb b a = false -> a = b.
Proof.
  induction a as [|x a IH]; intros [|y b]; cbn [lex_ltb]; try congruence.
  destruct (Z.ltb_spec x y); [discriminate|]. destruct (Z.ltb_spec y x); [discriminate|].
  intros H1 H2. assert (x = y) by lia. subst. f_equal. now apply IH.
Qed.

Lemma lex_asym a : forall b, lex_ltb a b = true -> lex_ltb b a = false.
Proof.
  induction a as [|x a IH]; intros [|y b]; cbn [lex_ltb]; try congruence.
  destruct (Z.ltb_spec x y); destruct (Z.ltb_spec y x); try lia; auto.
Qed.

Lemma lex_trans a : forall b c, lex_ltb a b = true -> lex_ltb b c = true -> lex_ltb a c = true.
Proof.
  induction a as [|x a IH]; intros [|y b] [|z c]; cbn [lex_ltb]; try congruence.
  destruct (Z.ltb_spec x y); destruct (Z.ltb_spec y x); destruct (Z.ltb_spec y z); destruct (Z.ltb_spec z y);
    destruct (Z.ltb_spec x z); destruct (Z.ltb_spec z x); try lia; try congruence; eauto.
Qed.

(** strictly increasing names *)
Fixpoint strictly_sorted (l : list fentry) : Prop :=
  match l with
  | [] => True
  | x :: r => (forall y, In y r -> lex_ltb (e_name x) (e_name y) = true) /\ strictly_sorted r
  end.

Lemma insert_strict e l :
  strictly_sorted l -> (forall y, In y l -> e_name y <> e_name e) ->
  strictly_sorted (insert_sorted e l).
Proof.
  induction l as [|x r IH]; intros Hs Hd; cbn [insert_sorted].
  - cbn. auto.
  - destruct Hs as [Hx Hr].
    destruct (lex_ltb (e_name e) (e_name x)) eqn:El.
    + cbn [strictly_sorted]. split; [|split; assumption].
      intros y [<-|Hy]; [exact El|]. eapply lex_trans; [exact El|apply Hx, Hy].
    + cbn [strictly_sorted]. split.
      * intros y Hy. apply (Permutation_in _ (insert_perm e r)) in Hy. destruct Hy as [<-|Hy]; [|apply Hx, Hy].
        destruct (lex_ltb (e_name x) (e_name e)) eqn:E2; [reflexivity|].
        exfalso. apply (Hd x (or_introl eq_refl)). symmetry. now apply lex_total.
      * apply IH; [exact Hr|]. intros y Hy. apply Hd. now right.
Qed.

Lemma sort_strict l : NoDup (map e_name l) -> strictly_sorted (sort_entries l).
Proof.
  induction l as [|x r IH]; intros Hnd; [exact I|].
  inversion Hnd as [|? ? Hnin Hnd']; subst.
  change (sort_entries (x :: r)) with (insert_sorted x (sort_entries r)).
  apply insert_strict; [now apply IH|].
  intros y Hy E. apply Hnin. apply (Permutation_in _ (sort_perm r)) in Hy.
  rewrite <- E. now apply in_map.
Qed.

(** two strictly sorted lists with the same elements are the same list:
    sender and receiver number the files identically *)
Lemma strictly_sorted_unique : forall l1 l2,
  strictly_sorted l1 -> strictly_sorted l2 -> Permutation l1 l2 -> l1 = l2.
Proof.
  induction l1 as [|x r IH]; intros l2 H1 H2 Hp.
  - apply Permutation_nil in Hp. now subst.
  - destruct l2 as [|y r2]; [apply Permutation_sym, Permutation_nil in Hp; discriminate|].
    destruct H1 as [Hx Hr]. destruct H2 as [Hy Hr2].
    assert (Exy : x = y).
    { assert (Hin1 : In x (y :: r2)) by (eapply Permutation_in; [exact Hp|now left]).
      assert (Hin2 : In y (x :: r)) by (eapply Permutation_in; [apply Permutation_sym; exact Hp|now left]).
      destruct Hin1 as [->|Hin1]; [reflexivity|]. destruct Hin2 as [->|Hin2]; [reflexivity|].
      pose proof (Hy x Hin1) as A. pose proof (Hx y Hin2) as B.
      apply lex_asym in A. congruence. }
    subst y. f_equal. apply IH; [exact Hr|exact Hr2|]. eapply Permutation_cons_inv; exact Hp.
Qed.

Lemma find_in_list_spec name l : find_in_list name l = true <-> exists x, In x l /\ e_name x = name.
Proof.
  induction l as [|x r IH]; cbn [find_in_list].
  - split; [discriminate|]. intros (x & [] & _).
  - rewrite orb_true_iff, list_eqb_eq, IH. split.
    + intros [E|(y & Hy & Ey)]; [exists x; split; [now left|exact E]|exists y; split; [now right|exact Ey]].
    + intros (y & [<-|Hy] & Ey); [now left|right; eauto].
Qed.

(** ** the whole file list *)
Theorem recv_file_list_enc has_rdev o ces uids gids ioerr rest :
  chain_ok o empty_entry ces ->
  (forall c e, In (c, e) ces -> has_rdev o (e_mode e) = receiver_has_rdev o (e_mode e)) ->
  Forall id_ok uids -> Forall id_ok gids -> i32 ioerr ->
  recv_file_list o (enc_entries has_rdev o ces ++ enc_trailer o uids gids ioerr ++ rest)
  = inl (mkFR (sort_entries (map snd ces))
              (if o_uid o then uids else []) (if o_gid o then gids else []) ioerr rest).
Proof.
  intros Hch Hrd Hu Hg Hio. unfold recv_file_list, enc_trailer.
  cbn [app].
  rewrite (recv_entries_enc has_rdev o ces empty_entry _ [] _ Hch Hrd).
  2:{ rewrite app_length. cbn [length].
      assert (length ces <= length (enc_entries has_rdev o ces))%nat; [|lia].
      clear. induction ces as [|[c e] r IH]; cbn [enc_entries length]; [lia|].
      rewrite app_length. assert (1 <= length (enc_entry has_rdev o c e))%nat by (unfold enc_entry; cbn [app length]; lia). lia. }
  cbn [rev app].
  assert (Su : forall tl, (if o_uid o then recv_idlist (S (length ((if o_uid o then enc_idlist uids else []) ++ tl)))
                                          ((if o_uid o then enc_idlist uids else []) ++ tl) []
                          else Some ([], (if o_uid o then enc_idlist uids else []) ++ tl))
                         = Some ((if o_uid o then uids else []), tl)).
  { intros tl. destruct (o_uid o); [|reflexivity].
    rewrite recv_idlist_enc; [reflexivity|exact Hu|].
    rewrite app_length. assert (length uids <= length (enc_idlist uids))%nat; [|lia].
    clear. induction uids as [|[i n] r IH]; cbn [enc_idlist length]; [lia|]. rewrite !app_length. cbn [length le32]. lia. }
  rewrite <- !app_assoc. rewrite Su.
  assert (Sg : forall tl, (if o_gid o then recv_idlist (S (length ((if o_gid o then enc_idlist gids else []) ++ tl)))
                                          ((if o_gid o then enc_idlist gids else []) ++ tl) []
                          else Some ([], (if o_gid o then enc_idlist gids else []) ++ tl))
                         = Some ((if o_gid o then gids else []), tl)).
  { intros tl. destruct (o_gid o); [|reflexivity].
    rewrite recv_idlist_enc; [reflexivity|exact Hg|].
    rewrite app_length. assert (length gids <= length (enc_idlist gids))%nat; [|lia].
    clear. induction gids as [|[i n] r IH]; cbn [enc_idlist length]; [lia|]. rewrite !app_length. cbn [length le32]. lia. }
  rewrite Sg. rewrite rd32_le32 by exact Hio. reflexivity.
Qed.

(** ** the implementation's own encoder *)
Lemma gokr_choice_ok prev e : choice_ok prev e (gokr_choice e).
Proof.
  pose proof (lenZ_nonneg (e_name e)). pose proof (lenZ_nonneg (e_name prev)).
  constructor; cbn [gokr_choice ch_l1 ch_long ch_same_time ch_same_mode ch_same_uid ch_same_gid ch_same_rdev ch_top];
    try lia; try (intros Hx; discriminate Hx); try (now rewrite !takeZ_0).
  unfold flags_of, gokr_choice. cbn [ch_l1 ch_long ch_same_time ch_same_mode ch_same_uid ch_same_gid ch_same_rdev ch_top b2z].
  destruct (list_eqb (e_name e) [46]); intros E; vm_compute in E; discriminate E.
Qed.

Lemma gokr_chain o : forall es prev, Forall (entry_ok o) es ->
  chain_ok o prev (map (fun e => (gokr_choice e, e)) es).
Proof.
  induction es as [|e r IH]; intros prev Hok; cbn [map]; [constructor|].
  inversion Hok; subst. constructor; [assumption|apply gokr_choice_ok|now apply IH].
Qed.

Lemma rdev_agree o mode : sender_has_rdev o mode = receiver_has_rdev o mode.
Proof. reflexivity. Qed.

Theorem send_recv_file_list o es uids gids ioerr rest :
  Forall (entry_ok o) es -> Forall id_ok uids -> Forall id_ok gids -> i32 ioerr ->
  recv_file_list o (send_file_list o es uids gids ioerr ++ rest)
  = inl (mkFR (sort_entries es) (if o_uid o then uids else []) (if o_gid o then gids else []) ioerr rest).
Proof.
  intros Hes Hu Hg Hio. unfold send_file_list. rewrite <- app_assoc.
  rewrite recv_file_list_enc; [|now apply gokr_chain|intros c e _; apply rdev_agree|exact Hu|exact Hg|exact Hio].
  rewrite map_map. cbn [snd]. now rewrite map_id.
Qed.
