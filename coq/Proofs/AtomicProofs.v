From Coq Require Import ZArith List Bool Lia.
From RV Require Import Model.Bytes Model.Flist Model.GenOps Model.Atomic Proofs.BytesProofs Proofs.GenOpsProofs Gen.Consts.
Import ListNotations.
Open Scope Z_scope.

Definition harmless (st : astep) : bool :=
  match st with ACommit | AMeta _ => false | _ => true end.

Lemma harmless_keeps p now l : forall s, forallb harmless l = true -> a_path (a_run p now s l) = a_path s.
Proof.
  induction l as [|st l IH]; intros s Hl; [reflexivity|].
  cbn [forallb] in Hl. apply andb_true_iff in Hl. destruct Hl as [H1 H2].
  unfold a_run. cbn [fold_left]. change (fold_left (a_apply p now) l ?x) with (a_run p now x l).
  rewrite IH by exact H2. destruct st; try discriminate; reflexivity.
Qed.

Lemma forallb_firstn {A} (f : A -> bool) l : forall k, forallb f l = true -> forallb f (firstn k l) = true.
Proof.
  induction l as [|x l IH]; intros [|k] Hl; try reflexivity.
  cbn [forallb firstn] in *. apply andb_true_iff in Hl. destruct Hl as [H1 H2]. now rewrite H1, IH.
Qed.

Lemma writes_harmless l : forallb harmless (map AWriteTemp l) = true.
Proof. induction l as [|x l IH]; [reflexivity|exact IH]. Qed.

Lemma forallb_app' {A} (f : A -> bool) a b : forallb f a = true -> forallb f b = true -> forallb f (a ++ b) = true.
Proof. intros Ha Hb. rewrite forallb_app. now rewrite Ha, Hb. Qed.

Lemma a_run_app p now s a b : a_run p now s (a ++ b) = a_run p now (a_run p now s a) b.
Proof. unfold a_run. apply fold_left_app. Qed.

(** after all data runs have been written, the pending file holds their concatenation *)
Lemma writes_temp p now chunks : forall s t,
  a_temp s = Some t ->
  a_temp (a_run p now s (map AWriteTemp chunks)) = Some (t ++ concat chunks) /\
  a_path (a_run p now s (map AWriteTemp chunks)) = a_path s.
Proof.
  induction chunks as [|d chunks IH]; intros s t Ht.
  - cbn. now rewrite app_nil_r.
  - cbn [map concat]. unfold a_run. cbn [fold_left].
    change (fold_left (a_apply p now) ?l ?x) with (a_run p now x l).
    destruct (IH (a_apply p now s (AWriteTemp d)) (t ++ d)) as [I1 I2].
    { cbn [a_apply a_temp]. now rewrite Ht. }
    split; [rewrite I1; now rewrite app_assoc|rewrite I2; reflexivity].
Qed.

Section Atomic.
  Variables (o : gopts) (e : fentry) (now : Z).

  Definition committed (chunks : list (list Z)) (s' : pstate) : Prop :=
    exists st, s' = PNode st (concat chunks) /\ l_kind st = KReg.

  Theorem atomic_prefix chunks upto verified old s0 k :
    let s' := a_run (e_name e) now (mkA s0 None) (firstn k (recv_steps o e chunks upto verified old now)) in
    a_path s' = s0 \/ (upto = None /\ verified = true /\ committed chunks (a_path s')).
  Proof.
    cbn zeta. unfold recv_steps. destruct (g_dry o) eqn:D.
    { left. destruct k; reflexivity. }
    destruct upto as [j|].
    { left. rewrite harmless_keeps; [reflexivity|]. apply forallb_firstn.
      cbn [forallb harmless andb]. apply forallb_app'; [apply writes_harmless|reflexivity]. }
    destruct verified.
    2:{ left. rewrite harmless_keeps; [reflexivity|]. apply forallb_firstn.
        cbn [forallb harmless andb app]. apply forallb_app'; [apply writes_harmless|reflexivity]. }
    set (mode := match old with Some p => if g_perms o then e_mode e else p | None => e_mode e end).
    set (pre := ACreateTemp :: map AWriteTemp chunks).
    set (tail := [ACommit; AMeta (set_perms_ops o e mode (fresh KReg 384 now)); ACleanup]).
    replace (ACreateTemp :: map AWriteTemp chunks ++ [ACommit; AMeta (set_perms_ops o e mode (fresh KReg 384 now))] ++ [ACleanup])
      with (pre ++ tail) by reflexivity.
    rewrite firstn_app, a_run_app.
    assert (Hpre : forallb harmless pre = true) by (cbn [pre forallb harmless andb]; apply writes_harmless).
    destruct (Nat.le_gt_cases k (length pre)) as [Hk|Hk].
    - (* still before the commit *)
      replace (k - length pre)%nat with 0%nat by lia. cbn [firstn a_run fold_left].
      left. rewrite harmless_keeps; [reflexivity|now apply forallb_firstn].
    - rewrite firstn_all2 by lia.
      assert (P : a_run (e_name e) now (mkA s0 None) pre = mkA s0 (Some (concat chunks))).
      { unfold pre, a_run. cbn [fold_left a_apply a_path a_temp].
        change (fold_left (a_apply (e_name e) now) ?l ?x) with (a_run (e_name e) now x l).
        destruct (writes_temp (e_name e) now chunks (mkA s0 (Some [])) [] eq_refl) as [W1 W2].
        destruct (a_run (e_name e) now (mkA s0 (Some [])) (map AWriteTemp chunks)) as [pp tt].
        cbn [a_temp a_path app] in *. now subst. }
      rewrite P. right. split; [reflexivity|]. split; [reflexivity|].
      remember (k - length pre)%nat as m eqn:Hm.
      destruct m as [|[|[|m]]]; [lia| | |]; unfold tail, a_run; cbn [firstn fold_left a_apply a_temp a_path].
      + eexists. split; reflexivity.
      + rewrite set_perms_result by exact D. eexists. split; reflexivity.
      + rewrite set_perms_result by exact D. destruct m; cbn [firstn fold_left a_apply a_path]; eexists; split; reflexivity.
  Qed.

  (** when recvFile1 returns — with success, with a checksum mismatch, or
      because the stream failed — no pending file is left *)
  Theorem no_temp_after_return chunks upto verified old s0 :
    g_dry o = false ->
    a_temp (a_run (e_name e) now (mkA s0 None) (recv_steps o e chunks upto verified old now)) = None.
  Proof.
    intros D. unfold recv_steps. rewrite D.
    assert (L : forall pre s, a_temp (a_run (e_name e) now s (pre ++ [ACleanup])) = None).
    { intros pre s. rewrite a_run_app. reflexivity. }
    destruct upto as [j|].
    - apply (L (ACreateTemp :: map AWriteTemp (firstn j chunks))).
    - rewrite app_assoc. apply (L (ACreateTemp :: (map AWriteTemp chunks ++ _))).
  Qed.

  (** the target changes only if the whole-file checksum was verified *)
  Theorem unverified_keeps_target chunks upto old s0 :
    a_path (a_run (e_name e) now (mkA s0 None) (recv_steps o e chunks upto false old now)) = s0.
  Proof.
    pose proof (atomic_prefix chunks upto false old s0
                  (length (recv_steps o e chunks upto false old now))) as A.
    cbn zeta in A. rewrite firstn_all in A. destruct A as [A|[_ [A _]]]; [exact A|discriminate].
  Qed.
End Atomic.

(** ** metadata operations never touch type, link target or content *)
Definition meta_only (op : fsop) : bool :=
  match op with OpChtimes _ _ | OpLchown _ _ _ | OpChmod _ _ => true | _ => false end.

Lemma set_perms_meta_only o e mode st : forallb meta_only (set_perms_ops o e mode st) = true.
Proof.
  unfold set_perms_ops, set_uid_ops. destruct (g_dry o); [reflexivity|].
  repeat match goal with |- context [if ?c then _ else _] => destruct c end; reflexivity.
Qed.

Lemma meta_only_keeps p now ops : forall st c,
  forallb meta_only ops = true ->
  exists st', run_ops p now (PNode st c) ops = PNode st' c /\ l_kind st' = l_kind st /\ l_link st' = l_link st.
Proof.
  induction ops as [|op ops IH]; intros st c Hm.
  - exists st. auto.
  - cbn [forallb] in Hm. apply andb_true_iff in Hm. destruct Hm as [H1 H2].
    unfold run_ops. cbn [fold_left]. change (fold_left (apply_op p now) ops ?x) with (run_ops p now x ops).
    destruct op; try discriminate; cbn [apply_op]; destruct (list_eqb _ p);
      try (destruct (IH st c H2) as [st' [R [K L]]]; exists st'; auto; fail);
      match goal with |- context [run_ops p now (PNode ?s1 c) ops] =>
        destruct (IH s1 c H2) as [st' [R [K L]]]; exists st'; auto end.
Qed.

Theorem symlink_replace_atomic o e now s k :
  let s' := run_ops (e_name e) now s (firstn k (fst (new_symlink o e now))) in
  s' = s \/ exists st, s' = PNode st [] /\ l_kind st = KLnk /\ l_link st = e_link e.
Proof.
  cbn zeta. unfold new_symlink. cbn [fst app]. destruct k as [|k]; [left; reflexivity|right].
  cbn [firstn]. unfold run_ops. cbn [fold_left apply_op]. rewrite list_eqb_refl.
  change (fold_left (apply_op (e_name e) now) ?l ?x) with (run_ops (e_name e) now x l).
  destruct (meta_only_keeps (e_name e) now (firstn k (set_perms_ops o e (e_mode e) (mkL KLnk 511 now 0 0 (e_link e) 0 false)))
              (mkL KLnk 511 now 0 0 (e_link e) 0 false) []) as [st' [R [K L]]].
  { apply forallb_firstn, set_perms_meta_only. }
  exists st'. auto.
Qed.
