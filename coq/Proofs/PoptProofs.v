From Coq Require Import ZArith String List Bool.
From RV Require Import Model.Popt Model.Flist Gen.OptTable Gen.ServerOpts Gen.OptMap.
Import ListNotations.
Open Scope string_scope.

(** ** all subsets of the transfer options, in command-line order *)
(** family A: every sub-list of the preserve options (4096 argument vectors);
    family B: every sub-list of the behaviour options after each of three
    common preserve prefixes (48 vectors) *)
Definition preserve_tokens : list string :=
  ["-a"; "-r"; "-l"; "-p"; "-t"; "-g"; "-o"; "-D"; "--devices"; "--specials";
   "--no-devices"; "--no-specials"].
Definition behaviour_tokens : list string := ["-c"; "-I"; "-n"; "--delete"].

Fixpoint subsets {A} (l : list A) : list (list A) :=
  match l with
  | [] => [[]]
  | x :: r => let s := subsets r in map (cons x) s ++ s
  end.

Fixpoint bools_eqb (a b : list bool) : bool :=
  match a, b with
  | [], [] => true
  | x :: a', y :: b' => Bool.eqb x y && bools_eqb a' b'
  | _, _ => false
  end.

Lemma bools_eqb_eq a : forall b, bools_eqb a b = true -> a = b.
Proof.
  induction a as [|x a IH]; intros [|y b]; cbn; try discriminate; [reflexivity|].
  intros H. apply andb_true_iff in H. destruct H as [H1 H2].
  apply Bool.eqb_prop in H1. subst. f_equal. now apply IH.
Qed.

(** what the server makes of the re-serialised options *)
Definition server_view (st : ostate) : ostate + perr :=
  parse_arguments (server_options st ++ ["."; "path"]).

(** client accepted [args] as a receiver (pull: server gets --sender) or as a
    sender (push/local: am_sender set by the client before ServerOptions) *)
Definition roundtrip_ok (as_sender : bool) (args : list string) : bool :=
  match parse_arguments args with
  | inr _ => true
  | inl st0 =>
      let st := if as_sender then setf st0 "am_sender" 1 else st0 in
      match server_view st with
      | inr _ => false
      | inl st' =>
          bools_eqb (wire_view st') (wire_view st) &&
          negb (getf st' "am_server" =? 0)%Z &&
          Bool.eqb (negb (getf st' "am_sender" =? 0)%Z) (negb as_sender)
      end
  end.

Definition transfer_vectors : list (list string) :=
  (subsets preserve_tokens ++
   flat_map (fun pre : list string => map (fun s : list string => (pre ++ s)%list) (subsets behaviour_tokens))
            [[]; ["-rlt"]; ["-a"]])%list.

Lemma roundtrip_all_pull : forallb (roundtrip_ok false) transfer_vectors = true.
Proof. vm_compute. reflexivity. Qed.
Lemma roundtrip_all_push : forallb (roundtrip_ok true) transfer_vectors = true.
Proof. vm_compute. reflexivity. Qed.

(** file-list options as each end derives them *)
Definition fopts_of (st : ostate) : fopts :=
  mkFopts (negb (getf st "preserve_uid" =? 0)%Z) (negb (getf st "preserve_gid" =? 0)%Z)
          (negb (getf st "preserve_links" =? 0)%Z) (negb (getf st "preserve_devices" =? 0)%Z)
          (negb (getf st "preserve_specials" =? 0)%Z) (negb (getf st "always_checksum" =? 0)%Z).

Lemma wire_view_fopts st st' : wire_view st' = wire_view st -> fopts_of st' = fopts_of st.
Proof.
  unfold wire_view, fopts_of. intros E. inversion E. congruence.
Qed.

Lemma roundtrip_sound as_sender args st :
  roundtrip_ok as_sender args = true -> parse_arguments args = inl st ->
  exists st', server_view (if as_sender then setf st "am_sender" 1 else st) = inl st' /\
    wire_view st' = wire_view (if as_sender then setf st "am_sender" 1 else st) /\
    (getf st' "am_server" =? 0)%Z = false /\
    negb (getf st' "am_sender" =? 0)%Z = negb as_sender.
Proof.
  unfold roundtrip_ok. intros H E. rewrite E in H.
  destruct (server_view (if as_sender then setf st "am_sender" 1 else st)) as [st'|e]; [|discriminate].
  apply andb_true_iff in H. destruct H as [H H3]. apply andb_true_iff in H. destruct H as [H1 H2].
  exists st'. split; [reflexivity|]. split; [now apply bools_eqb_eq|].
  split; [now apply negb_true_iff|now apply Bool.eqb_prop].
Qed.

(** ** both ends build the receiver's TransferOpts from the same accessors *)
Fixpoint assoc (k : string) (l : list (string * string)) : option string :=
  match l with
  | [] => None
  | (k', v) :: r => if String.eqb k k' then Some v else assoc k r
  end.

Definition wire_transfer_fields : list string :=
  ["AlwaysChecksum"; "DeleteMode"; "DryRun"; "IgnoreTimes"; "PreserveDevices"; "PreserveGid";
   "PreserveLinks"; "PreservePerms"; "PreserveSpecials"; "PreserveTimes"; "PreserveUid"].

Definition optmap_field_ok (f : string) : bool :=
  match assoc f optmap_client, assoc f optmap_server with
  | Some a, Some b => String.eqb a b
  | _, _ => false
  end.

Lemma optmaps_agree : forallb optmap_field_ok wire_transfer_fields = true.
Proof. vm_compute. reflexivity. Qed.

(** the accessor names used in those maps are the expected fields *)
Definition expected_accessor_fields : list (string * string) :=
  [("AlwaysChecksum", "always_checksum"); ("DeleteMode", "delete_mode"); ("DryRun", "dry_run");
   ("IgnoreTimes", "ignore_times"); ("PreserveDevices", "preserve_devices"); ("PreserveGid", "preserve_gid");
   ("PreserveLinks", "preserve_links"); ("PreservePerms", "preserve_perms"); ("PreserveSpecials", "preserve_specials");
   ("PreserveMTimes", "preserve_mtimes"); ("PreserveUid", "preserve_uid"); ("Recurse", "recurse");
   ("Sender", "am_sender"); ("Server", "am_server")].
Lemma accessors_as_expected :
  forallb (fun p => String.eqb (accessor_field (fst p) opt_accessors) (snd p)) expected_accessor_fields = true.
Proof. vm_compute. reflexivity. Qed.
Lemma optmap_uses_matching_accessors :
  forallb (fun f => match assoc f optmap_client with
                    | Some a => String.eqb a (if String.eqb f "PreserveTimes" then "PreserveMTimes" else f)
                    | None => false end) wire_transfer_fields = true.
Proof. vm_compute. reflexivity. Qed.

(** the hand-modelled switch arms are the ones in the source (fingerprints of
    the arm bodies; a changed arm re-opens this obligation) *)
Definition hand_modelled_arms : list (Z * string) :=
  [(86, "1db5d7c8db1b8e77"); (c_OPT_HELP, "5eaf9b46ae93d339"); (c_OPT_SENDER, "3427b988d9400ca9"); (c_OPT_DAEMON, "91416278d1acecf0");
   (c_OPT_FILTER, "07b85f581477f558"); (c_OPT_EXCLUDE, "05671dcdc5cedd46"); (c_OPT_INCLUDE, "96a06f65f5ffcbe9")]%Z.
Lemma arms_as_modelled :
  forallb (fun p : Z * string => match find_arm (fst p) opt_arms with
                    | Some (_, _, _, fp) => String.eqb fp (snd p)
                    | None => false end) hand_modelled_arms = true.
Proof. vm_compute. reflexivity. Qed.

Lemma roundtrip_vectors (as_sender : bool) (args : list string) (st : ostate) :
  In args transfer_vectors -> parse_arguments args = inl st ->
  exists st' : ostate, server_view (if as_sender then setf st "am_sender" 1 else st) = inl st' /\
    wire_view st' = wire_view (if as_sender then setf st "am_sender" 1 else st) /\
    (getf st' "am_server" =? 0)%Z = false /\
    negb (getf st' "am_sender" =? 0)%Z = negb as_sender.
Proof.
  intros Hin E. apply (roundtrip_sound as_sender args st); [|exact E].
  destruct as_sender.
  - exact (proj1 (forallb_forall _ _) roundtrip_all_push args Hin).
  - exact (proj1 (forallb_forall _ _) roundtrip_all_pull args Hin).
Qed.

Fixpoint strings_eqb (a b : list string) : bool :=
  match a, b with
  | [], [] => true
  | x :: a', y :: b' => String.eqb x y && strings_eqb a' b'
  | _, _ => false
  end.

Global Opaque transfer_vectors.
