(** The sender's request loop never crashes and never runs out of fuel,
    whatever bytes the peer sends (Model/Session.v). *)
From Coq Require Import ZArith List Bool Lia.
From RV Require Import Model.Bytes Model.Checksum Model.Delta Model.Sender Model.Session
  Proofs.BytesProofs Proofs.SearchInv Gen.Consts.
Import ListNotations.
Open Scope Z_scope.

Lemma rd32_length s v r : rd32 s = Some (v, r) -> length s = (4 + length r)%nat.
Proof.
  destruct s as [|b0 [|b1 [|b2 [|b3 r']]]]; try discriminate. cbn [rd32].
  intros H. injection H as _ <-. reflexivity.
Qed.

Lemma read_head_ok s h r :
  read_head s = HeadOk h r ->
  (length r <= length s)%nat /\ 0 <= h_count h /\ 0 <= h_blen h /\ 0 <= h_rem h.
Proof.
  unfold read_head.
  destruct (rd32 s) as [[cnt s1]|] eqn:E1; [|discriminate].
  destruct (cnt <? 0) eqn:C1; [discriminate|].
  destruct (rd32 s1) as [[bl s2]|] eqn:E2; [|discriminate].
  destruct ((bl <? 0) || (c_maxBlockLen <? bl)) eqn:C2; [discriminate|].
  destruct (rd32 s2) as [[sl s3]|] eqn:E3; [|discriminate].
  destruct ((sl <? 0) || (16 <? sl)) eqn:C3; [discriminate|].
  destruct (rd32 s3) as [[rm s4]|] eqn:E4; [|discriminate].
  destruct ((rm <? 0) || (bl <? rm)) eqn:C4; [discriminate|].
  intros H. injection H as <- <-. cbn [h_count h_blen h_rem].
  apply rd32_length in E1. apply rd32_length in E2. apply rd32_length in E3. apply rd32_length in E4.
  apply orb_false_iff in C2. destruct C2 as [C2 _]. apply orb_false_iff in C4. destruct C4 as [C4 _].
  apply Z.ltb_ge in C1. apply Z.ltb_ge in C2. apply Z.ltb_ge in C4.
  repeat split; lia.
Qed.

Lemma read_sums_ok fuel : forall cnt slen s l r,
  read_sums fuel cnt slen s = Some (l, r) ->
  (length r <= length s)%nat /\ (l <> [] -> 0 < cnt).
Proof.
  induction fuel as [|f IH]; intros cnt slen s l r H.
  - cbn [read_sums] in H. destruct (cnt <=? 0) eqn:C; [|discriminate].
    injection H as <- <-. split; [lia|congruence].
  - cbn [read_sums] in H. destruct (cnt <=? 0) eqn:C.
    + injection H as <- <-. split; [lia|congruence].
    + apply Z.leb_gt in C.
      destruct (rd32 s) as [[s1 r1]|] eqn:E; [|discriminate].
      destruct (lenZ r1 <? slen); [discriminate|].
      destruct (read_sums f (cnt - 1) slen (dropZ slen r1)) as [[l' r']|] eqn:R; [|discriminate].
      injection H as <- <-. destruct (IH _ _ _ _ _ R) as [L _].
      apply rd32_length in E.
      assert (length (dropZ slen r1) <= length r1)%nat.
      { rewrite dropZ_skipn. rewrite skipn_length. lia. }
      split; [lia|intros _; lia].
Qed.

Section NoCrash.
  Variable H : list Z -> list Z.
  Variable seed chunk : Z.
  Hypothesis chunk_pos : 1 <= chunk.

  Definition benign (r : sess_result) : Prop :=
    match r with
    | SessDone _ _ => True
    | SessErr _ e => e = SeShort \/ e = SeIndex \/ e = SeHead
    end.

  Lemma sender_session_benign fuel : forall dry files phase s out,
    (length s < fuel)%nat -> benign (sender_session H seed chunk fuel dry files phase s out).
  Proof.
    induction fuel as [|f IH]; intros dry files phase s out Hl; [lia|].
    cbn [sender_session].
    destruct (rd32 s) as [[idx r]|] eqn:E; [|cbn; auto].
    pose proof (rd32_length _ _ _ E) as Lr.
    destruct (idx =? -1).
    { destruct (phase =? 0); [apply IH; lia|exact I]. }
    destruct dry; [apply IH; lia|].
    destruct ((idx <? 0) || (Z.of_nat (length files) <=? idx)); [cbn; auto|].
    destruct (read_head r) as [h r1| |] eqn:Eh; try (cbn; auto; fail).
    destruct (read_head_ok _ _ _ Eh) as [L1 [Hc [Hb Hr]]].
    destruct ((0 <? h_count h) && (h_blen h =? 0)) eqn:G; [cbn; auto|].
    destruct (read_sums (length r1) (h_count h) (h_slen h) r1) as [[sums r2]|] eqn:Es; [|cbn; auto].
    destruct (read_sums_ok _ _ _ _ _ _ Es) as [L2 Hne].
    destruct sums as [|sb sums'].
    - (* whole-file request: sendFile *)
      cbn [send_one]. unfold send_whole. apply IH. lia.
    - assert (Hcnt : 0 < h_count h) by (apply Hne; discriminate).
      assert (Hbl : 1 <= h_blen h).
      { apply Z.ltb_lt in Hcnt. rewrite Hcnt in G. cbn [andb] in G. apply Z.eqb_neq in G. lia. }
      destruct (send_one_total H seed chunk h (sb :: sums') (nth (Z.to_nat idx) files []) chunk_pos Hbl Hr)
        as [h' [toks [tr Eo]]].
      rewrite Eo. apply IH. lia.
  Qed.

  (** for every byte string, file list and mode: the outcome is completion or
      one of the three protocol errors — never a crash, never fuel exhaustion *)
  Theorem sender_survives_any_stream dry files s :
    benign (run_sender_session H seed chunk dry files s).
  Proof. unfold run_sender_session. apply sender_session_benign. lia. Qed.

  (** an index outside the file list is an error, not an access *)
  Theorem bad_index_is_error files idx rest :
    (idx < 0 \/ Z.of_nat (length files) <= idx) -> idx <> -1 ->
    -2147483648 <= idx < 2147483648 ->
    run_sender_session H seed chunk false files (le32 idx ++ rest) = SessErr [] SeIndex.
  Proof.
    intros Hr Hn Hb. unfold run_sender_session. cbn [sender_session].
    rewrite rd32_le32 by exact Hb.
    destruct (idx =? -1) eqn:E; [apply Z.eqb_eq in E; contradiction|].
    assert (G : (idx <? 0) || (Z.of_nat (length files) <=? idx) = true).
    { apply orb_true_iff. destruct Hr as [Hr|Hr]; [left; now apply Z.ltb_lt|right; now apply Z.leb_le]. }
    now rewrite G.
  Qed.
End NoCrash.
