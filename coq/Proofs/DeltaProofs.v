From Coq Require Import ZArith List Bool Lia.
From RV Require Import Model.Bytes Model.Checksum Model.Delta Proofs.BytesProofs Gen.Consts.
Import ListNotations.
Open Scope Z_scope.

Ltac Zify.zify_post_hook ::= Z.div_mod_to_equations.

(** A token that the wire format can carry and that the decoder classifies
    as itself: literal runs of 1..2^31-1 bytes, block indices 0..2^31-1. *)
Definition wf_token (t : token) : Prop :=
  match t with
  | Lit bs => 1 <= lenZ bs < 2147483648
  | Ref i => 0 <= i < 2147483648
  end.

Lemma rd32_some s v r : rd32 s = Some (v, r) -> exists p, s = p ++ r /\ length p = 4%nat.
Proof.
  unfold rd32. destruct s as [|b0 [|b1 [|b2 [|b3 r']]]]; try discriminate.
  intros E. inversion E; subst. exists [b0; b1; b2; b3]. split; reflexivity.
Qed.

Lemma app_same_len {A} (a : list A) : forall b x y,
  a ++ x = b ++ y -> length x = length y -> x = y.
Proof.
  induction a as [|u a IH]; intros [|v b] x y E L; cbn [app] in E.
  - exact E.
  - subst x. cbn [length] in L. rewrite app_length in L. lia.
  - subst y. cbn [length] in L. rewrite app_length in L. lia.
  - inversion E. eapply IH; eassumption.
Qed.

Section ReceiverProofs.
  Variable H : list Z -> list Z.

  (** ** The receiver writes exactly what the token stream denotes *)
  Lemma recv_tokens_exact seed basis h ts :
    Forall wf_token ts ->
    forall fuel acc tr rest,
      (length ts < fuel)%nat -> lenZ tr = 16 ->
      match denote basis h ts with
      | Some d =>
          recv_tokens H fuel seed (Some basis) h acc (enc_tokens ts ++ le32 0 ++ tr ++ rest) =
          if list_eqb (filesum H seed (acc ++ d)) tr
          then (Commit (acc ++ d), rest) else (Reject (acc ++ d), rest)
      | None =>
          exists r, recv_tokens H fuel seed (Some basis) h acc (enc_tokens ts ++ le32 0 ++ tr ++ rest) =
                    (RErrBasisRead, r)
      end.
  Proof.
    induction 1 as [|t ts Ht Hts IH]; intros fuel acc tr rest Hfuel Htr.
    - cbn [denote enc_tokens flat_map app]. destruct fuel as [|fuel]; [cbn in Hfuel; lia|].
      cbn [recv_tokens]. rewrite rd32_le32 by lia. rewrite Z.eqb_refl.
      rewrite <- Htr, take_app, app_nil_r. reflexivity.
    - destruct fuel as [|fuel]; [cbn in Hfuel; lia|].
      cbn [length] in Hfuel. assert (Hf : (length ts < fuel)%nat) by lia.
      cbn [enc_tokens flat_map]. fold (enc_tokens ts).
      destruct t as [bs|i]; cbn [wf_token] in Ht; cbn [enc_token denote].
      + (* literal *)
        cbn [recv_tokens]. repeat rewrite <- app_assoc. rewrite rd32_le32 by lia.
        destruct (Z.eqb_spec (lenZ bs) 0) as [E|_]; [lia|].
        destruct (Z.ltb_spec 0 (lenZ bs)) as [_|E]; [|lia].
        rewrite take_app.
        specialize (IH fuel (acc ++ bs) tr rest Hf Htr).
        destruct (denote basis h ts) as [d|].
        * repeat rewrite <- app_assoc in IH. repeat rewrite <- app_assoc. exact IH.
        * exact IH.
      + (* block reference *)
        cbn [recv_tokens]. repeat rewrite <- app_assoc. rewrite rd32_le32 by lia.
        destruct (Z.eqb_spec (- (i + 1)) 0) as [E|_]; [lia|].
        destruct (Z.ltb_spec 0 (- (i + 1))) as [E|_]; [lia|].
        replace (- (- (i + 1) + 1)) with i by lia.
        destruct (ref_bytes basis h i) as [b|].
        * specialize (IH fuel (acc ++ b) tr rest Hf Htr).
          destruct (denote basis h ts) as [d|].
          -- repeat rewrite <- app_assoc in IH. exact IH.
          -- exact IH.
        * eexists. reflexivity.
  Qed.

  (** literal-only streams need no basis at all *)
  Definition lit_only (t : token) : Prop := match t with Lit _ => True | Ref _ => False end.

  Lemma recv_tokens_exact_lits seed bopt h ts :
    Forall wf_token ts -> Forall lit_only ts ->
    forall fuel acc tr rest,
      (length ts < fuel)%nat -> lenZ tr = 16 ->
      exists d, denote [] h ts = Some d /\
        recv_tokens H fuel seed bopt h acc (enc_tokens ts ++ le32 0 ++ tr ++ rest) =
        if list_eqb (filesum H seed (acc ++ d)) tr
        then (Commit (acc ++ d), rest) else (Reject (acc ++ d), rest).
  Proof.
    induction 1 as [|t ts Ht Hts IH]; intros Hl fuel acc tr rest Hfuel Htr.
    - exists []. split; [reflexivity|].
      cbn [enc_tokens flat_map app]. destruct fuel as [|fuel]; [cbn in Hfuel; lia|].
      cbn [recv_tokens]. rewrite rd32_le32 by lia. rewrite Z.eqb_refl.
      rewrite <- Htr, take_app, app_nil_r. reflexivity.
    - inversion Hl as [|? ? Hlt Hl']; subst.
      destruct t as [bs|i]; [|destruct Hlt]. cbn [wf_token] in Ht.
      destruct fuel as [|fuel]; [cbn in Hfuel; lia|].
      cbn [length] in Hfuel. assert (Hf : (length ts < fuel)%nat) by lia.
      destruct (IH Hl' fuel (acc ++ bs) tr rest Hf Htr) as (d & Hd & E).
      exists (bs ++ d). cbn [denote]. rewrite Hd. split; [reflexivity|].
      cbn [enc_tokens flat_map enc_token]. fold (enc_tokens ts).
      cbn [recv_tokens]. repeat rewrite <- app_assoc. rewrite rd32_le32 by lia.
      destruct (Z.eqb_spec (lenZ bs) 0) as [E0|_]; [lia|].
      destruct (Z.ltb_spec 0 (lenZ bs)) as [_|E0]; [|lia].
      rewrite take_app. repeat rewrite <- app_assoc in E. rewrite E.
      repeat rewrite <- app_assoc. reflexivity.
  Qed.

  (** ** A commit happens only when the 16 bytes read as the trailer equal
      the whole-file sum of exactly the bytes that were written *)
  Lemma recv_tokens_commit fuel : forall seed basis h acc s bs rest,
    recv_tokens H fuel seed basis h acc s = (Commit bs, rest) ->
    lenZ (filesum H seed bs) = 16 ->
    exists pre, s = pre ++ filesum H seed bs ++ rest.
  Proof.
    induction fuel as [|fuel IH]; intros seed basis h acc s bs rest; cbn [recv_tokens]; [discriminate|].
    destruct (rd32 s) as [[t s1]|] eqn:Hrd; [|discriminate].
    destruct (rd32_some _ _ _ Hrd) as (p & -> & _).
    destruct (t =? 0).
    - destruct (take 16 s1) as [[trailer rest']|] eqn:Ht; [|discriminate].
      destruct (list_eqb (filesum H seed acc) trailer) eqn:He; [|discriminate].
      intros E _. inversion E; subst. apply list_eqb_eq in He.
      apply take_some in Ht. destruct Ht as [-> _]. exists p. now rewrite He.
    - destruct (0 <? t).
      + destruct (take t s1) as [[data s2]|] eqn:Ht; [|discriminate].
        intros E Hl. apply IH in E; [|exact Hl]. destruct E as (pre & ->).
        apply take_some in Ht. destruct Ht as [-> _].
        exists (p ++ data ++ pre). now rewrite <- !app_assoc.
      + destruct basis as [b|]; [|discriminate].
        destruct (ref_bytes b h (- (t + 1))); [|discriminate].
        intros E Hl. apply IH in E; [|exact Hl]. destruct E as (pre & ->).
        exists (p ++ pre). now rewrite <- !app_assoc.
  Qed.

  Lemma read_head_ok s h s1 : read_head s = HeadOk h s1 -> exists p, s = p ++ s1.
  Proof.
    unfold read_head.
    destruct (rd32 s) as [[c r1]|] eqn:E1; [|discriminate].
    destruct (c <? 0); [discriminate|].
    destruct (rd32 r1) as [[b r2]|] eqn:E2; [|discriminate].
    destruct ((b <? 0) || (c_maxBlockLen <? b)); [discriminate|].
    destruct (rd32 r2) as [[sl r3]|] eqn:E3; [|discriminate].
    destruct ((sl <? 0) || (16 <? sl)); [discriminate|].
    destruct (rd32 r3) as [[rm r4]|] eqn:E4; [|discriminate].
    destruct ((rm <? 0) || (b <? rm)); [discriminate|].
    intros E. inversion E; subst.
    destruct (rd32_some _ _ _ E1) as (p1 & -> & _).
    destruct (rd32_some _ _ _ E2) as (p2 & -> & _).
    destruct (rd32_some _ _ _ E3) as (p3 & -> & _).
    destruct (rd32_some _ _ _ E4) as (p4 & -> & _).
    exists (p1 ++ p2 ++ p3 ++ p4). now rewrite <- !app_assoc.
  Qed.

  Lemma receive_data_commit seed basis s bs rest :
    receive_data H seed basis s = (Commit bs, rest) ->
    lenZ (filesum H seed bs) = 16 ->
    exists pre, s = pre ++ filesum H seed bs ++ rest.
  Proof.
    unfold receive_data. destruct (read_head s) as [h s1| |] eqn:Hh; try discriminate.
    intros E Hl. apply recv_tokens_commit in E; [|exact Hl]. destruct E as (pre & ->).
    apply read_head_ok in Hh. destruct Hh as (p & ->).
    exists (p ++ pre). now rewrite <- app_assoc.
  Qed.

  (** Header round trip for headers that pass the sender's validation. *)
  Definition head_valid (h : sum_head) : Prop :=
    0 <= h_count h < 2147483648 /\ 0 <= h_blen h <= c_maxBlockLen /\
    0 <= h_slen h <= 16 /\ 0 <= h_rem h <= h_blen h.

  Lemma read_head_enc h s : head_valid h -> read_head (enc_head h ++ s) = HeadOk h s.
  Proof.
    destruct h as [c b sl rm]. unfold head_valid, enc_head, read_head. cbn [h_count h_blen h_slen h_rem].
    unfold c_maxBlockLen. intros (Hc & Hb & Hs & Hr).
    rewrite <- !app_assoc. rewrite rd32_le32 by lia.
    destruct (Z.ltb_spec c 0); [lia|].
    rewrite rd32_le32 by lia.
    destruct (Z.ltb_spec b 0); [lia|]. destruct (Z.ltb_spec 536870912 b); [lia|]. cbn [orb].
    rewrite rd32_le32 by lia.
    destruct (Z.ltb_spec sl 0); [lia|]. destruct (Z.ltb_spec 16 sl); [lia|]. cbn [orb].
    rewrite rd32_le32 by lia.
    destruct (Z.ltb_spec rm 0); [lia|]. destruct (Z.ltb_spec b rm); [lia|]. cbn [orb].
    reflexivity.
  Qed.

  (** receiveData on a well-formed transmission. *)
  Lemma receive_data_exact seed basis h ts tr rest :
    head_valid h -> Forall wf_token ts -> lenZ tr = 16 ->
    match denote basis h ts with
    | Some d =>
        receive_data H seed (Some basis) (enc_head h ++ enc_tokens ts ++ le32 0 ++ tr ++ rest) =
        if list_eqb (filesum H seed d) tr then (Commit d, rest) else (Reject d, rest)
    | None =>
        exists r, receive_data H seed (Some basis) (enc_head h ++ enc_tokens ts ++ le32 0 ++ tr ++ rest) =
                  (RErrBasisRead, r)
    end.
  Proof.
    intros Hh Hts Htr. unfold receive_data. rewrite read_head_enc by exact Hh.
    pose proof (recv_tokens_exact seed basis h ts Hts
                  (S (length (enc_tokens ts ++ le32 0 ++ tr ++ rest))) [] tr rest) as IH.
    assert (Hlen : (length ts < S (length (enc_tokens ts ++ le32 0 ++ tr ++ rest)))%nat).
    { clear. rewrite app_length. induction ts as [|t ts IHts]; cbn [enc_tokens flat_map length]; [lia|].
      fold (enc_tokens ts). rewrite app_length.
      assert (1 <= length (enc_token t))%nat by (destruct t; cbn; lia). lia. }
    specialize (IH Hlen Htr). cbn [app] in IH. exact IH.
  Qed.

  Lemma commit_honest_trailer seed basis pre target rest bs :
    lenZ (filesum H seed bs) = 16 -> lenZ (filesum H seed target) = 16 ->
    receive_data H seed basis (pre ++ filesum H seed target ++ rest) = (Commit bs, rest) ->
    bs = target \/ (bs <> target /\ filesum H seed bs = filesum H seed target).
  Proof.
    intros Hl1 Hl2 E.
    destruct (receive_data_commit seed basis _ bs rest E Hl1) as (pre' & Heq).
    assert (Hsum : filesum H seed bs = filesum H seed target).
    { rewrite !app_assoc in Heq. apply app_inv_tail in Heq.
      symmetry. eapply app_same_len; [exact Heq|].
      rewrite !lenZ_length in *. lia. }
    destruct (list_eq_dec Z.eq_dec bs target) as [->|Hne]; [left; reflexivity|right; split; assumption].
  Qed.

  Lemma trailer_mismatch_rejects seed basis h ts tr rest d :
    head_valid h -> Forall wf_token ts -> lenZ tr = 16 ->
    denote basis h ts = Some d -> filesum H seed d <> tr ->
    receive_data H seed (Some basis) (enc_head h ++ enc_tokens ts ++ le32 0 ++ tr ++ rest) = (Reject d, rest).
  Proof.
    intros Hh Hts Htr Hd Hne.
    pose proof (receive_data_exact seed basis h ts tr rest Hh Hts Htr) as E.
    rewrite Hd in E. rewrite E.
    destruct (list_eqb (filesum H seed d) tr) eqn:He; [|reflexivity].
    apply list_eqb_eq in He. contradiction.
  Qed.
End ReceiverProofs.
