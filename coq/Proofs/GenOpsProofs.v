(** Proofs about the generator / receiver file-system operations
    (Model/GenOps.v) and the sender's request loop (Model/Session.v). *)
From Coq Require Import ZArith List Bool Lia.
From RV Require Import Model.Bytes Model.Checksum Model.Flist Model.Generator Model.GenOps Model.Session
  Model.Sender Proofs.BytesProofs Gen.Consts.
Import ListNotations.
Open Scope Z_scope.

(** ** dry run: no operation at all *)
Lemma dry_set_perms o e mode st : g_dry o = true -> set_perms_ops o e mode st = [].
Proof. intros D. unfold set_perms_ops. now rewrite D. Qed.

Lemma dry_gen_entry o e dst skip now : g_dry o = true -> fst (gen_entry o e dst skip now) = [].
Proof.
  intros D. unfold gen_entry. rewrite D.
  destruct (is_dir (e_mode e)); [reflexivity|].
  destruct (g_links o && is_link (e_mode e)); [reflexivity|].
  destruct ((g_devices o && is_dev (e_mode e)) || (g_specials o && is_special (e_mode e))); [reflexivity|].
  destruct (negb (is_reg (e_mode e))); [reflexivity|].
  destruct dst as [s|]; [|reflexivity].
  destruct (l_kind s); try reflexivity.
  destruct skip; [|reflexivity]. cbn [fst]. now apply dry_set_perms.
Qed.

Lemma dry_gen_entry' o e dst skip now : g_dry o = true -> fst (gen_entry' o e dst skip now) = [].
Proof.
  intros D. unfold gen_entry'. destruct dst as [s|]; [|now apply dry_gen_entry].
  rewrite D. cbn [negb]. rewrite andb_false_r. cbn [andb]. now apply dry_gen_entry.
Qed.

Lemma dry_no_error o e dst skip now : g_dry o = true -> snd (gen_entry' o e dst skip now) <> ReqError.
Proof.
  intros D. unfold gen_entry'.
  assert (G : snd (gen_entry o e dst skip now) <> ReqError).
  { unfold gen_entry. rewrite D.
    destruct (is_dir (e_mode e)); [discriminate|].
    destruct (g_links o && is_link (e_mode e)); [discriminate|].
    destruct ((g_devices o && is_dev (e_mode e)) || (g_specials o && is_special (e_mode e))); [discriminate|].
    destruct (negb (is_reg (e_mode e))); [discriminate|].
    destruct dst as [s|]; [|discriminate].
    destruct (l_kind s); try discriminate.
    destruct skip; discriminate. }
  destruct dst as [s|]; [|exact G].
  rewrite D. cbn [negb]. rewrite andb_false_r. cbn [andb]. exact G.
Qed.

Lemma dry_touch_up o e st : g_dry o = true -> touch_up_ops o e st = [].
Proof. intros D. unfold touch_up_ops. rewrite D. now rewrite orb_true_r. Qed.

Lemma dry_recv_ops o e c v op now : g_dry o = true -> recv_ops o e c v op now = [].
Proof. intros D. unfold recv_ops. now rewrite D. Qed.

Lemma dry_entry_ops o now w : g_dry o = true -> entry_ops o now w = [].
Proof.
  intros D. unfold entry_ops.
  pose proof (dry_gen_entry' o (w_entry w) (w_dst w) (w_skip w) now D) as G.
  destruct (gen_entry' o (w_entry w) (w_dst w) (w_skip w) now) as [ops rq]. cbn [fst] in G. subst ops.
  cbn [app]. destruct rq; try reflexivity; now apply dry_recv_ops.
Qed.

Lemma dry_flat_entry o now ws : g_dry o = true -> flat_map (entry_ops o now) ws = [].
Proof.
  intros D. induction ws as [|w ws IH]; [reflexivity|].
  cbn [flat_map]. rewrite IH. rewrite dry_entry_ops by exact D. reflexivity.
Qed.
Lemma dry_flat_touch o ws : g_dry o = true -> flat_map (fun w => touch_up_ops o (w_entry w) (w_after w)) ws = [].
Proof.
  intros D. induction ws as [|w ws IH]; [reflexivity|].
  cbn [flat_map]. rewrite IH. rewrite dry_touch_up by exact D. reflexivity.
Qed.
Lemma dry_session_ops o now ws : g_dry o = true -> receiver_session_ops o now ws = [].
Proof.
  intros D. unfold receiver_session_ops. rewrite dry_flat_entry, dry_flat_touch by exact D. reflexivity.
Qed.

Lemma dry_entry_step Hp o ac it e now s : g_dry o = true -> fst (entry_step Hp o ac it e now s) = s.
Proof.
  intros D. unfold entry_step.
  pose proof (dry_gen_entry' o e (lstat_of s) (skip_of Hp ac it e s) now D) as G.
  destruct (gen_entry' o e (lstat_of s) (skip_of Hp ac it e s) now) as [ops rq]. cbn [fst] in G. subst ops.
  cbn [run_ops fold_left].
  destruct rq; destruct s as [|st c]; cbn [fst]; try reflexivity; rewrite dry_touch_up by exact D; reflexivity.
Qed.

(** in a dry run the generator sends a bare index, never checksums *)
Lemma dry_gen_wire H seed o idx rq s :
  g_dry o = true -> gen_wire H seed o idx rq s = [] \/ gen_wire H seed o idx rq s = le32 idx.
Proof.
  intros D. unfold gen_wire. rewrite D. destruct rq; auto; right; now rewrite app_nil_r.
Qed.

(** ** the dry-run sender echoes what it reads and nothing else *)
Lemma rd32_inv s v r : bytesb s = true -> rd32 s = Some (v, r) -> s = le32 v ++ r /\ bytesb r = true.
Proof.
  intros B E. destruct s as [|b0 [|b1 [|b2 [|b3 r']]]]; try discriminate.
  cbn [rd32] in E. injection E as Ev Er. subst r'.
  unfold bytesb in B. cbn [forallb] in B.
  repeat (apply andb_true_iff in B; destruct B as [?H B]).
  split; [|exact B].
  unfold is_byte in *.
  repeat match goal with Hb : (_ && _)%bool = true |- _ => apply andb_true_iff in Hb; destruct Hb as [?L ?U] end.
  repeat match goal with Hb : (_ <=? _) = true |- _ => apply Z.leb_le in Hb end.
  repeat match goal with Hb : (_ <? _) = true |- _ => apply Z.ltb_lt in Hb end.
  subst v. unfold le32, s32, u32_of4. cbn [app].
  destruct (_ <? 2147483648) eqn:C; [apply Z.ltb_lt in C | apply Z.ltb_ge in C];
    repeat f_equal; lia.
Qed.

Section DrySender.
  Variable H : list Z -> list Z.
  Variable seed chunk : Z.

  Lemma dry_sender_files_irrelevant fuel : forall files files' phase s out,
    sender_session H seed chunk fuel true files phase s out =
    sender_session H seed chunk fuel true files' phase s out.
  Proof.
    induction fuel as [|f IH]; intros; [reflexivity|].
    cbn [sender_session]. destruct (rd32 s) as [[idx r]|]; [|reflexivity].
    destruct (idx =? -1); [destruct (phase =? 0); [apply IH|reflexivity]|apply IH].
  Qed.

  Lemma dry_sender_echo fuel : forall files phase s out out' rest,
    bytesb s = true ->
    sender_session H seed chunk fuel true files phase s out = SessDone out' rest ->
    exists c, s = c ++ rest /\ out' = out ++ c.
  Proof.
    induction fuel as [|f IH]; intros files phase s out out' rest B E; [discriminate|].
    cbn [sender_session] in E. destruct (rd32 s) as [[idx r]|] eqn:R; [|discriminate].
    destruct (rd32_inv _ _ _ B R) as [Es Br].
    destruct (idx =? -1) eqn:M.
    - apply Z.eqb_eq in M. subst idx. destruct (phase =? 0).
      + destruct (IH _ _ _ _ _ _ Br E) as [c [E1 E2]]. exists (le32 (-1) ++ c). split.
        * rewrite Es, E1. now rewrite app_assoc.
        * rewrite E2. now rewrite app_assoc.
      + injection E as E1 E2. subst out' rest. exists (le32 (-1)). split; [exact Es|reflexivity].
    - destruct (IH _ _ _ _ _ _ Br E) as [c [E1 E2]]. exists (le32 idx ++ c). split.
      + rewrite Es, E1. now rewrite app_assoc.
      + rewrite E2. now rewrite app_assoc.
  Qed.

  (** a dry-run sender never fails for any reason other than the stream ending early *)
  Lemma dry_sender_errors fuel : forall files phase s out out' e,
    sender_session H seed chunk fuel true files phase s out = SessErr out' e -> e = SeShort \/ e = SeFuel.
  Proof.
    induction fuel as [|f IH]; intros files phase s out out' e E; cbn [sender_session] in E.
    - injection E as _ E. auto.
    - destruct (rd32 s) as [[idx r]|]; [|injection E as _ E; auto].
      destruct (idx =? -1); [destruct (phase =? 0); [eapply IH; eauto|discriminate]|eapply IH; eauto].
  Qed.
End DrySender.

(** ** metadata: what setPerms leaves behind *)
Definition set_perms_spec (o : gopts) (e : fentry) (mode : Z) (st : lstat) : lstat :=
  let is_lnk := ftype mode =? c_S_IFLNK in
  mkL (l_kind st)
      (if is_lnk then l_perm st else perm_of mode)
      (if g_times o && negb is_lnk then e_mtime e else l_mtime st)
      (if g_uid o && g_am_root o then e_uid e else l_uid st)
      (if g_gid o && g_am_root o then e_gid e else l_gid st)
      (l_link st) (l_rdev st) (l_nonempty st).

Lemma run_ops_app p now s a b : run_ops p now s (a ++ b) = run_ops p now (run_ops p now s a) b.
Proof. unfold run_ops. apply fold_left_app. Qed.

Lemma set_uid_result o e now st c :
  run_ops (e_name e) now (PNode st c) (set_uid_ops o e st) =
  PNode (mkL (l_kind st) (l_perm st) (l_mtime st)
             (if g_uid o && g_am_root o then e_uid e else l_uid st)
             (if g_gid o && g_am_root o then e_gid e else l_gid st)
             (l_link st) (l_rdev st) (l_nonempty st)) c.
Proof.
  unfold set_uid_ops. destruct st as [k pm mt u g lk rd ne]. cbn [l_kind l_perm l_mtime l_uid l_gid l_link l_rdev l_nonempty].
  destruct (g_uid o && g_am_root o) eqn:U; destruct (g_gid o && g_am_root o) eqn:G;
    destruct (u =? e_uid e) eqn:EU; destruct (g =? e_gid e) eqn:EG;
    try (apply Z.eqb_eq in EU); try (apply Z.eqb_eq in EG);
    cbn [negb andb orb run_ops fold_left apply_op]; rewrite ?list_eqb_refl;
    cbn [l_kind l_perm l_mtime l_uid l_gid l_link l_rdev l_nonempty]; subst; reflexivity.
Qed.

Lemma set_perms_result o e mode now st c :
  g_dry o = false ->
  run_ops (e_name e) now (PNode st c) (set_perms_ops o e mode st) = PNode (set_perms_spec o e mode st) c.
Proof.
  intros D. unfold set_perms_ops, set_perms_spec. rewrite D.
  rewrite !run_ops_app.
  set (lnk := ftype mode =? c_S_IFLNK).
  assert (A : run_ops (e_name e) now (PNode st c)
               (if g_times o && negb lnk && negb (l_mtime st =? e_mtime e) then [OpChtimes (e_name e) (e_mtime e)] else []) =
              PNode (mkL (l_kind st) (l_perm st) (if g_times o && negb lnk then e_mtime e else l_mtime st)
                         (l_uid st) (l_gid st) (l_link st) (l_rdev st) (l_nonempty st)) c).
  { destruct st as [k pm mt u g lk rd ne]. cbn [l_kind l_perm l_mtime l_uid l_gid l_link l_rdev l_nonempty].
    destruct (g_times o && negb lnk); cbn [andb]; [|reflexivity].
    destruct (mt =? e_mtime e) eqn:M; cbn [negb run_ops fold_left apply_op].
    - apply Z.eqb_eq in M. now subst.
    - rewrite list_eqb_refl. reflexivity. }
  rewrite A. clear A.
  (* setUid looks at the Lstat result taken before Chtimes; owner fields are the same *)
  assert (B : forall st1, l_uid st1 = l_uid st -> l_gid st1 = l_gid st ->
               run_ops (e_name e) now (PNode st1 c) (set_uid_ops o e st) =
               PNode (mkL (l_kind st1) (l_perm st1) (l_mtime st1)
                          (if g_uid o && g_am_root o then e_uid e else l_uid st)
                          (if g_gid o && g_am_root o then e_gid e else l_gid st)
                          (l_link st1) (l_rdev st1) (l_nonempty st1)) c).
  { intros st1 Hu Hg. unfold set_uid_ops.
    destruct st1 as [k1 pm1 mt1 u1 g1 lk1 rd1 ne1]. cbn [l_kind l_perm l_mtime l_uid l_gid l_link l_rdev l_nonempty] in *.
    subst u1 g1.
    destruct (g_uid o && g_am_root o) eqn:U; destruct (g_gid o && g_am_root o) eqn:G;
      destruct (l_uid st =? e_uid e) eqn:EU; destruct (l_gid st =? e_gid e) eqn:EG;
      try (apply Z.eqb_eq in EU); try (apply Z.eqb_eq in EG);
      cbn [negb andb orb run_ops fold_left apply_op]; rewrite ?list_eqb_refl;
      cbn [l_kind l_perm l_mtime l_uid l_gid l_link l_rdev l_nonempty]; try rewrite <- EU; try rewrite <- EG; reflexivity. }
  rewrite B by reflexivity. clear B.
  cbn [l_kind l_perm l_mtime l_uid l_gid l_link l_rdev l_nonempty].
  destruct lnk; cbn [negb andb]; [reflexivity|].
  destruct (l_perm st =? perm_of mode) eqn:P; cbn [negb run_ops fold_left apply_op].
  - apply Z.eqb_eq in P. now rewrite P.
  - rewrite list_eqb_refl. reflexivity.
Qed.

(** ** what an entry looks like once the generator (and the touch-up pass) are done with it *)
Definition kind_of_mode (mode : Z) : lkind :=
  if is_dir mode then KDir else if is_link mode then KLnk else if is_reg mode then KReg else KOther (ftype mode).

Record wanted (o : gopts) (e : fentry) (st : lstat) : Prop := mkWanted {
  w_kind : l_kind st = kind_of_mode (e_mode e);
  w_perm : is_link (e_mode e) = false -> l_perm st = perm_of (e_mode e);
  w_mtime : g_times o = true -> is_link (e_mode e) = false -> l_mtime st = e_mtime e;
  w_uid : g_uid o && g_am_root o = true -> l_uid st = e_uid e;
  w_gid : g_gid o && g_am_root o = true -> l_gid st = e_gid e;
  w_link : is_link (e_mode e) = true -> l_link st = e_link e;
  w_rdev : is_dev (e_mode e) = true -> l_rdev st = e_rdev e
}.

Lemma ftype_lor_128 mode : ftype (Z.lor mode 128) = ftype mode.
Proof.
  unfold ftype. rewrite Z.land_lor_distr_l.
  replace (Z.land 128 c_S_IFMT) with 0 by (vm_compute; reflexivity). apply Z.lor_0_r.
Qed.

Lemma types_distinct mode :
  (is_dir mode = true -> is_link mode = false /\ is_reg mode = false /\ is_dev mode = false) /\
  (is_link mode = true -> is_dir mode = false /\ is_reg mode = false /\ is_dev mode = false) /\
  (is_dev mode = true -> is_dir mode = false /\ is_link mode = false /\ is_reg mode = false) /\
  (is_special mode = true -> is_dir mode = false /\ is_link mode = false /\ is_reg mode = false /\ is_dev mode = false).
Proof.
  unfold is_dir, is_link, is_reg, is_dev, is_special.
  change c_S_IFDIR with 16384; change c_S_IFLNK with 40960; change c_S_IFREG with 32768;
  change c_S_IFCHR with 8192; change c_S_IFBLK with 24576; change c_S_IFIFO with 4096; change c_S_IFSOCK with 49152.
  generalize (ftype mode). intros t.
  repeat split; intros;
    repeat match goal with
           | Hh : (_ || _)%bool = true |- _ => apply orb_true_iff in Hh; destruct Hh as [Hh|Hh]
           | Hh : (_ =? _) = true |- _ => apply Z.eqb_eq in Hh; subst t
           end; reflexivity.
Qed.

(** the state a directory entry ends in, given the Lstat it started from *)
Definition dir_final (o : gopts) (e : fentry) (st0 : lstat) : lstat :=
  let mode := e_mode e in
  let mode' := if Z.land mode 128 =? 0 then Z.lor mode 128 else mode in
  let s1 := set_perms_spec o e mode' st0 in
  if Z.land mode 128 =? 0 then set_perms_spec o e mode s1 else s1.

Lemma dir_final_wanted o e st0 :
  is_dir (e_mode e) = true -> l_kind st0 = KDir -> wanted o e (dir_final o e st0).
Proof.
  intros Hd Hk. destruct (types_distinct (e_mode e)) as [T _]. destruct (T Hd) as [Tl [Tr Tv]].
  assert (L : ftype (e_mode e) =? c_S_IFLNK = false) by exact Tl.
  assert (L' : ftype (Z.lor (e_mode e) 128) =? c_S_IFLNK = false) by (rewrite ftype_lor_128; exact Tl).
  unfold dir_final, set_perms_spec.
  destruct (Z.land (e_mode e) 128 =? 0); rewrite ?L, ?L';
    (constructor; cbn [l_kind l_perm l_mtime l_uid l_gid l_link l_rdev l_nonempty negb andb];
     [ unfold kind_of_mode; rewrite Hd; exact Hk
     | reflexivity
     | intros Ht _; rewrite Ht; reflexivity
     | intros Hu; rewrite ?Hu; reflexivity
     | intros Hg; rewrite ?Hg; reflexivity
     | intros Hl; rewrite Hl in Tl; discriminate
     | intros Hv; rewrite Hv in Tv; discriminate ]).
Qed.

Lemma land_bit7 x : Z.land x 128 = 0 \/ Z.land x 128 = 128.
Proof.
  change 128 with (2 ^ 7).
  destruct (Z.testbit x 7) eqn:Tb; [right|left]; apply Z.bits_inj'; intros n Hn;
    rewrite Z.land_spec, ?Z.bits_0, (Z.pow2_bits_eqb 7 n) by lia;
    destruct (Z.eqb_spec 7 n) as [E|Ne]; try subst n; rewrite ?Tb, ?andb_false_r; reflexivity.
Qed.

(** while the contents are being created the directory is writable by its owner *)
Lemma dir_writable_meanwhile o e st0 :
  let mode' := if Z.land (e_mode e) 128 =? 0 then Z.lor (e_mode e) 128 else e_mode e in
  is_dir (e_mode e) = true -> Z.land (l_perm (set_perms_spec o e mode' st0)) 128 = 128.
Proof.
  intros mode' Hd. destruct (types_distinct (e_mode e)) as [T _]. destruct (T Hd) as [Tl _].
  unfold set_perms_spec, mode'. cbn [l_perm].
  destruct (Z.land (e_mode e) 128 =? 0) eqn:W.
  - rewrite ftype_lor_128. change (ftype (e_mode e) =? c_S_IFLNK) with (is_link (e_mode e)). rewrite Tl.
    unfold perm_of. rewrite <- Z.land_assoc. rewrite (Z.land_comm 511 128). change (Z.land 128 511) with 128.
    rewrite Z.land_lor_distr_l. apply Z.eqb_eq in W. rewrite W. reflexivity.
  - change (ftype (e_mode e) =? c_S_IFLNK) with (is_link (e_mode e)). rewrite Tl.
    unfold perm_of. rewrite <- Z.land_assoc. rewrite (Z.land_comm 511 128). change (Z.land 128 511) with 128.
    apply Z.eqb_neq in W.
    (* a single-bit mask yields 0 or the bit *)
    assert (B : Z.land (e_mode e) 128 = 0 \/ Z.land (e_mode e) 128 = 128).
    { apply land_bit7. }
    destruct B; [contradiction|assumption].
Qed.

Lemma touch_phase o e now st1 c :
  g_dry o = false -> is_dir (e_mode e) = true ->
  run_ops (e_name e) now (PNode st1 c) (touch_up_ops o e st1) =
  PNode (if Z.land (e_mode e) 128 =? 0 then set_perms_spec o e (e_mode e) st1 else st1) c.
Proof.
  intros D Hd. unfold touch_up_ops. rewrite Hd, D. cbn [negb orb].
  destruct (Z.land (e_mode e) 128 =? 0); cbn [negb].
  - now apply set_perms_result.
  - reflexivity.
Qed.

Lemma touch_phase_nondir o e st1 : is_dir (e_mode e) = false -> touch_up_ops o e st1 = [].
Proof. intros Hd. unfold touch_up_ops. now rewrite Hd. Qed.

Section EntrySteps.
  Variable Hp : list Z -> list Z.

  Lemma entry_step_dir o ac it e now s s' rq :
    g_dry o = false -> is_dir (e_mode e) = true ->
    entry_step Hp o ac it e now s = (s', rq) -> rq <> ReqError ->
    exists st0 c0, l_kind st0 = KDir /\ s' = PNode (dir_final o e st0) c0.
  Proof.
    intros D Hd E Hne. unfold entry_step, gen_entry' in E.
    set (mode' := if Z.land (e_mode e) 128 =? 0 then Z.lor (e_mode e) 128 else e_mode e) in *.
    assert (Mk : forall perm rest, run_ops (e_name e) now PAbsent (OpMkdirAll (e_name e) perm :: rest) =
                 run_ops (e_name e) now (PNode (fresh KDir perm now) []) rest).
    { intros. unfold run_ops. cbn [fold_left apply_op]. now rewrite list_eqb_refl. }
    assert (Rm : forall st c rest, run_ops (e_name e) now (PNode st c) (OpRemove (e_name e) :: rest) =
                 run_ops (e_name e) now PAbsent rest).
    { intros. unfold run_ops. cbn [fold_left apply_op]. now rewrite list_eqb_refl. }
    destruct s as [|st c]; cbn [lstat_of] in E.
    - unfold gen_entry in E. rewrite Hd, D in E. fold mode' in E.
      cbn [app] in E. rewrite Mk, set_perms_result in E by exact D.
      rewrite touch_phase in E by assumption. injection E as E _. subst s'.
      eexists _, _. split; [|unfold dir_final; fold mode'; reflexivity]. reflexivity.
    - rewrite Hd, D in E. cbn [negb andb] in E.
      destruct (l_kind st) eqn:K.
      + (* already a directory *)
        rewrite andb_false_r in E. unfold gen_entry in E. rewrite Hd, D, K in E. fold mode' in E.
        rewrite set_perms_result in E by exact D. rewrite touch_phase in E by assumption.
        injection E as E _. subst s'. exists st, c. split; [exact K|unfold dir_final; fold mode'; reflexivity].
      + rewrite andb_true_r in E. destruct (removable st) eqn:R; cbn [negb] in E.
        * unfold gen_entry in E. rewrite Hd, D, K in E. fold mode' in E.
          cbn [app] in E. rewrite Rm, Mk, set_perms_result in E by exact D. rewrite touch_phase in E by assumption.
          injection E as E _. subst s'. eexists _, _. split; [|unfold dir_final; fold mode'; reflexivity]. reflexivity.
        * injection E as _ E. now subst rq.
      + rewrite andb_true_r in E. destruct (removable st) eqn:R; cbn [negb] in E.
        * unfold gen_entry in E. rewrite Hd, D, K in E. fold mode' in E.
          cbn [app] in E. rewrite Rm, Mk, set_perms_result in E by exact D. rewrite touch_phase in E by assumption.
          injection E as E _. subst s'. eexists _, _. split; [|unfold dir_final; fold mode'; reflexivity]. reflexivity.
        * injection E as _ E. now subst rq.
      + rewrite andb_true_r in E. destruct (removable st) eqn:R; cbn [negb] in E.
        * unfold gen_entry in E. rewrite Hd, D, K in E. fold mode' in E.
          cbn [app] in E. rewrite Rm, Mk, set_perms_result in E by exact D. rewrite touch_phase in E by assumption.
          injection E as E _. subst s'. eexists _, _. split; [|unfold dir_final; fold mode'; reflexivity]. reflexivity.
        * injection E as _ E. now subst rq.
  Qed.
End EntrySteps.

Lemma ftype_idem m : ftype (ftype m) = ftype m.
Proof. unfold ftype. rewrite <- Z.land_assoc. now rewrite Z.land_diag. Qed.
Lemma is_dev_ftype m : is_dev (ftype m) = is_dev m.
Proof. unfold is_dev. now rewrite ftype_idem. Qed.

Lemma set_perms_spec_wanted o e st0 :
  l_kind st0 = kind_of_mode (e_mode e) ->
  (is_link (e_mode e) = true -> l_link st0 = e_link e) ->
  (is_dev (e_mode e) = true -> l_rdev st0 = e_rdev e) ->
  wanted o e (set_perms_spec o e (e_mode e) st0).
Proof.
  intros K L R. unfold set_perms_spec.
  change (ftype (e_mode e) =? c_S_IFLNK) with (is_link (e_mode e)).
  constructor; cbn [l_kind l_perm l_mtime l_uid l_gid l_link l_rdev l_nonempty].
  - exact K.
  - intros Hl. now rewrite Hl.
  - intros Ht Hl. now rewrite Ht, Hl.
  - intros Hu. now rewrite Hu.
  - intros Hg. now rewrite Hg.
  - exact L.
  - exact R.
Qed.

Section EntrySteps2.
  Variable Hp : list Z -> list Z.

  Lemma entry_step_link o ac it e now s s' rq :
    g_dry o = false -> g_links o = true -> is_link (e_mode e) = true ->
    entry_step Hp o ac it e now s = (s', rq) -> rq <> ReqError ->
    exists st c, s' = PNode st c /\ wanted o e st.
  Proof.
    intros D GL Hl E Hne.
    destruct (types_distinct (e_mode e)) as [_ [T _]]. destruct (T Hl) as [Td [Tr Tv]].
    assert (KM : kind_of_mode (e_mode e) = KLnk) by (unfold kind_of_mode; now rewrite Td, Hl).
    assert (Sy : forall s0 rest, run_ops (e_name e) now s0 (OpSymlink (e_link e) (e_name e) :: rest) =
                 run_ops (e_name e) now (PNode (mkL KLnk 511 now 0 0 (e_link e) 0 false) []) rest).
    { intros. unfold run_ops. cbn [fold_left apply_op]. now rewrite list_eqb_refl. }
    assert (New : forall s0, exists st c,
               run_ops (e_name e) now s0 (fst (new_symlink o e now)) = PNode st c /\ wanted o e st).
    { intros s0. unfold new_symlink. cbn [fst app]. rewrite Sy, set_perms_result by exact D.
      eexists _, _. split; [reflexivity|]. apply set_perms_spec_wanted.
      - now rewrite KM.
      - reflexivity.
      - intros Hv. rewrite Hv in Tv. discriminate. }
    unfold entry_step, gen_entry' in E. rewrite Td in E.
    assert (E' : (let '(ops, rq) := gen_entry o e (lstat_of s) (skip_of Hp ac it e s) now in
                  let s1 := run_ops (e_name e) now s ops in
                  match rq with ReqError => (s1, rq) | _ => (s1, rq) end) = (s', rq)).
    { destruct s as [|st c]; cbn [lstat_of andb] in E;
        destruct (gen_entry o e _ _ now) as [ops rq0];
        destruct rq0; try exact E;
        destruct (run_ops (e_name e) now _ ops) as [|st1 c1]; try exact E;
        rewrite touch_phase_nondir in E by exact Td; exact E. }
    clear E. unfold gen_entry in E'. rewrite Td, GL, Hl, D in E'. cbn [andb] in E'.
    destruct s as [|st c]; cbn [lstat_of] in E'.
    - destruct (New PAbsent) as [st1 [c1 [R W]]]. unfold new_symlink in *. cbn [fst] in R.
      rewrite R in E'. injection E' as E1 _. subst s'. eauto.
    - destruct (l_kind st) eqn:K.
      + injection E' as _ E2. now subst rq.
      + destruct (New (PNode st c)) as [st1 [c1 [R W]]]. unfold new_symlink in *. cbn [fst] in R.
        rewrite R in E'. injection E' as E1 _. subst s'. eauto.
      + destruct (list_eqb (l_link st) (e_link e)) eqn:LE.
        * rewrite set_perms_result in E' by exact D. injection E' as E1 _. subst s'.
          eexists _, _. split; [reflexivity|]. apply set_perms_spec_wanted.
          -- now rewrite KM.
          -- intros _. now apply list_eqb_eq.
          -- intros Hv. rewrite Hv in Tv. discriminate.
        * destruct (New (PNode st c)) as [st1 [c1 [R W]]]. unfold new_symlink in *. cbn [fst] in R.
          rewrite R in E'. injection E' as E1 _. subst s'. eauto.
      + destruct (New (PNode st c)) as [st1 [c1 [R W]]]. unfold new_symlink in *. cbn [fst] in R.
        rewrite R in E'. injection E' as E1 _. subst s'. eauto.
  Qed.
End EntrySteps2.

Lemma land_small p : 0 <= p < 512 -> Z.land p 511 = p.
Proof. intros Hp. change 511 with (Z.ones 9). rewrite Z.land_ones by lia. apply Z.mod_small. change (2 ^ 9) with 512. lia. Qed.
Lemma keep_perm_perm mode p : 0 <= p < 512 -> perm_of (Z.lor (Z.land mode (Z.lnot 511)) p) = p.
Proof.
  intros Hp. unfold perm_of. rewrite Z.land_lor_distr_l, <- Z.land_assoc.
  change (Z.land (Z.lnot 511) 511) with 0. rewrite Z.land_0_r, Z.lor_0_l. now apply land_small.
Qed.
Lemma keep_perm_ftype mode p : 0 <= p < 512 -> ftype (Z.lor (Z.land mode (Z.lnot 511)) p) = ftype mode.
Proof.
  intros Hp. unfold ftype. rewrite Z.land_lor_distr_l, <- Z.land_assoc.
  replace (Z.land (Z.lnot 511) c_S_IFMT) with c_S_IFMT by (vm_compute; reflexivity).
  rewrite <- (land_small p Hp), <- Z.land_assoc.
  replace (Z.land 511 c_S_IFMT) with 0 by (vm_compute; reflexivity). now rewrite Z.land_0_r, Z.lor_0_r.
Qed.

Section EntrySteps3.
  Variable Hp : list Z -> list Z.

  Lemma entry_step_node o ac it e now s s' rq :
    g_dry o = false ->
    (g_devices o && is_dev (e_mode e)) || (g_specials o && is_special (e_mode e)) = true ->
    entry_step Hp o ac it e now s = (s', rq) -> rq <> ReqError ->
    exists st c, s' = PNode st c /\ wanted o e st.
  Proof.
    intros D Hh E Hne.
    assert (T : is_dir (e_mode e) = false /\ is_link (e_mode e) = false /\ is_reg (e_mode e) = false).
    { destruct (types_distinct (e_mode e)) as [_ [_ [T3 T4]]].
      apply orb_true_iff in Hh. destruct Hh as [Hh|Hh]; apply andb_true_iff in Hh; destruct Hh as [_ Hh].
      - destruct (T3 Hh) as [? [? ?]]. auto.
      - destruct (T4 Hh) as [? [? [? ?]]]. auto. }
    destruct T as [Td [Tl Tr]].
    assert (KM : kind_of_mode (e_mode e) = KOther (ftype (e_mode e))) by (unfold kind_of_mode; now rewrite Td, Tl, Tr).
    set (pm := masked o (if ftype (e_mode e) =? c_S_IFSOCK then 511 else perm_of (e_mode e))) in *.
    set (st' := mkL (KOther (ftype (e_mode e))) pm now 0 0 [] (if is_dev (e_mode e) then e_rdev e else 0) false).
    assert (Mk : forall rest, run_ops (e_name e) now PAbsent (OpMknod (e_name e) (ftype (e_mode e)) pm (e_rdev e) :: rest) =
                 run_ops (e_name e) now (PNode st' []) rest).
    { intros. unfold run_ops. cbn [fold_left apply_op]. rewrite list_eqb_refl, is_dev_ftype. reflexivity. }
    assert (Rm : forall st c rest, run_ops (e_name e) now (PNode st c) (OpRemove (e_name e) :: rest) =
                 run_ops (e_name e) now PAbsent rest).
    { intros. unfold run_ops. cbn [fold_left apply_op]. now rewrite list_eqb_refl. }
    assert (W' : wanted o e (set_perms_spec o e (e_mode e) st')).
    { apply set_perms_spec_wanted.
      - now rewrite KM.
      - intros Hl. rewrite Hl in Tl. discriminate.
      - intros Hv. unfold st'. cbn [l_rdev]. now rewrite Hv. }
    unfold entry_step, gen_entry' in E. rewrite Td in E.
    assert (E' : (let '(ops, rq) := gen_entry o e (lstat_of s) (skip_of Hp ac it e s) now in
                  (run_ops (e_name e) now s ops, rq)) = (s', rq)).
    { destruct s as [|st c]; cbn [lstat_of andb] in E;
        destruct (gen_entry o e _ _ now) as [ops rq0];
        destruct rq0; try exact E;
        destruct (run_ops (e_name e) now _ ops) as [|st1 c1]; try exact E;
        rewrite touch_phase_nondir in E by exact Td; exact E. }
    clear E. unfold gen_entry in E'. rewrite Td, Tl, Hh, D in E'. rewrite andb_false_r in E'.
    fold pm in E'. fold st' in E'.
    destruct s as [|st c]; cbn [lstat_of] in E'.
    - cbn [app] in E'. rewrite Mk, set_perms_result in E' by exact D. injection E' as E1 _. subst s'. eauto.
    - destruct (same_device e st) eqn:SD.
      + rewrite set_perms_result in E' by exact D. injection E' as E1 _. subst s'.
        eexists _, _. split; [reflexivity|]. unfold same_device in SD.
        destruct (l_kind st) as [| | |t] eqn:K; try discriminate. apply andb_true_iff in SD. destruct SD as [S1 S2].
        apply Z.eqb_eq in S1. subst t.
        apply set_perms_spec_wanted.
        * now rewrite KM.
        * intros Hl. rewrite Hl in Tl. discriminate.
        * intros Hv. rewrite Hv in S2. cbn [negb orb] in S2. now apply Z.eqb_eq.
      + destruct (removable st).
        * cbn [app] in E'. rewrite Rm, Mk, set_perms_result in E' by exact D. injection E' as E1 _. subst s'. eauto.
        * injection E' as _ E2. now subst rq.
  Qed.

  (** an up-to-date regular file: metadata only; without -p its own permissions stay *)
  Lemma entry_step_uptodate o ac it e now st c s' rq :
    g_dry o = false -> is_reg (e_mode e) = true -> l_kind st = KReg -> 0 <= l_perm st < 512 ->
    skip_of Hp ac it e (PNode st c) = true ->
    entry_step Hp o ac it e now (PNode st c) = (s', rq) ->
    rq = ReqNone /\
    s' = PNode (mkL KReg (if g_perms o then perm_of (e_mode e) else l_perm st)
                    (if g_times o then e_mtime e else l_mtime st)
                    (if g_uid o && g_am_root o then e_uid e else l_uid st)
                    (if g_gid o && g_am_root o then e_gid e else l_gid st)
                    (l_link st) (l_rdev st) (l_nonempty st)) c.
  Proof.
    intros D Hr K PR SK E.
    assert (T : is_dir (e_mode e) = false /\ is_link (e_mode e) = false /\ is_dev (e_mode e) = false /\ is_special (e_mode e) = false).
    { unfold is_reg in Hr. apply Z.eqb_eq in Hr. unfold is_dir, is_link, is_dev, is_special. rewrite Hr. vm_compute. auto. }
    destruct T as [Td [Tl [Tv Ts]]].
    unfold entry_step, gen_entry' in E. rewrite Td in E. cbn [lstat_of andb] in E.
    unfold gen_entry in E. rewrite Td, Tl, Tv, Ts, Hr, K, SK in E. rewrite !andb_false_r in E. cbn [orb negb] in E.
    rewrite set_perms_result in E by exact D.
    rewrite touch_phase_nondir in E by exact Td. cbn [run_ops fold_left] in E.
    injection E as E1 E2. split; [now subst rq|]. subst s'. f_equal.
    unfold set_perms_spec. rewrite K.
    destruct (g_perms o).
    - change (ftype (e_mode e) =? c_S_IFLNK) with (is_link (e_mode e)). rewrite Tl. cbn [negb]. now rewrite andb_true_r.
    - rewrite keep_perm_ftype, keep_perm_perm by exact PR.
      change (ftype (e_mode e) =? c_S_IFLNK) with (is_link (e_mode e)). rewrite Tl. cbn [negb]. now rewrite andb_true_r.
  Qed.
End EntrySteps3.

(** ** the receiver's commit for one requested file *)
Lemma ftype_small p : 0 <= p < 512 -> ftype p = 0.
Proof.
  intros Hp. unfold ftype. rewrite <- (land_small p Hp), <- Z.land_assoc.
  replace (Z.land 511 c_S_IFMT) with 0 by (vm_compute; reflexivity). apply Z.land_0_r.
Qed.

Lemma recv_unverified o e c old now s :
  run_ops (e_name e) now s (recv_ops o e c false old now) = s.
Proof. unfold recv_ops. destruct (g_dry o); reflexivity. Qed.

Lemma recv_commit_result o e c old now s :
  g_dry o = false -> is_reg (e_mode e) = true ->
  (forall p, old = Some p -> 0 <= p < 512) ->
  run_ops (e_name e) now s (recv_ops o e c true old now) =
  PNode (mkL KReg
             (match old with Some p => if g_perms o then perm_of (e_mode e) else p | None => perm_of (e_mode e) end)
             (if g_times o then e_mtime e else now)
             (if g_uid o && g_am_root o then e_uid e else 0)
             (if g_gid o && g_am_root o then e_gid e else 0) [] 0 false) c.
Proof.
  intros D Hr Ho. unfold recv_ops. rewrite D.
  assert (Tl : is_link (e_mode e) = false).
  { unfold is_reg in Hr. apply Z.eqb_eq in Hr. unfold is_link. rewrite Hr. reflexivity. }
  set (mode := match old with Some p => if g_perms o then e_mode e else p | None => e_mode e end).
  assert (C : run_ops (e_name e) now s ([OpCreateTemp (e_name e)] ++ [OpCommitTemp (e_name e) c] ++
                 set_perms_ops o e mode (fresh KReg 384 now) ++ [OpCleanupTemp (e_name e)]) =
              PNode (set_perms_spec o e mode (fresh KReg 384 now)) c).
  { cbn [app]. unfold run_ops at 1. cbn [fold_left apply_op]. rewrite list_eqb_refl.
    change (fold_left (apply_op (e_name e) now) ?l ?s0) with (run_ops (e_name e) now s0 l).
    rewrite run_ops_app, set_perms_result by exact D. reflexivity. }
  replace ([OpCreateTemp (e_name e)] ++ ([OpCommitTemp (e_name e) c] ++ set_perms_ops o e mode (fresh KReg 384 now)) ++ [OpCleanupTemp (e_name e)])
    with ([OpCreateTemp (e_name e)] ++ [OpCommitTemp (e_name e) c] ++ set_perms_ops o e mode (fresh KReg 384 now) ++ [OpCleanupTemp (e_name e)])
    by (now rewrite <- !app_assoc).
  rewrite C. f_equal. unfold set_perms_spec, fresh. cbn [l_kind l_perm l_mtime l_uid l_gid l_link l_rdev l_nonempty].
  assert (ML : (ftype mode =? c_S_IFLNK) = false /\
               perm_of mode = match old with Some p => if g_perms o then perm_of (e_mode e) else p | None => perm_of (e_mode e) end).
  { unfold mode. destruct old as [p|]; [destruct (g_perms o)|].
    - split; [exact Tl|reflexivity].
    - specialize (Ho p eq_refl). split; [rewrite ftype_small by exact Ho; reflexivity|].
      unfold perm_of. now apply land_small.
    - split; [exact Tl|reflexivity]. }
  destruct ML as [ML1 ML2]. rewrite ML1, ML2. cbn [negb]. now rewrite andb_true_r.
Qed.

(** ** ids by name *)
Lemma map_id_unlisted m id : (forall v, ~ In (id, v) m) -> map_id m id = id.
Proof.
  induction m as [|[k v] m IH]; intros H; [reflexivity|]. cbn [map_id].
  destruct (k =? id) eqn:E.
  - apply Z.eqb_eq in E. subst k. exfalso. apply (H v). now left.
  - apply IH. intros v' Hin. apply (H v'). now right.
Qed.

Lemma map_id_first m id v : NoDup (map fst m) -> In (id, v) m -> map_id m id = v.
Proof.
  induction m as [|[k w] m IH]; intros ND Hin; [destruct Hin|]. cbn [map_id].
  inversion ND as [|? ? Hnot ND']; subst.
  destruct Hin as [E|Hin].
  - injection E as -> ->. now rewrite Z.eqb_refl.
  - destruct (k =? id) eqn:E.
    + apply Z.eqb_eq in E. subst k. exfalso. apply Hnot. change id with (fst (id, v)). now apply in_map.
    + now apply IH.
Qed.

Lemma id_map_of_known lookup ids id name l :
  NoDup (map fst ids) -> In (id, name) ids -> lookup name = Some l ->
  map_id (id_map_of lookup ids) id = l.
Proof.
  intros ND Hin Hl. apply map_id_first.
  - unfold id_map_of. rewrite map_map. cbn [fst]. exact ND.
  - unfold id_map_of. apply in_map_iff. exists (id, name). cbn [fst snd]. rewrite Hl. auto.
Qed.

Lemma id_map_of_unknown_name lookup ids id name :
  NoDup (map fst ids) -> In (id, name) ids -> lookup name = None ->
  map_id (id_map_of lookup ids) id = id.
Proof.
  intros ND Hin Hl. apply map_id_first.
  - unfold id_map_of. rewrite map_map. cbn [fst]. exact ND.
  - unfold id_map_of. apply in_map_iff. exists (id, name). cbn [fst snd]. rewrite Hl. auto.
Qed.

Lemma id_map_of_unlisted lookup ids id :
  (forall name, ~ In (id, name) ids) -> map_id (id_map_of lookup ids) id = id.
Proof.
  intros H. apply map_id_unlisted. intros v Hin. unfold id_map_of in Hin.
  apply in_map_iff in Hin. destruct Hin as [[k nm] [E Hin]]. cbn [fst snd] in E. injection E as -> _.
  exact (H nm Hin).
Qed.
