(** The rolling-checksum invariant of the hash search, absence of crashes and
    fuel exhaustion, and completeness of the per-offset lookup (C16). *)
From Coq Require Import ZArith List Bool Lia FMapPositive.
From RV Require Import Model.Bytes Model.Checksum Model.Delta Model.Sender
     Proofs.BytesProofs Proofs.ChecksumProofs Proofs.DeltaProofs Proofs.SenderProofs Gen.Consts.
Import ListNotations.
Open Scope Z_scope.

(** ** congruences modulo M *)
Lemma eqm_intro x x' M : 0 < M -> x mod M = x' mod M -> exists q, x = x' + q * M.
Proof.
  intros HM E. exists (x / M - x' / M).
  pose proof (Z.div_mod x M ltac:(lia)). pose proof (Z.div_mod x' M ltac:(lia)).
  rewrite E in *. lia.
Qed.

Lemma eqm_elim x x' q M : x = x' + q * M -> x mod M = x' mod M.
Proof. intros ->. apply Z_mod_plus_full. Qed.

Lemma takeZ_cons n x (l : list Z) : 1 <= n -> takeZ n (x :: l) = x :: takeZ (n - 1) l.
Proof.
  intros Hn. cbn [takeZ]. destruct (Z.leb_spec n 0); [lia|reflexivity].
Qed.

Lemma takeZ_snoc n (l : list Z) x r : 0 <= n -> dropZ n l = x :: r -> takeZ (n + 1) l = takeZ n l ++ [x].
Proof.
  intros Hn E. rewrite <- (takeZ_takeZ_dropZ n 1 l) by lia. rewrite E.
  f_equal. rewrite takeZ_cons by lia. cbn [Z.sub Z.add Z.opp Z.pos_sub]. now rewrite takeZ_0.
Qed.

Lemma dropZ_nonempty n (l : list Z) : 0 <= n < lenZ l -> exists x r, dropZ n l = x :: r.
Proof.
  intros Hn. destruct (dropZ n l) as [|x r] eqn:E.
  - pose proof (lenZ_dropZ n l ltac:(lia)) as Hl. rewrite E, lenZ_nil in Hl. lia.
  - eauto.
Qed.

Section SearchInv.
  Variable H : list Z -> list Z.
  Variable seed : Z.
  Variable chunk : Z.
  Hypothesis Hchunk : 1 <= chunk.
  Variable h : sum_head.
  Variable sums : list sumbuf.
  Variable target : list Z.
  Let size := lenZ target.
  Variable tt : tagtable.
  Variable end_ : Z.
  Hypothesis Htt : forall t i s1 s2, In (i, s1, s2) (tt_find tt t) ->
                     0 <= i /\ nth_error sums (Z.to_nat i) = Some (s1, s2).
  Hypothesis Hend : end_ <= size.
  Hypothesis Hblen : 1 <= h_blen h.

  (** Registers at the top of the loop: [k] is the window length, [ahead] the
      file from the end of the window, and (s1, s2) are the two 16-bit halves
      of the weak checksum of the window target[off, off+k) — at *every*
      offset, not only after a match. *)
  Definition RInv (st : sstate) : Prop :=
    st_k st = Z.min (h_blen h) (size - st_off st) /\
    st_ahead st = dropZ (st_off st + st_k st) target /\
    st_s1 st = S1 (takeZ (st_k st) (st_cur st)) mod 65536 /\
    st_s2 st = S2 (takeZ (st_k st) (st_cur st)) mod 65536.

  (** One rolling step from a consistent register state. *)
  Lemma roll_regs off k s1 s2 (cur ahead : list Z) :
    0 <= off < size -> cur = dropZ off target ->
    k = Z.min (h_blen h) (size - off) -> ahead = dropZ (off + k) target ->
    s1 = S1 (takeZ k cur) mod 65536 -> s2 = S2 (takeZ k cur) mod 65536 ->
    exists u0 cur2, cur = u0 :: cur2 /\ cur2 = dropZ (off + 1) target /\
      (if off + k <? size then
         exists uk ahead2, ahead = uk :: ahead2 /\
           let a := s1 - se u0 + se uk in
           RInv (mkS (off + 1) k (a mod 65536) ((s2 - k * se u0 + a) mod 65536) 0 cur2 ahead2 [] [])
       else
         RInv (mkS (off + 1) (k - 1) ((s1 - se u0) mod 65536) ((s2 - k * se u0) mod 65536) 0 cur2 ahead [] [])).
  Proof.
    intros Hoff Hcur Hk Hah Hs1 Hs2.
    destruct (dropZ_nonempty off target ltac:(fold size; lia)) as (u0 & cur2 & Ec).
    rewrite <- Hcur in Ec. exists u0, cur2. split; [exact Ec|].
    assert (Hcur2 : cur2 = dropZ (off + 1) target).
    { eapply dropZ_cons_next; [lia|]. rewrite <- Hcur. exact Ec. }
    split; [exact Hcur2|].
    assert (Hk1 : 1 <= k <= size - off) by lia.
    assert (Hlc2 : lenZ cur2 = size - off - 1).
    { rewrite Hcur2. rewrite lenZ_dropZ by (fold size; lia). fold size. lia. }
    assert (Hw1 : takeZ k cur = u0 :: takeZ (k - 1) cur2).
    { rewrite Ec. apply takeZ_cons. lia. }
    assert (Hlm : Z.of_nat (length (u0 :: takeZ (k - 1) cur2)) = k).
    { cbn [length]. rewrite Nat2Z.inj_succ, <- lenZ_length, lenZ_takeZ by lia. lia. }
    destruct (Z.ltb_spec (off + k) size) as [Hmore|Hnomore].
    - (* slide the window *)
      destruct (dropZ_nonempty (off + k) target ltac:(fold size; lia)) as (uk & ahead2 & Ea).
      rewrite <- Hah in Ea. exists uk, ahead2. split; [exact Ea|].
      assert (Hw2 : takeZ k cur2 = takeZ (k - 1) cur2 ++ [uk]).
      { replace k with (k - 1 + 1) at 1 by lia. eapply takeZ_snoc; [lia|].
        rewrite Hcur2, dropZ_dropZ by lia. replace (off + 1 + (k - 1)) with (off + k) by lia.
        rewrite <- Hah. exact Ea. }
      unfold RInv. cbn [st_off st_k st_s1 st_s2 st_cur st_ahead].
      split; [lia|]. split.
      { rewrite Hah in Ea. eapply dropZ_cons_next in Ea; [|lia]. rewrite Ea. f_equal. lia. }
      rewrite Hw2, (roll_S2 u0), (roll_S1 u0). rewrite Hlm.
      rewrite Hw1 in Hs1, Hs2.
      set (X1 := S1 (u0 :: takeZ (k - 1) cur2)) in *.
      set (X2 := S2 (u0 :: takeZ (k - 1) cur2)) in *.
      assert (E1 : s1 mod 65536 = X1 mod 65536) by (rewrite Hs1; apply Zmod_mod).
      assert (E2 : s2 mod 65536 = X2 mod 65536) by (rewrite Hs2; apply Zmod_mod).
      destruct (eqm_intro _ _ 65536 ltac:(lia) E1) as (q1 & Q1).
      destruct (eqm_intro _ _ 65536 ltac:(lia) E2) as (q2 & Q2).
      split.
      + apply eqm_elim with (q := q1). lia.
      + apply eqm_elim with (q := q2 + q1). lia.
    - (* the window shrinks at the end of the file *)
      assert (Hkk : k = size - off) by lia.
      unfold RInv. cbn [st_off st_k st_s1 st_s2 st_cur st_ahead].
      split; [lia|]. split; [subst ahead; f_equal; lia|].
      assert (Hall : takeZ (k - 1) cur2 = cur2) by (apply takeZ_all; lia).
      rewrite Hall in *.
      rewrite (shrink_S1 u0 cur2), (shrink_S2 u0 cur2).
      replace (Z.of_nat (length (u0 :: cur2))) with k by (rewrite <- Hlm; reflexivity).
      rewrite Hw1 in Hs1, Hs2.
      set (X1 := S1 (u0 :: cur2)) in *. set (X2 := S2 (u0 :: cur2)) in *.
      assert (E1 : s1 mod 65536 = X1 mod 65536) by (rewrite Hs1; apply Zmod_mod).
      assert (E2 : s2 mod 65536 = X2 mod 65536) by (rewrite Hs2; apply Zmod_mod).
      destruct (eqm_intro _ _ 65536 ltac:(lia) E1) as (q1 & Q1).
      destruct (eqm_intro _ _ 65536 ltac:(lia) E2) as (q2 & Q2).
      split.
      + apply eqm_elim with (q := q1). lia.
      + apply eqm_elim with (q := q2). lia.
  Qed.

  (** The tail of the loop body after the optional match, as a function of
      the (possibly re-read) registers. *)
  Definition body_tail (matched : bool) off1 k1 s11 s21 lastm1 (cur1 ahead1 lmc1 : list Z) rtoks1 : step_result :=
    if matched && (end_ <=? off1) then Done lastm1 lmc1 rtoks1 else
    let backup := Z.max (off1 - lastm1) 0 in
    let more := off1 + k1 <? size in
    match cur1 with
    | [] => Crashed CrashUpdate0
    | u0 :: cur2 =>
      let r :=
        if more then
          match ahead1 with
          | [] => inr CrashUpdateK
          | uk :: ahead2 =>
              let a := s11 - se u0 + se uk in
              inl (k1, a mod 65536, (s21 - k1 * se u0 + a) mod 65536, ahead2)
          end
        else inl (k1 - 1, (s11 - se u0) mod 65536, (s21 - k1 * se u0) mod 65536, ahead1) in
      match r with
      | inr c => Crashed c
      | inl (k2, s12, s22, ahead2) =>
        let '(lastm2, lmc2, rtoks2) :=
          if (h_blen h + chunk <=? backup) && (chunk <? end_ - off1) then
            let n := (off1 - h_blen h) - lastm1 in
            (off1 - h_blen h, dropZ n lmc1, emit_lit chunk n lmc1 rtoks1)
          else (lastm1, lmc1, rtoks1) in
        let off2 := off1 + 1 in
        if end_ <=? off2 then Done lastm2 lmc2 rtoks2
        else Next (mkS off2 k2 s12 s22 lastm2 cur2 ahead2 lmc2 rtoks2)
      end
    end.

  Lemma body_tail_regs matched off1 k1 s11 s21 lastm1 cur1 ahead1 lmc1 rtoks1 :
    0 <= off1 < size -> cur1 = dropZ off1 target ->
    k1 = Z.min (h_blen h) (size - off1) -> ahead1 = dropZ (off1 + k1) target ->
    s11 = S1 (takeZ k1 cur1) mod 65536 -> s21 = S2 (takeZ k1 cur1) mod 65536 ->
    match body_tail matched off1 k1 s11 s21 lastm1 cur1 ahead1 lmc1 rtoks1 with
    | Next st' => RInv st' /\ st_off st' = off1 + 1
    | Crashed _ => False
    | Done _ _ _ => True
    end.
  Proof.
    intros Hoff Hcur Hk Hah Hs1 Hs2. unfold body_tail.
    destruct (matched && (end_ <=? off1)); [exact I|].
    destruct (roll_regs off1 k1 s11 s21 cur1 ahead1 Hoff Hcur Hk Hah Hs1 Hs2)
      as (u0 & cur2 & Ec & Hc2 & Hroll).
    rewrite Ec.
    destruct (off1 + k1 <? size).
    - destruct Hroll as (uk & ahead2 & Ea & HR). rewrite Ea.
      destruct ((h_blen h + chunk <=? Z.max (off1 - lastm1) 0) && (chunk <? end_ - off1));
        destruct (end_ <=? off1 + 1); try exact I; (split; [exact HR|reflexivity]).
    - destruct ((h_blen h + chunk <=? Z.max (off1 - lastm1) 0) && (chunk <? end_ - off1));
        destruct (end_ <=? off1 + 1); try exact I; (split; [exact Hroll|reflexivity]).
  Qed.

  (** [body] is [body_tail] after the optional match. *)
  Lemma body_unfold st :
    body H seed chunk h tt size end_ st =
    let off := st_off st in
    let l := Z.min (h_blen h) (size - off) in
    let sum := (st_s1 st mod 65536) + (st_s2 st mod 65536) * 65536 in
    match scan H seed h (tt_find tt (tag2 (st_s1 st) (st_s2 st))) sum l (st_cur st) None with
    | Some i =>
        let n := off - st_lastm st in
        let len := block_len h i in
        let off' := off + len - 1 in
        let cur' := dropZ (len - 1) (st_cur st) in
        let k' := Z.min (h_blen h) (size - off') in
        let sm := checksum1 (takeZ k' cur') in
        body_tail true off' k' (sum_lo sm) (sum_hi sm) (off + len) cur' (dropZ k' cur')
                  (dropZ (n + len) (st_lmc st)) (Ref i :: emit_lit chunk n (st_lmc st) (st_rtoks st))
    | None =>
        body_tail false off (st_k st) (st_s1 st) (st_s2 st) (st_lastm st) (st_cur st) (st_ahead st)
                  (st_lmc st) (st_rtoks st)
    end.
  Proof.
    unfold body, body_tail, read_chunk. cbv zeta.
    destruct (scan H seed h (tt_find tt (tag2 (st_s1 st) (st_s2 st)))
                   (st_s1 st mod 65536 + st_s2 st mod 65536 * 65536)
                   (Z.min (h_blen h) (size - st_off st)) (st_cur st) None); reflexivity.
  Qed.

  (** *** the registers track the window checksum at every offset, and the
      body never crashes *)
  Lemma body_regs st :
    SInv H seed chunk h sums target st -> RInv st ->
    match body H seed chunk h tt size end_ st with
    | Next st' => RInv st' /\ st_off st < st_off st'
    | Crashed _ => False
    | Done _ _ _ => True
    end.
  Proof.
    intros (Hlm & Hoff & Hcur & Hlmc & Hr) (Hk & Hah & Hs1 & Hs2).
    rewrite body_unfold. cbv zeta.
    destruct (scan H seed h (tt_find tt (tag2 (st_s1 st) (st_s2 st)))
                   (st_s1 st mod 65536 + st_s2 st mod 65536 * 65536)
                   (Z.min (h_blen h) (size - st_off st)) (st_cur st) None) as [i|] eqn:Hscan.
    - apply scan_sound in Hscan; [|discriminate].
      destruct Hscan as (s1i & Hin & Hl).
      assert (Hl1 : 1 <= block_len h i <= size - st_off st) by lia.
      set (off' := st_off st + block_len h i - 1).
      set (cur' := dropZ (block_len h i - 1) (st_cur st)).
      assert (Hcur' : cur' = dropZ off' target).
      { unfold cur', off'. rewrite Hcur, dropZ_dropZ by lia. f_equal. lia. }
      pose proof (body_tail_regs true off' (Z.min (h_blen h) (size - off'))
                    (sum_lo (checksum1 (takeZ (Z.min (h_blen h) (size - off')) cur')))
                    (sum_hi (checksum1 (takeZ (Z.min (h_blen h) (size - off')) cur')))
                    (st_off st + block_len h i) cur' (dropZ (Z.min (h_blen h) (size - off')) cur')
                    (dropZ (st_off st - st_lastm st + block_len h i) (st_lmc st))
                    (Ref i :: emit_lit chunk (st_off st - st_lastm st) (st_lmc st) (st_rtoks st))) as HT.
      match type of HT with ?A -> ?B -> ?C -> ?D -> ?E -> ?F -> ?G =>
        assert (HG : G); [apply HT|] end.
      + unfold off'. lia.
      + exact Hcur'.
      + reflexivity.
      + rewrite Hcur', dropZ_dropZ by (unfold off'; lia). reflexivity.
      + apply sum_lo_checksum1.
      + apply sum_hi_checksum1.
      + destruct (body_tail true off' _ _ _ _ cur' _ _ _) as [| st' |]; try exact HG.
        destruct HG as [HR Ho]. split; [exact HR|]. rewrite Ho. unfold off'. lia.
    - pose proof (body_tail_regs false (st_off st) (st_k st) (st_s1 st) (st_s2 st) (st_lastm st)
                    (st_cur st) (st_ahead st) (st_lmc st) (st_rtoks st)
                    ltac:(lia) Hcur Hk Hah Hs1 Hs2) as HT.
      destruct (body_tail false (st_off st) _ _ _ _ _ _ _ _) as [| st' |]; try exact HT.
      destruct HT as [HR Ho]. split; [exact HR|lia].
  Qed.

  (** *** termination without crash: enough fuel always suffices *)
  Lemma search_total fuel : forall st,
    SInv H seed chunk h sums target st -> RInv st ->
    (Z.to_nat (size - st_off st) < fuel)%nat ->
    exists lastm lmc rtoks, search H seed chunk h tt size end_ fuel st = inl (Some (lastm, lmc, rtoks)).
  Proof.
    induction fuel as [|fuel IH]; intros st HS HR Hf; [lia|].
    cbn [search].
    pose proof (body_sound H seed chunk Hchunk h sums target tt end_ Htt Hend Hblen st HS) as Hb.
    pose proof (body_regs st HS HR) as Hg.
    change (lenZ target) with size in Hb.
    destruct (body H seed chunk h tt size end_ st) as [lm lc rt|st'|c].
    - eauto.
    - destruct Hg as [HR' Hlt]. apply IH; [exact Hb|exact HR'|].
      destruct HS as (_ & Hoff & _). lia.
    - destruct Hg.
  Qed.

  (** *** completeness of the per-offset lookup *)
  Lemma scan_complete cs : forall sum l cur cache i s1i,
    (forall s, cache = Some s -> s = strong H seed h (takeZ l cur)) ->
    In (i, s1i, strong H seed h (takeZ l cur)) cs -> sum = s1i -> l = block_len h i ->
    exists j, scan H seed h cs sum l cur cache = Some j.
  Proof.
    induction cs as [|[[i' s1'] s2'] r IH]; intros sum l cur cache i s1i Hc Hin Hs Hl; [destruct Hin|].
    cbn [scan].
    assert (Hstr : match cache with
                   | Some s => s
                   | None => takeZ (h_slen h) (checksum2 H seed (takeZ l cur))
                   end = strong H seed h (takeZ l cur)).
    { destruct cache as [s|]; [now apply Hc|reflexivity]. }
    destruct ((sum =? s1') && (l =? block_len h i')) eqn:Hw.
    - rewrite Hstr. destruct (list_eqb (strong H seed h (takeZ l cur)) s2') eqn:He; [eauto|].
      destruct Hin as [E|Hin].
      + inversion E; subst. rewrite list_eqb_refl in He. discriminate.
      + eapply IH; [|exact Hin|exact Hs|exact Hl]. intros s Es. inversion Es. reflexivity.
    - destruct Hin as [E|Hin].
      + inversion E; subst. rewrite !Z.eqb_refl in Hw. discriminate.
      + eapply IH; [exact Hc|exact Hin|exact Hs|exact Hl].
  Qed.

  Lemma checksum1_split w : checksum1 w = sum_lo (checksum1 w) + sum_hi (checksum1 w) * 65536.
  Proof.
    assert (Hr : 0 <= checksum1 w < 4294967296).
    { unfold checksum1. destruct (csum_loop w 0 0). apply Z.mod_pos_bound. lia. }
    unfold sum_lo, sum_hi.
    pose proof (Z.div_mod (checksum1 w) 65536 ltac:(lia)) as Hd.
    rewrite (Z.mod_small (checksum1 w / 65536) 65536).
    - lia.
    - split; [apply Z.div_pos; lia|apply Z.div_lt_upper_bound; lia].
  Qed.

  (** No false negatives: whenever the search stands at an offset whose
      window is a listed block (same length, weak and strong sums as listed),
      a block reference is emitted at that very offset. *)
  Hypothesis Httc : forall t i s1 s2, 0 <= t -> 0 <= i ->
      nth_error sums (Z.to_nat i) = Some (s1, s2) -> tag s1 = t -> In (i, s1, s2) (tt_find tt t).

  Lemma lookup_complete st i :
    SInv H seed chunk h sums target st -> RInv st -> 0 <= i ->
    let w := takeZ (Z.min (h_blen h) (size - st_off st)) (st_cur st) in
    nth_error sums (Z.to_nat i) = Some (checksum1 w, strong H seed h w) ->
    block_len h i = Z.min (h_blen h) (size - st_off st) ->
    exists j, scan H seed h (tt_find tt (tag2 (st_s1 st) (st_s2 st)))
                   (st_s1 st mod 65536 + st_s2 st mod 65536 * 65536)
                   (Z.min (h_blen h) (size - st_off st)) (st_cur st) None = Some j.
  Proof.
    intros HS (Hk & Hah & Hs1 & Hs2) Hi w Hnth Hlen.
    subst w. rewrite <- Hk in *. set (w := takeZ (st_k st) (st_cur st)) in *.
    assert (E1 : st_s1 st = sum_lo (checksum1 w)) by (rewrite sum_lo_checksum1; exact Hs1).
    assert (E2 : st_s2 st = sum_hi (checksum1 w)) by (rewrite sum_hi_checksum1; exact Hs2).
    assert (Hsum : st_s1 st mod 65536 + st_s2 st mod 65536 * 65536 = checksum1 w).
    { rewrite E1, E2. unfold sum_lo at 1, sum_hi at 1. rewrite !Zmod_mod.
      symmetry. apply checksum1_split. }
    eapply scan_complete with (i := i) (s1i := checksum1 w).
    - discriminate.
    - apply Httc; [unfold tag2; apply Z.mod_pos_bound; lia|exact Hi|exact Hnth|].
      unfold tag. rewrite E1, E2. reflexivity.
    - exact Hsum.
    - symmetry. exact Hlen.
  Qed.
End SearchInv.

Lemma send_one_nonempty H seed chunk h sums target :
  sums <> [] ->
  send_one H seed chunk h sums target =
  let size := lenZ target in
  if size =? 0 then send_whole H seed chunk target else
  let tt := tt_build sums 0 (PositiveMap.empty _) in
  let lastlen := block_len h (h_count h - 1) in
  let end_ := size + 1 - lastlen in
  let '(k, a, b) := read_chunk h size 0 target in
  match search H seed chunk h tt size end_ (S (length target))
               (mkS 0 k a b 0 target (dropZ k target) target []) with
  | inr c => SCrash c
  | inl None => SFuel
  | inl (Some (lastm, lmc, rtoks)) =>
      SOk h (rev (emit_lit chunk (size - lastm) lmc rtoks)) (filesum H seed target)
  end.
Proof. intros Hne. unfold send_one. destruct sums; [contradiction|reflexivity]. Qed.


(** The sender always completes: no crash, no fuel exhaustion, for every
    checksum list (legal or not) with block length >= 1 and every file. *)
Theorem send_one_total H seed chunk h sums target :
  1 <= chunk -> 1 <= h_blen h -> 0 <= h_rem h ->
  exists h' toks tr, send_one H seed chunk h sums target = SOk h' toks tr.
Proof.
  intros Hc Hb Hr.
  destruct sums as [|sb sums'] eqn:Es; [unfold send_one, send_whole; eauto|].
  rewrite <- Es. assert (Hne : sums <> []) by (rewrite Es; discriminate). clear Es sb sums'.
  rewrite (send_one_nonempty H seed chunk h sums target Hne). cbv zeta.
  destruct (Z.eqb_spec (lenZ target) 0) as [E0|Hnz]; [unfold send_whole; eauto|].
  pose proof (lenZ_nonneg target) as Hnn.
  destruct (read_chunk h (lenZ target) 0 target) as [[k a] b] eqn:Hrc.
  unfold read_chunk in Hrc. inversion Hrc; subst k a b. clear Hrc.
  set (tt := tt_build sums 0 (PositiveMap.empty (list cand))).
  set (end_ := lenZ target + 1 - block_len h (h_count h - 1)).
  set (st0 := mkS 0 _ _ _ 0 target _ target []).
  assert (Hend : end_ <= lenZ target).
  { unfold end_. pose proof (block_len_pos H h target Hb Hr (h_count h - 1)). lia. }
  assert (Htt : forall t i s1 s2, In (i, s1, s2) (tt_find tt t) ->
                  0 <= i /\ nth_error sums (Z.to_nat i) = Some (s1, s2)).
  { intros t i s1 s2. exact (tt_built_sound H sums target t i s1 s2). }
  assert (HS : SInv H seed chunk h sums target st0).
  { unfold SInv, st0. cbn [st_off st_k st_s1 st_s2 st_lastm st_cur st_ahead st_lmc st_rtoks].
    rewrite dropZ_0. split; [lia|]. split; [lia|]. split; [reflexivity|]. split; [reflexivity|constructor]. }
  assert (HR : RInv h target st0).
  { unfold RInv, st0. cbn [st_off st_k st_s1 st_s2 st_lastm st_cur st_ahead st_lmc st_rtoks].
    split; [reflexivity|]. split; [reflexivity|].
    split; [apply sum_lo_checksum1|apply sum_hi_checksum1]. }
  destruct (search_total H seed chunk Hc h sums target tt end_ Htt Hend Hb (S (length target)) st0 HS HR)
    as (lm & lc & rt & Es).
  { unfold st0. cbn [st_off]. rewrite lenZ_length. lia. }
  rewrite Es. eauto.
Qed.
