From Coq Require Import ZArith List Bool Lia.
From RV Require Import Model.Bytes Model.Mux Proofs.BytesProofs Gen.Consts.
Import ListNotations.
Open Scope Z_scope.

Ltac Zify.zify_post_hook ::= Z.div_mod_to_equations.

(** ** Frames round-trip through the reader *)
Lemma read_msg_frame tg p rest :
  0 <= tg < 256 - c_mplexBase -> lenZ p <= c_maxMessageSize ->
  read_msg (mux_frame tg p ++ rest) = MsgOk tg p rest.
Proof.
  unfold c_mplexBase, c_maxMessageSize. intros Ht Hl.
  pose proof (lenZ_nonneg p) as Hp.
  unfold read_msg, mux_frame, mux_header, c_mplexBase, c_maxMessageSize.
  rewrite <- app_assoc, rdu32_le32 by lia.
  set (hd := ((7 + tg) * 16777216 + lenZ p) mod 4294967296).
  assert (Hhd : hd = (7 + tg) * 16777216 + lenZ p) by (unfold hd; lia).
  replace ((hd / 16777216 - 7) mod 256) with tg by lia.
  replace (hd mod 16777216) with (lenZ p) by lia.
  destruct (Z.ltb_spec 262144 (lenZ p)); [lia|].
  now rewrite take_app.
Qed.

(** ** A stream of frames and the data it carries *)
Inductive frame := FData (p : list Z) | FInfo (p : list Z).

Definition enc_frame (f : frame) : list Z :=
  match f with FData p => mux_frame c_MsgData p | FInfo p => mux_frame c_MsgInfo p end.
Definition enc_frames (fs : list frame) : list Z := flat_map enc_frame fs.
Definition frame_ok (f : frame) : Prop :=
  match f with FData p | FInfo p => lenZ p <= c_maxMessageSize end.
Fixpoint payload (fs : list frame) : list Z :=
  match fs with
  | [] => []
  | FData p :: r => p ++ payload r
  | FInfo _ :: r => payload r
  end.

(** [Rep st d tail]: the reader state holds data [d] (buffered bytes followed
    by the data payloads of well-formed pending frames), then [tail]. *)
Definition Rep (st : bstate) (d : list Z) (tail : list Z) : Prop :=
  exists fs, Forall frame_ok fs /\ bsrc st = enc_frames fs ++ tail /\ bbuf st ++ payload fs = d.

Lemma mux_read_data cap p rest :
  lenZ p <= c_maxMessageSize -> lenZ p <= cap ->
  mux_read cap (mux_frame c_MsgData p ++ rest) = RData p rest.
Proof.
  intros Hl Hc. unfold mux_read. rewrite read_msg_frame by (unfold c_MsgData, c_mplexBase; lia || exact Hl).
  unfold c_MsgData, c_MsgError, c_MsgInfo. cbn [Z.eqb].
  destruct (Z.ltb_spec cap (lenZ p)); [lia|reflexivity].
Qed.

Lemma mux_read_info cap p rest :
  lenZ p <= c_maxMessageSize ->
  mux_read cap (mux_frame c_MsgInfo p ++ rest) = RData [] rest.
Proof.
  intros Hl. unfold mux_read. rewrite read_msg_frame by (unfold c_MsgInfo, c_mplexBase; lia || exact Hl).
  reflexivity.
Qed.

Lemma mux_read_error cap m rest :
  lenZ m <= c_maxMessageSize ->
  mux_read cap (mux_frame c_MsgError m ++ rest) = RErrMsg m.
Proof.
  intros Hl. unfold mux_read. rewrite read_msg_frame by (unfold c_MsgError, c_mplexBase; lia || exact Hl).
  reflexivity.
Qed.

Section Demux.
  Variable bsz : Z.
  (** the hard coupling: the client's buffer must hold the largest frame *)
  Hypothesis Hcover : c_maxMessageSize <= bsz.

  Lemma read_full_rep fuel : forall n acc st d tail,
    0 <= n <= lenZ d -> Rep st d tail ->
    (Z.to_nat n + length (bsrc st) < fuel)%nat ->
    exists st', read_full fuel bsz n acc st = BOk (acc ++ takeZ n d) st' /\ Rep st' (dropZ n d) tail.
  Proof.
    induction fuel as [|fuel IH]; intros n acc st d tail Hn HR Hf; [lia|].
    cbn [read_full]. destruct (Z.leb_spec n 0) as [Hz|Hpos].
    - assert (n = 0) by lia. subst n. rewrite takeZ_0, dropZ_0, app_nil_r. eauto.
    - destruct HR as (fs & Hok & Hsrc & Hd).
      unfold bufio_read.
      destruct (bbuf st) as [|b0 bb] eqn:Eb.
      + (* empty buffer: one frame is consumed *)
        cbn [app] in Hd. subst d.
        destruct fs as [|f fs'].
        { cbn in Hn. lia. }
        inversion Hok as [|? ? Hf1 Hok']; subst.
        cbn [enc_frames flat_map] in Hsrc. fold (enc_frames fs') in Hsrc. rewrite <- app_assoc in Hsrc.
        assert (Hlen : (length (enc_frames fs' ++ tail) < length (bsrc st))%nat).
        { rewrite Hsrc, !app_length. destruct f; cbn [enc_frame]; unfold mux_frame; rewrite app_length; cbn [length le32]; lia. }
        destruct f as [p|p]; cbn [enc_frame frame_ok payload] in *.
        * (* data frame *)
          pose proof (lenZ_nonneg p) as Hp0.
          rewrite Hsrc.
          rewrite mux_read_data by (destruct (Z.leb_spec bsz n); lia).
          assert (Hcase : lenZ p <= n \/ (n < lenZ p /\ n < bsz)) by (destruct (Z.leb_spec bsz n); lia).
          destruct Hcase as [Hpn|[Hpn Hsmall]].
          -- (* the whole frame is handed out *)
             assert (E1 : (if bsz <=? n then BOk p (mkB [] (enc_frames fs' ++ tail))
                           else BOk (takeZ n p) (mkB (dropZ n p) (enc_frames fs' ++ tail)))
                          = BOk p (mkB [] (enc_frames fs' ++ tail))).
             { destruct (bsz <=? n); [reflexivity|]. now rewrite takeZ_all, dropZ_all by lia. }
             rewrite E1.
             destruct (IH (n - lenZ p) (acc ++ p) (mkB [] (enc_frames fs' ++ tail)) (payload fs') tail) as (st' & E & HR').
             ++ rewrite lenZ_app in Hn. lia.
             ++ exists fs'. cbn [bsrc bbuf app]. auto.
             ++ cbn [bsrc]. lia.
             ++ exists st'. rewrite E. split.
                ** rewrite takeZ_app_ge by lia. now rewrite <- app_assoc.
                ** rewrite dropZ_app_ge by lia. exact HR'.
          -- (* the frame is larger than the request: the rest stays buffered *)
             replace (bsz <=? n) with false by (symmetry; apply Z.leb_gt; lia).
             assert (Hlt : lenZ (takeZ n p) = n) by (apply lenZ_takeZ; lia).
             destruct (IH (n - lenZ (takeZ n p)) (acc ++ takeZ n p) (mkB (dropZ n p) (enc_frames fs' ++ tail))
                          (dropZ n p ++ payload fs') tail) as (st' & E & HR').
             ++ rewrite Hlt. rewrite lenZ_app. pose proof (lenZ_nonneg (dropZ n p)). pose proof (lenZ_nonneg (payload fs')). lia.
             ++ exists fs'. cbn [bsrc bbuf]. auto.
             ++ cbn [bsrc]. rewrite Hlt. lia.
             ++ exists st'. rewrite E. rewrite Hlt in *. replace (n - n) with 0 in * by lia.
                rewrite takeZ_0, app_nil_r in *. rewrite dropZ_0 in HR'. split.
                ** now rewrite takeZ_app_le by lia.
                ** rewrite dropZ_app_le by lia. exact HR'.
        * (* info frame: a zero-length read, retried *)
          rewrite Hsrc. rewrite mux_read_info by exact Hf1.
          assert (E0 : (if bsz <=? n then BOk [] (mkB [] (enc_frames fs' ++ tail))
                        else BOk (takeZ n []) (mkB (dropZ n []) (enc_frames fs' ++ tail)))
                       = BOk [] (mkB [] (enc_frames fs' ++ tail))).
          { destruct (bsz <=? n); reflexivity. }
          rewrite E0. rewrite lenZ_nil, Z.sub_0_r, app_nil_r.
          apply IH; [exact Hn| |cbn [bsrc]; lia].
          exists fs'. cbn [bsrc bbuf app]. auto.
      + (* buffered bytes are handed out first *)
        rewrite <- Eb in *. subst d.
        assert (Hbpos : 1 <= lenZ (bbuf st)) by (rewrite Eb, lenZ_cons; pose proof (lenZ_nonneg bb); lia).
        destruct (Z.le_ge_cases n (lenZ (bbuf st))) as [Hle|Hge].
        * (* the request is satisfied from the buffer *)
          assert (Hg : lenZ (takeZ n (bbuf st)) = n) by (apply lenZ_takeZ; lia).
          destruct (IH (n - lenZ (takeZ n (bbuf st))) (acc ++ takeZ n (bbuf st))
                       (mkB (dropZ n (bbuf st)) (bsrc st)) (dropZ n (bbuf st) ++ payload fs) tail) as (st' & E & HR').
          -- rewrite Hg. pose proof (lenZ_nonneg (dropZ n (bbuf st) ++ payload fs)). lia.
          -- exists fs. cbn [bsrc bbuf]. auto.
          -- cbn [bsrc]. rewrite Hg. lia.
          -- exists st'. rewrite E. rewrite Hg in *. replace (n - n) with 0 in * by lia.
             rewrite takeZ_0, app_nil_r in *. rewrite dropZ_0 in HR'. split.
             ++ now rewrite takeZ_app_le by lia.
             ++ rewrite dropZ_app_le by lia. exact HR'.
        * (* the buffer is drained and more is needed *)
          rewrite takeZ_all, dropZ_all by lia.
          destruct (IH (n - lenZ (bbuf st)) (acc ++ bbuf st) (mkB [] (bsrc st)) (payload fs) tail) as (st' & E & HR').
          -- rewrite lenZ_app in Hn. lia.
          -- exists fs. cbn [bsrc bbuf app]. auto.
          -- cbn [bsrc]. lia.
          -- exists st'. rewrite E. split.
             ++ rewrite takeZ_app_ge by lia. now rewrite <- app_assoc.
             ++ rewrite dropZ_app_ge by lia. exact HR'.
  Qed.

  (** An error frame behind the data turns any read that needs more than the
      data into the server's message. *)
  Lemma read_full_error fuel : forall n acc st d m rest,
    lenZ d < n -> lenZ m <= c_maxMessageSize ->
    Rep st d (mux_frame c_MsgError m ++ rest) ->
    (Z.to_nat n + length (bsrc st) < fuel)%nat ->
    read_full fuel bsz n acc st = BErrMsg m.
  Proof.
    induction fuel as [|fuel IH]; intros n acc st d m rest Hn Hm HR Hf; [lia|].
    cbn [read_full]. pose proof (lenZ_nonneg d) as Hd0.
    destruct (Z.leb_spec n 0) as [Hz|Hpos]; [lia|].
    destruct HR as (fs & Hok & Hsrc & Hd). unfold bufio_read.
    destruct (bbuf st) as [|b0 bb] eqn:Eb.
    - cbn [app] in Hd. subst d.
      destruct fs as [|f fs'].
      + cbn [enc_frames flat_map app] in Hsrc. rewrite Hsrc.
        now rewrite mux_read_error by exact Hm.
      + inversion Hok as [|? ? Hf1 Hok']; subst.
        cbn [enc_frames flat_map] in Hsrc. fold (enc_frames fs') in Hsrc. rewrite <- app_assoc in Hsrc.
        assert (Hlen : (length (enc_frames fs' ++ mux_frame c_MsgError m ++ rest) < length (bsrc st))%nat).
        { rewrite Hsrc, !app_length. destruct f; cbn [enc_frame]; unfold mux_frame; rewrite !app_length; cbn [length le32]; lia. }
        destruct f as [p|p]; cbn [enc_frame frame_ok payload] in *.
        * pose proof (lenZ_nonneg p) as Hp0. rewrite lenZ_app in Hn.
          pose proof (lenZ_nonneg (payload fs')) as Hq0.
          rewrite Hsrc. rewrite mux_read_data by (destruct (Z.leb_spec bsz n); lia).
          assert (E1 : (if bsz <=? n then BOk p (mkB [] (enc_frames fs' ++ mux_frame c_MsgError m ++ rest))
                        else BOk (takeZ n p) (mkB (dropZ n p) (enc_frames fs' ++ mux_frame c_MsgError m ++ rest)))
                       = BOk p (mkB [] (enc_frames fs' ++ mux_frame c_MsgError m ++ rest))).
          { destruct (bsz <=? n); [reflexivity|]. now rewrite takeZ_all, dropZ_all by lia. }
          rewrite E1. eapply IH with (d := payload fs') (m := m) (rest := rest); [lia|exact Hm| |cbn [bsrc]; lia].
          exists fs'. cbn [bsrc bbuf app]. auto.
        * rewrite Hsrc. rewrite mux_read_info by exact Hf1.
          assert (E0 : (if bsz <=? n then BOk [] (mkB [] (enc_frames fs' ++ mux_frame c_MsgError m ++ rest))
                        else BOk (takeZ n []) (mkB (dropZ n []) (enc_frames fs' ++ mux_frame c_MsgError m ++ rest)))
                       = BOk [] (mkB [] (enc_frames fs' ++ mux_frame c_MsgError m ++ rest))).
          { destruct (bsz <=? n); reflexivity. }
          rewrite E0. rewrite lenZ_nil, Z.sub_0_r, app_nil_r.
          eapply IH with (d := payload fs') (m := m) (rest := rest); [exact Hn|exact Hm| |cbn [bsrc]; lia].
          exists fs'. cbn [bsrc bbuf app]. auto.
    - rewrite <- Eb in *. subst d. rewrite lenZ_app in Hn.
      pose proof (lenZ_nonneg (payload fs)) as Hq0.
      assert (Hbpos : 1 <= lenZ (bbuf st)) by (rewrite Eb, lenZ_cons; pose proof (lenZ_nonneg bb); lia).
      rewrite takeZ_all, dropZ_all by lia.
      eapply IH with (d := payload fs) (m := m) (rest := rest); [lia|exact Hm| |cbn [bsrc]; lia].
      exists fs. cbn [bsrc bbuf app]. auto.
  Qed.
End Demux.

Lemma covers : c_maxMessageSize <= c_clientBufioSize.
Proof. unfold c_maxMessageSize, c_clientBufioSize. lia. Qed.

Lemma client_read_rep n st d tail :
  0 <= n <= lenZ d -> Rep st d tail ->
  exists st', client_read n st = BOk (takeZ n d) st' /\ Rep st' (dropZ n d) tail.
Proof.
  intros Hn HR. unfold client_read, rf_fuel.
  destruct (read_full_rep c_clientBufioSize covers (S (Z.to_nat n + length (bsrc st))) n [] st d tail Hn HR ltac:(lia))
    as (st' & E & HR').
  exists st'. split; [exact E|exact HR'].
Qed.

Lemma client_read_error n st d m rest :
  lenZ d < n -> lenZ m <= c_maxMessageSize ->
  Rep st d (mux_frame c_MsgError m ++ rest) -> client_read n st = BErrMsg m.
Proof.
  intros Hn Hm HR. unfold client_read, rf_fuel.
  eapply (read_full_error c_clientBufioSize); [exact Hn|exact Hm|exact HR|lia].
Qed.


(** with a buffer at least as large as the frame-length limit, no byte
    string makes the demultiplexer run out of buffer space (the panic in
    MultiplexReader.Read) *)
Lemma mux_read_no_crash cap s : c_maxMessageSize <= cap -> mux_read cap s <> RCrash.
Proof.
  intros Hc. unfold mux_read, read_msg.
  destruct (rdu32 s) as [[hd r]|]; [|discriminate].
  destruct (c_maxMessageSize <? hd mod 16777216) eqn:L; [discriminate|].
  destruct (take (hd mod 16777216) r) as [[p rest]|] eqn:T; [|discriminate].
  destruct (_ =? c_MsgError); [discriminate|].
  destruct (_ =? c_MsgInfo); [discriminate|].
  destruct (_ =? c_MsgData); [|discriminate].
  apply take_some in T. destruct T as [_ Lp]. apply Z.ltb_ge in L.
  destruct (cap <? lenZ p) eqn:C; [|discriminate]. apply Z.ltb_lt in C. lia.
Qed.

Lemma bufio_read_no_crash bsz n st : c_maxMessageSize <= bsz -> bufio_read bsz n st <> BCrash.
Proof.
  intros Hc. unfold bufio_read. destruct (bbuf st); [|discriminate].
  set (cap := if bsz <=? n then n else bsz).
  assert (Hcap : c_maxMessageSize <= cap).
  { unfold cap. destruct (bsz <=? n) eqn:E; [apply Z.leb_le in E; lia|exact Hc]. }
  pose proof (mux_read_no_crash cap (bsrc st) Hcap) as N.
  destruct (mux_read cap (bsrc st)); try discriminate; try (destruct (bsz <=? n); discriminate).
  contradiction.
Qed.
