From Coq Require Import ZArith String List Bool.
From RV Require Import Model.Popt Model.Daemon.
Import ListNotations.
Open Scope string_scope.

Lemma get_module_spec mods name m :
  get_module mods name = Some m -> In m mods /\ m_name m = name.
Proof.
  induction mods as [|x mods IH]; [discriminate|]. cbn [get_module].
  destruct (String.eqb (m_name x) name) eqn:E.
  - intros H. injection H as <-. split; [now left|now apply String.eqb_eq].
  - intros H. destruct (IH H) as [I N]. split; [now right|exact N].
Qed.

(** the only outcome that writes names the requested module, and that module is writable *)
Lemma receiver_only_if_writable mods requested acl flags m paths :
  daemon_request mods requested acl flags = DReceiver m paths ->
  In m mods /\ m_name m = requested /\ m_writable m = true /\ acl = true /\
  exists st, parse_arguments flags = inl st /\ (getf st "am_sender" =? 0)%Z = true.
Proof.
  unfold daemon_request.
  destruct (String.eqb requested "" || String.eqb requested "#list"); [discriminate|].
  destruct (get_module mods requested) as [m0|] eqn:G; [|discriminate].
  destruct acl; cbn [negb]; [|discriminate].
  destruct (parse_arguments flags) as [st|e] eqn:P; [|discriminate].
  destruct (o_remaining st) as [|dot [|p ps]]; try discriminate.
  destruct (String.eqb dot "."); cbn [negb]; [|discriminate].
  destruct (getf st "am_sender" =? 0)%Z eqn:S; cbn [negb]; [|discriminate].
  destruct (m_writable m0) eqn:W; [|discriminate].
  intros H. injection H as <- _. destruct (get_module_spec _ _ _ G) as [I N].
  repeat split; try assumption. exists st. auto.
Qed.

Lemma writes_only_writable mods requested acl flags :
  writes (daemon_request mods requested acl flags) = true ->
  exists m, In m mods /\ m_name m = requested /\ m_writable m = true.
Proof.
  destruct (daemon_request mods requested acl flags) eqn:E; try discriminate.
  intros _. destruct (receiver_only_if_writable _ _ _ _ _ _ E) as [I [N [W _]]]. eauto.
Qed.

(** a read-only module: every receive-mode request is refused, whatever the flags *)
Lemma readonly_refused mods requested flags m st p ps :
  get_module mods requested = Some m -> m_writable m = false ->
  requested <> "" -> requested <> "#list" ->
  parse_arguments flags = inl st -> (getf st "am_sender" =? 0)%Z = true ->
  o_remaining st = "." :: p :: ps ->
  daemon_request mods requested true flags = DRefusedReadOnly m.
Proof.
  intros G W N1 N2 P S R. unfold daemon_request.
  apply String.eqb_neq in N1. apply String.eqb_neq in N2. rewrite N1, N2. cbn [orb].
  rewrite G. cbn [negb]. rewrite P, R. cbn [String.eqb Ascii.eqb Bool.eqb negb andb]. rewrite S. cbn [negb]. now rewrite W.
Qed.
