From Coq Require Import ZArith String List Bool.
From RV Require Import Model.Popt Model.Ssh.
Import ListNotations.
Open Scope string_scope.

Section Keys.
  Variable key : Type.
  Variable key_eqb : key -> key -> bool.
  Hypothesis key_eqb_spec : forall a b, key_eqb a b = true <-> a = b.

  Lemma admits_listed l k : admits key key_eqb (Some l) k = true <-> In k l.
  Proof.
    unfold admits. rewrite existsb_exists. split.
    - intros [x [Hin E]]. apply key_eqb_spec in E. now subst.
    - intros Hin. exists k. split; [exact Hin|now apply key_eqb_spec].
  Qed.

  Lemma admits_empty k : admits key key_eqb (Some []) k = false.
  Proof. reflexivity. Qed.

  Lemma admits_anonymous k : admits key key_eqb None k = true.
  Proof. reflexivity. Qed.

  Variable parse_line : string -> option key.
  Variable blank : string -> bool.

  (** the loaded list is exactly the parsed non-blank, non-comment lines, in order *)
  Lemma load_keys_spec lines ks :
    load_keys key parse_line blank lines = Some ks ->
    forall k, In k ks <-> exists l, In l lines /\ blank l = false /\ parse_line l = Some k.
  Proof.
    revert ks. induction lines as [|l r IH]; intros ks H k.
    - cbn in H. injection H as <-. split; [intros []|intros [l [[] _]]].
    - cbn [load_keys] in H. destruct (blank l) eqn:B.
      + rewrite (IH ks H k). split.
        * intros [x [Hin Hx]]. exists x. split; [now right|exact Hx].
        * intros [x [[->|Hin] [Hb Hp]]]; [congruence|]. exists x. auto.
      + destruct (parse_line l) as [k0|] eqn:P; [|discriminate].
        destruct (load_keys key parse_line blank r) as [ks'|] eqn:R; [|discriminate].
        injection H as <-. split.
        * intros [->|Hin]; [exists l; repeat split; auto; now left|].
          apply (IH ks' eq_refl k) in Hin. destruct Hin as [x [Hin Hx]]. exists x. split; [now right|exact Hx].
        * intros [x [[->|Hin] [Hb Hp]]].
          -- left. congruence.
          -- right. apply (IH ks' eq_refl k). exists x. auto.
  Qed.
End Keys.

Section Exec.
  Variable daemon_stage : list string -> option bool.

  (** a session is given the daemon protocol only for a command line that
      selects daemon mode and carries --server *)
  Lemma anon_exec_allowed cmdline :
    anon_exec daemon_stage cmdline = DaemonProtocol ->
    exists c args, cmdline = c :: args /\ parse_arguments args = inr EDaemonMode /\ daemon_stage args = Some true.
  Proof.
    unfold anon_exec. destruct cmdline as [|c args]; [discriminate|].
    destruct (parse_arguments args) as [st|e] eqn:P; [discriminate|].
    destruct e; try discriminate.
    destruct (daemon_stage args) as [[|]|] eqn:D; try discriminate.
    intros _. exists c, args. auto.
  Qed.

  (** every command line the option parser accepts as a client or plain
      server invocation is refused *)
  Lemma anon_exec_refuses_non_daemon c args st :
    parse_arguments args = inl st -> anon_exec daemon_stage (c :: args) = Refused.
  Proof. intros P. unfold anon_exec. now rewrite P. Qed.

  Lemma anon_exec_refuses_errors c args e :
    parse_arguments args = inr e -> e <> EDaemonMode -> anon_exec daemon_stage (c :: args) = Refused.
  Proof. intros P N. unfold anon_exec. rewrite P. destruct e; try reflexivity. contradiction. Qed.
End Exec.
