From Coq Require Import ZArith List Bool.
From RV Require Import Model.Bytes Model.Flist Model.Root Proofs.BytesProofs.
Import ListNotations.
Open Scope Z_scope.

Definition is_dir_at (t : rnode) (p : list (list Z)) : Prop := exists cs, rlookup t p = Some (RDir cs).

Lemma rlookup_app t : forall p q, rlookup t (p ++ q) = match rlookup t p with Some u => rlookup u q | None => None end.
Proof.
  intros p. revert t. induction p as [|c p IH]; intros t q; [reflexivity|].
  cbn [app rlookup]. destruct t as [| |cs]; try reflexivity.
  destruct (rassoc c cs) as [u|]; [apply IH|reflexivity].
Qed.

Lemma is_dir_prefix t p c : is_dir_at t (p ++ [c]) -> is_dir_at t p.
Proof.
  intros [cs H]. rewrite rlookup_app in H. destruct (rlookup t p) as [u|] eqn:E; [|discriminate].
  cbn [rlookup] in H. destruct u as [| |cs0]; try discriminate. now exists cs0.
Qed.

Lemma is_dir_rev_tail t dir x rd : rev dir = x :: rd -> is_dir_at t dir -> is_dir_at t (rev rd).
Proof.
  intros E H. assert (D : dir = rev rd ++ [x]).
  { rewrite <- (rev_involutive dir), E. reflexivity. }
  rewrite D in H. eapply is_dir_prefix; exact H.
Qed.

Lemma is_dir_child t dir c cs cs' : rlookup t dir = Some (RDir cs) -> rassoc c cs = Some (RDir cs') -> is_dir_at t (dir ++ [c]).
Proof. intros H A. exists cs'. rewrite rlookup_app, H. cbn [rlookup]. now rewrite A. Qed.

(** Whatever the name and whatever symbolic links the tree holds (relative,
    absolute, dangling, cyclic, containing ".."), a successful resolution
    ends at a directory of the tree itself or at an entry name directly
    inside one: the walk never leaves the tree. *)
Lemma resolve_inside fuel t fl : forall dir todo p,
  is_dir_at t dir -> resolve fuel t fl dir todo = inl p ->
  is_dir_at t p \/ exists d c, p = d ++ [c] /\ is_dir_at t d.
Proof.
  induction fuel as [|f IH]; intros dir todo p Hd H; [discriminate|].
  cbn [resolve] in H. destruct todo as [|c rest].
  - injection H as <-. now left.
  - destruct (list_eqb c [] || list_eqb c [dot]); [eapply IH; eauto|].
    destruct (list_eqb c dotdot).
    + destruct (rev dir) as [|x rd] eqn:R; [discriminate|].
      eapply IH; [|exact H]. eapply is_dir_rev_tail; eauto.
    + pose proof Hd as Hd'. destruct Hd as [cs Hl]. rewrite Hl in H.
      destruct (rassoc c cs) as [u|] eqn:A.
      * destruct u as [content|target|cs'].
        -- destruct rest; [|discriminate]. injection H as <-. right. exists dir, c. auto.
        -- destruct rest as [|c2 rest2]; [destruct fl|].
           ++ destruct target as [|s tg]; [discriminate|]. destruct (s =? slash); [discriminate|]. eapply IH; eauto.
           ++ injection H as <-. right. exists dir, c. auto.
           ++ destruct target as [|s tg]; [discriminate|]. destruct (s =? slash); [discriminate|]. eapply IH; eauto.
        -- eapply IH; [|exact H]. eapply is_dir_child; eauto.
      * destruct rest; [|discriminate]. injection H as <-. right. exists dir, c. auto.
Qed.

Lemma root_resolve_unfold t fl name : root_resolve t fl name = resolve root_fuel t fl [] (split_slash name []).
Proof. reflexivity. Qed.

Theorem root_resolve_inside t fl name p :
  (exists cs, t = RDir cs) -> root_resolve t fl name = inl p ->
  is_dir_at t p \/ exists d c, p = d ++ [c] /\ is_dir_at t d.
Proof.
  intros [cs E] H. rewrite root_resolve_unfold in H. subst t.
  eapply resolve_inside; [|exact H]. exists cs. reflexivity.
Qed.

(** the two ways out are errors *)
Lemma dotdot_at_root_escapes f t fl rest : resolve (S f) t fl [] (dotdot :: rest) = inr EEscapes.
Proof. reflexivity. Qed.

Lemma absolute_link_escapes f t fl dir cs c tg rest :
  rlookup t dir = Some (RDir cs) -> rassoc c cs = Some (RLink (slash :: tg)) ->
  list_eqb c [] || list_eqb c [dot] = false -> list_eqb c dotdot = false ->
  (rest <> [] \/ fl = true) ->
  resolve (S f) t fl dir (c :: rest) = inr EEscapes.
Proof.
  intros Hl A N1 N2 Hr. cbn [resolve]. rewrite N1, N2, Hl, A.
  destruct rest as [|c2 r2]; [destruct fl|]; try reflexivity.
  destruct Hr as [Hr|Hr]; [contradiction|discriminate].
Qed.
