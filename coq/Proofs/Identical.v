(** C16: an identical file costs no literal data, for every size and block
    length (any strong length, any hash). *)
From Coq Require Import ZArith List Bool Lia FMapPositive.
From RV Require Import Model.Bytes Model.Checksum Model.Delta Model.Sender
     Proofs.BytesProofs Proofs.ChecksumProofs Proofs.DeltaProofs Proofs.SenderProofs
     Proofs.SearchInv Gen.Consts.
Import ListNotations.
Open Scope Z_scope.

Lemma div_ceil n b : 0 <= n -> 1 <= b ->
  (n + (b - 1)) / b = n / b + (if n mod b =? 0 then 0 else 1).
Proof.
  intros Hn Hb.
  pose proof (Z.div_mod n b ltac:(lia)) as E. pose proof (Z.mod_pos_bound n b ltac:(lia)) as R.
  set (q := n / b) in *. set (r := n mod b) in *.
  destruct (Z.eqb_spec r 0) as [E0|NE].
  - symmetry. apply Z.div_unique with (r := b - 1); nia.
  - symmetry. apply Z.div_unique with (r := r - 1); nia.
Qed.

(** Block layout a receiver computes for a file of [n] bytes. *)
Lemma layout n b j : 0 < n -> 1 <= b -> 0 <= j < (n + (b - 1)) / b ->
  let count := (n + (b - 1)) / b in let rem := n mod b in
  (if (j =? count - 1) && negb (rem =? 0) then rem else b) = Z.min b (n - j * b)
  /\ j * b < n /\ (j * b + Z.min b (n - j * b) = n <-> j = count - 1)
  /\ (j < count - 1 -> (j + 1) * b < n).
Proof.
  intros Hn Hb Hj count rem. subst count. rewrite div_ceil in * by lia.
  pose proof (Z.div_mod n b ltac:(lia)) as E. pose proof (Z.mod_pos_bound n b ltac:(lia)) as R.
  subst rem. set (q := n / b) in *. set (r := n mod b) in *.
  destruct (Z.eqb_spec r 0) as [E0|NE]; cbn [negb andb].
  - rewrite Bool.andb_false_r.
    assert (j * b + b <= q * b) by nia.
    repeat split; try nia.
  - destruct (Z.eqb_spec j (q + 1 - 1)) as [Ej|Nj]; cbn [andb].
    + subst j. repeat split; try nia.
    + assert (j * b + b <= q * b) by nia. repeat split; try nia.
Qed.

Definition is_ref (t : token) : Prop := match t with Ref _ => True | Lit _ => False end.

Lemma emit_lit_0 chunk (lmc : list Z) rt : emit_lit chunk 0 lmc rt = rt.
Proof. unfold emit_lit. rewrite takeZ_0. reflexivity. Qed.

Section Identical.
  Variable H : list Z -> list Z.
  Variable seed : Z.
  Variable chunk : Z.
  Hypothesis Hchunk : 1 <= chunk.
  Variable h : sum_head.
  Variable sums : list sumbuf.
  Variable data : list Z.          (* the file, on both sides *)
  Let n := lenZ data.
  Hypothesis Hn : 0 < n.
  Hypothesis Hb : 1 <= h_blen h.
  Hypothesis Hcount : h_count h = (n + (h_blen h - 1)) / h_blen h.
  Hypothesis Hrem : h_rem h = n mod h_blen h.
  (** the sums a receiver holding [data] sends *)
  Hypothesis Hsums : forall j, 0 <= j < h_count h ->
    nth_error sums (Z.to_nat j) =
    Some (checksum1 (blk data h j), strong H seed h (blk data h j)).

  Let tt := tt_build sums 0 (PositiveMap.empty (list cand)).
  Let end_ := n + 1 - block_len h (h_count h - 1).

  Lemma blen_layout j : 0 <= j < h_count h ->
    block_len h j = Z.min (h_blen h) (n - j * h_blen h) /\ j * h_blen h < n /\
    (j * h_blen h + block_len h j = n <-> j = h_count h - 1) /\
    (j < h_count h - 1 -> (j + 1) * h_blen h < n).
  Proof.
    intros Hj. unfold block_len. rewrite Hcount in *. rewrite Hrem.
    pose proof (layout n (h_blen h) j Hn Hb Hj) as L. cbv zeta in L.
    destruct L as (L1 & L2 & L3 & L4). rewrite L1. tauto.
  Qed.

  Lemma count_pos : 1 <= h_count h.
  Proof.
    rewrite Hcount, div_ceil by lia.
    pose proof (Z.div_mod n (h_blen h) ltac:(lia)). pose proof (Z.mod_pos_bound n (h_blen h) ltac:(lia)).
    destruct (Z.eqb_spec (n mod h_blen h) 0); [|assert (0 <= n / h_blen h) by (apply Z.div_pos; lia); lia].
    assert (1 <= n / h_blen h) by nia. lia.
  Qed.

  Lemma end_le : end_ <= n.
  Proof.
    unfold end_. pose proof count_pos.
    destruct (blen_layout (h_count h - 1) ltac:(lia)) as (L1 & _). lia.
  Qed.

  Lemma Htt_sound : forall t i s1 s2, In (i, s1, s2) (tt_find tt t) ->
      0 <= i /\ nth_error sums (Z.to_nat i) = Some (s1, s2).
  Proof. intros t i s1 s2. exact (tt_built_sound H sums data t i s1 s2). Qed.

  Lemma Htt_complete : forall t i s1 s2, 0 <= t -> 0 <= i ->
      nth_error sums (Z.to_nat i) = Some (s1, s2) -> tag s1 = t -> In (i, s1, s2) (tt_find tt t).
  Proof.
    intros t i s1 s2 Ht Hi Hnth Htag. unfold tt. rewrite tt_build_spec by exact Ht.
    rewrite tt_find_empty, app_nil_r.
    replace i with (0 + Z.of_nat (Z.to_nat i)) by lia. now apply entries_complete.
  Qed.

  (** the loop stands on a block boundary with nothing pending *)
  Definition J (st : sstate) : Prop :=
    exists j, 0 <= j < h_count h /\ st_off st = j * h_blen h /\ st_lastm st = j * h_blen h /\
      Forall is_ref (st_rtoks st) /\
      SInv H seed chunk h sums data st /\ RInv h data st.

  Lemma body_tail_after_match off1 k1 s11 s21 lastm1 cur1 ahead1 lmc1 rtoks1 :
    lastm1 = off1 + 1 ->
    match body_tail chunk h data end_ true off1 k1 s11 s21 lastm1 cur1 ahead1 lmc1 rtoks1 with
    | Done lm _ rt => lm = lastm1 /\ rt = rtoks1 /\ end_ <= off1 + 1
    | Next st' => st_off st' = off1 + 1 /\ st_lastm st' = lastm1 /\ st_rtoks st' = rtoks1 /\ off1 + 1 < end_
    | Crashed _ => True
    end.
  Proof.
    intros ->. unfold body_tail. cbn [andb].
    destruct (Z.leb_spec end_ off1); [repeat split; lia|].
    replace (Z.max (off1 - (off1 + 1)) 0) with 0 by lia.
    replace (h_blen h + chunk <=? 0) with false by (symmetry; apply Z.leb_gt; lia).
    cbn [andb].
    destruct cur1 as [|u0 cur2]; [exact I|].
    destruct (off1 + k1 <? lenZ data).
    - destruct ahead1 as [|uk ahead2]; [exact I|].
      destruct (Z.leb_spec end_ (off1 + 1)); [repeat split; lia|].
      cbn. repeat split; lia.
    - destruct (Z.leb_spec end_ (off1 + 1)); [repeat split; lia|].
      cbn. repeat split; lia.
  Qed.

  Lemma body_identical st :
    J st ->
    match body H seed chunk h tt n end_ st with
    | Done lm _ rt => lm = n /\ Forall is_ref rt
    | Next st' => J st'
    | Crashed _ => False
    end.
  Proof.
    intros (j & Hj & Hoff & Hlast & Hrefs & HS & HR).
    pose proof (body_sound H seed chunk Hchunk h sums data tt end_ Htt_sound end_le Hb st HS) as Hsound.
    pose proof (body_regs H seed chunk h sums data tt end_ Htt_sound Hb st HS HR) as Hregs.
    change (lenZ data) with n in Hsound, Hregs.
    destruct (blen_layout j Hj) as (L1 & L2 & L3 & L4).
    pose proof count_pos as Hcp.
    destruct (blen_layout (h_count h - 1) ltac:(lia)) as (M1 & M2 & M3 & _).
    assert (Hlastn : (h_count h - 1) * h_blen h + block_len h (h_count h - 1) = n) by (apply M3; reflexivity).
    (* the window at this offset is block j *)
    pose proof HS as (Hlm & Hofflt & Hcur & Hlmc & Hrc).
    assert (Hwin : takeZ (Z.min (h_blen h) (n - st_off st)) (st_cur st) = blk data h j).
    { unfold blk. rewrite Hcur, Hoff, L1. reflexivity. }
    assert (Hscan : exists i', scan H seed h (tt_find tt (tag2 (st_s1 st) (st_s2 st)))
                   (st_s1 st mod 65536 + st_s2 st mod 65536 * 65536)
                   (Z.min (h_blen h) (n - st_off st)) (st_cur st) None = Some i').
    { eapply (lookup_complete H seed chunk h sums data tt end_ Htt_sound Htt_complete st j HS HR).
      - lia.
      - cbv zeta. change (lenZ data) with n. rewrite Hwin. apply Hsums. exact Hj.
      - change (lenZ data) with n. rewrite Hoff. exact L1. }
    destruct Hscan as (i' & Hscan).
    pose proof Hscan as Hsc2. apply scan_sound in Hsc2; [|discriminate].
    destruct Hsc2 as (s1i & _ & Hl).
    assert (Hlen : block_len h i' = block_len h j) by (rewrite <- Hl, Hoff; symmetry; exact L1).
    rewrite (body_unfold H seed chunk h data tt end_) in Hsound, Hregs |- *.
    cbv zeta in Hsound, Hregs |- *.
    change (lenZ data) with n in Hsound, Hregs |- *.
    rewrite Hscan in Hsound, Hregs |- *.
    replace (st_off st - st_lastm st) with 0 in Hsound, Hregs |- * by lia.
    rewrite emit_lit_0 in Hsound, Hregs |- *.
    match goal with
    | |- match body_tail _ _ _ _ true ?o ?k ?a ?b ?lm ?c ?ah ?lc ?rt with _ => _ end =>
        pose proof (body_tail_after_match o k a b lm c ah lc rt ltac:(lia)) as Hshape;
        destruct (body_tail chunk h data end_ true o k a b lm c ah lc rt) as [lm' lc' rt'|st'|c']
    end.
    - destruct Hshape as (-> & -> & Hex). split; [|constructor; [exact I|exact Hrefs]].
      rewrite Hlen.
      destruct (Z.eq_dec j (h_count h - 1)) as [Ej|Nj]; [apply L3 in Ej; lia|].
      exfalso.
      (* not the last block: the exit test cannot fire *)
      assert (Hjlt : j < h_count h - 1) by lia.
      specialize (L4 Hjlt).
      assert (Hbl : block_len h j = h_blen h) by lia.
      assert ((j + 1) * h_blen h <= (h_count h - 1) * h_blen h) by nia.
      unfold end_ in Hex. rewrite Hlen, Hbl in Hex. nia.
    - destruct Hshape as (Ho & Hlm' & Hrt & Hend).
      destruct Hregs as [HR' _].
      assert (Hnl : j <> h_count h - 1).
      { intros Ej. apply L3 in Ej. pose proof end_le. rewrite Hlen in Hend. lia. }
      assert (Hjlt : j < h_count h - 1) by lia.
      specialize (L4 Hjlt).
      assert (Hbl : block_len h j = h_blen h) by lia.
      exists (j + 1).
      split; [lia|].
      split; [rewrite Ho, Hlen, Hbl; lia|].
      split; [rewrite Hlm', Hlen, Hbl; lia|].
      split; [rewrite Hrt; constructor; [exact I|exact Hrefs]|].
      split; [exact Hsound|exact HR'].
    - destruct Hregs.
  Qed.

  Lemma search_identical fuel : forall st,
    J st ->
    match search H seed chunk h tt n end_ fuel st with
    | inl (Some (lm, _, rt)) => lm = n /\ Forall is_ref rt
    | inl None => True
    | inr _ => False
    end.
  Proof.
    induction fuel as [|fuel IH]; intros st HJ; cbn [search]; [exact I|].
    pose proof (body_identical st HJ) as Hb'.
    destruct (body H seed chunk h tt n end_ st) as [lm lc rt|st'|c].
    - exact Hb'.
    - apply IH. exact Hb'.
    - exact Hb'.
  Qed.

  (** An identical file is transmitted as block references only. *)
  Theorem identical_no_literals h' toks tr :
    send_one H seed chunk h sums data = SOk h' toks tr -> Forall is_ref toks.
  Proof.
    pose proof count_pos as Hcp.
    assert (Hne : sums <> []).
    { intros E. specialize (Hsums 0 ltac:(lia)). rewrite E in Hsums. cbn in Hsums. discriminate. }
    rewrite (send_one_nonempty H seed chunk h sums data Hne). cbv zeta.
    change (lenZ data) with n.
    {
      replace (n =? 0) with false by (symmetry; apply Z.eqb_neq; lia).
      destruct (read_chunk h n 0 data) as [[k a] b] eqn:Hrc.
      fold tt. fold end_.
      assert (HJ : J (mkS 0 k a b 0 data (dropZ k data) data [])).
      { exists 0. unfold read_chunk in Hrc. inversion Hrc; subst k a b. clear Hrc.
        cbn [st_off st_k st_s1 st_s2 st_lastm st_cur st_ahead st_lmc st_rtoks].
        split; [lia|]. split; [reflexivity|]. split; [reflexivity|]. split; [constructor|].
        split.
        - unfold SInv. cbn [st_off st_k st_s1 st_s2 st_lastm st_cur st_ahead st_lmc st_rtoks].
          rewrite dropZ_0. change (lenZ data) with n.
          split; [lia|]. split; [lia|]. split; [reflexivity|]. split; [reflexivity|constructor].
        - unfold RInv. cbn [st_off st_k st_s1 st_s2 st_lastm st_cur st_ahead st_lmc st_rtoks].
          change (lenZ data) with n.
          split; [reflexivity|]. split; [reflexivity|].
          split; [apply sum_lo_checksum1|apply sum_hi_checksum1]. }
      pose proof (search_identical (S (length data)) _ HJ) as Hs.
      destruct (search H seed chunk h tt n end_ (S (length data)) (mkS 0 k a b 0 data (dropZ k data) data []))
        as [[[[lm lc] rt]|]|c]; try discriminate.
      destruct Hs as [-> Hrt]. intros E. inversion E; subst.
      replace (n - n) with 0 by lia. rewrite emit_lit_0.
      apply Forall_rev. exact Hrt.
    }
  Qed.
End Identical.
