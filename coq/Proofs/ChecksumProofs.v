From Coq Require Import ZArith List Bool Lia.
From RV Require Import Model.Bytes Model.Checksum Proofs.BytesProofs.
Import ListNotations.
Open Scope Z_scope.

(** ** The uint32 loop computes the exact sums modulo 2^32 *)

Lemma csum_loop_spec w : forall a b,
  fst (csum_loop w a b) mod 4294967296 = (a + S1 w) mod 4294967296 /\
  snd (csum_loop w a b) mod 4294967296 = (b + Z.of_nat (length w) * a + S2 w) mod 4294967296.
Proof.
  induction w as [|x r IH]; intros a b.
  - cbn [csum_loop fst snd S1 S2 length]. split; f_equal; lia.
  - cbn [csum_loop]. pose proof (IH ((a + se x) mod 4294967296) ((b + (a + se x) mod 4294967296) mod 4294967296)) as [H1 H2].
    split.
    + rewrite H1. cbn [S1]. rewrite Zplus_mod_idemp_l. f_equal. lia.
    + rewrite H2. cbn [S2].
      replace (Z.of_nat (length (x :: r))) with (Z.of_nat (length r) + 1)
        by (cbn [length]; rewrite Nat2Z.inj_succ; reflexivity).
      clear H1 H2 IH.
      set (n := Z.of_nat (length r)). clearbody n.
      set (t := a + se x).
      rewrite <- Zplus_assoc, Zplus_mod_idemp_l.
      assert (HM : 4294967296 <> 0) by discriminate.
      set (M := 4294967296) in *. clearbody M.
      rewrite (Z.mod_eq t M) by exact HM.
      replace (b + (t - M * (t / M)) + (n * (t - M * (t / M)) + S2 r))
        with ((b + (n + 1) * a + ((n + 1) * se x + S2 r)) + (- (t / M) * (n + 1)) * M)
        by (unfold t; ring).
      apply Z_mod_plus_full.
Qed.

Lemma mod65536_of_mod32 a : (a mod 4294967296) mod 65536 = a mod 65536.
Proof.
  rewrite (Z.mod_eq a 4294967296) by discriminate.
  replace (a - 4294967296 * (a / 4294967296)) with (a + (- (a / 4294967296) * 65536) * 65536) by ring.
  apply Z_mod_plus_full.
Qed.

Lemma sum_lo_checksum1 w : sum_lo (checksum1 w) = S1 w mod 65536.
Proof.
  unfold sum_lo, checksum1. destruct (csum_loop w 0 0) as [r1 r2] eqn:E.
  pose proof (csum_loop_spec w 0 0) as [H1 _]. rewrite E in H1. cbn [fst] in H1.
  rewrite mod65536_of_mod32.
  rewrite Z_mod_plus_full. rewrite Zmod_mod.
  rewrite <- (mod65536_of_mod32 r1), H1, mod65536_of_mod32. reflexivity.
Qed.

Lemma sum_hi_checksum1 w : sum_hi (checksum1 w) = S2 w mod 65536.
Proof.
  unfold sum_hi, checksum1. destruct (csum_loop w 0 0) as [r1 r2] eqn:E.
  pose proof (csum_loop_spec w 0 0) as [_ H2]. rewrite E in H2. cbn [snd] in H2.
  assert (Hr1 : 0 <= r1 mod 65536 < 65536) by (apply Z.mod_pos_bound; lia).
  (* (lo + r2*2^16) mod 2^32 / 2^16 mod 2^16 = r2 mod 2^16 *)
  assert (Hdiv : ((r1 mod 65536 + r2 * 65536) mod 4294967296) / 65536 mod 65536 = r2 mod 65536).
  { set (lo := r1 mod 65536) in *.
    rewrite (Z.mod_eq (lo + r2 * 65536) 4294967296) by lia.
    replace (lo + r2 * 65536 - 4294967296 * ((lo + r2 * 65536) / 4294967296))
      with (lo + (r2 - 65536 * ((lo + r2 * 65536) / 4294967296)) * 65536) by ring.
    rewrite Z.div_add by lia. rewrite (Z.div_small lo 65536) by lia. cbn [Z.add].
    replace (r2 - 65536 * ((lo + r2 * 65536) / 4294967296))
      with (r2 + (- ((lo + r2 * 65536) / 4294967296)) * 65536) by ring.
    apply Z_mod_plus_full. }
  rewrite Hdiv.
  rewrite <- (mod65536_of_mod32 r2), H2, mod65536_of_mod32. f_equal. ring.
Qed.

(** ** Rolling: sliding the window by one byte, and shrinking it at the end *)

Lemma S1_app a b : S1 (a ++ b) = S1 a + S1 b.
Proof. induction a as [|x a IH]; cbn [app S1]; lia. Qed.

Lemma S2_app a b : S2 (a ++ b) = S2 a + Z.of_nat (length b) * S1 a + S2 b.
Proof.
  induction a as [|x a IH]; cbn [app S1 S2 length]; [lia|].
  rewrite IH, app_length, !Nat2Z.inj_succ, Nat2Z.inj_add. ring.
Qed.

(** window = u0 :: m; new window = m ++ [uk] *)
Lemma roll_S1 u0 m uk : S1 (m ++ [uk]) = S1 (u0 :: m) - se u0 + se uk.
Proof. rewrite S1_app. cbn [S1]. lia. Qed.

Lemma roll_S2 u0 m uk :
  S2 (m ++ [uk]) = S2 (u0 :: m) - Z.of_nat (length (u0 :: m)) * se u0 + S1 (m ++ [uk]).
Proof. rewrite S2_app, S1_app. cbn [S1 S2 length]. rewrite !Nat2Z.inj_succ. ring. Qed.

Lemma shrink_S1 u0 m : S1 m = S1 (u0 :: m) - se u0.
Proof. cbn [S1]. lia. Qed.

Lemma shrink_S2 u0 m : S2 m = S2 (u0 :: m) - Z.of_nat (length (u0 :: m)) * se u0.
Proof. cbn [S2]. lia. Qed.

(** the same modulo 2^16, starting from already reduced registers *)
Lemma mod_sub_add_eq a b c d M : 0 < M -> a mod M = b mod M -> (a - c + d) mod M = (b - c + d) mod M.
Proof.
  intros HM E.
  rewrite <- (Zplus_mod_idemp_l (a - c)), <- (Zminus_mod_idemp_l a), E,
          Zminus_mod_idemp_l, Zplus_mod_idemp_l. reflexivity.
Qed.
