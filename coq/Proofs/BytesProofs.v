From Coq Require Import ZArith List Bool Lia.
From RV Require Import Model.Bytes.
Import ListNotations.
Open Scope Z_scope.

Ltac Zify.zify_post_hook ::= Z.div_mod_to_equations.

(** ** Z-indexed slicing vs the standard list functions *)

Lemma takeZ_firstn l : forall n, takeZ n l = firstn (Z.to_nat n) l.
Proof.
  induction l as [|x r IH]; intros n; cbn [takeZ].
  - now rewrite firstn_nil.
  - destruct (Z.leb_spec n 0) as [Hn|Hn].
    + replace (Z.to_nat n) with 0%nat by lia. reflexivity.
    + rewrite IH. replace (Z.to_nat n) with (S (Z.to_nat (n - 1))) by lia. reflexivity.
Qed.

Lemma dropZ_skipn l : forall n, dropZ n l = skipn (Z.to_nat n) l.
Proof.
  induction l as [|x r IH]; intros n; cbn [dropZ].
  - now rewrite skipn_nil.
  - destruct (Z.leb_spec n 0) as [Hn|Hn].
    + replace (Z.to_nat n) with 0%nat by lia. reflexivity.
    + rewrite IH. replace (Z.to_nat n) with (S (Z.to_nat (n - 1))) by lia. reflexivity.
Qed.

Lemma lenZ_acc_spec l : forall acc, lenZ_acc l acc = acc + Z.of_nat (length l).
Proof.
  induction l as [|x r IH]; intros acc; cbn [lenZ_acc length].
  - lia.
  - rewrite IH. lia.
Qed.

Lemma lenZ_length l : lenZ l = Z.of_nat (length l).
Proof. unfold lenZ. now rewrite lenZ_acc_spec. Qed.

Lemma lenZ_nonneg l : 0 <= lenZ l.
Proof. rewrite lenZ_length. lia. Qed.

Lemma lenZ_app a b : lenZ (a ++ b) = lenZ a + lenZ b.
Proof. rewrite !lenZ_length, app_length. lia. Qed.

Lemma lenZ_nil : lenZ (@nil Z) = 0.
Proof. reflexivity. Qed.

Lemma lenZ_cons x (l : list Z) : lenZ (x :: l) = 1 + lenZ l.
Proof. rewrite !lenZ_length. cbn [length]. lia. Qed.

Lemma skipn_skipn {A} (a b : nat) (l : list A) : skipn a (skipn b l) = skipn (b + a) l.
Proof.
  revert l; induction b as [|b IH]; intros l; [reflexivity|].
  destruct l as [|x l]; [now rewrite !skipn_nil|]. cbn [skipn Nat.add]. apply IH.
Qed.

Lemma dropZ_dropZ a b l : 0 <= a -> 0 <= b -> dropZ a (dropZ b l) = dropZ (b + a) l.
Proof.
  intros. rewrite !dropZ_skipn, skipn_skipn. f_equal. lia.
Qed.

Lemma takeZ_app_dropZ n l : takeZ n l ++ dropZ n l = l.
Proof. rewrite takeZ_firstn, dropZ_skipn. apply firstn_skipn. Qed.

Lemma lenZ_takeZ n l : 0 <= n <= lenZ l -> lenZ (takeZ n l) = n.
Proof.
  intros Hn. rewrite lenZ_length in *. rewrite takeZ_firstn, firstn_length. lia.
Qed.

Lemma lenZ_dropZ n l : 0 <= n <= lenZ l -> lenZ (dropZ n l) = lenZ l - n.
Proof.
  intros Hn. rewrite !lenZ_length in *. rewrite dropZ_skipn, skipn_length. lia.
Qed.

Lemma takeZ_app_exact a b : takeZ (lenZ a) (a ++ b) = a.
Proof.
  rewrite takeZ_firstn, lenZ_length, Nat2Z.id.
  rewrite firstn_app, Nat.sub_diag, firstn_all. cbn. apply app_nil_r.
Qed.

Lemma dropZ_app_exact a b : dropZ (lenZ a) (a ++ b) = b.
Proof.
  rewrite dropZ_skipn, lenZ_length, Nat2Z.id.
  rewrite skipn_app, Nat.sub_diag, skipn_all. reflexivity.
Qed.

Lemma takeZ_all n l : lenZ l <= n -> takeZ n l = l.
Proof.
  intros. rewrite takeZ_firstn. apply firstn_all2. rewrite lenZ_length in *. lia.
Qed.

Lemma dropZ_all n l : lenZ l <= n -> dropZ n l = [].
Proof.
  intros. rewrite dropZ_skipn. apply skipn_all2. rewrite lenZ_length in *. lia.
Qed.

Lemma dropZ_0 l : dropZ 0 l = l.
Proof. now rewrite dropZ_skipn. Qed.

Lemma takeZ_0 l : takeZ 0 l = [].
Proof. now rewrite takeZ_firstn. Qed.

(** take n of a prefix-extended list *)
Lemma takeZ_takeZ_dropZ a b l :
  0 <= a -> 0 <= b -> takeZ a l ++ takeZ b (dropZ a l) = takeZ (a + b) l.
Proof.
  intros Ha Hb. rewrite !takeZ_firstn, dropZ_skipn.
  replace (Z.to_nat (a + b)) with (Z.to_nat a + Z.to_nat b)%nat by lia.
  generalize (Z.to_nat a) (Z.to_nat b). clear.
  intros n m. revert l. induction n as [|n IH]; intros l; [reflexivity|].
  destruct l as [|x l]; cbn [firstn skipn Nat.add app].
  - now rewrite firstn_nil.
  - f_equal. apply IH.
Qed.

Lemma takeZ_app_ge n a b : lenZ a <= n -> takeZ n (a ++ b) = a ++ takeZ (n - lenZ a) b.
Proof.
  intros Hn. rewrite !takeZ_firstn, firstn_app, lenZ_length in *.
  rewrite firstn_all2 by lia. f_equal. f_equal. lia.
Qed.
Lemma dropZ_app_ge n a b : lenZ a <= n -> dropZ n (a ++ b) = dropZ (n - lenZ a) b.
Proof.
  intros Hn. rewrite !dropZ_skipn, skipn_app, lenZ_length in *.
  rewrite skipn_all2 by lia. cbn [app]. f_equal. lia.
Qed.
Lemma takeZ_app_le n a b : n <= lenZ a -> takeZ n (a ++ b) = takeZ n a.
Proof.
  intros Hn. rewrite !takeZ_firstn, firstn_app, lenZ_length in *.
  replace (Z.to_nat n - length a)%nat with 0%nat by lia. cbn [firstn]. apply app_nil_r.
Qed.
Lemma dropZ_app_le n a b : n <= lenZ a -> dropZ n (a ++ b) = dropZ n a ++ b.
Proof.
  intros Hn. rewrite !dropZ_skipn, skipn_app, lenZ_length in *.
  replace (Z.to_nat n - length a)%nat with 0%nat by lia. reflexivity.
Qed.

(** ** list_eqb *)
Lemma list_eqb_eq a : forall b, list_eqb a b = true <-> a = b.
Proof.
  induction a as [|x a IH]; intros [|y b]; cbn [list_eqb].
  - tauto.
  - split; discriminate.
  - split; discriminate.
  - rewrite andb_true_iff, Z.eqb_eq, IH. split.
    + intros [E1 E2]. now subst.
    + intros E. inversion E. auto.
Qed.

Lemma list_eqb_refl a : list_eqb a a = true.
Proof. now apply list_eqb_eq. Qed.

(** ** 32-bit little-endian integers *)

Lemma le32_length v : length (le32 v) = 4%nat.
Proof. reflexivity. Qed.

Lemma lenZ_le32 v : lenZ (le32 v) = 4.
Proof. reflexivity. Qed.

Lemma rd32_le32 v s : -2147483648 <= v < 2147483648 -> rd32 (le32 v ++ s) = Some (v, s).
Proof.
  intros Hv. unfold le32, rd32. cbn [app]. f_equal. f_equal.
  unfold s32, u32_of4.
  destruct (Z.ltb_spec (v mod 256 + 256 * ((v / 256) mod 256) + 65536 * ((v / 65536) mod 256) +
                        16777216 * ((v / 16777216) mod 256)) 2147483648); lia.
Qed.

Lemma rdu32_le32 v s : 0 <= v < 4294967296 -> rdu32 (le32 v ++ s) = Some (v, s).
Proof.
  intros Hv. unfold le32, rdu32. cbn [app]. f_equal. f_equal.
  unfold u32_of4. lia.
Qed.

Lemma le32_bytes v : bytesb (le32 v) = true.
Proof.
  unfold le32, bytesb, is_byte. cbn [forallb].
  rewrite !andb_true_iff, !Z.leb_le, !Z.ltb_lt. lia.
Qed.

(** int64 round trip, all of the int64 range; the encoding switches at 2^31. *)
Lemma rd_i64_enc v s :
  -9223372036854775808 <= v < 9223372036854775808 ->
  rd_i64 (enc_i64 v ++ s) = Some (v, s).
Proof.
  intros Hv. unfold enc_i64, rd_i64.
  destruct ((0 <=? v) && (v <=? 2147483647)) eqn:Hc.
  - apply andb_true_iff in Hc. destruct Hc as [H1 H2].
    apply Z.leb_le in H1, H2. rewrite rd32_le32 by lia.
    destruct (Z.eqb_spec v (-1)); [lia|reflexivity].
  - rewrite <- app_assoc, rd32_le32 by lia.
    rewrite Z.eqb_refl. unfold le64. rewrite <- !app_assoc.
    rewrite rdu32_le32 by lia. rewrite rdu32_le32 by lia.
    f_equal. f_equal. unfold s64.
    destruct (Z.ltb_spec (v mod 4294967296 + 4294967296 * ((v / 4294967296) mod 4294967296)) 9223372036854775808); lia.
Qed.

Lemma enc_i64_short v : 0 <= v <= 2147483647 -> enc_i64 v = le32 v.
Proof.
  intros. unfold enc_i64. replace (0 <=? v) with true by (symmetry; apply Z.leb_le; lia).
  replace (v <=? 2147483647) with true by (symmetry; apply Z.leb_le; lia). reflexivity.
Qed.

Lemma enc_i64_long v : v < 0 \/ 2147483647 < v -> enc_i64 v = le32 (-1) ++ le64 v.
Proof.
  intros [H|H]; unfold enc_i64.
  - replace (0 <=? v) with false by (symmetry; apply Z.leb_gt; lia). reflexivity.
  - replace (v <=? 2147483647) with false by (symmetry; apply Z.leb_gt; lia).
    now rewrite andb_false_r.
Qed.

(** take *)
Lemma take_app a b : take (lenZ a) (a ++ b) = Some (a, b).
Proof.
  unfold take. rewrite lenZ_app.
  pose proof (lenZ_nonneg a). pose proof (lenZ_nonneg b).
  replace (0 <=? lenZ a) with true by (symmetry; apply Z.leb_le; lia).
  replace (lenZ a <=? lenZ a + lenZ b) with true by (symmetry; apply Z.leb_le; lia).
  cbn [andb]. now rewrite takeZ_app_exact, dropZ_app_exact.
Qed.

Lemma take_some n s a r : take n s = Some (a, r) -> s = a ++ r /\ lenZ a = n.
Proof.
  unfold take. destruct ((0 <=? n) && (n <=? lenZ s)) eqn:Hc; [|discriminate].
  apply andb_true_iff in Hc. destruct Hc as [H1 H2].
  apply Z.leb_le in H1, H2. intros E. inversion E; subst.
  split; [symmetry; apply takeZ_app_dropZ|apply lenZ_takeZ; lia].
Qed.
