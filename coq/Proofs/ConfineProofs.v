(** C05: every file-system operation of a receiving session names a path
    from the file list, relative to the destination root; and the source
    level inventory of file-system call sites (Gen/FsSites.v, regenerated
    from the code on every run) contains nothing but root-relative calls. *)
From Coq Require Import ZArith String List Bool.
From RV Require Import Model.Bytes Model.Flist Model.GenOps Gen.FsSites.
Import ListNotations.

(** ** the operations name only listed paths *)
Lemma set_perms_paths o e mode st op : In op (set_perms_ops o e mode st) -> op_path op = e_name e.
Proof.
  unfold set_perms_ops, set_uid_ops. destruct (g_dry o); [intros []|].
  intros H. repeat (apply in_app_or in H; destruct H as [H|H]);
    repeat match type of H with
           | In _ (if ?c then _ else _) => destruct c
           | In _ [] => destruct H
           | In _ [_] => destruct H as [<-|[]]; reflexivity
           end.
Qed.

Lemma gen_entry_paths o e dst skip now op : In op (fst (gen_entry o e dst skip now)) -> op_path op = e_name e.
Proof.
  unfold gen_entry, new_symlink.
  repeat match goal with
         | |- context [if ?c then _ else _] => destruct c
         | |- context [match ?d with Some _ => _ | None => _ end] => destruct d
         | |- context [match l_kind ?s with _ => _ end] => destruct (l_kind s)
         end; cbn [fst app In]; intros H;
    repeat match type of H with
           | _ \/ _ => destruct H as [H|H]
           | In _ (_ ++ _) => apply in_app_or in H; destruct H as [H|H]
           | In _ (_ :: _) => destruct H as [H|H]
           | In _ [] => destruct H
           | False => destruct H
           | _ = op => subst op; reflexivity
           | In _ (set_perms_ops _ _ _ _) => eapply set_perms_paths; exact H
           end.
Qed.

Lemma gen_entry'_paths o e dst skip now op : In op (fst (gen_entry' o e dst skip now)) -> op_path op = e_name e.
Proof.
  unfold gen_entry'. destruct dst as [s|]; [|apply gen_entry_paths].
  destruct (_ && _ && _ && _)%bool; [intros []|apply gen_entry_paths].
Qed.

Lemma recv_ops_paths o e c v old now op : In op (recv_ops o e c v old now) -> op_path op = e_name e.
Proof.
  unfold recv_ops. destruct (g_dry o); [intros []|]. intros H.
  repeat match type of H with
         | In _ (_ ++ _) => apply in_app_or in H; destruct H as [H|H]
         | In _ (if ?c then _ else _) => destruct c
         | In _ (_ :: _) => destruct H as [H|H]
         | In _ [] => destruct H
         | _ = op => subst op; reflexivity
         | In _ (set_perms_ops _ _ _ _) => eapply set_perms_paths; exact H
         end.
Qed.

Lemma touch_up_paths o e st op : In op (touch_up_ops o e st) -> op_path op = e_name e.
Proof. unfold touch_up_ops. destruct (_ || _ || _)%bool; [intros []|apply set_perms_paths]. Qed.

Lemma session_ops_paths o now ws op :
  In op (receiver_session_ops o now ws) -> exists w, In w ws /\ op_path op = e_name (w_entry w).
Proof.
  unfold receiver_session_ops. intros H. apply in_app_or in H. destruct H as [H|H];
    apply in_flat_map in H; destruct H as [w [Hw H]]; exists w; split; try exact Hw.
  - unfold entry_ops in H.
    pose proof (gen_entry'_paths o (w_entry w) (w_dst w) (w_skip w) now op) as G.
    destruct (gen_entry' o (w_entry w) (w_dst w) (w_skip w) now) as [ops rq]. cbn [fst] in G.
    apply in_app_or in H. destruct H as [H|H]; [now apply G|].
    destruct rq; try (destruct H; fail); eapply recv_ops_paths; exact H.
  - eapply touch_up_paths; exact H.
Qed.

(** ** os.Root: assumed semantics, stated once.  [resolve] maps a
    root-relative name to the global object it denotes, or fails; the
    assumption is that it never denotes anything outside the root. *)
Section Root.
  Variable gpath : Type.
  Variable under_root : gpath -> Prop.
  Variable resolve : list Z -> option gpath.
  Hypothesis root_confines : forall p g, resolve p = Some g -> under_root g.

  Definition touched (op : fsop) : option gpath := resolve (op_path op).

  Lemma session_confined o now ws op g :
    In op (receiver_session_ops o now ws) -> touched op = Some g -> under_root g.
  Proof. intros _ T. exact (root_confines _ _ T). Qed.
End Root.

(** ** the source-level inventory *)
Open Scope string_scope.
Definition allowed_pkg_calls : list (string * string) :=
  [ (* the destination itself: created and opened as the root, by the two callers *)
    ("os.MkdirAll", "rt.Dest, 0755"); ("os.OpenRoot", "rt.Dest");
    (* devices and special files: relative to the directory fd of the root-resolved parent, base name only *)
    ("unix.Mknodat", "int(parentDir.Fd()), base, uint32(perm) | syscall.S_IFCHR, int(f.Rdev)");
    ("unix.Mknodat", "int(parentDir.Fd()), base, uint32(perm) | syscall.S_IFBLK, int(f.Rdev)");
    ("unix.Mkfifoat", "int(parentDir.Fd()), base, uint32(perm)");
    ("unix.Socket", "unix.AF_UNIX, unix.SOCK_DGRAM, 0");
    ("unix.Bind", "fd, &unix.SockaddrUnix{Name: local}");
    ("unix.Close", "fd");
    (* the delete walk: over the root's own fs.FS *)
    ("fs.WalkDir", "rt.DestRoot.FS(), ""."", <func>");
    (* renameio with the root passed explicitly *)
    ("renameio.SymlinkRoot", "root, oldname, newname");
    ("renameio.NewPendingFile", "fn, renameio.WithRoot(root)");
    ("renameio.WithRoot", "root") ].

Definition pair_eqb (a b : string * string) : bool := String.eqb (fst a) (fst b) && String.eqb (snd a) (snd b).

Definition site_ok (s : string * string * string * string) : bool :=
  let '(where_, kind, callee, args) := s in
  if String.eqb kind "root" then true
  else if String.eqb kind "handle" then true
  else if String.eqb kind "path" then true
  else if String.eqb kind "roothelper" then String.prefix "rt.DestRoot, f." args
  else if String.eqb kind "guard" then true
  else if String.eqb kind "pkg" then existsb (pair_eqb (callee, args)) allowed_pkg_calls
  else false.

(** socket paths are built from the parent directory fd and a base name *)
Definition bind_path_ok : bool :=
  existsb (fun s => let '(_, kind, callee, args) := s in
                    String.eqb callee "filepath.Join" &&
                    String.eqb args """/proc/self/fd"", strconv.Itoa(int(parentDir.Fd())), base") fs_sites &&
  existsb (fun s => let '(_, kind, callee, args) := s in
                    String.eqb callee "filepath.Base" && String.eqb args "f.Name") fs_sites.

(** the daemon's module subdirectory is cleaned before it is opened through the root *)
Definition subdir_ok : bool :=
  existsb (fun s => let '(w, kind, callee, args) := s in
                    String.eqb w "rsyncd/rsyncd.go:handleConnReceiver" && String.eqb callee "filepath.Clean") fs_sites &&
  forallb (fun s => let '(w, kind, callee, args) := s in
                    negb (String.eqb w "rsyncd/rsyncd.go:handleConnReceiver" && String.eqb callee "OpenRoot") ||
                    String.eqb args "subdir") fs_sites.

Lemma inventory_ok : forallb site_ok fs_sites = true /\ bind_path_ok = true /\ subdir_ok = true.
Proof. vm_compute. repeat split; reflexivity. Qed.

(** ** the sending side only reads, and only through its source *)
Definition sender_site_ok (s : string * string * string * string) : bool :=
  let '(where_, kind, callee, args) := s in
  if String.eqb kind "path" then true
  else if String.eqb kind "root" || String.eqb kind "source" then
    existsb (String.eqb callee) ["Open"; "Readlink"; "FS"; "Close"]
  else if String.eqb kind "pkg" then
    existsb (pair_eqb (callee, args))
      [("os.OpenRoot", "s.localDir"); ("fs.WalkDir", "s.source.FS(), filepath.Clean(rootname), s.walkFn")]
  else false.

Lemma sender_inventory_ok : forallb sender_site_ok sender_fs_sites = true.
Proof. vm_compute. reflexivity. Qed.

(** ** the daemon's receive handler checks Module.Writable before any file-system call *)
Definition in_recv_handler (s : string * string * string * string) : bool :=
  let '(w, _, _, _) := s in String.eqb w "rsyncd/rsyncd.go:handleConnReceiver".
Definition touches_fs (s : string * string * string * string) : bool :=
  let '(_, kind, _, _) := s in String.eqb kind "root" || String.eqb kind "pkg" || String.eqb kind "roothelper" || String.eqb kind "handle".
Definition is_guard (s : string * string * string * string) : bool :=
  let '(_, kind, callee, args) := s in String.eqb kind "guard" && String.eqb callee "!module.Writable" && String.eqb args "return".

(** sites of the handler before the first file-system call *)
Fixpoint before_first_fs (l : list (string * string * string * string)) : list (string * string * string * string) :=
  match l with
  | [] => []
  | s :: r => if touches_fs s then [] else s :: before_first_fs r
  end.

Lemma writable_guard_first :
  existsb is_guard (before_first_fs (filter in_recv_handler fs_sites)) = true.
Proof. vm_compute. reflexivity. Qed.
