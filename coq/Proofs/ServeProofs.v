From Coq Require Import ZArith List Bool Lia.
From RV Require Import Model.Bytes Model.Flist Model.Tree Model.Serve Proofs.BytesProofs Proofs.TreeProofs.
Import ListNotations.
Open Scope Z_scope.

Lemma path_in_app : forall p0 t sub q,
  lookup t p0 = Some sub -> path_in sub q -> path_in t (p0 ++ q).
Proof.
  induction p0 as [|c r IH]; intros t sub q L P.
  - cbn in L. injection L as <-. exact P.
  - cbn [app path_in]. destruct t as [| |cs]; cbn [lookup] in L; try discriminate.
    destruct (assoc_name c cs) as [u|] eqn:E; [|discriminate].
    exists u. split; [now apply assoc_in|]. eapply IH; eauto.
Qed.

(** every entry of the file list denotes an object of the module's tree *)
Lemma served_inside t req p : In p (serve_paths t req) -> path_in t p.
Proof.
  unfold serve_paths. destruct (negb (valid_path (walk_root req))); [intros []|].
  destruct (lookup t (comps_of (walk_root req))) as [sub|] eqn:L; [|intros []].
  intros [<-|H].
  - eapply lookup_path_in; exact L.
  - destruct (select_sound [] _ _ _ _ H) as (q & _ & -> & P & _).
    rewrite rev_involutive. eapply path_in_app; eauto.
Qed.

(** a request whose cleaned form is not a valid root-relative path (a ".."
    component survives cleaning) yields an empty list *)
Lemma invalid_root_nothing t req : valid_path (walk_root req) = false -> serve_paths t req = [].
Proof. intros H. unfold serve_paths. now rewrite H. Qed.

Lemma dotdot_invalid p : In [dot; dot] (split_slash p []) -> list_eqb p [dot] = false -> valid_path p = false.
Proof.
  intros H N. unfold valid_path. rewrite N. cbn [orb].
  apply not_true_is_false. intros F. rewrite forallb_forall in F. specialize (F _ H).
  unfold valid_elem in F. rewrite (list_eqb_refl [dot; dot]) in F. cbn [negb] in F. rewrite andb_false_r in F. discriminate.
Qed.

(** nothing that does not exist under the requested root is listed: an absent root lists nothing *)
Lemma absent_root_nothing t req : lookup t (comps_of (walk_root req)) = None -> serve_paths t req = [].
Proof. intros H. unfold serve_paths. destruct (negb _); [reflexivity|]. now rewrite H. Qed.

(** the whole request: every name sent for any path argument comes from [serve_paths] of the module tree *)
Lemma daemon_serve_sound mname t reqs nm :
  In nm (daemon_serve mname t reqs) ->
  exists r p, In r reqs /\ In p (serve_paths t (strip_module mname r)) /\ path_in t p.
Proof.
  unfold daemon_serve, serve_names. intros H. apply in_flat_map in H. destruct H as [r [Hr H]].
  apply in_map_iff in H. destruct H as [p [_ Hp]]. exists r, p. split; [exact Hr|]. split; [exact Hp|].
  eapply served_inside; exact Hp.
Qed.

(** ** C01: which names the selected files get (source argument -> destination path) *)

Lemma allowed_nil : forall p rprefix, allowed [] rprefix p = true.
Proof. induction p as [|c r IH]; intros rprefix; cbn [allowed excluded]; [reflexivity|apply IH]. Qed.

(** everything that exists under the requested root is listed *)
Lemma serve_complete t req sub rel node :
  valid_path (walk_root req) = true ->
  lookup t (comps_of (walk_root req)) = Some sub -> lookup sub rel = Some node ->
  In (comps_of (walk_root req) ++ rel) (serve_paths t req).
Proof.
  intros Hv L Lr. unfold serve_paths. rewrite Hv. cbn [negb]. rewrite L.
  destruct rel as [|c r]; [left; now rewrite app_nil_r|right].
  rewrite <- (rev_involutive (comps_of (walk_root req))) at 1.
  eapply select_complete; [apply Nat.le_refl|discriminate|exact Lr|apply allowed_nil].
Qed.

Lemma render_from_app : forall p0 rel, p0 <> [] -> rel <> [] ->
  render_from (p0 ++ rel) = render_from p0 ++ [47] ++ render_from rel.
Proof.
  induction p0 as [|c r IH]; intros rel H0 Hr; [congruence|].
  destruct r as [|c' r'].
  - destruct rel as [|d rel']; [congruence|]. reflexivity.
  - change ((c :: c' :: r') ++ rel) with (c :: ((c' :: r') ++ rel)).
    change (render_from (c :: (c' :: r') ++ rel)) with (c ++ [47] ++ render_from ((c' :: r') ++ rel)).
    rewrite IH by (discriminate || assumption).
    change (render_from (c :: c' :: r')) with (c ++ [47] ++ render_from (c' :: r')).
    rewrite <- !app_assoc. reflexivity.
Qed.

Lemma render_app p0 rel : p0 <> [] -> rel <> [] -> render (p0 ++ rel) = render p0 ++ slash :: render rel.
Proof.
  intros H0 Hr. unfold render.
  destruct (p0 ++ rel) eqn:E; [apply app_eq_nil in E; destruct E; congruence|]. rewrite <- E.
  destruct p0; [congruence|]. destruct rel; [congruence|].
  now rewrite render_from_app by discriminate.
Qed.

Lemma trim_prefix_app a x : trim_prefix a (a ++ x) = x.
Proof.
  unfold trim_prefix. rewrite firstn_app, Nat.sub_diag, firstn_all. cbn [firstn]. rewrite app_nil_r.
  rewrite list_eqb_refl. rewrite skipn_app, Nat.sub_diag, skipn_all. reflexivity.
Qed.

(** a directory requested with a trailing slash: its contents are named
    relative to it, the directory itself is "." *)
Lemma wire_name_contents p0 rel : p0 <> [] ->
  wire_name (render p0 ++ [slash]) (p0 ++ rel) = render rel.
Proof.
  intros H0. unfold wire_name.
  destruct (render p0 ++ [slash]) as [|s0 s'] eqn:Es; [apply app_eq_nil in Es; destruct Es; discriminate|].
  rewrite <- Es. clear Es s0 s'.
  destruct rel as [|c r].
  - rewrite app_nil_r, list_eqb_refl. reflexivity.
  - rewrite render_app by (assumption || discriminate).
    destruct (list_eqb ((render p0 ++ slash :: render (c :: r)) ++ [slash]) (render p0 ++ [slash])) eqn:E.
    + apply list_eqb_eq in E. apply (f_equal (@length Z)) in E.
      rewrite !app_length in E. cbn [length] in E. lia.
    + replace (render p0 ++ slash :: render (c :: r)) with ((render p0 ++ [slash]) ++ render (c :: r))
        by (rewrite <- app_assoc; reflexivity).
      apply trim_prefix_app.
Qed.

(** ** filepath.Clean and the strip prefix on a well-formed request "/c1/.../ck/" *)

Definition noslash (c : list Z) : bool := forallb (fun x => negb (x =? slash)) c.
Definition good_comp (c : list Z) : bool := noslash c && valid_elem c.

Lemma split_noslash c : forall s cur, noslash c = true ->
  split_slash (c ++ s) cur = split_slash s (rev c ++ cur).
Proof.
  induction c as [|x c IH]; intros s cur Hn; [reflexivity|].
  cbn [noslash forallb] in Hn. apply andb_true_iff in Hn. destruct Hn as [Hx Hc].
  apply negb_true_iff in Hx. cbn [app split_slash]. rewrite Hx.
  rewrite IH by exact Hc. cbn [rev]. rewrite <- app_assoc. reflexivity.
Qed.

Lemma split_render_slash : forall p, p <> [] -> Forall (fun c => noslash c = true) p ->
  split_slash (render_from p ++ [slash]) [] = p ++ [[]].
Proof.
  induction p as [|c r IH]; intros Hne Hall; [congruence|].
  inversion Hall as [|? ? Hc Hr]; subst.
  destruct r as [|c' r'].
  - cbn [render_from]. rewrite split_noslash by exact Hc. cbn [split_slash].
    rewrite Z.eqb_refl. rewrite app_nil_r, rev_involutive. reflexivity.
  - change (render_from (c :: c' :: r')) with (c ++ [47] ++ render_from (c' :: r')).
    rewrite <- !app_assoc. rewrite split_noslash by exact Hc.
    cbn [app split_slash]. change (47 =? slash) with true. cbn iota.
    rewrite app_nil_r, rev_involutive. rewrite IH by (discriminate || assumption). reflexivity.
Qed.

Lemma split_render : forall p, p <> [] -> Forall (fun c => noslash c = true) p ->
  split_slash (render_from p) [] = p.
Proof.
  induction p as [|c r IH]; intros Hne Hall; [congruence|].
  inversion Hall as [|? ? Hc Hr]; subst.
  destruct r as [|c' r'].
  - cbn [render_from]. rewrite <- (app_nil_r c) at 1. rewrite split_noslash by exact Hc.
    cbn [split_slash]. rewrite app_nil_r, rev_involutive. reflexivity.
  - change (render_from (c :: c' :: r')) with (c ++ [47] ++ render_from (c' :: r')).
    rewrite split_noslash by exact Hc.
    cbn [app split_slash]. change (47 =? slash) with true. cbn iota.
    rewrite app_nil_r, rev_involutive. rewrite IH by (discriminate || assumption). reflexivity.
Qed.

Lemma clean_good rooted p : forall rest stack, Forall (fun c => valid_elem c = true) p ->
  clean_comps rooted (p ++ rest) stack = clean_comps rooted rest (rev p ++ stack).
Proof.
  induction p as [|c r IH]; intros rest stack Hall; [reflexivity|].
  inversion Hall as [|? ? Hc Hr]; subst.
  unfold valid_elem in Hc. apply andb_true_iff in Hc. destruct Hc as [Hc H3].
  apply andb_true_iff in Hc. destruct Hc as [H1 H2].
  apply negb_true_iff in H1. apply negb_true_iff in H2. apply negb_true_iff in H3.
  cbn [app clean_comps]. rewrite H1, H2, H3. cbn [orb].
  rewrite IH by exact Hr. cbn [rev]. rewrite <- app_assoc. reflexivity.
Qed.

Lemma good_split p : Forall (fun c => good_comp c = true) p ->
  Forall (fun c => noslash c = true) p /\ Forall (fun c => valid_elem c = true) p.
Proof.
  induction 1 as [|c r Hc _ [IH1 IH2]]; [split; constructor|].
  unfold good_comp in Hc. apply andb_true_iff in Hc. destruct Hc. split; constructor; assumption.
Qed.

Lemma render_from_nonempty p : p <> [] -> Forall (fun c => valid_elem c = true) p -> render_from p <> [].
Proof.
  destruct p as [|c r]; [congruence|]. intros _ Hall. inversion Hall as [|? ? Hc _]; subst.
  assert (c <> []).
  { intros ->. unfold valid_elem in Hc. cbn in Hc. discriminate. }
  destruct r; cbn [render_from]; destruct c; cbn; congruence.
Qed.

Lemma render_from_not_dot p : p <> [] -> Forall (fun c => good_comp c = true) p -> list_eqb (render_from p) [dot] = false.
Proof.
  intros Hne Hall. destruct (list_eqb (render_from p) [dot]) eqn:E; [|reflexivity]. exfalso.
  apply list_eqb_eq in E. destruct (good_split p Hall) as [Hns Hv].
  pose proof (split_render p Hne Hns) as Hs. rewrite E in Hs. cbn in Hs.
  subst p. inversion Hv as [|? ? Hc _]; subst. unfold valid_elem in Hc. cbn in Hc. discriminate.
Qed.

Section WellFormedRequest.
  Variable p0 : path.
  Hypothesis Hne : p0 <> [].
  Hypothesis Hgood : Forall (fun c => good_comp c = true) p0.
  Let req := slash :: render_from p0 ++ [slash].

  Lemma wf_split : split_slash req [] = [] :: p0 ++ [[]].
  Proof.
    unfold req. cbn [split_slash]. rewrite Z.eqb_refl. cbn [rev].
    destruct (good_split p0 Hgood) as [Hns _]. now rewrite split_render_slash.
  Qed.

  Lemma wf_path_clean : path_clean req = slash :: render_from p0.
  Proof.
    unfold path_clean. unfold req at 1. rewrite Z.eqb_refl. cbv zeta. rewrite wf_split.
    cbn [clean_comps list_eqb orb]. destruct (good_split p0 Hgood) as [_ Hv].
    rewrite clean_good by exact Hv. cbn [clean_comps list_eqb orb]. rewrite app_nil_r, rev_involutive.
    reflexivity.
  Qed.

  Lemma join_is_render : forall p, join_slash p = render_from p.
  Proof.
    induction p as [|c r IH]; [reflexivity|]. destruct r as [|c' r']; [reflexivity|].
    change (join_slash (c :: c' :: r')) with (c ++ [slash] ++ join_slash (c' :: r')).
    change (render_from (c :: c' :: r')) with (c ++ [47] ++ render_from (c' :: r')).
    rewrite IH. reflexivity.
  Qed.

  Lemma wf_get_strip : get_strip req = render p0 ++ [slash].
  Proof.
    unfold get_strip.
    assert (E1 : list_eqb req [slash] = false).
    { destruct (list_eqb req [slash]) eqn:E; [|reflexivity]. apply list_eqb_eq in E. unfold req in E.
      inversion E as [E']. apply app_eq_nil in E'. destruct E'; discriminate. }
    rewrite E1.
    assert (E2 : has_suffix_slash req = true).
    { unfold has_suffix_slash, req. change (slash :: render_from p0 ++ [slash]) with ((slash :: render_from p0) ++ [slash]).
      rewrite rev_app_distr. cbn. reflexivity. }
    rewrite E2, wf_path_clean. rewrite Z.eqb_refl.
    unfold render. destruct p0; [congruence|reflexivity].
  Qed.

  Lemma wf_walk_root : walk_root req = render_from p0.
  Proof.
    unfold walk_root. unfold req at 1. rewrite Z.eqb_refl.
    unfold path_clean. change (dot =? slash) with false. cbv zeta.
    change (split_slash (dot :: req) []) with (split_slash req [dot]).
    unfold req. cbn [split_slash]. rewrite Z.eqb_refl. cbn [rev app].
    destruct (good_split p0 Hgood) as [Hns Hv]. rewrite split_render_slash by assumption.
    cbn [clean_comps list_eqb]. change (dot =? dot) with true. cbn [andb orb].
    rewrite clean_good by exact Hv. cbn [clean_comps list_eqb orb]. rewrite app_nil_r, rev_involutive.
    rewrite join_is_render.
    pose proof (render_from_nonempty p0 Hne Hv) as Hnn.
    destruct (render_from p0); [congruence|reflexivity].
  Qed.

  Lemma wf_comps : comps_of (walk_root req) = p0.
  Proof.
    rewrite wf_walk_root. unfold comps_of. rewrite render_from_not_dot by assumption.
    destruct (good_split p0 Hgood) as [Hns _]. now apply split_render.
  Qed.

  Lemma wf_valid : valid_path (walk_root req) = true.
  Proof.
    rewrite wf_walk_root. unfold valid_path. rewrite render_from_not_dot by assumption. cbn [orb].
    destruct (good_split p0 Hgood) as [Hns Hv]. rewrite split_render by assumption.
    apply forallb_forall. intros c Hc. rewrite Forall_forall in Hv. now apply Hv.
  Qed.

  (** The daemon asked for "/c1/.../ck/": every object under that directory
      is listed under its path relative to the directory. *)
  Theorem directory_contents_named_relative t sub rel node :
    lookup t p0 = Some sub -> lookup sub rel = Some node ->
    In (render rel) (serve_names t req).
  Proof.
    intros L Lr. unfold serve_names. rewrite wf_get_strip.
    rewrite <- (wire_name_contents p0 rel Hne).
    apply in_map.
    pose proof (serve_complete t req sub rel node wf_valid) as Hc. rewrite wf_comps in Hc.
    exact (Hc L Lr).
  Qed.
End WellFormedRequest.

Lemma rev_render_head : forall p, p <> [] -> Forall (fun c => good_comp c = true) p ->
  exists x l, rev (render_from p) = x :: l /\ (x =? slash) = false.
Proof.
  induction p as [|c r IH]; intros Hne Hall; [congruence|].
  inversion Hall as [|? ? Hc Hr]; subst.
  destruct r as [|c' r'].
  - cbn [render_from]. unfold good_comp in Hc. apply andb_true_iff in Hc. destruct Hc as [Hn Hv].
    destruct (rev c) as [|x l] eqn:E.
    + apply (f_equal (@rev Z)) in E. rewrite rev_involutive in E. subst c. cbn in Hv. discriminate.
    + exists x, l. split; [reflexivity|].
      assert (Hin : In x c) by (apply in_rev; rewrite E; now left).
      unfold noslash in Hn. rewrite forallb_forall in Hn. specialize (Hn x Hin). now apply negb_true_iff in Hn.
  - change (render_from (c :: c' :: r')) with (c ++ [47] ++ render_from (c' :: r')).
    rewrite !rev_app_distr.
    destruct (IH ltac:(discriminate) Hr) as (x & l & E & Hx). rewrite E.
    exists x, (l ++ rev [47] ++ rev c). split; [|exact Hx]. rewrite <- app_assoc. reflexivity.
Qed.

Section WellFormedRequestNoSlash.
  Variable p0 : path.
  Hypothesis Hne : p0 <> [].
  Hypothesis Hgood : Forall (fun c => good_comp c = true) p0.
  Let req := slash :: render_from p0.

  Lemma wfn_get_strip : get_strip req = [].
  Proof.
    unfold get_strip.
    destruct (good_split p0 Hgood) as [_ Hv]. pose proof (render_from_nonempty p0 Hne Hv) as Hnn.
    assert (E1 : list_eqb req [slash] = false).
    { destruct (list_eqb req [slash]) eqn:E; [|reflexivity]. apply list_eqb_eq in E. unfold req in E.
      inversion E. congruence. }
    rewrite E1.
    assert (E2 : has_suffix_slash req = false).
    { unfold has_suffix_slash, req. cbn [rev].
      destruct (rev_render_head p0 Hne Hgood) as (x & l & E & Hx). rewrite E. cbn [app]. exact Hx. }
    now rewrite E2.
  Qed.

  Lemma wfn_walk_root : walk_root req = render_from p0.
  Proof.
    unfold walk_root. unfold req at 1. rewrite Z.eqb_refl.
    unfold path_clean. change (dot =? slash) with false. cbv zeta.
    change (split_slash (dot :: req) []) with (split_slash req [dot]).
    unfold req. cbn [split_slash]. rewrite Z.eqb_refl. cbn [rev app].
    destruct (good_split p0 Hgood) as [Hns Hv]. rewrite split_render by assumption.
    cbn [clean_comps list_eqb]. change (dot =? dot) with true. cbn [andb orb].
    pose proof (clean_good false p0 [] [] Hv) as Hcg. rewrite !app_nil_r in Hcg. cbn [clean_comps] in Hcg.
    rewrite rev_involutive in Hcg. rewrite Hcg.
    rewrite join_is_render.
    pose proof (render_from_nonempty p0 Hne Hv) as Hnn.
    destruct (render_from p0); [congruence|reflexivity].
  Qed.

  (** The daemon asked for "/c1/.../ck" (no trailing slash): the objects are
      listed under their module-relative paths.  For k = 1 that is the
      directory's own name followed by the relative path, as rsync does; for
      k > 1 rsync would name them by ck alone (known finding). *)
  Theorem path_named_module_relative t sub rel node :
    lookup t p0 = Some sub -> lookup sub rel = Some node ->
    In (render (p0 ++ rel)) (serve_names t req).
  Proof.
    intros L Lr. unfold serve_names. rewrite wfn_get_strip. cbn [wire_name].
    apply in_map.
    assert (Hc : comps_of (walk_root req) = p0).
    { rewrite wfn_walk_root. unfold comps_of. rewrite render_from_not_dot by assumption.
      destruct (good_split p0 Hgood) as [Hns _]. now apply split_render. }
    assert (Hv : valid_path (walk_root req) = true).
    { rewrite wfn_walk_root. unfold valid_path. rewrite render_from_not_dot by assumption. cbn [orb].
      destruct (good_split p0 Hgood) as [Hns Hv]. rewrite split_render by assumption.
      apply forallb_forall. intros c Hc'. rewrite Forall_forall in Hv. now apply Hv. }
    pose proof (serve_complete t req sub rel node Hv) as Hs. rewrite Hc in Hs. exact (Hs L Lr).
  Qed.
End WellFormedRequestNoSlash.

(** ** C01: the client as sender — an absolute source path is split into the
    directory to open and the element to request *)

Lemma good_first_not_slash c : good_comp c = true -> exists x l, c = x :: l /\ (x =? slash) = false.
Proof.
  intros Hc. unfold good_comp in Hc. apply andb_true_iff in Hc. destruct Hc as [Hn Hv].
  destruct c as [|x l]; [cbn in Hv; discriminate|]. exists x, l. split; [reflexivity|].
  cbn [noslash forallb] in Hn. apply andb_true_iff in Hn. destruct Hn as [Hx _]. now apply negb_true_iff in Hx.
Qed.

Lemma render_from_head p : p <> [] -> Forall (fun c => good_comp c = true) p ->
  exists x l, render_from p = x :: l /\ (x =? slash) = false.
Proof.
  destruct p as [|c r]; [congruence|]. intros _ Hall. inversion Hall as [|? ? Hc Hr]; subst.
  destruct (good_first_not_slash c Hc) as (x & l & -> & Hx).
  destruct r as [|c' r'].
  - exists x, l. split; [reflexivity|exact Hx].
  - change (render_from ((x :: l) :: c' :: r')) with ((x :: l) ++ [47] ++ render_from (c' :: r')).
    exists x, (l ++ [47] ++ render_from (c' :: r')). split; [reflexivity|exact Hx].
Qed.

(** a relative well-formed request "c1/.../ck" *)
Section RelativeRequest.
  Variable p0 : path.
  Hypothesis Hne : p0 <> [].
  Hypothesis Hgood : Forall (fun c => good_comp c = true) p0.
  Let req := render_from p0.

  Lemma rel_get_strip : get_strip req = [].
  Proof.
    unfold get_strip.
    destruct (render_from_head p0 Hne Hgood) as (x & l & E & Hx).
    assert (E1 : list_eqb req [slash] = false).
    { destruct (list_eqb req [slash]) eqn:Eq; [|reflexivity]. apply list_eqb_eq in Eq. unfold req in Eq.
      rewrite E in Eq. inversion Eq; subst. cbn in Hx. discriminate. }
    rewrite E1.
    assert (E2 : has_suffix_slash req = false).
    { unfold has_suffix_slash, req.
      destruct (rev_render_head p0 Hne Hgood) as (y & l' & Er & Hy). rewrite Er. exact Hy. }
    now rewrite E2.
  Qed.

  Lemma rel_walk_root : walk_root req = render_from p0.
  Proof.
    unfold walk_root, req.
    destruct (render_from_head p0 Hne Hgood) as (x & l & E & Hx). rewrite E. rewrite Hx. rewrite <- E.
    unfold path_clean. rewrite E. rewrite Hx. rewrite <- E. cbv zeta.
    destruct (good_split p0 Hgood) as [Hns Hv]. rewrite split_render by assumption.
    pose proof (clean_good false p0 [] [] Hv) as Hcg. rewrite !app_nil_r in Hcg. cbn [clean_comps] in Hcg.
    rewrite rev_involutive in Hcg. rewrite Hcg.
    rewrite join_is_render.
    pose proof (render_from_nonempty p0 Hne Hv) as Hnn.
    destruct (render_from p0); [congruence|reflexivity].
  Qed.

  Theorem relative_path_named_from_the_root t sub rel node :
    lookup t p0 = Some sub -> lookup sub rel = Some node ->
    In (render (p0 ++ rel)) (serve_names t req).
  Proof.
    intros L Lr. unfold serve_names. rewrite rel_get_strip. cbn [wire_name].
    apply in_map.
    assert (Hc : comps_of (walk_root req) = p0).
    { rewrite rel_walk_root. unfold comps_of. rewrite render_from_not_dot by assumption.
      destruct (good_split p0 Hgood) as [Hns _]. now apply split_render. }
    assert (Hv : valid_path (walk_root req) = true).
    { rewrite rel_walk_root. unfold valid_path. rewrite render_from_not_dot by assumption. cbn [orb].
      destruct (good_split p0 Hgood) as [Hns Hv]. rewrite split_render by assumption.
      apply forallb_forall. intros c Hc'. rewrite Forall_forall in Hv. now apply Hv. }
    pose proof (serve_complete t req sub rel node Hv) as Hs. rewrite Hc in Hs. exact (Hs L Lr).
  Qed.
End RelativeRequest.

(** the request "/" inside an opened directory: everything, by relative path *)
Lemma root_request_names t rel node : lookup t rel = Some node -> In (render rel) (serve_names t [slash]).
Proof.
  intros L. unfold serve_names. change (get_strip [slash]) with (@nil Z). cbn [wire_name].
  apply in_map.
  assert (Hv : valid_path (walk_root [slash]) = true) by reflexivity.
  pose proof (serve_complete t [slash] t rel node Hv) as Hs.
  change (comps_of (walk_root [slash])) with (@nil name) in Hs. cbn [app lookup] in Hs.
  exact (Hs eq_refl L).
Qed.

Section ClientRequest.
  Variable pre : path.      (* the directory part, possibly empty (a path directly under the root) *)
  Variable c : name.        (* the last element *)
  Hypothesis Hpre : Forall (fun c => good_comp c = true) pre.
  Hypothesis Hc : good_comp c = true.
  Let p0 := pre ++ [c].

  Lemma p0_good : Forall (fun c => good_comp c = true) p0.
  Proof. unfold p0. apply Forall_app. split; [exact Hpre|constructor; [exact Hc|constructor]]. Qed.
  Lemma p0_ne : p0 <> [].
  Proof. unfold p0. destruct pre; discriminate. Qed.

  Lemma render_p0 : render_from p0 = match pre with [] => c | _ => render_from pre ++ [47] ++ c end.
  Proof.
    unfold p0. destruct pre as [|a r] eqn:E; [reflexivity|]. rewrite <- E.
    rewrite render_from_app by (subst; discriminate). reflexivity.
  Qed.

  (** without trailing slash: "/pre/c" *)
  Let req := slash :: render_from p0.

  Lemma client_last : last_comp req = c.
  Proof.
    unfold last_comp, req. cbn [split_slash]. rewrite Z.eqb_refl. cbn [rev].
    destruct (good_split p0 p0_good) as [Hns _]. rewrite (split_render p0 p0_ne Hns).
    unfold p0. destruct pre as [|a r]; [reflexivity|].
    change (last ([] :: (a :: r) ++ [c]) []) with (last ((a :: r) ++ [c]) []). apply last_last.
  Qed.

  Lemma client_not_slash_terminated : has_suffix_slash req = false.
  Proof.
    unfold has_suffix_slash, req. cbn [rev].
    destruct (rev_render_head p0 p0_ne p0_good) as (x & l & E & Hx). rewrite E. cbn [app]. exact Hx.
  Qed.

  Lemma client_dir : path_dir req = match pre with [] => [slash] | _ => slash :: render_from pre end.
  Proof.
    unfold path_dir. rewrite client_last. unfold req. rewrite render_p0.
    destruct pre as [|a r] eqn:E.
    - cbn [length]. replace (S (length c) - length c)%nat with 1%nat by lia.
      destruct (good_first_not_slash c Hc) as (x & l & -> & _). reflexivity.
    - rewrite <- E in *.
      assert (Hpne : pre <> []) by (subst; discriminate).
      replace (slash :: render_from pre ++ [47] ++ c) with ((slash :: render_from pre ++ [47]) ++ c)
        by (cbn [app]; rewrite <- app_assoc; reflexivity).
      rewrite app_length. set (hd := slash :: render_from pre ++ [47]).
      replace (length hd + length c - length c)%nat with (length hd) by lia.
      rewrite firstn_app, Nat.sub_diag, firstn_all. cbn [firstn]. rewrite app_nil_r.
      exact (wf_path_clean pre Hpne Hpre).
  Qed.

  (** "/pre/c" is named c, c/..., whatever pre is: rsync's own naming *)
  Theorem client_path_is_named_by_its_last_element t cs rel node :
    lookup t pre = Some (TDir cs) -> lookup (TDir cs) (c :: rel) = Some node ->
    In (render (c :: rel)) (client_names t req).
  Proof.
    intros L Lr. unfold client_names, client_split. rewrite client_not_slash_terminated.
    rewrite client_dir. unfold path_base. rewrite client_last.
    assert (Hroot : valid_path (walk_root (match pre with [] => [slash] | _ => slash :: render_from pre end)) = true /\
                    comps_of (walk_root (match pre with [] => [slash] | _ => slash :: render_from pre end)) = pre).
    { destruct pre as [|a r] eqn:E; [split; reflexivity|]. rewrite <- E in *.
      assert (Hpne : pre <> []) by (subst; discriminate).
      rewrite (wfn_walk_root pre Hpne Hpre).
      destruct (good_split pre Hpre) as [Hns Hv].
      split.
      - unfold valid_path. rewrite render_from_not_dot by assumption. cbn [orb].
        rewrite split_render by assumption. apply forallb_forall. intros x Hx. rewrite Forall_forall in Hv. now apply Hv.
      - unfold comps_of. rewrite render_from_not_dot by assumption. now apply split_render. }
    destruct Hroot as [Hv Hcomps]. rewrite Hv, Hcomps. cbn [negb]. rewrite L.
    assert (Hgc : Forall (fun x => good_comp x = true) [c]) by (constructor; [exact Hc|constructor]).
    destruct (lookup (TDir cs) [c]) as [sub|] eqn:Lc.
    - pose proof (relative_path_named_from_the_root [c] ltac:(discriminate) Hgc (TDir cs) sub rel node Lc) as Hn.
      cbn [render_from app] in Hn. apply Hn.
      cbn [lookup] in Lr, Lc |- *. destruct (assoc_name c cs) as [u|]; [|discriminate].
      destruct rel; cbn [lookup] in Lc; inversion Lc; subst; exact Lr.
    - exfalso. cbn [lookup] in Lr, Lc. destruct (assoc_name c cs) as [u|]; [|discriminate].
      cbn [lookup] in Lc. discriminate.
  Qed.

  (** with trailing slash: "/pre/c/" — the directory is opened and "/" requested inside it *)
  Theorem client_directory_with_a_slash_lands_its_contents_directly t cs rel node :
    lookup t p0 = Some (TDir cs) -> lookup (TDir cs) rel = Some node ->
    In (render rel) (client_names t (req ++ [slash])).
  Proof.
    intros L Lr. unfold client_names, client_split.
    assert (Hs : has_suffix_slash (req ++ [slash]) = true).
    { unfold has_suffix_slash. rewrite rev_app_distr. reflexivity. }
    rewrite Hs. unfold req. change ((slash :: render_from p0) ++ [slash]) with (slash :: render_from p0 ++ [slash]).
    rewrite (wf_valid p0 p0_ne p0_good). cbn [negb]. rewrite (wf_comps p0 p0_ne p0_good). rewrite L.
    now apply root_request_names with (node := node).
  Qed.
End ClientRequest.
