From Coq Require Import ZArith List Bool Lia.
From RV Require Import Model.Bytes Model.Flist Model.Tree Model.Serve Proofs.BytesProofs Proofs.TreeProofs.
Import ListNotations.
Open Scope Z_scope.

Lemma path_in_app : forall p0 t sub q,
  lookup t p0 = Some sub -> path_in sub q -> path_in t (p0 ++ q).
Proof.
  induction p0 as [|c r IH]; intros t sub q L P.
  - cbn in L. injection L as <-. exact P.
  - cbn [app path_in]. destruct t as [| |cs]; cbn [lookup] in L; try discriminate.
    destruct (assoc_name c cs) as [u|] eqn:E; [|discriminate].
    exists u. split; [now apply assoc_in|]. eapply IH; eauto.
Qed.

(** every entry of the file list denotes an object of the module's tree *)
Lemma served_inside t req p : In p (serve_paths t req) -> path_in t p.
Proof.
  unfold serve_paths. destruct (negb (valid_path (walk_root req))); [intros []|].
  destruct (lookup t (comps_of (walk_root req))) as [sub|] eqn:L; [|intros []].
  intros [<-|H].
  - eapply lookup_path_in; exact L.
  - destruct (select_sound [] _ _ _ _ H) as (q & _ & -> & P & _).
    rewrite rev_involutive. eapply path_in_app; eauto.
Qed.

(** a request whose cleaned form is not a valid root-relative path (a ".."
    component survives cleaning) yields an empty list *)
Lemma invalid_root_nothing t req : valid_path (walk_root req) = false -> serve_paths t req = [].
Proof. intros H. unfold serve_paths. now rewrite H. Qed.

Lemma dotdot_invalid p : In [dot; dot] (split_slash p []) -> list_eqb p [dot] = false -> valid_path p = false.
Proof.
  intros H N. unfold valid_path. rewrite N. cbn [orb].
  apply not_true_is_false. intros F. rewrite forallb_forall in F. specialize (F _ H).
  unfold valid_elem in F. rewrite (list_eqb_refl [dot; dot]) in F. cbn [negb] in F. rewrite andb_false_r in F. discriminate.
Qed.

(** nothing that does not exist under the requested root is listed: an absent root lists nothing *)
Lemma absent_root_nothing t req : lookup t (comps_of (walk_root req)) = None -> serve_paths t req = [].
Proof. intros H. unfold serve_paths. destruct (negb _); [reflexivity|]. now rewrite H. Qed.

(** the whole request: every name sent for any path argument comes from [serve_paths] of the module tree *)
Lemma daemon_serve_sound mname t reqs nm :
  In nm (daemon_serve mname t reqs) ->
  exists r p, In r reqs /\ In p (serve_paths t (strip_module mname r)) /\ path_in t p.
Proof.
  unfold daemon_serve, serve_names. intros H. apply in_flat_map in H. destruct H as [r [Hr H]].
  apply in_map_iff in H. destruct H as [p [_ Hp]]. exists r, p. split; [exact Hr|]. split; [exact Hp|].
  eapply served_inside; exact Hp.
Qed.

(** ** C01: which names the selected files get (source argument -> destination path) *)

Lemma allowed_nil : forall p rprefix, allowed [] rprefix p = true.
Proof. induction p as [|c r IH]; intros rprefix; cbn [allowed excluded]; [reflexivity|apply IH]. Qed.

(** everything that exists under the requested root is listed *)
Lemma serve_complete t req sub rel node :
  valid_path (walk_root req) = true ->
  lookup t (comps_of (walk_root req)) = Some sub -> lookup sub rel = Some node ->
  In (comps_of (walk_root req) ++ rel) (serve_paths t req).
Proof.
  intros Hv L Lr. unfold serve_paths. rewrite Hv. cbn [negb]. rewrite L.
  destruct rel as [|c r]; [left; now rewrite app_nil_r|right].
  rewrite <- (rev_involutive (comps_of (walk_root req))) at 1.
  eapply select_complete; [apply Nat.le_refl|discriminate|exact Lr|apply allowed_nil].
Qed.

Lemma render_from_app : forall p0 rel, p0 <> [] -> rel <> [] ->
  render_from (p0 ++ rel) = render_from p0 ++ [47] ++ render_from rel.
Proof.
  induction p0 as [|c r IH]; intros rel H0 Hr; [congruence|].
  destruct r as [|c' r'].
  - destruct rel as [|d rel']; [congruence|]. reflexivity.
  - change ((c :: c' :: r') ++ rel) with (c :: ((c' :: r') ++ rel)).
    change (render_from (c :: (c' :: r') ++ rel)) with (c ++ [47] ++ render_from ((c' :: r') ++ rel)).
    rewrite IH by (discriminate || assumption).
    change (render_from (c :: c' :: r')) with (c ++ [47] ++ render_from (c' :: r')).
    rewrite <- !app_assoc. reflexivity.
Qed.

Lemma render_app p0 rel : p0 <> [] -> rel <> [] -> render (p0 ++ rel) = render p0 ++ slash :: render rel.
Proof.
  intros H0 Hr. unfold render.
  destruct (p0 ++ rel) eqn:E; [apply app_eq_nil in E; destruct E; congruence|]. rewrite <- E.
  destruct p0; [congruence|]. destruct rel; [congruence|].
  now rewrite render_from_app by discriminate.
Qed.

Lemma trim_prefix_app a x : trim_prefix a (a ++ x) = x.
Proof.
  unfold trim_prefix. rewrite firstn_app, Nat.sub_diag, firstn_all. cbn [firstn]. rewrite app_nil_r.
  rewrite list_eqb_refl. rewrite skipn_app, Nat.sub_diag, skipn_all. reflexivity.
Qed.

(** a directory requested with a trailing slash: its contents are named
    relative to it, the directory itself is "." *)
Lemma wire_name_contents p0 rel : p0 <> [] ->
  wire_name (render p0 ++ [slash]) (p0 ++ rel) = render rel.
Proof.
  intros H0. unfold wire_name.
  destruct (render p0 ++ [slash]) as [|s0 s'] eqn:Es; [apply app_eq_nil in Es; destruct Es; discriminate|].
  rewrite <- Es. clear Es s0 s'.
  destruct rel as [|c r].
  - rewrite app_nil_r, list_eqb_refl. reflexivity.
  - rewrite render_app by (assumption || discriminate).
    destruct (list_eqb ((render p0 ++ slash :: render (c :: r)) ++ [slash]) (render p0 ++ [slash])) eqn:E.
    + apply list_eqb_eq in E. apply (f_equal (@length Z)) in E.
      rewrite !app_length in E. cbn [length] in E. lia.
    + replace (render p0 ++ slash :: render (c :: r)) with ((render p0 ++ [slash]) ++ render (c :: r))
        by (rewrite <- app_assoc; reflexivity).
      apply trim_prefix_app.
Qed.
