From Coq Require Import ZArith List Bool Lia.
From RV Require Import Model.Bytes Model.Flist Model.Tree Model.Serve Proofs.BytesProofs Proofs.TreeProofs.
Import ListNotations.
Open Scope Z_scope.

Lemma path_in_app : forall p0 t sub q,
  lookup t p0 = Some sub -> path_in sub q -> path_in t (p0 ++ q).
Proof.
  induction p0 as [|c r IH]; intros t sub q L P.
  - cbn in L. injection L as <-. exact P.
  - cbn [app path_in]. destruct t as [| |cs]; cbn [lookup] in L; try discriminate.
    destruct (assoc_name c cs) as [u|] eqn:E; [|discriminate].
    exists u. split; [now apply assoc_in|]. eapply IH; eauto.
Qed.

(** every entry of the file list denotes an object of the module's tree *)
Lemma served_inside t req p : In p (serve_paths t req) -> path_in t p.
Proof.
  unfold serve_paths. destruct (negb (valid_path (walk_root req))); [intros []|].
  destruct (lookup t (comps_of (walk_root req))) as [sub|] eqn:L; [|intros []].
  intros [<-|H].
  - eapply lookup_path_in; exact L.
  - destruct (select_sound [] _ _ _ _ H) as (q & _ & -> & P & _).
    rewrite rev_involutive. eapply path_in_app; eauto.
Qed.

(** a request whose cleaned form is not a valid root-relative path (a ".."
    component survives cleaning) yields an empty list *)
Lemma invalid_root_nothing t req : valid_path (walk_root req) = false -> serve_paths t req = [].
Proof. intros H. unfold serve_paths. now rewrite H. Qed.

Lemma dotdot_invalid p : In [dot; dot] (split_slash p []) -> list_eqb p [dot] = false -> valid_path p = false.
Proof.
  intros H N. unfold valid_path. rewrite N. cbn [orb].
  apply not_true_is_false. intros F. rewrite forallb_forall in F. specialize (F _ H).
  unfold valid_elem in F. rewrite (list_eqb_refl [dot; dot]) in F. cbn [negb] in F. rewrite andb_false_r in F. discriminate.
Qed.

(** nothing that does not exist under the requested root is listed: an absent root lists nothing *)
Lemma absent_root_nothing t req : lookup t (comps_of (walk_root req)) = None -> serve_paths t req = [].
Proof. intros H. unfold serve_paths. destruct (negb _); [reflexivity|]. now rewrite H. Qed.

(** the whole request: every name sent for any path argument comes from [serve_paths] of the module tree *)
Lemma daemon_serve_sound mname t reqs nm :
  In nm (daemon_serve mname t reqs) ->
  exists r p, In r reqs /\ In p (serve_paths t (strip_module mname r)) /\ path_in t p.
Proof.
  unfold daemon_serve, serve_names. intros H. apply in_flat_map in H. destruct H as [r [Hr H]].
  apply in_map_iff in H. destruct H as [p [_ Hp]]. exists r, p. split; [exact Hr|]. split; [exact Hp|].
  eapply served_inside; exact Hp.
Qed.
