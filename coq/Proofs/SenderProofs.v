From Coq Require Import ZArith List Bool Lia FMapPositive.
From RV Require Import Model.Bytes Model.Checksum Model.Delta Model.Sender
     Proofs.BytesProofs Proofs.DeltaProofs Gen.Consts.
Import ListNotations.
Open Scope Z_scope.

Ltac Zify.zify_post_hook ::= Z.div_mod_to_equations.

(** ** The tag table is exactly the received checksum list grouped by tag *)

Fixpoint entries (sums : list sumbuf) (i0 : Z) (t : Z) : list cand :=
  match sums with
  | [] => []
  | (s1, s2) :: r =>
      if tag s1 =? t then (i0, s1, s2) :: entries r (i0 + 1) t else entries r (i0 + 1) t
  end.

Lemma tag_nonneg s : 0 <= tag s.
Proof. unfold tag, tag2. lia. Qed.

Lemma tagkey_inj a b : 0 <= a -> 0 <= b -> tagkey a = tagkey b -> a = b.
Proof. unfold tagkey. lia. Qed.

Lemma tt_find_empty t : tt_find (PositiveMap.empty _) t = [].
Proof. unfold tt_find. now rewrite PositiveMap.gempty. Qed.

Lemma tt_build_spec sums : forall i0 tt t, 0 <= t ->
  tt_find (tt_build sums i0 tt) t = entries sums i0 t ++ tt_find tt t.
Proof.
  induction sums as [|[s1 s2] r IH]; intros i0 tt t Ht; cbn [tt_build entries].
  - reflexivity.
  - destruct (Z.eqb_spec (tag s1) t) as [E|NE].
    + subst t. unfold tt_find at 1. rewrite PositiveMap.gss.
      rewrite IH by exact Ht. reflexivity.
    + unfold tt_find at 1. rewrite PositiveMap.gso.
      * fold (tt_find (tt_build r (i0 + 1) tt) t). now apply IH.
      * intros E. apply NE. symmetry. apply tagkey_inj; auto using tag_nonneg.
Qed.

Lemma entries_sound sums : forall i0 t c,
  In c (entries sums i0 t) ->
  exists j s1 s2, c = (i0 + Z.of_nat j, s1, s2) /\ nth_error sums j = Some (s1, s2) /\ tag s1 = t.
Proof.
  induction sums as [|[s1 s2] r IH]; intros i0 t c; cbn [entries]; [intros []|].
  destruct (Z.eqb_spec (tag s1) t) as [E|NE].
  - intros [<-|Hin].
    + exists 0%nat, s1, s2. repeat split; [f_equal; f_equal; lia|assumption].
    + apply IH in Hin. destruct Hin as (j & a & b & -> & Hn & Ht).
      exists (S j), a, b. repeat split; [f_equal; f_equal; lia|assumption|assumption].
  - intros Hin. apply IH in Hin. destruct Hin as (j & a & b & -> & Hn & Ht).
    exists (S j), a, b. repeat split; [f_equal; f_equal; lia|assumption|assumption].
Qed.

Lemma entries_complete sums : forall i0 t j s1 s2,
  nth_error sums j = Some (s1, s2) -> tag s1 = t ->
  In (i0 + Z.of_nat j, s1, s2) (entries sums i0 t).
Proof.
  induction sums as [|[a b] r IH]; intros i0 t j s1 s2 Hn Ht; [destruct j; discriminate|].
  cbn [entries]. destruct j as [|j]; cbn [nth_error] in Hn.
  - inversion Hn; subst. rewrite Z.eqb_refl. left. f_equal. f_equal. lia.
  - specialize (IH (i0 + 1) t j s1 s2 Hn Ht).
    replace (i0 + Z.of_nat (S j)) with (i0 + 1 + Z.of_nat j) by lia.
    destruct (tag a =? t); [right|]; exact IH.
Qed.

(** ** Small list facts *)

Lemma dropZ_cons_next p (l : list Z) x r : 0 <= p -> dropZ p l = x :: r -> r = dropZ (p + 1) l.
Proof.
  intros Hp E. rewrite <- (dropZ_dropZ 1 p l) by lia. rewrite E.
  rewrite dropZ_skipn. reflexivity.
Qed.

Lemma lenZ_dropZ_le p (l : list Z) : 0 <= p <= lenZ l -> lenZ (dropZ p l) = lenZ l - p.
Proof. apply lenZ_dropZ. Qed.

Section SenderProofs.
  Variable H : list Z -> list Z.
  Variable seed : Z.
  Variable chunk : Z.
  Hypothesis Hchunk : 1 <= chunk.

  Variable basis : list Z.
  Variable h : sum_head.
  Variable sums : list sumbuf.
  Variable target : list Z.
  Let size := lenZ target.

  Definition strong (w : list Z) : list Z := takeZ (h_slen h) (checksum2 H seed w).
  Definition blk (i : Z) : list Z := takeZ (block_len h i) (dropZ (i * h_blen h) basis).

  (** A block reference to block [i] for the window at position [q] of the
      target is *justified* when the truncated strong sums agree. *)
  Definition justified (i q : Z) : Prop :=
    0 <= i /\ q + block_len h i <= size /\ 1 <= block_len h i /\
    exists s1, nth_error sums (Z.to_nat i) = Some (s1, strong (takeZ (block_len h i) (dropZ q target))).

  (** [rcov rt q]: the reversed token list [rt] describes target[0,q). *)
  Inductive rcov : list token -> Z -> Prop :=
  | rc_nil : rcov [] 0
  | rc_lit bs rt q :
      rcov rt q -> bs = takeZ (lenZ bs) (dropZ q target) ->
      1 <= lenZ bs <= chunk -> q + lenZ bs <= size ->
      rcov (Lit bs :: rt) (q + lenZ bs)
  | rc_ref i rt q :
      rcov rt q -> justified i q -> rcov (Ref i :: rt) (q + block_len h i).

  Lemma rcov_nonneg rt q : rcov rt q -> 0 <= q.
  Proof. induction 1; [lia|lia|]. destruct H1 as (? & ? & ? & _). lia. Qed.

  Lemma rcov_le rt q : rcov rt q -> q <= size.
  Proof. induction 1; [subst size; apply lenZ_nonneg|lia|]. destruct H1 as (? & ? & ? & _). lia. Qed.

  (** *** literal emission *)
  Lemma lit_chunks_rcov fuel : forall l rt q,
    rcov rt q -> l = takeZ (lenZ l) (dropZ q target) -> q + lenZ l <= size ->
    (length l <= fuel)%nat ->
    rcov (lit_chunks fuel chunk l rt) (q + lenZ l).
  Proof.
    induction fuel as [|fuel IH]; intros l rt q Hr Hl Hq Hf.
    - destruct l; [|cbn in Hf; lia]. cbn. now rewrite Z.add_0_r.
    - destruct l as [|x l'].
      + cbn. now rewrite Z.add_0_r.
      + cbn [lit_chunks]. remember (x :: l') as l eqn:El.
        assert (Hlpos : 1 <= lenZ l).
        { rewrite El, lenZ_cons. pose proof (lenZ_nonneg l'). lia. }
        clear El x l'.
        pose proof (rcov_nonneg _ _ Hr) as Hq0.
        pose proof (lenZ_nonneg l) as Hl0.
        set (c := Z.min chunk (lenZ l)).
        assert (Hc : lenZ (takeZ chunk l) = c).
        { unfold c. destruct (Z.le_ge_cases chunk (lenZ l)).
          - rewrite lenZ_takeZ by lia. lia.
          - rewrite takeZ_all by lia. lia. }
        assert (Htk : takeZ chunk l = takeZ c (dropZ q target)).
        { rewrite Hl at 1. unfold c. destruct (Z.le_ge_cases chunk (lenZ l)).
          - rewrite Z.min_l by lia. rewrite !takeZ_firstn, firstn_firstn. f_equal. lia.
          - rewrite Z.min_r by lia. rewrite takeZ_all; [reflexivity|].
            rewrite <- Hl. lia. }
        assert (Hdl : lenZ (dropZ chunk l) = lenZ l - c).
        { unfold c. destruct (Z.le_ge_cases chunk (lenZ l)).
          - rewrite lenZ_dropZ by lia. lia.
          - rewrite dropZ_all by lia. rewrite lenZ_nil. lia. }
        replace (q + lenZ l) with ((q + c) + lenZ (dropZ chunk l)) by lia.
        apply IH.
        * rewrite <- Hc. apply rc_lit; [exact Hr| |lia|lia].
          rewrite Hc. exact Htk.
        * rewrite Hdl.
          (* dropZ chunk l is the slice of target at q + c of length lenZ l - c *)
          rewrite Hl at 1.
          rewrite !dropZ_skipn, !takeZ_firstn.
          rewrite skipn_firstn_comm. rewrite skipn_skipn.
          unfold c. destruct (Z.le_ge_cases chunk (lenZ l)).
          -- rewrite Z.min_l by lia. f_equal; [lia|f_equal; lia].
          -- rewrite Z.min_r by lia.
             replace (Z.to_nat (lenZ l) - Z.to_nat chunk)%nat with 0%nat by lia.
             replace (Z.to_nat (lenZ l - lenZ l)) with 0%nat by lia. reflexivity.
        * lia.
        * rewrite dropZ_skipn, skipn_length. rewrite lenZ_length in Hlpos. lia.
  Qed.

  Lemma emit_lit_rcov n lmc rt q :
    rcov rt q -> lmc = dropZ q target -> 0 <= n -> q + n <= size ->
    rcov (emit_lit chunk n lmc rt) (q + n).
  Proof.
    intros Hr -> Hn Hq. unfold emit_lit.
    pose proof (rcov_nonneg _ _ Hr) as Hq0.
    assert (Hlen : lenZ (takeZ n (dropZ q target)) = n).
    { apply lenZ_takeZ. rewrite lenZ_dropZ by (fold size; lia). fold size. lia. }
    replace (q + n) with (q + lenZ (takeZ n (dropZ q target))) by (now rewrite Hlen).
    apply lit_chunks_rcov; [exact Hr| |lia|lia].
    rewrite Hlen. reflexivity.
  Qed.

  (** *** the candidate scan only returns strongly matching entries *)
  Lemma scan_sound cs : forall sum l cur cache i,
    (forall s, cache = Some s -> s = strong (takeZ l cur)) ->
    scan H seed h cs sum l cur cache = Some i ->
    exists s1, In (i, s1, strong (takeZ l cur)) cs /\ l = block_len h i.
  Proof.
    induction cs as [|[[i' s1i] s2i] r IH]; intros sum l cur cache i Hc; cbn [scan]; [discriminate|].
    destruct ((sum =? s1i) && (l =? block_len h i')) eqn:Hw.
    - assert (Hstr : match cache with
                     | Some s => s
                     | None => takeZ (h_slen h) (checksum2 H seed (takeZ l cur))
                     end = strong (takeZ l cur)).
      { destruct cache as [s|]; [now apply Hc|reflexivity]. }
      rewrite Hstr.
      destruct (list_eqb (strong (takeZ l cur)) s2i) eqn:He.
      + intros E. inversion E; subst. apply list_eqb_eq in He. subst s2i.
        apply andb_true_iff in Hw. destruct Hw as [_ Hl]. apply Z.eqb_eq in Hl.
        exists s1i. split; [left; reflexivity|exact Hl].
      + intros E. apply IH in E.
        * destruct E as (s1 & Hin & Hl). exists s1. split; [right; exact Hin|exact Hl].
        * intros s Es. inversion Es. reflexivity.
    - intros E. apply IH in E; [|exact Hc].
      destruct E as (s1 & Hin & Hl). exists s1. split; [right; exact Hin|exact Hl].
  Qed.

  Section SearchProofs.
    Variable tt : tagtable.
    Variable end_ : Z.
    Hypothesis Htt : forall t i s1 s2, In (i, s1, s2) (tt_find tt t) ->
                       0 <= i /\ nth_error sums (Z.to_nat i) = Some (s1, s2).
    Hypothesis Hend : end_ <= size.
    Hypothesis Hblen : 1 <= h_blen h.

    (** Invariant at the top of the loop, as far as exactness needs it: the
        rolling-checksum registers are unconstrained here (a match is always
        confirmed on the bytes themselves). *)
    Definition SInv (st : sstate) : Prop :=
      0 <= st_lastm st <= st_off st /\ st_off st < size /\
      st_cur st = dropZ (st_off st) target /\ st_lmc st = dropZ (st_lastm st) target /\
      rcov (st_rtoks st) (st_lastm st).

    Lemma body_sound st :
      SInv st ->
      match body H seed chunk h tt size end_ st with
      | Done lastm' lmc' rtoks' => rcov rtoks' lastm' /\ lmc' = dropZ lastm' target
      | Next st' => SInv st'
      | Crashed _ => True
      end.
    Proof.
      destruct st as [off k s1 s2 lastm cur ahead lmc rtoks].
      unfold SInv, body. cbn [st_off st_k st_s1 st_s2 st_lastm st_cur st_ahead st_lmc st_rtoks].
      intros (Hlm & Hoff & Hcur & Hlmc & Hr).
      set (sum := s1 mod 65536 + s2 mod 65536 * 65536).
      set (l := Z.min (h_blen h) (size - off)).
      destruct (scan H seed h (tt_find tt (tag2 s1 s2)) sum l cur None) as [i|] eqn:Hscan.
      - (* a block matched at [off] *)
        apply scan_sound in Hscan; [|discriminate].
        destruct Hscan as (s1i & Hin & Hl).
        apply Htt in Hin. destruct Hin as [Hi Hnth].
        assert (Hl1 : 1 <= l <= size - off) by (unfold l; lia).
        assert (Hjust : justified i off).
        { unfold justified. rewrite <- Hl. repeat split; try lia.
          exists s1i. rewrite Hnth. subst cur. reflexivity. }
        destruct (read_chunk h size (off + block_len h i - 1) (dropZ (block_len h i - 1) cur))
          as [[k' a] b] eqn:Hrc.
        cbn [andb].
        assert (Hr1 : rcov (Ref i :: emit_lit chunk (off - lastm) lmc rtoks) (off + block_len h i)).
        { apply rc_ref; [|exact Hjust].
          replace off with (lastm + (off - lastm)) at 2 by lia.
          apply emit_lit_rcov; [exact Hr|exact Hlmc|lia|lia]. }
        assert (Hlmc1 : dropZ (off - lastm + block_len h i) lmc = dropZ (off + block_len h i) target).
        { subst lmc. rewrite dropZ_dropZ by lia. f_equal. lia. }
        destruct (end_ <=? off + block_len h i - 1) eqn:Hex.
        + split; [exact Hr1|exact Hlmc1].
        + assert (Hcur1 : dropZ (block_len h i - 1) cur = dropZ (off + block_len h i - 1) target).
          { subst cur. rewrite dropZ_dropZ by lia. f_equal. lia. }
          destruct (dropZ (block_len h i - 1) cur) as [|u0 cur2] eqn:Hc1; [exact I|].
          assert (Hcur2 : cur2 = dropZ (off + block_len h i) target).
          { replace (off + block_len h i) with (off + block_len h i - 1 + 1) by lia.
            eapply dropZ_cons_next; [lia|]. rewrite <- Hcur1. reflexivity. }
          apply Z.leb_gt in Hex.
          (* the rolling step *)
          match goal with
          | |- match (match ?r with inl _ => _ | inr c => Crashed c end) with _ => _ end =>
              destruct r as [[[[k2 s12] s22] ahead2]|c] eqn:Hroll
          end; [|exact I].
          set (backup := Z.max (off + block_len h i - 1 - (off + block_len h i)) 0).
          replace ((h_blen h + chunk <=? backup)) with false
            by (symmetry; apply Z.leb_gt; unfold backup; lia).
          cbn [andb].
          destruct (end_ <=? off + block_len h i - 1 + 1) eqn:Hex2.
          * split; [exact Hr1|exact Hlmc1].
          * apply Z.leb_gt in Hex2.
            cbn [st_off st_k st_s1 st_s2 st_lastm st_cur st_ahead st_lmc st_rtoks].
            repeat split; try lia.
            -- rewrite Hcur2. f_equal. lia.
            -- exact Hlmc1.
            -- exact Hr1.
      - (* no match at [off] *)
        cbn [andb].
        destruct cur as [|u0 cur2] eqn:Hc1; [exact I|].
        assert (Hcur2 : cur2 = dropZ (off + 1) target).
        { eapply dropZ_cons_next; [lia|]. symmetry. exact Hcur. }
        match goal with
        | |- match (match ?r with inl _ => _ | inr c => Crashed c end) with _ => _ end =>
            destruct r as [[[[k2 s12] s22] ahead2]|c] eqn:Hroll
        end; [|exact I].
        set (backup := Z.max (off - lastm) 0).
        destruct ((h_blen h + chunk <=? backup) && (chunk <? end_ - off)) eqn:Hfl.
        + (* flush of a long literal run *)
          apply andb_true_iff in Hfl. destruct Hfl as [Hb _]. apply Z.leb_le in Hb.
          assert (Hn : chunk <= off - h_blen h - lastm) by (unfold backup in Hb; lia).
          assert (Hr2 : rcov (emit_lit chunk (off - h_blen h - lastm) lmc rtoks) (off - h_blen h)).
          { replace (off - h_blen h) with (lastm + (off - h_blen h - lastm)) at 2 by lia.
            apply emit_lit_rcov; [exact Hr|exact Hlmc|lia|lia]. }
          assert (Hlmc2 : dropZ (off - h_blen h - lastm) lmc = dropZ (off - h_blen h) target).
          { subst lmc. rewrite dropZ_dropZ by lia. f_equal. lia. }
          destruct (end_ <=? off + 1) eqn:Hex2.
          * split; [exact Hr2|exact Hlmc2].
          * apply Z.leb_gt in Hex2.
            cbn [st_off st_k st_s1 st_s2 st_lastm st_cur st_ahead st_lmc st_rtoks].
            repeat split; try lia; assumption.
        + destruct (end_ <=? off + 1) eqn:Hex2.
          * split; [exact Hr|exact Hlmc].
          * apply Z.leb_gt in Hex2.
            cbn [st_off st_k st_s1 st_s2 st_lastm st_cur st_ahead st_lmc st_rtoks].
            repeat split; try lia; assumption.
    Qed.

    Lemma search_sound fuel : forall st lastm' lmc' rtoks',
      SInv st ->
      search H seed chunk h tt size end_ fuel st = inl (Some (lastm', lmc', rtoks')) ->
      rcov rtoks' lastm' /\ lmc' = dropZ lastm' target.
    Proof.
      induction fuel as [|fuel IH]; intros st lastm' lmc' rtoks' Hinv; cbn [search]; [discriminate|].
      pose proof (body_sound st Hinv) as Hb.
      destruct (body H seed chunk h tt size end_ st) as [lm lc rt|st'|c].
      - intros E. inversion E; subst. exact Hb.
      - intros E. eapply IH; [exact Hb|exact E].
      - discriminate.
    Qed.
  End SearchProofs.

  (** *** from coverage to denotation *)

  (** The received sums are the ones a receiver holding [basis] computes for
      layout [h] (only the strong half matters for exactness), and every
      listed block lies inside the basis. *)
  Definition sums_legal : Prop :=
    forall i s1 s2, 0 <= i -> nth_error sums (Z.to_nat i) = Some (s1, s2) ->
      s2 = strong (blk i) /\ 0 <= i * h_blen h /\ i * h_blen h + block_len h i <= lenZ basis.

  (** No window of the target collides with a *different* basis block under
      the truncated strong checksum (for slen = 16: no MD4 collision among
      these strings).  This is the only escape from exactness and it is a
      statement about specific strings, not an injectivity assumption. *)
  Definition no_collision : Prop :=
    forall i q, 0 <= i -> 0 <= q -> q + block_len h i <= size ->
      strong (takeZ (block_len h i) (dropZ q target)) = strong (blk i) ->
      takeZ (block_len h i) (dropZ q target) = blk i.

  Lemma denote_app b hh ts1 : forall ts2,
    denote b hh (ts1 ++ ts2) =
    match denote b hh ts1, denote b hh ts2 with
    | Some x, Some y => Some (x ++ y)
    | _, _ => None
    end.
  Proof.
    induction ts1 as [|t ts1 IH]; intros ts2; cbn [app denote].
    - destruct (denote b hh ts2); reflexivity.
    - destruct t as [bs|i].
      + rewrite IH. destruct (denote b hh ts1), (denote b hh ts2); try reflexivity.
        now rewrite app_assoc.
      + rewrite IH. destruct (ref_bytes b hh i); [|reflexivity].
        destruct (denote b hh ts1), (denote b hh ts2); try reflexivity.
        now rewrite app_assoc.
  Qed.

  Lemma rcov_denote rt q :
    rcov rt q -> sums_legal -> no_collision ->
    denote basis h (rev rt) = Some (takeZ q target).
  Proof.
    intros Hr Hleg Hnc. induction Hr as [|bs rt q Hr IH Hbs Hlen Hq|i rt q Hr IH Hj].
    - cbn. now rewrite takeZ_0.
    - cbn [rev]. rewrite denote_app, IH. cbn [denote]. f_equal.
      rewrite app_nil_r. rewrite Hbs at 1.
      pose proof (rcov_nonneg _ _ Hr). apply takeZ_takeZ_dropZ; lia.
    - cbn [rev]. rewrite denote_app, IH. cbn [denote].
      destruct Hj as (Hi & Hq & Hl & s1 & Hnth).
      pose proof (rcov_nonneg _ _ Hr) as Hq0.
      destruct (Hleg i _ _ Hi Hnth) as (Hs & Hlo & Hhi).
      assert (Hrb : ref_bytes basis h i = Some (blk i)).
      { unfold ref_bytes, sub, blk.
        replace (0 <=? i * h_blen h) with true by (symmetry; apply Z.leb_le; lia).
        replace (0 <=? block_len h i) with true by (symmetry; apply Z.leb_le; lia).
        replace (i * h_blen h + block_len h i <=? lenZ basis) with true by (symmetry; apply Z.leb_le; lia).
        reflexivity. }
      rewrite Hrb. f_equal. rewrite app_nil_r.
      rewrite <- (Hnc i q Hi Hq0 Hq Hs).
      apply takeZ_takeZ_dropZ; lia.
  Qed.

  (** tokens that are all literals denote the same under any header / basis *)
  Definition is_lit (t : token) : Prop := match t with Lit _ => True | Ref _ => False end.

  Lemma lit_chunks_lits fuel : forall l rt, Forall is_lit rt -> Forall is_lit (lit_chunks fuel chunk l rt).
  Proof.
    induction fuel as [|fuel IH]; intros l rt Hrt; cbn [lit_chunks]; [exact Hrt|].
    destruct l; [exact Hrt|]. apply IH. constructor; [exact I|exact Hrt].
  Qed.

  Lemma denote_lits b1 h1 b2 h2 ts : Forall is_lit ts -> denote b1 h1 ts = denote b2 h2 ts.
  Proof.
    induction 1 as [|t ts Ht _ IH]; [reflexivity|].
    destruct t; [|destruct Ht]. cbn [denote]. now rewrite IH.
  Qed.

  Lemma tt_find_neg (tt : tagtable) t : t < 0 -> tt_find tt t = tt_find tt 0.
  Proof. intros Ht. unfold tt_find, tagkey. replace (Z.to_pos (t + 1)) with (Z.to_pos (0 + 1)) by lia. reflexivity. Qed.

  Lemma tt_built_sound t i s1 s2 :
    In (i, s1, s2) (tt_find (tt_build sums 0 (PositiveMap.empty _)) t) ->
    0 <= i /\ nth_error sums (Z.to_nat i) = Some (s1, s2).
  Proof.
    assert (Hnn : forall t', 0 <= t' ->
      In (i, s1, s2) (tt_find (tt_build sums 0 (PositiveMap.empty _)) t') ->
      0 <= i /\ nth_error sums (Z.to_nat i) = Some (s1, s2)).
    { intros t' Ht' Hin. rewrite tt_build_spec, tt_find_empty, app_nil_r in Hin by exact Ht'.
      apply entries_sound in Hin. destruct Hin as (j & a & b & E & Hn & _).
      inversion E; subst. split; [lia|]. cbn [Z.add]. rewrite Nat2Z.id. exact Hn. }
    destruct (Z.lt_ge_cases t 0) as [Hneg|Hpos].
    - rewrite tt_find_neg by exact Hneg. apply Hnn. lia.
    - now apply Hnn.
  Qed.

  Lemma whole_exact hh :
    denote basis hh (rev (lit_chunks (length target) chunk target [])) = Some target.
  Proof.
    assert (Hr : rcov (lit_chunks (length target) chunk target []) (0 + lenZ target)).
    { apply lit_chunks_rcov; [constructor| |fold size; lia|lia].
      rewrite dropZ_0, takeZ_all; [reflexivity|lia]. }
    rewrite (denote_lits basis hh basis h).
    - (* coverage by literals needs neither legality nor collision-freedom *)
      clear -Hr Hchunk.
      assert (Hgen : forall rt q, rcov rt q -> Forall is_lit rt ->
                       denote basis h (rev rt) = Some (takeZ q target)).
      { induction 1 as [|bs rt q Hr' IH Hbs Hlen Hq|i rt q Hr' IH Hj]; intros Hl.
        - cbn. now rewrite takeZ_0.
        - cbn [rev]. rewrite denote_app, IH by (inversion Hl; assumption). cbn [denote]. f_equal.
          rewrite app_nil_r. rewrite Hbs at 1.
          pose proof (rcov_nonneg _ _ Hr'). apply takeZ_takeZ_dropZ; lia.
        - inversion Hl as [|? ? Hbad _]. destruct Hbad. }
      rewrite (Hgen _ _ Hr).
      + f_equal. apply takeZ_all. lia.
      + apply lit_chunks_lits. constructor.
    - apply Forall_rev. apply lit_chunks_lits. constructor.
  Qed.

  Hypothesis Hblen : 1 <= h_blen h.
  Hypothesis Hrem : 0 <= h_rem h.

  Lemma block_len_pos i : 1 <= block_len h i.
  Proof.
    unfold block_len. destruct ((i =? h_count h - 1) && negb (h_rem h =? 0)) eqn:E; [|lia].
    apply andb_true_iff in E. destruct E as [_ E]. apply negb_true_iff, Z.eqb_neq in E. lia.
  Qed.

  (** the emitted tokens cover the whole file (independent of legality) *)
  Lemma send_one_rcov h' toks tr :
    send_one H seed chunk h sums target = SOk h' toks tr ->
    exists rt, toks = rev rt /\ rcov rt size /\ tr = filesum H seed target /\
               ((h' = h /\ sums <> [] /\ size <> 0) \/ (h' = sum_sizes_sqroot size /\ Forall is_lit rt)).
  Proof.
    unfold send_one. intros E. change (lenZ target) with size in E.
    assert (Hwhole : rcov (lit_chunks (length target) chunk target []) size /\
                     Forall is_lit (lit_chunks (length target) chunk target [])).
    { split; [|apply lit_chunks_lits; constructor].
      replace size with (0 + lenZ target) by reflexivity.
      apply lit_chunks_rcov; [constructor| |fold size; lia|lia].
      rewrite dropZ_0, takeZ_all; [reflexivity|lia]. }
    destruct sums as [|sb sums'] eqn:Esums.
    - unfold send_whole in E. inversion E; subst. eexists. split; [reflexivity|].
      destruct Hwhole. repeat split; auto.
    - rewrite <- Esums in *.
      destruct (size =? 0) eqn:Hsz.
      + unfold send_whole in E. inversion E; subst. eexists. split; [reflexivity|].
        destruct Hwhole. repeat split; auto.
      + apply Z.eqb_neq in Hsz.
        assert (Hsize : 0 < size) by (pose proof (lenZ_nonneg target) as Hnn; unfold size in *; lia).
        destruct (read_chunk h size 0 target) as [[k a] b].
        destruct (search H seed chunk h (tt_build sums 0 (PositiveMap.empty (list cand))) size
                         (size + 1 - block_len h (h_count h - 1)) (S (length target))
                         (mkS 0 k a b 0 target (dropZ k target) target []))
          as [[[[lastm lmc] rtoks]|]|c] eqn:Hs; try discriminate.
        inversion E; subst h' toks tr.
        eapply search_sound in Hs.
        * destruct Hs as [Hr Hlmc].
          assert (Hfin : rcov (emit_lit chunk (size - lastm) lmc rtoks) (lastm + (size - lastm))).
          { pose proof (rcov_le _ _ Hr). apply emit_lit_rcov; [exact Hr|exact Hlmc|lia|lia]. }
          replace (lastm + (size - lastm)) with size in Hfin by lia.
          eexists. split; [reflexivity|]. split; [exact Hfin|]. split; [reflexivity|].
          left. split; [reflexivity|]. split; [rewrite Esums; discriminate|exact Hsz].
        * intros t i s1 s2. apply tt_built_sound.
        * pose proof (block_len_pos (h_count h - 1)). lia.
        * exact Hblen.
        * unfold SInv. cbn [st_off st_k st_s1 st_s2 st_lastm st_cur st_ahead st_lmc st_rtoks].
          rewrite dropZ_0. repeat split; try lia. constructor.
  Qed.

  Lemma rcov_wf rt q :
    rcov rt q -> chunk < 2147483648 -> Z.of_nat (length sums) < 2147483648 -> Forall wf_token rt.
  Proof.
    intros Hr Hc Hs. induction Hr as [|bs rt q Hr IH Hbs Hlen Hq|i rt q Hr IH Hj]; constructor; auto.
    - cbn [wf_token]. lia.
    - cbn [wf_token]. destruct Hj as (Hi & _ & _ & s1 & Hnth).
      assert (Z.to_nat i < length sums)%nat by (apply nth_error_Some; congruence). lia.
  Qed.

  Theorem send_one_exact h' toks tr :
    send_one H seed chunk h sums target = SOk h' toks tr ->
    sums_legal -> no_collision ->
    denote basis h' toks = Some target /\ tr = filesum H seed target.
  Proof.
    unfold send_one. intros E Hleg Hnc. change (lenZ target) with size in E.
    destruct sums as [|sb sums'] eqn:Esums.
    - unfold send_whole in E. inversion E; subst. split; [apply whole_exact|reflexivity].
    - rewrite <- Esums in *.
      destruct (size =? 0) eqn:Hsz.
      + unfold send_whole in E. inversion E; subst. split; [apply whole_exact|reflexivity].
      + apply Z.eqb_neq in Hsz.
        assert (Hsize : 0 < size) by (pose proof (lenZ_nonneg target) as Hnn; unfold size in *; lia).
        destruct (read_chunk h size 0 target) as [[k a] b].
        destruct (search H seed chunk h (tt_build sums 0 (PositiveMap.empty (list cand))) size
                         (size + 1 - block_len h (h_count h - 1)) (S (length target))
                         (mkS 0 k a b 0 target (dropZ k target) target []))
          as [[[[lastm lmc] rtoks]|]|c] eqn:Hs; try discriminate.
        inversion E; subst h' toks tr. split; [|reflexivity].
        eapply search_sound in Hs.
        * destruct Hs as [Hr Hlmc].
          assert (Hfin : rcov (emit_lit chunk (size - lastm) lmc rtoks) (lastm + (size - lastm))).
          { pose proof (rcov_le _ _ Hr). apply emit_lit_rcov; [exact Hr|exact Hlmc|lia|lia]. }
          rewrite (rcov_denote _ _ Hfin Hleg Hnc). f_equal.
          apply takeZ_all. fold size. lia.
        * intros t i s1 s2. apply tt_built_sound.
        * pose proof (block_len_pos (h_count h - 1)). lia.
        * exact Hblen.
        * unfold SInv. cbn [st_off st_k st_s1 st_s2 st_lastm st_cur st_ahead st_lmc st_rtoks].
          rewrite dropZ_0. repeat split; try lia. constructor.
  Qed.
End SenderProofs.
