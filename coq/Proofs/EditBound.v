(** C16: the literal data sent for an edited file is bounded.

    Part 1 (this section): a counting invariant of the search loop.  Given a
    set of *starts* — offsets of the target at which a full-length listed
    block stands, pairwise at least one block length apart, and comprising
    every offset at which any full-length listed block's sums match — the
    bytes sent as literals are at most the number of target positions not
    covered by [start, start + blen).  The argument is the one the property
    is about: the search looks a block up at *every* offset it passes
    (rolling_invariant + no_false_negative), so it cannot walk over a start
    without emitting a reference, and a reference at a start lands on the next
    start of a run of consecutive blocks. *)
From Coq Require Import ZArith List Bool Lia FMapPositive.
From RV Require Import Model.Bytes Model.Checksum Model.Delta Model.Sender
     Proofs.BytesProofs Proofs.ChecksumProofs Proofs.DeltaProofs Proofs.SenderProofs
     Proofs.SearchInv Proofs.Identical Gen.Consts.
Import ListNotations.
Open Scope Z_scope.

(** Literal bytes carried by a token list. *)
Fixpoint lits (ts : list token) : Z :=
  match ts with
  | [] => 0
  | Lit bs :: r => lenZ bs + lits r
  | Ref _ :: r => lits r
  end.

Lemma lits_app a : forall b, lits (a ++ b) = lits a + lits b.
Proof. induction a as [|[bs|i] a IH]; intros b; cbn [lits app]; rewrite ?IH; lia. Qed.

Lemma lits_rev a : lits (rev a) = lits a.
Proof.
  induction a as [|t a IH]; [reflexivity|]. cbn [rev]. rewrite lits_app, IH.
  destruct t; cbn [lits]; lia.
Qed.

Lemma lits_nonneg a : 0 <= lits a.
Proof. induction a as [|[bs|i] a IH]; cbn [lits]; [lia| |lia]. pose proof (lenZ_nonneg bs). lia. Qed.

Lemma lits_lit_chunks chunk fuel : 1 <= chunk -> forall l rt, (length l <= fuel)%nat ->
  lits (lit_chunks fuel chunk l rt) = lits rt + lenZ l.
Proof.
  intros Hc. induction fuel as [|fuel IH]; intros l rt Hf.
  - destruct l; [|cbn in Hf; lia]. cbn [lit_chunks]. rewrite lenZ_nil. lia.
  - destruct l as [|x l'].
    + cbn [lit_chunks]. rewrite lenZ_nil. lia.
    + cbn [lit_chunks]. remember (x :: l') as l eqn:El.
      assert (Hlen : (1 <= length l)%nat) by (rewrite El; cbn; lia). clear El x l'.
      rewrite IH.
      * cbn [lits]. rewrite <- (takeZ_app_dropZ chunk l) at 3. rewrite lenZ_app. lia.
      * rewrite dropZ_skipn, skipn_length. lia.
Qed.

Lemma lits_emit_lit chunk n lmc rt : 1 <= chunk -> 0 <= n <= lenZ lmc ->
  lits (emit_lit chunk n lmc rt) = lits rt + n.
Proof.
  intros Hc Hn. unfold emit_lit. rewrite lits_lit_chunks by (exact Hc || lia).
  rewrite lenZ_takeZ by lia. reflexivity.
Qed.

(** [scan] only returns an entry whose weak sum is the one looked up. *)
Lemma scan_sound_weak H seed h cs : forall sum l cur cache i,
  (forall s, cache = Some s -> s = strong H seed h (takeZ l cur)) ->
  scan H seed h cs sum l cur cache = Some i ->
  In (i, sum, strong H seed h (takeZ l cur)) cs /\ l = block_len h i.
Proof.
  induction cs as [|[[i' s1i] s2i] r IH]; intros sum l cur cache i Hc; cbn [scan]; [discriminate|].
  destruct ((sum =? s1i) && (l =? block_len h i')) eqn:Hw.
  - assert (Hstr : match cache with
                   | Some s => s
                   | None => takeZ (h_slen h) (checksum2 H seed (takeZ l cur))
                   end = strong H seed h (takeZ l cur)).
    { destruct cache as [s|]; [now apply Hc|reflexivity]. }
    rewrite Hstr.
    destruct (list_eqb (strong H seed h (takeZ l cur)) s2i) eqn:He.
    + intros E. inversion E; subst. apply list_eqb_eq in He. subst s2i.
      apply andb_true_iff in Hw. destruct Hw as [Hs Hl]. apply Z.eqb_eq in Hl. apply Z.eqb_eq in Hs.
      subst s1i. split; [left; reflexivity|exact Hl].
    + intros E. apply IH in E.
      * destruct E as (Hin & Hl). split; [right; exact Hin|exact Hl].
      * intros s Es. inversion Es. reflexivity.
  - intros E. apply IH in E; [|exact Hc].
    destruct E as (Hin & Hl). split; [right; exact Hin|exact Hl].
Qed.

Lemma checksum1_halves w : checksum1 w = sum_lo (checksum1 w) + sum_hi (checksum1 w) * 65536.
Proof.
  assert (Hr : 0 <= checksum1 w < 4294967296).
  { unfold checksum1. destruct (csum_loop w 0 0). apply Z.mod_pos_bound. lia. }
  unfold sum_lo, sum_hi.
  pose proof (Z.div_mod (checksum1 w) 65536 ltac:(lia)) as Hd.
  rewrite (Z.mod_small (checksum1 w / 65536) 65536).
  - lia.
  - split; [apply Z.div_pos; lia|apply Z.div_lt_upper_bound; lia].
Qed.

Section Counting.
  Variable freeb : Z -> bool.

  (** number of positions in [0, n) that are not free *)
  Fixpoint nf (n : nat) : Z :=
    match n with
    | O => 0
    | S m => nf m + (if freeb (Z.of_nat m) then 0 else 1)
    end.
  Definition nfz (x : Z) : Z := nf (Z.to_nat x).

  Lemma nfz_0 : nfz 0 = 0.
  Proof. reflexivity. Qed.

  Lemma nfz_step x : 0 <= x -> nfz (x + 1) = nfz x + (if freeb x then 0 else 1).
  Proof.
    intros Hx. unfold nfz. replace (Z.to_nat (x + 1)) with (S (Z.to_nat x)) by lia.
    cbn [nf]. rewrite Z2Nat.id by lia. reflexivity.
  Qed.

  Lemma nfz_lip x d : 0 <= x -> 0 <= d -> nfz x <= nfz (x + d) <= nfz x + d.
  Proof.
    intros Hx Hd.
    assert (Hn : forall n : nat, nfz x <= nfz (x + Z.of_nat n) <= nfz x + Z.of_nat n).
    { induction n as [|n IH]; [rewrite Z.add_0_r; lia|].
      rewrite Nat2Z.inj_succ. replace (x + Z.succ (Z.of_nat n)) with (x + Z.of_nat n + 1) by lia.
      rewrite nfz_step by lia. destruct (freeb (x + Z.of_nat n)); lia. }
    specialize (Hn (Z.to_nat d)). rewrite Z2Nat.id in Hn by lia. exact Hn.
  Qed.

  Lemma nfz_nonfree x d : 0 <= x -> 0 <= d ->
    (forall p, x <= p < x + d -> freeb p = false) -> nfz (x + d) = nfz x + d.
  Proof.
    intros Hx Hd.
    assert (Hn : forall n : nat, (forall p, x <= p < x + Z.of_nat n -> freeb p = false) ->
                   nfz (x + Z.of_nat n) = nfz x + Z.of_nat n).
    { induction n as [|n IH]; intros Hp; [rewrite Z.add_0_r; lia|].
      rewrite Nat2Z.inj_succ. replace (x + Z.succ (Z.of_nat n)) with (x + Z.of_nat n + 1) by lia.
      rewrite nfz_step by lia. rewrite (Hp (x + Z.of_nat n)) by lia.
      rewrite IH; [lia|]. intros p Hpp. apply Hp. lia. }
    intros Hp. specialize (Hn (Z.to_nat d)). rewrite Z2Nat.id in Hn by lia. apply Hn. exact Hp.
  Qed.

  Lemma nfz_free x d : 0 <= x -> 0 <= d ->
    (forall p, x <= p < x + d -> freeb p = true) -> nfz (x + d) = nfz x.
  Proof.
    intros Hx Hd.
    assert (Hn : forall n : nat, (forall p, x <= p < x + Z.of_nat n -> freeb p = true) ->
                   nfz (x + Z.of_nat n) = nfz x).
    { induction n as [|n IH]; intros Hp; [rewrite Z.add_0_r; lia|].
      rewrite Nat2Z.inj_succ. replace (x + Z.succ (Z.of_nat n)) with (x + Z.of_nat n + 1) by lia.
      rewrite nfz_step by lia. rewrite (Hp (x + Z.of_nat n)) by lia.
      rewrite IH; [lia|]. intros p Hpp. apply Hp. lia. }
    intros Hp. specialize (Hn (Z.to_nat d)). rewrite Z2Nat.id in Hn by lia. apply Hn. exact Hp.
  Qed.
End Counting.

Section EditBound.
  Variable H : list Z -> list Z.
  Variable seed : Z.
  Variable chunk : Z.
  Hypothesis Hchunk : 1 <= chunk.
  Variable h : sum_head.
  Variable sums : list sumbuf.
  Variable target : list Z.
  Let size := lenZ target.
  Hypothesis Hblen : 1 <= h_blen h.
  Hypothesis Hrem : 0 <= h_rem h <= h_blen h.

  Let tt := tt_build sums 0 (PositiveMap.empty (list cand)).
  Let end_ := size + 1 - block_len h (h_count h - 1).

  Definition window (p : Z) : list Z := takeZ (h_blen h) (dropZ p target).

  (** the starts *)
  Variable start : Z -> bool.
  Hypothesis S1 : forall o, start o = true ->
    0 <= o /\ o + h_blen h <= size /\
    exists i, 0 <= i /\ block_len h i = h_blen h /\
      nth_error sums (Z.to_nat i) = Some (checksum1 (window o), strong H seed h (window o)).
  Hypothesis S2 : forall p i, 0 <= p -> p + h_blen h <= size -> 0 <= i -> block_len h i = h_blen h ->
    nth_error sums (Z.to_nat i) = Some (checksum1 (window p), strong H seed h (window p)) ->
    start p = true.
  Hypothesis S3 : forall o o', start o = true -> start o' = true -> o < o' -> o + h_blen h <= o'.
  Variable freeb : Z -> bool.
  Hypothesis HF : forall p, freeb p = true <-> exists o, start o = true /\ o <= p < o + h_blen h.

  Lemma Htt_s : forall t i s1 s2, In (i, s1, s2) (tt_find tt t) ->
      0 <= i /\ nth_error sums (Z.to_nat i) = Some (s1, s2).
  Proof. intros t i s1 s2. exact (tt_built_sound H sums target t i s1 s2). Qed.

  Lemma Htt_c : forall t i s1 s2, 0 <= t -> 0 <= i ->
      nth_error sums (Z.to_nat i) = Some (s1, s2) -> tag s1 = t -> In (i, s1, s2) (tt_find tt t).
  Proof.
    intros t i s1 s2 Ht Hi Hnth Htag. unfold tt. rewrite tt_build_spec by exact Ht.
    rewrite tt_find_empty, app_nil_r.
    replace i with (0 + Z.of_nat (Z.to_nat i)) by lia. now apply entries_complete.
  Qed.

  Lemma lastlen_bounds : 1 <= block_len h (h_count h - 1) <= h_blen h.
  Proof.
    unfold block_len. destruct ((h_count h - 1 =? h_count h - 1) && negb (h_rem h =? 0)) eqn:E; [|lia].
    apply andb_true_iff in E. destruct E as [_ E]. apply negb_true_iff, Z.eqb_neq in E. lia.
  Qed.

  Lemma end_hi : end_ <= size.
  Proof. unfold end_. pose proof lastlen_bounds. lia. Qed.
  Lemma end_lo : size - h_blen h < end_.
  Proof. unfold end_. pose proof lastlen_bounds. lia. Qed.

  Notation NF := (nfz freeb).

  (** no free position from a point of the search on, close to the end *)
  Lemma tail_nonfree x : end_ <= x -> (forall o, start o = true -> x <= o \/ o + h_blen h <= x) ->
    forall p, x <= p < x + (size - x) -> freeb p = false.
  Proof.
    intros Hx Hno p Hp. destruct (freeb p) eqn:Ef; [|reflexivity]. exfalso.
    apply HF in Ef. destruct Ef as (o & Ho & Hop).
    destruct (S1 o Ho) as (Ho0 & Hos & _).
    pose proof end_lo. destruct (Hno o Ho); lia.
  Qed.

  Definition K (st : sstate) : Prop :=
    SInv H seed chunk h sums target st /\ RInv h target st /\
    lits (st_rtoks st) <= NF (st_lastm st) /\
    NF (st_off st) = NF (st_lastm st) + (st_off st - st_lastm st) /\
    (freeb (st_off st) = true -> start (st_off st) = true).

  Definition DoneOk (lastm : Z) (rtoks : list token) : Prop :=
    0 <= lastm <= size /\ lits rtoks <= NF lastm /\ NF size = NF lastm + (size - lastm).

  (** shape of the loop tail just after a match *)
  Lemma tail_after_match off1 k1 s11 s21 lastm1 cur1 ahead1 lmc1 rtoks1 :
    lastm1 = off1 + 1 ->
    match body_tail chunk h target end_ true off1 k1 s11 s21 lastm1 cur1 ahead1 lmc1 rtoks1 with
    | Done lm _ rt => lm = lastm1 /\ rt = rtoks1 /\ end_ <= off1 + 1
    | Next st' => st_off st' = off1 + 1 /\ st_lastm st' = lastm1 /\ st_rtoks st' = rtoks1 /\ off1 + 1 < end_
    | Crashed _ => True
    end.
  Proof.
    intros ->. unfold body_tail. cbn [andb].
    destruct (Z.leb_spec end_ off1); [repeat split; lia|].
    replace (Z.max (off1 - (off1 + 1)) 0) with 0 by lia.
    replace (h_blen h + chunk <=? 0) with false by (symmetry; apply Z.leb_gt; lia).
    cbn [andb].
    destruct cur1 as [|u0 cur2]; [exact I|].
    destruct (off1 + k1 <? lenZ target).
    - destruct ahead1 as [|uk ahead2]; [exact I|].
      destruct (Z.leb_spec end_ (off1 + 1)); [repeat split; lia|].
      cbn. repeat split; lia.
    - destruct (Z.leb_spec end_ (off1 + 1)); [repeat split; lia|].
      cbn. repeat split; lia.
  Qed.

  (** ... and when nothing matched: the pending literal may be flushed *)
  Definition flushed off lastm (lmc : list Z) rtoks lm rt : Prop :=
    (lm = lastm /\ rt = rtoks) \/
    (h_blen h + chunk <= off - lastm /\ lm = off - h_blen h /\
     rt = emit_lit chunk (off - h_blen h - lastm) lmc rtoks).

  Lemma tail_no_match off k s1 s2 lastm cur ahead lmc rtoks :
    match body_tail chunk h target end_ false off k s1 s2 lastm cur ahead lmc rtoks with
    | Done lm _ rt => end_ <= off + 1 /\ flushed off lastm lmc rtoks lm rt
    | Next st' => off + 1 < end_ /\ st_off st' = off + 1 /\
                  flushed off lastm lmc rtoks (st_lastm st') (st_rtoks st')
    | Crashed _ => True
    end.
  Proof.
    unfold body_tail, flushed. cbn [andb].
    destruct cur as [|u0 cur2]; [exact I|].
    destruct (off + k <? lenZ target).
    - destruct ahead as [|uk ahead2]; [exact I|].
      destruct ((h_blen h + chunk <=? Z.max (off - lastm) 0) && (chunk <? end_ - off)) eqn:Efl.
      + apply andb_true_iff in Efl. destruct Efl as [Eb _]. apply Z.leb_le in Eb.
        destruct (Z.leb_spec end_ (off + 1)); cbn; (split; [lia|]); [|split; [reflexivity|]];
          right; repeat split; lia.
      + destruct (Z.leb_spec end_ (off + 1)); cbn; (split; [lia|]); [|split; [reflexivity|]];
          left; split; reflexivity.
    - destruct ((h_blen h + chunk <=? Z.max (off - lastm) 0) && (chunk <? end_ - off)) eqn:Efl.
      + apply andb_true_iff in Efl. destruct Efl as [Eb _]. apply Z.leb_le in Eb.
        destruct (Z.leb_spec end_ (off + 1)); cbn; (split; [lia|]); [|split; [reflexivity|]];
          right; repeat split; lia.
      + destruct (Z.leb_spec end_ (off + 1)); cbn; (split; [lia|]); [|split; [reflexivity|]];
          left; split; reflexivity.
  Qed.

  Lemma body_K st :
    K st ->
    match body H seed chunk h tt size end_ st with
    | Done lm _ rt => DoneOk lm rt
    | Next st' => K st'
    | Crashed _ => False
    end.
  Proof.
    intros (HS & HR & K1 & K2 & K3).
    pose proof (body_sound H seed chunk Hchunk h sums target tt end_ Htt_s end_hi Hblen st HS) as Hsound.
    pose proof (body_regs H seed chunk h sums target tt end_ Htt_s Hblen st HS HR) as Hregs.
    change (lenZ target) with size in Hsound, Hregs.
    pose proof HS as (Hlm & Hofflt & Hcur & Hlmc & Hrc).
    pose proof HR as (Hk & Hah & Hs1 & Hs2).
    change (lenZ target) with size in Hofflt, Hk.
    pose proof end_hi as Hehi. pose proof end_lo as Helo.
    (* the registers give the weak sum of the window *)
    set (l := Z.min (h_blen h) (size - st_off st)) in *.
    assert (Hsum : st_s1 st mod 65536 + st_s2 st mod 65536 * 65536 = checksum1 (takeZ l (st_cur st))).
    { rewrite <- Hk. set (w := takeZ (st_k st) (st_cur st)) in *.
      assert (E1 : st_s1 st = sum_lo (checksum1 w)) by (rewrite sum_lo_checksum1; exact Hs1).
      assert (E2 : st_s2 st = sum_hi (checksum1 w)) by (rewrite sum_hi_checksum1; exact Hs2).
      rewrite E1, E2. unfold sum_lo at 1, sum_hi at 1. rewrite !Zmod_mod.
      symmetry. apply checksum1_halves. }
    assert (Hmid : forall x, st_lastm st <= x <= st_off st -> NF x = NF (st_lastm st) + (x - st_lastm st)).
    { intros x Hx.
      pose proof (nfz_lip freeb (st_lastm st) (x - st_lastm st) ltac:(lia) ltac:(lia)) as L1.
      pose proof (nfz_lip freeb x (st_off st - x) ltac:(lia) ltac:(lia)) as L2.
      replace (st_lastm st + (x - st_lastm st)) with x in L1 by lia.
      replace (x + (st_off st - x)) with (st_off st) in L2 by lia. lia. }
    assert (Hlenlmc : lenZ (st_lmc st) = size - st_lastm st).
    { rewrite Hlmc. rewrite lenZ_dropZ by (fold size; lia). reflexivity. }
    rewrite (body_unfold H seed chunk h target tt end_) in Hsound, Hregs |- *.
    cbv zeta in Hsound, Hregs |- *.
    change (lenZ target) with size in Hsound, Hregs |- *. fold l in Hsound, Hregs |- *.
    destruct (scan H seed h (tt_find tt (tag2 (st_s1 st) (st_s2 st)))
                   (st_s1 st mod 65536 + st_s2 st mod 65536 * 65536) l (st_cur st) None) as [i|] eqn:Hscan.
    - (* a block matched at this offset *)
      apply scan_sound_weak in Hscan; [|discriminate].
      destruct Hscan as (Hin & Hl).
      apply Htt_s in Hin. destruct Hin as (Hi & Hnth).
      rewrite Hsum in Hnth.
      set (len := block_len h i) in *.
      assert (Hl1 : 1 <= len <= size - st_off st) by lia.
      (* a full-length match stands on a start *)
      assert (Hfull : len = h_blen h -> start (st_off st) = true).
      { intros Efull. apply (S2 (st_off st) i); [lia|lia|exact Hi|exact Efull|].
        unfold window. rewrite <- Hcur. replace (h_blen h) with l by lia. exact Hnth. }
      assert (Hshort : len < h_blen h -> st_off st + len = size) by lia.
      (* no start straddles the end of the matched block *)
      assert (Hnostraddle : forall o, start o = true ->
                st_off st + len <= o \/ o + h_blen h <= st_off st + len).
      { intros o Ho. destruct (S1 o Ho) as (Ho0 & Hos & _). fold size in Hos.
        destruct (Z.eq_dec len (h_blen h)) as [Efull|Nfull].
        - specialize (Hfull Efull).
          destruct (Z.lt_trichotomy o (st_off st)) as [Hlt|[Heq|Hgt]].
          + pose proof (S3 o (st_off st) Ho Hfull Hlt). lia.
          + lia.
          + pose proof (S3 (st_off st) o Hfull Ho Hgt). lia.
        - right. lia. }
      assert (Hlits : lits (Ref i :: emit_lit chunk (st_off st - st_lastm st) (st_lmc st) (st_rtoks st))
                      <= NF (st_off st + len)).
      { cbn [lits]. rewrite lits_emit_lit by (exact Hchunk || lia).
        pose proof (nfz_lip freeb (st_off st) len ltac:(lia) ltac:(lia)). lia. }
      match goal with
      | |- match body_tail _ _ _ _ true ?o ?k ?a ?b ?lm ?c ?ah ?lc ?rt with _ => _ end =>
          pose proof (tail_after_match o k a b lm c ah lc rt ltac:(lia)) as Hshape;
          destruct (body_tail chunk h target end_ true o k a b lm c ah lc rt) as [lm' lc' rt'|st'|c']
      end.
      + destruct Hshape as (-> & -> & Hex).
        split; [lia|]. split; [exact Hlits|].
        replace size with (st_off st + len + (size - (st_off st + len))) at 1 by lia.
        apply nfz_nonfree; [lia|lia|].
        apply tail_nonfree; [lia|exact Hnostraddle].
      + destruct Hshape as (Ho & Hlm' & Hrt & Hend).
        destruct Hregs as [HR' _].
        split; [exact Hsound|]. split; [exact HR'|].
        rewrite Ho, Hlm', Hrt.
        replace (st_off st + len - 1 + 1) with (st_off st + len) by lia.
        split; [exact Hlits|]. split; [lia|].
        intros Ef. apply HF in Ef. destruct Ef as (o & Hso & Hop).
        destruct (Hnostraddle o Hso) as [Hge|Hle]; [|lia].
        replace (st_off st + len) with o by lia. exact Hso.
      + destruct Hregs.
    - (* nothing matched: this offset is not a start *)
      assert (Hns : start (st_off st) = false).
      { destruct (start (st_off st)) eqn:Est; [|reflexivity]. exfalso.
        destruct (S1 _ Est) as (Ho0 & Hos & i & Hi & Hbl & Hnth). fold size in Hos.
        destruct (lookup_complete H seed chunk h sums target tt end_ Htt_s Htt_c st i HS HR Hi) as (j & Hj).
        - cbv zeta. change (lenZ target) with size. fold l. replace l with (h_blen h) by lia.
          rewrite Hcur. exact Hnth.
        - change (lenZ target) with size. fold l. lia.
        - change (lenZ target) with size in Hj. fold l in Hj. rewrite Hj in Hscan. discriminate. }
      assert (Hnf : freeb (st_off st) = false).
      { destruct (freeb (st_off st)) eqn:Ef; [|reflexivity]. rewrite K3 in Hns by reflexivity. discriminate. }
      assert (Hstep : NF (st_off st + 1) = NF (st_off st) + 1).
      { rewrite nfz_step by lia. rewrite Hnf. reflexivity. }
      assert (Hnext : forall o, start o = true -> st_off st + 1 <= o \/ o + h_blen h <= st_off st + 1).
      { intros o Ho. destruct (Z_le_gt_dec (st_off st + 1) o) as [Hge|Hlt]; [left; exact Hge|right].
        destruct (Z_le_gt_dec (o + h_blen h) (st_off st)) as [Hle|Hgt]; [lia|].
        exfalso. assert (Ef : freeb (st_off st) = true) by (apply HF; exists o; split; [exact Ho|lia]).
        rewrite Ef in Hnf. discriminate. }
      assert (Hflush : forall lm rt, flushed (st_off st) (st_lastm st) (st_lmc st) (st_rtoks st) lm rt ->
                st_lastm st <= lm <= st_off st /\ lits rt <= NF lm).
      { intros lm rt [[-> ->]|(Hb & -> & ->)].
        - split; [lia|exact K1].
        - split; [lia|]. rewrite lits_emit_lit by (exact Hchunk || lia).
          rewrite (Hmid (st_off st - h_blen h)) by lia. lia. }
      pose proof (tail_no_match (st_off st) (st_k st) (st_s1 st) (st_s2 st) (st_lastm st)
                    (st_cur st) (st_ahead st) (st_lmc st) (st_rtoks st)) as Hshape.
      destruct (body_tail chunk h target end_ false (st_off st) (st_k st) (st_s1 st) (st_s2 st)
                  (st_lastm st) (st_cur st) (st_ahead st) (st_lmc st) (st_rtoks st)) as [lm' lc' rt'|st'|c'].
      + destruct Hshape as (Hex & Hfl). destruct (Hflush _ _ Hfl) as (Hlmr & Hl').
        split; [lia|]. split; [exact Hl'|].
        assert (Htail : NF size = NF (st_off st + 1) + (size - (st_off st + 1))).
        { replace size with (st_off st + 1 + (size - (st_off st + 1))) at 1 by lia.
          apply nfz_nonfree; [lia|lia|].
          apply tail_nonfree; [lia|exact Hnext]. }
        rewrite Htail, Hstep, K2, (Hmid lm') by lia. lia.
      + destruct Hshape as (Hend & Ho & Hfl). destruct (Hflush _ _ Hfl) as (Hlmr & Hl').
        destruct Hregs as [HR' _].
        split; [exact Hsound|]. split; [exact HR'|].
        split; [exact Hl'|]. rewrite Ho.
        split; [rewrite Hstep, K2, (Hmid (st_lastm st')) by lia; lia|].
        intros Ef. apply HF in Ef. destruct Ef as (o & Hso & Hop).
        destruct (Hnext o Hso) as [Hge|Hle]; [|lia].
        replace (st_off st + 1) with o by lia. exact Hso.
      + destruct Hregs.
  Qed.

  Lemma search_K fuel : forall st,
    K st ->
    match search H seed chunk h tt size end_ fuel st with
    | inl (Some (lm, _, rt)) => DoneOk lm rt
    | inl None => True
    | inr _ => False
    end.
  Proof.
    induction fuel as [|fuel IH]; intros st HK; cbn [search]; [exact I|].
    pose proof (body_K st HK) as Hb'.
    destruct (body H seed chunk h tt size end_ st) as [lm lc rt|st'|c].
    - exact Hb'.
    - apply IH. exact Hb'.
    - exact Hb'.
  Qed.

  (** The literal bytes of the whole transmission are at most the number of
      positions of the target outside every [start, start + blen). *)
  Theorem send_one_lits h' toks tr :
    sums <> [] -> 0 < size ->
    send_one H seed chunk h sums target = SOk h' toks tr -> lits toks <= NF size.
  Proof.
    intros Hne Hn.
    rewrite (send_one_nonempty H seed chunk h sums target Hne). cbv zeta.
    change (lenZ target) with size.
    replace (size =? 0) with false by (symmetry; apply Z.eqb_neq; lia).
    destruct (read_chunk h size 0 target) as [[k a] b] eqn:Hrc.
    fold tt. fold end_.
    assert (HK : K (mkS 0 k a b 0 target (dropZ k target) target [])).
    { unfold read_chunk in Hrc. inversion Hrc; subst k a b. clear Hrc.
      unfold K. cbn [st_off st_k st_s1 st_s2 st_lastm st_cur st_ahead st_lmc st_rtoks].
      split.
      { unfold SInv. cbn [st_off st_k st_s1 st_s2 st_lastm st_cur st_ahead st_lmc st_rtoks].
        rewrite dropZ_0. change (lenZ target) with size.
        split; [lia|]. split; [lia|]. split; [reflexivity|]. split; [reflexivity|constructor]. }
      split.
      { unfold RInv. cbn [st_off st_k st_s1 st_s2 st_lastm st_cur st_ahead st_lmc st_rtoks].
        change (lenZ target) with size.
        split; [reflexivity|]. split; [reflexivity|].
        split; [apply sum_lo_checksum1|apply sum_hi_checksum1]. }
      cbn [lits]. rewrite nfz_0. split; [lia|]. split; [lia|].
      intros Ef. apply HF in Ef. destruct Ef as (o & Hso & Hop).
      destruct (S1 o Hso) as (Ho0 & _). replace 0 with o by lia. exact Hso. }
    pose proof (search_K (S (length target)) _ HK) as Hs.
    destruct (search H seed chunk h tt size end_ (S (length target)) (mkS 0 k a b 0 target (dropZ k target) target []))
      as [[[[lm lc] rt]|]|c] eqn:Es; try discriminate.
    destruct (search_sound H seed chunk Hchunk h sums target tt end_ Htt_s end_hi Hblen
                (S (length target)) _ _ _ _ (proj1 HK) Es) as (_ & Hlc).
    destruct Hs as (Hlm & Hl & Ht). intros E. inversion E; subst.
    rewrite lits_rev.
    rewrite lits_emit_lit.
    - lia.
    - exact Hchunk.
    - rewrite lenZ_dropZ by (fold size; lia). fold size. lia.
  Qed.
End EditBound.

(** * Part 2: targets described by an edit script over the basis

    The target is a sequence of pieces: bytes that are new ([Ins]) and
    unedited stretches of the receiver's file ([Copy c L] = basis[c, c+L)).
    A script of e edits (insertions, deletions, replacements at arbitrary
    offsets, moved blocks) has at most e + 1 [Copy] pieces. *)
Ltac Zify.zify_post_hook ::= Z.div_mod_to_equations.

Lemma win_app_l w p (a r : list Z) : 0 <= p -> 0 <= w -> p + w <= lenZ a ->
  takeZ w (dropZ p (a ++ r)) = takeZ w (dropZ p a).
Proof.
  intros Hp Hw Hl. rewrite dropZ_app_le by lia. apply takeZ_app_le.
  rewrite lenZ_dropZ by lia. lia.
Qed.

Lemma win_app_r w p (a r : list Z) : lenZ a <= p ->
  takeZ w (dropZ p (a ++ r)) = takeZ w (dropZ (p - lenZ a) r).
Proof. intros Hl. rewrite dropZ_app_ge by lia. reflexivity. Qed.

Lemma win_copy w q c L (B : list Z) : 0 <= q -> 0 <= w -> q + w <= L -> 0 <= c -> c + L <= lenZ B ->
  takeZ w (dropZ q (takeZ L (dropZ c B))) = takeZ w (dropZ (c + q) B).
Proof.
  intros Hq Hw Hl Hc Hn.
  rewrite <- (dropZ_dropZ q c B) by lia.
  set (X := dropZ c B).
  rewrite !takeZ_firstn, !dropZ_skipn. rewrite skipn_firstn_comm, firstn_firstn.
  f_equal. lia.
Qed.

Inductive piece := Ins (bs : list Z) | Copy (c L : Z).

Section EditScript.
  Variable H : list Z -> list Z.
  Variable seed : Z.
  Variable chunk : Z.
  Hypothesis Hchunk : 1 <= chunk.
  Variable h : sum_head.
  Variable sums : list sumbuf.
  Variable basis : list Z.          (* the receiver's copy *)
  Let n := lenZ basis.
  Let b := h_blen h.
  Hypothesis Hn : 0 < n.
  Hypothesis Hb : 1 <= h_blen h.
  Hypothesis Hcount : h_count h = (n + (h_blen h - 1)) / h_blen h.
  Hypothesis Hrem : h_rem h = n mod h_blen h.
  (** the sums a receiver holding [basis] sends *)
  Hypothesis Hsums : forall j, 0 <= j < h_count h ->
    nth_error sums (Z.to_nat j) =
    Some (checksum1 (blk basis h j), strong H seed h (blk basis h j)).

  Definition piece_bytes (pc : piece) : list Z :=
    match pc with Ins bs => bs | Copy c L => takeZ L (dropZ c basis) end.
  Fixpoint build (ps : list piece) : list Z :=
    match ps with [] => [] | pc :: r => piece_bytes pc ++ build r end.
  Definition piece_ok (pc : piece) : Prop :=
    match pc with Ins _ => True | Copy c L => 0 <= c /\ 0 <= L /\ c + L <= n end.
  Fixpoint ins_bytes (ps : list piece) : Z :=
    match ps with [] => 0 | Ins bs :: r => lenZ bs + ins_bytes r | Copy _ _ :: r => ins_bytes r end.
  Fixpoint copies (ps : list piece) : Z :=
    match ps with [] => 0 | Ins _ :: r => copies r | Copy _ _ :: r => 1 + copies r end.

  (** [p] is the place of a whole block of the basis inside a [Copy] piece;
      [u] is the offset of the first piece of [ps] in the target *)
  Definition in_copy (u c L p : Z) : bool :=
    (u <=? p) && (p + h_blen h <=? u + L) && ((c + p - u) mod h_blen h =? 0).
  Fixpoint startP (ps : list piece) (u p : Z) : bool :=
    match ps with
    | [] => false
    | Ins bs :: r => startP r (u + lenZ bs) p
    | Copy c L :: r => in_copy u c L p || startP r (u + L) p
    end.

  Lemma piece_len pc : piece_ok pc -> lenZ (piece_bytes pc) = match pc with Ins bs => lenZ bs | Copy _ L => L end.
  Proof.
    destruct pc as [bs|c L]; [reflexivity|]. intros (Hc & HL & Hcl). cbn [piece_bytes].
    apply lenZ_takeZ. rewrite lenZ_dropZ by (fold n; lia). fold n. lia.
  Qed.

  Lemma startP_spec ps : forall u p, Forall piece_ok ps -> 0 <= u -> startP ps u p = true ->
    u <= p /\ p + h_blen h <= u + lenZ (build ps) /\
    exists j, 0 <= j /\ (j + 1) * h_blen h <= n /\
      takeZ (h_blen h) (dropZ (p - u) (build ps)) = takeZ (h_blen h) (dropZ (j * h_blen h) basis).
  Proof.
    induction ps as [|pc r IH]; intros u p Hok Hu Hs; [discriminate|].
    inversion Hok as [|? ? Hpc Hr]; subst.
    pose proof (piece_len pc Hpc) as Hlen.
    pose proof (lenZ_nonneg (build r)) as Hbr.
    cbn [build]. rewrite lenZ_app.
    destruct pc as [bs|c L]; cbn [startP] in Hs.
    - pose proof (lenZ_nonneg bs).
      destruct (IH (u + lenZ bs) p Hr ltac:(lia) Hs) as (H1 & H2 & j & Hj & Hjn & Hw).
      cbn [piece_bytes] in *. split; [lia|]. split; [lia|].
      exists j. split; [exact Hj|]. split; [exact Hjn|].
      rewrite win_app_r by lia. rewrite <- Hw. f_equal. f_equal. lia.
    - destruct Hpc as (Hc & HL & Hcl). rewrite Hlen.
      apply orb_true_iff in Hs. destruct Hs as [Hs|Hs].
      + unfold in_copy in Hs. apply andb_true_iff in Hs. destruct Hs as [Hs Hm].
        apply andb_true_iff in Hs. destruct Hs as [Hlo Hhi].
        apply Z.leb_le in Hlo. apply Z.leb_le in Hhi. apply Z.eqb_eq in Hm.
        split; [exact Hlo|]. split; [lia|].
        exists ((c + p - u) / h_blen h).
        assert (Hq : (c + p - u) = h_blen h * ((c + p - u) / h_blen h)).
        { pose proof (Z.div_mod (c + p - u) (h_blen h) ltac:(lia)). lia. }
        split; [apply Z.div_pos; lia|]. split; [nia|].
        rewrite win_app_l by (rewrite ?Hlen; lia).
        cbn [piece_bytes]. rewrite win_copy by (fold n; lia).
        f_equal. f_equal. lia.
      + destruct (IH (u + L) p Hr ltac:(lia) Hs) as (H1 & H2 & j & Hj & Hjn & Hw).
        split; [lia|]. split; [lia|].
        exists j. split; [exact Hj|]. split; [exact Hjn|].
        rewrite win_app_r by lia. rewrite Hlen. rewrite <- Hw. f_equal. f_equal. lia.
  Qed.

  Lemma startP_sep ps : forall u o o', Forall piece_ok ps -> 0 <= u ->
    startP ps u o = true -> startP ps u o' = true -> o < o' -> o + h_blen h <= o'.
  Proof.
    induction ps as [|pc r IH]; intros u o o' Hok Hu Hs Hs' Hlt; [discriminate|].
    inversion Hok as [|? ? Hpc Hr]; subst.
    destruct pc as [bs|c L]; cbn [startP] in Hs, Hs'.
    - pose proof (lenZ_nonneg bs). eapply IH; [exact Hr| |exact Hs|exact Hs'|exact Hlt]. lia.
    - destruct Hpc as (Hc & HL & Hcl).
      apply orb_true_iff in Hs. apply orb_true_iff in Hs'.
      destruct Hs as [Hs|Hs]; destruct Hs' as [Hs'|Hs'].
      + unfold in_copy in Hs, Hs'.
        apply andb_true_iff in Hs. destruct Hs as [_ Hm]. apply Z.eqb_eq in Hm.
        apply andb_true_iff in Hs'. destruct Hs' as [_ Hm']. apply Z.eqb_eq in Hm'.
        pose proof (Z.div_mod (c + o - u) (h_blen h) ltac:(lia)) as E1.
        pose proof (Z.div_mod (c + o' - u) (h_blen h) ltac:(lia)) as E2.
        rewrite Hm in E1. rewrite Hm' in E2.
        set (q := (c + o - u) / h_blen h) in *. set (q' := (c + o' - u) / h_blen h) in *.
        assert (q < q') by nia. nia.
      + unfold in_copy in Hs. apply andb_true_iff in Hs. destruct Hs as [Hs _].
        apply andb_true_iff in Hs. destruct Hs as [_ Hhi]. apply Z.leb_le in Hhi.
        destruct (startP_spec r (u + L) o' Hr ltac:(lia) Hs') as (Hlo' & _). lia.
      + unfold in_copy in Hs'. apply andb_true_iff in Hs'. destruct Hs' as [Hs' _].
        apply andb_true_iff in Hs'. destruct Hs' as [_ Hhi]. apply Z.leb_le in Hhi.
        destruct (startP_spec r (u + L) o Hr ltac:(lia) Hs) as (Hlo & _). lia.
      + eapply IH; [exact Hr| |exact Hs|exact Hs'|exact Hlt]. lia.
  Qed.

  Variable ps : list piece.
  Hypothesis Hok : Forall piece_ok ps.
  Let target := build ps.
  Let size := lenZ target.
  Hypothesis Hsize : 0 < size.

  Definition start (p : Z) : bool := startP ps 0 p.
  Definition freeb (p : Z) : bool :=
    existsb (fun d => start (p - Z.of_nat d)) (seq 0 (Z.to_nat (h_blen h))).

  Lemma freeb_spec p : freeb p = true <-> exists o, start o = true /\ o <= p < o + h_blen h.
  Proof.
    unfold freeb. rewrite existsb_exists. split.
    - intros (d & Hin & Hs). apply in_seq in Hin. exists (p - Z.of_nat d). split; [exact Hs|lia].
    - intros (o & Hs & Hop). exists (Z.to_nat (p - o)). split.
      + apply in_seq. lia.
      + rewrite Z2Nat.id by lia. replace (p - (p - o)) with o by lia. exact Hs.
  Qed.

  (** a start is the place of a listed full-length block *)
  Lemma start_listed o : start o = true ->
    0 <= o /\ o + h_blen h <= size /\
    exists i, 0 <= i /\ block_len h i = h_blen h /\
      nth_error sums (Z.to_nat i) = Some (checksum1 (window h target o), strong H seed h (window h target o)).
  Proof.
    intros Hs. destruct (startP_spec ps 0 o Hok ltac:(lia) Hs) as (Hlo & Hhi & j & Hj & Hjn & Hw).
    fold target in Hhi, Hw. fold size in Hhi.
    split; [lia|]. split; [lia|].
    assert (Hjc : 0 <= j < h_count h).
    { split; [exact Hj|]. rewrite Hcount.
      assert (j + 1 <= n / h_blen h) by (apply Z.div_le_lower_bound; lia).
      assert (n / h_blen h <= (n + (h_blen h - 1)) / h_blen h) by (apply Z.div_le_mono; lia).
      lia. }
    destruct (blen_layout H seed h sums basis Hn Hb Hcount Hrem Hsums j Hjc) as (L1 & _).
    fold n in L1.
    assert (Hbl : block_len h j = h_blen h) by nia.
    exists j. split; [exact Hj|]. split; [exact Hbl|].
    rewrite (Hsums j Hjc). unfold window, blk. rewrite Hbl.
    replace (o - 0) with o in Hw by lia. rewrite Hw. reflexivity.
  Qed.

  (** ** the uncovered positions of a script are few *)
  Notation NF := (nfz freeb).

  Lemma copy_core u c L : 0 <= u -> 0 <= c -> 0 <= L -> c + L <= n ->
    (forall p, in_copy u c L p = true -> start p = true) ->
    NF (u + L) - NF u <= 2 * (h_blen h - 1).
  Proof.
    intros Hu Hc HL Hcl Hin.
    set (j0 := (c + (h_blen h - 1)) / h_blen h).
    set (j1 := (c + L) / h_blen h).
    pose proof (Z.div_mod (c + (h_blen h - 1)) (h_blen h) ltac:(lia)) as E0.
    pose proof (Z.mod_pos_bound (c + (h_blen h - 1)) (h_blen h) ltac:(lia)) as B0.
    pose proof (Z.div_mod (c + L) (h_blen h) ltac:(lia)) as E1.
    pose proof (Z.mod_pos_bound (c + L) (h_blen h) ltac:(lia)) as B1.
    fold j0 in E0. fold j1 in E1.
    destruct (Z_lt_le_dec j0 j1) as [Hcore|Hnone].
    - (* [u + j0*b - c, u + j1*b - c) is covered by starts *)
      set (x := u + j0 * h_blen h - c). set (y := u + j1 * h_blen h - c).
      assert (Hx : u <= x) by (unfold x; nia).
      assert (Hxy : x <= y) by (unfold x, y; nia).
      assert (Hy : y <= u + L) by (unfold y; nia).
      assert (Hfree : NF (x + (y - x)) = NF x).
      { apply nfz_free; [lia|lia|]. intros p Hp. apply freeb_spec.
        set (j := (c + p - u) / h_blen h).
        pose proof (Z.div_mod (c + p - u) (h_blen h) ltac:(lia)) as Ej.
        pose proof (Z.mod_pos_bound (c + p - u) (h_blen h) ltac:(lia)) as Bj.
        fold j in Ej.
        assert (Hj0 : j0 <= j) by (unfold x in Hp; nia).
        assert (Hj1 : j < j1) by (unfold y in Hp; nia).
        exists (u + j * h_blen h - c). split; [|lia].
        apply Hin. unfold in_copy.
        apply andb_true_iff. split; [apply andb_true_iff; split|].
        - apply Z.leb_le. nia.
        - apply Z.leb_le. nia.
        - apply Z.eqb_eq. replace (c + (u + j * h_blen h - c) - u) with (j * h_blen h) by lia.
          apply Z_mod_mult. }
      replace (x + (y - x)) with y in Hfree by lia.
      pose proof (nfz_lip freeb u (x - u) ltac:(lia) ltac:(lia)) as La.
      pose proof (nfz_lip freeb y (u + L - y) ltac:(lia) ltac:(lia)) as Lb.
      replace (u + (x - u)) with x in La by lia.
      replace (y + (u + L - y)) with (u + L) in Lb by lia.
      assert (x - u <= h_blen h - 1) by (unfold x; nia).
      assert (u + L - y <= h_blen h - 1) by (unfold y; nia).
      lia.
    - pose proof (nfz_lip freeb u L ltac:(lia) ltac:(lia)) as La.
      assert (L <= 2 * (h_blen h - 1)) by nia. lia.
  Qed.

  Lemma script_budget r : forall u, Forall piece_ok r -> 0 <= u ->
    (forall p, startP r u p = true -> start p = true) ->
    NF (u + lenZ (build r)) - NF u <= ins_bytes r + 2 * (h_blen h - 1) * copies r.
  Proof.
    induction r as [|pc r IH]; intros u Hr Hu Hin.
    - cbn [build ins_bytes copies]. rewrite lenZ_nil, Z.add_0_r. lia.
    - inversion Hr as [|? ? Hpc Hr']; subst.
      pose proof (piece_len pc Hpc) as Hlen.
      cbn [build]. rewrite lenZ_app, Hlen.
      pose proof (lenZ_nonneg (build r)) as Hbr.
      destruct pc as [bs|c L].
      + pose proof (lenZ_nonneg bs).
        cbn [ins_bytes copies].
        pose proof (nfz_lip freeb u (lenZ bs) ltac:(lia) ltac:(lia)) as La.
        specialize (IH (u + lenZ bs) Hr' ltac:(lia)).
        replace (u + (lenZ bs + lenZ (build r))) with (u + lenZ bs + lenZ (build r)) by lia.
        assert (forall p, startP r (u + lenZ bs) p = true -> start p = true) as Hin'.
        { intros p Hp. apply Hin. cbn [startP]. exact Hp. }
        specialize (IH Hin'). lia.
      + destruct Hpc as (Hc & HL & Hcl). cbn [ins_bytes copies].
        pose proof (copy_core u c L Hu Hc HL Hcl) as Hcore.
        assert (forall p, in_copy u c L p = true -> start p = true) as Hin0.
        { intros p Hp. apply Hin. cbn [startP]. rewrite Hp. reflexivity. }
        specialize (Hcore Hin0).
        specialize (IH (u + L) Hr' ltac:(lia)).
        replace (u + (L + lenZ (build r))) with (u + L + lenZ (build r)) by lia.
        assert (forall p, startP r (u + L) p = true -> start p = true) as Hin'.
        { intros p Hp. apply Hin. cbn [startP]. rewrite Hp. apply orb_true_r. }
        specialize (IH Hin'). lia.
  Qed.

  (** No accidental matches: wherever a full-length listed block's weak and
      strong sums equal those of a window of the target, that window *is* an
      unedited block of the basis standing in a [Copy] piece.  (High-entropy
      data: the sums of distinct windows differ.) *)
  Definition no_accident : Prop :=
    forall p i, 0 <= p -> p + h_blen h <= size -> 0 <= i -> block_len h i = h_blen h ->
      nth_error sums (Z.to_nat i) = Some (checksum1 (window h target p), strong H seed h (window h target p)) ->
      start p = true.

  (** The literal data sent for an edited file is at most the new bytes plus
      less than two block lengths per unedited stretch. *)
  Theorem edit_bound_script h' toks tr :
    no_accident ->
    send_one H seed chunk h sums target = SOk h' toks tr ->
    lits toks <= ins_bytes ps + 2 * (h_blen h - 1) * copies ps.
  Proof.
    intros Hna Hsend.
    assert (Hne : sums <> []).
    { pose proof (count_pos H seed h sums basis Hn Hb Hcount Hsums) as Hcp.
      intros E. specialize (Hsums 0 ltac:(lia)). rewrite E in Hsums. cbn in Hsums. discriminate. }
    assert (Hrem' : 0 <= h_rem h <= h_blen h).
    { rewrite Hrem. pose proof (Z.mod_pos_bound n (h_blen h) ltac:(lia)). lia. }
    pose proof (send_one_lits H seed chunk Hchunk h sums target Hb Hrem' start
                  start_listed Hna
                  (fun o o' => startP_sep ps 0 o o' Hok ltac:(lia))
                  freeb freeb_spec h' toks tr Hne Hsize Hsend) as Hl.
    fold size in Hl.
    pose proof (script_budget ps 0 Hok ltac:(lia) (fun p Hp => Hp)) as Hbud.
    rewrite nfz_0 in Hbud. replace (0 + lenZ (build ps)) with size in Hbud by (unfold size, target; lia).
    lia.
  Qed.
  (** [no_accident] is decidable by enumeration (used for the concrete
      instance in Properties/C16.v and, extracted, by the harness component
      editbound).  One pass over the suffixes of the target; the window's sums
      are computed once per offset. *)
  Definition sum_matchb (e : sumbuf) (s1 : Z) (s2 : list Z) : bool :=
    (fst e =? s1) && list_eqb (snd e) s2.
  Definition check_at (p : Z) (w : list Z) : bool :=
    let w1 := checksum1 w in
    let w2 := strong H seed h w in
    forallb (fun ie => if (block_len h (Z.of_nat (fst ie)) =? h_blen h) && sum_matchb (snd ie) w1 w2
                       then start p else true)
            (combine (seq 0 (length sums)) sums).
  Fixpoint na_scan (k : nat) (cur : list Z) (p : Z) : bool :=
    match k with
    | O => true
    | S k' => check_at p (takeZ (h_blen h) cur) && na_scan k' (tl cur) (p + 1)
    end.
  Definition no_accident_check : bool :=
    na_scan (Z.to_nat (size - h_blen h + 1)) target 0.

  Lemma in_combine_seq {A} (l : list A) : forall k i e,
    nth_error l i = Some e -> In ((k + i)%nat, e) (combine (seq k (length l)) l).
  Proof.
    clear Hn Hb Hcount Hrem Hsums Hok Hsize Hchunk.
    induction l as [|x l IH]; intros k i e Hnth0; [destruct i; discriminate|].
    cbn [length seq combine]. destruct i as [|i]; cbn [nth_error] in Hnth0.
    - inversion Hnth0; subst. left. f_equal. lia.
    - right. replace (k + S i)%nat with (S k + i)%nat by lia. now apply IH.
  Qed.

  Lemma tl_dropZ p (l : list Z) : 0 <= p -> tl (dropZ p l) = dropZ (p + 1) l.
  Proof.
    clear Hn Hb Hcount Hrem Hsums Hok Hsize Hchunk.
    intros Hp. rewrite <- (dropZ_dropZ 1 p l) by lia.
    destruct (dropZ p l) as [|x r]; [reflexivity|]. rewrite dropZ_skipn. reflexivity.
  Qed.

  Lemma na_scan_spec k : forall cur p, 0 <= p -> cur = dropZ p target -> na_scan k cur p = true ->
    forall q, p <= q < p + Z.of_nat k -> check_at q (window h target q) = true.
  Proof.
    clear Hn Hb Hcount Hrem Hsums Hok Hsize Hchunk.
    induction k as [|k IH]; intros cur p Hp Hcur Hs q Hq; [lia|].
    cbn [na_scan] in Hs. apply andb_true_iff in Hs. destruct Hs as [H0 Hr].
    destruct (Z.eq_dec q p) as [->|Hne].
    - unfold window. rewrite <- Hcur. exact H0.
    - apply (IH (tl cur) (p + 1)); [lia| |exact Hr|lia].
      rewrite Hcur. apply tl_dropZ. exact Hp.
  Qed.

  Lemma no_accident_by_check : no_accident_check = true -> no_accident.
  Proof.
    clear Hn Hb Hcount Hrem Hsums Hok Hsize Hchunk.
    intros Hc p i Hp Hps Hi Hbl Hnth. unfold no_accident_check in Hc.
    pose proof (na_scan_spec _ target 0 ltac:(lia) ltac:(now rewrite dropZ_0) Hc p ltac:(lia)) as Hat.
    unfold check_at in Hat. cbv zeta in Hat. rewrite forallb_forall in Hat.
    specialize (Hat (Z.to_nat i, (checksum1 (window h target p), strong H seed h (window h target p)))).
    assert (Hin : In (Z.to_nat i, (checksum1 (window h target p), strong H seed h (window h target p)))
                     (combine (seq 0 (length sums)) sums)).
    { apply (in_combine_seq sums 0 (Z.to_nat i)). exact Hnth. }
    specialize (Hat Hin). cbn [fst snd] in Hat. rewrite Z2Nat.id in Hat by lia.
    rewrite Hbl, Z.eqb_refl in Hat. unfold sum_matchb in Hat. cbn [fst snd andb] in Hat.
    rewrite Z.eqb_refl, list_eqb_refl in Hat. cbn [andb] in Hat. exact Hat.
  Qed.
End EditScript.
