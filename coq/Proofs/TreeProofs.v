From Coq Require Import ZArith List Bool Lia.
From RV Require Import Model.Bytes Model.Flist Model.Tree Proofs.BytesProofs.
Import ListNotations.
Open Scope Z_scope.

Lemma depth_child n t cs : In (n, t) cs -> (depth t < depth (TDir cs))%nat.
Proof.
  cbn [depth]. induction cs as [|[m u] r IH]; intros Hin; [destruct Hin|].
  cbn [fold_right snd]. destruct Hin as [E|Hin].
  - inversion E; subst. lia.
  - specialize (IH Hin). lia.
Qed.

Lemma assoc_in n cs t : assoc_name n cs = Some t -> In (n, t) cs.
Proof.
  induction cs as [|[m u] r IH]; cbn [assoc_name]; [discriminate|].
  destruct (list_eqb m n) eqn:E.
  - intros H. inversion H; subst. apply list_eqb_eq in E. subst. now left.
  - intros H. right. now apply IH.
Qed.

Section DeleteProofs.
  Variable listed : path -> bool.
  Variable protected : path -> bool.

  Definition verdict (fuel : nat) (rprefix : path) (n : name) (t : ftree) : option ftree :=
    let p := rev (n :: rprefix) in
    if listed p then Some (del_tree listed protected fuel (n :: rprefix) t)
    else if protected p then Some t else None.

  (** looking a name up in the walked directory; an entry's fate depends on
      its path only, so repeated names (which a real directory cannot have)
      are harmless *)
  Lemma assoc_del fuel rprefix n cs :
    (forall t1 t2, verdict fuel rprefix n t1 = None -> verdict fuel rprefix n t2 = None) ->
    assoc_name n (flat_map (fun nt =>
                  if listed (rev (fst nt :: rprefix))
                  then [(fst nt, del_tree listed protected fuel (fst nt :: rprefix) (snd nt))]
                  else if protected (rev (fst nt :: rprefix)) then [nt] else []) cs)
    = match assoc_name n cs with
      | None => None
      | Some t => verdict fuel rprefix n t
      end.
  Proof.
    intros Hsame.
    induction cs as [|[m u] r IH]; cbn [flat_map assoc_name app fst snd]; [reflexivity|].
    destruct (list_eqb m n) eqn:E.
    - apply list_eqb_eq in E. subst m. unfold verdict. cbv zeta.
      destruct (listed (rev (n :: rprefix))) eqn:Hl.
      + cbn [app assoc_name]. now rewrite list_eqb_refl.
      + destruct (protected (rev (n :: rprefix))) eqn:Hp.
        * cbn [app assoc_name]. now rewrite list_eqb_refl.
        * cbn [app]. rewrite IH. destruct (assoc_name n r) as [t2|]; [|reflexivity].
          unfold verdict. cbv zeta. now rewrite Hl, Hp.
    - destruct (listed (rev (m :: rprefix))).
      + cbn [app assoc_name]. rewrite E. exact IH.
      + destruct (protected (rev (m :: rprefix))).
        * cbn [app assoc_name]. rewrite E. exact IH.
        * cbn [app]. exact IH.
  Qed.

  Lemma verdict_same fuel rprefix n t1 t2 :
    verdict fuel rprefix n t1 = None -> verdict fuel rprefix n t2 = None.
  Proof.
    unfold verdict. cbv zeta. destruct (listed (rev (n :: rprefix))); [discriminate|].
    destruct (protected (rev (n :: rprefix))); [discriminate|reflexivity].
  Qed.

  (** the kind of entry found at a path *)
  Definition kind_at (t : ftree) (p : path) : option Z :=
    match lookup t p with
    | None => None
    | Some TFile => Some 0
    | Some TOther => Some 1
    | Some (TDir _) => Some 2
    end.

  Lemma kind_del_root fuel rprefix t :
    kind_at (del_tree listed protected fuel rprefix t) [] = kind_at t [].
  Proof. unfold kind_at. cbn [lookup]. destruct fuel; [reflexivity|]. destruct t; reflexivity. Qed.

  (** what survives the walk: exactly the paths that [keeps] accepts, each
      with its kind unchanged *)
  Lemma del_kind : forall p fuel rprefix t,
    (depth t <= fuel)%nat ->
    kind_at (del_tree listed protected fuel rprefix t) p =
    if keeps listed protected rprefix p then kind_at t p else None.
  Proof.
    induction p as [|c r IH]; intros fuel rprefix t Hf.
    - cbn [keeps]. apply kind_del_root.
    - destruct fuel as [|fuel]; [destruct t; cbn in Hf; lia|].
      cbn [keeps]. unfold kind_at in *. destruct t as [| |cs]; cbn [del_tree lookup].
      + destruct (listed (rev (c :: rprefix))); [|destruct (protected (rev (c :: rprefix)))]; try reflexivity.
        now destruct (keeps listed protected (c :: rprefix) r).
      + destruct (listed (rev (c :: rprefix))); [|destruct (protected (rev (c :: rprefix)))]; try reflexivity.
        now destruct (keeps listed protected (c :: rprefix) r).
      + rewrite (assoc_del fuel rprefix c cs (verdict_same fuel rprefix c)).
        destruct (assoc_name c cs) as [u|] eqn:Ea.
        * unfold verdict. cbv zeta.
          destruct (listed (rev (c :: rprefix))) eqn:Hl.
          -- apply IH. pose proof (depth_child c u cs (assoc_in _ _ _ Ea)). lia.
          -- destruct (protected (rev (c :: rprefix))); reflexivity.
        * destruct (listed (rev (c :: rprefix))); [|destruct (protected (rev (c :: rprefix)))]; try reflexivity.
          now destruct (keeps listed protected (c :: rprefix) r).
  Qed.

  Theorem delete_files_kind has_top ioerrors dry t p :
    kind_at (delete_files listed protected has_top ioerrors dry t) p =
    if (0 <? ioerrors) || dry || negb has_top then kind_at t p
    else if keeps listed protected [] p then kind_at t p else None.
  Proof.
    unfold delete_files.
    destruct ((0 <? ioerrors) || dry || negb has_top); [reflexivity|].
    apply del_kind. lia.
  Qed.

  (** nothing named in the list (with its ancestors) is ever removed *)
  Fixpoint all_listed (rprefix : path) (p : path) : bool :=
    match p with
    | [] => true
    | c :: r => listed (rev (c :: rprefix)) && all_listed (c :: rprefix) r
    end.

  Lemma all_listed_keeps : forall p rprefix, all_listed rprefix p = true -> keeps listed protected rprefix p = true.
  Proof.
    induction p as [|c r IH]; intros rprefix; cbn [all_listed keeps]; [reflexivity|].
    intros H. apply andb_true_iff in H. destruct H as [H1 H2]. rewrite H1. now apply IH.
  Qed.
End DeleteProofs.


(** ** the sender's filtered walk *)
Section SelectProofs.
  Variable rules : list frule.

  (** a path that exists in the tree (membership-based) *)
  Fixpoint path_in (t : ftree) (p : path) : Prop :=
    match p with
    | [] => True
    | c :: r => match t with
                | TDir cs => exists u, In (c, u) cs /\ path_in u r
                | _ => False
                end
    end.

  Lemma lookup_path_in : forall p t node, lookup t p = Some node -> path_in t p.
  Proof.
    induction p as [|c r IH]; intros t node H; cbn [path_in]; [exact I|].
    destruct t as [| |cs]; cbn [lookup] in H; try discriminate.
    destruct (assoc_name c cs) as [u|] eqn:Ea; [|discriminate].
    exists u. split; [now apply assoc_in|eapply IH; exact H].
  Qed.

  (** every selected name exists and has no excluded component on its way *)
  Lemma select_sound : forall fuel rprefix t q,
    In q (select rules fuel rprefix t) ->
    exists p, p <> [] /\ q = rev rprefix ++ p /\ path_in t p /\ allowed rules rprefix p = true.
  Proof.
    induction fuel as [|fuel IH]; intros rprefix t q Hin; [destruct Hin|].
    destruct t as [| |cs]; cbn [select] in Hin; try destruct Hin.
    apply in_flat_map in Hin. destruct Hin as ((n, u) & Hcs & Hq). cbn [fst snd] in Hq.
    destruct (excluded rules (rev (n :: rprefix))) eqn:Ex; [destruct Hq|].
    destruct Hq as [<-|Hq].
    - exists [n]. split; [discriminate|]. split; [cbn [rev]; reflexivity|]. split.
      + cbn [path_in]. exists u. split; [exact Hcs|exact I].
      + cbn [allowed]. now rewrite Ex.
    - apply IH in Hq. destruct Hq as (p & Hne & -> & Hp & Ha).
      exists (n :: p). split; [discriminate|]. split; [cbn [rev]; now rewrite <- app_assoc|]. split.
      + cbn [path_in]. exists u. split; [exact Hcs|exact Hp].
      + cbn [allowed]. rewrite Ex. exact Ha.
  Qed.

  (** every existing entry without an excluded component is selected *)
  Lemma select_complete : forall p fuel rprefix t node,
    (depth t <= fuel)%nat -> p <> [] ->
    lookup t p = Some node -> allowed rules rprefix p = true ->
    In (rev rprefix ++ p) (select rules fuel rprefix t).
  Proof.
    induction p as [|c r IH]; intros fuel rprefix t node Hf Hne Hl Ha; [congruence|].
    destruct fuel as [|fuel]; [destruct t; cbn in Hf; lia|].
    destruct t as [| |cs]; cbn [lookup] in Hl; try discriminate.
    destruct (assoc_name c cs) as [u|] eqn:Ea; [|discriminate].
    cbn [allowed] in Ha. destruct (excluded rules (rev (c :: rprefix))) eqn:Ex; [discriminate|].
    cbn [select]. apply in_flat_map. exists (c, u). split; [now apply assoc_in|].
    cbn [fst snd]. rewrite Ex.
    destruct r as [|c2 r2].
    - left. cbn [rev]. reflexivity.
    - right. replace (rev rprefix ++ c :: c2 :: r2) with (rev (c :: rprefix) ++ c2 :: r2)
        by (cbn [rev]; now rewrite <- app_assoc).
      eapply IH; [|discriminate|exact Hl|exact Ha].
      pose proof (depth_child c u cs (assoc_in _ _ _ Ea)). lia.
  Qed.

  (** first-match semantics of the rule list *)
  Lemma excluded_first_match : forall rs p,
    excluded rs p = true <->
    exists pre r post, rs = pre ++ r :: post /\ Forall (fun x => rule_matches x p = false) pre /\
                       rule_matches r p = true /\ r_include r = false.
  Proof.
    induction rs as [|r rs IH]; intros p; cbn [excluded].
    - split; [discriminate|]. intros (pre & r & post & E & _). destruct pre; discriminate.
    - destruct (rule_matches r p) eqn:Em.
      + split.
        * intros Hn. exists [], r, rs. split; [reflexivity|]. split; [constructor|]. split; [exact Em|now apply negb_true_iff].
        * intros (pre & r' & post & E & Hpre & Hm & Hi).
          destruct pre as [|x pre]; cbn in E; inversion E; subst.
          -- now rewrite Hi.
          -- inversion Hpre; subst. congruence.
      + rewrite IH. split.
        * intros (pre & r' & post & E & Hpre & Hm & Hi). exists (r :: pre), r', post.
          subst. split; [reflexivity|]. split; [constructor; assumption|]. split; assumption.
        * intros (pre & r' & post & E & Hpre & Hm & Hi).
          destruct pre as [|x pre]; cbn in E; inversion E; subst; [congruence|].
          exists pre, r', post. inversion Hpre; subst. auto.
  Qed.
End SelectProofs.

Lemma check_rules_some lines rs :
  check_rules lines = Some rs ->
  rs = map parse_rule lines /\ Forall (fun r => existsb is_wild_char (r_pattern r) = false) rs.
Proof.
  unfold check_rules. destruct (existsb r_wild (map parse_rule lines)) eqn:E; [discriminate|].
  intros H. inversion H; subst. split; [reflexivity|].
  apply Forall_forall. intros r Hin.
  assert (Hw : r_wild r = false).
  { destruct (r_wild r) eqn:Ew; [|reflexivity].
    assert (existsb r_wild (map parse_rule lines) = true) by (apply existsb_exists; eauto). congruence. }
  apply in_map_iff in Hin. destruct Hin as (l & <- & _).
  unfold parse_rule in *. destruct (strip_prefix2 45 32 l); [exact Hw|].
  destruct (strip_prefix2 43 32 l); exact Hw.
Qed.

Lemma check_rules_none lines :
  check_rules lines = None <-> exists l, In l lines /\ r_wild (parse_rule l) = true.
Proof.
  unfold check_rules. destruct (existsb r_wild (map parse_rule lines)) eqn:E.
  - split; [intros _|reflexivity]. apply existsb_exists in E. destruct E as (r & Hin & Hw).
    apply in_map_iff in Hin. destruct Hin as (l & <- & Hl). eauto.
  - split; [discriminate|]. intros (l & Hl & Hw).
    assert (existsb r_wild (map parse_rule lines) = true).
    { apply existsb_exists. exists (parse_rule l). split; [now apply in_map|exact Hw]. }
    congruence.
Qed.
