From Coq Require Import ZArith List Bool Lia.
From RV Require Import Model.Acl.
Import ListNotations.
Open Scope Z_scope.

(** A rule that evaluation steps over for address [a]. *)
Definition skips (a : addr) (r : rule) : Prop :=
  exists act w, r = Rule act w /\ matches w a = false.

Lemma eval_granted_iff rs a :
  eval_rules rs a = Granted <->
  Forall (skips a) rs \/
  exists pre w post, rs = pre ++ Rule Allow w :: post /\
                     Forall (skips a) pre /\ matches w a = true.
Proof.
  induction rs as [|r rs IH]; cbn [eval_rules].
  - split; [intros _; left; constructor|reflexivity].
  - destruct r as [act w|].
    + destruct (matches w a) eqn:Hm.
      * destruct act.
        -- split; [intros _|reflexivity].
           right. exists [], w, rs. repeat split; [constructor|assumption].
        -- split; [discriminate|].
           intros [HF|(pre & w' & post & Heq & HF & Hm')].
           ++ inversion HF as [|? ? (act' & w'' & E & Hs) _]; subst.
              inversion E; subst. congruence.
           ++ destruct pre as [|p pre]; cbn in Heq; inversion Heq; subst.
              inversion HF as [|? ? (act' & w'' & E & Hs) _]; subst.
              inversion E; subst. congruence.
      * rewrite IH. split.
        -- intros [HF|(pre & w' & post & Heq & HF & Hm')].
           ++ left. constructor; [exists act, w; auto|assumption].
           ++ right. exists (Rule act w :: pre), w', post. subst.
              repeat split; [constructor; [exists act, w; auto|assumption]|assumption].
        -- intros [HF|(pre & w' & post & Heq & HF & Hm')].
           ++ left. inversion HF; assumption.
           ++ destruct pre as [|p pre]; cbn in Heq; inversion Heq; subst.
              ** congruence.
              ** right. exists pre, w', post. inversion HF; subst. auto.
    + split; [discriminate|].
      intros [HF|(pre & w' & post & Heq & HF & Hm')].
      * inversion HF as [|? ? (act' & w'' & E & Hs) _]; discriminate.
      * destruct pre as [|p pre]; cbn in Heq; inversion Heq; subst.
        inversion HF as [|? ? (act' & w'' & E & Hs) _]; discriminate.
Qed.

Lemma eval_denied_iff rs a :
  eval_rules rs a = Denied <->
  exists pre w post, rs = pre ++ Rule Deny w :: post /\
                     Forall (skips a) pre /\ matches w a = true.
Proof.
  induction rs as [|r rs IH]; cbn [eval_rules].
  - split; [discriminate|]. intros (pre & w & post & Heq & _).
    destruct pre; discriminate.
  - destruct r as [act w|].
    + destruct (matches w a) eqn:Hm.
      * destruct act.
        -- split; [discriminate|].
           intros (pre & w' & post & Heq & HF & Hm').
           destruct pre as [|p pre]; cbn in Heq; inversion Heq; subst.
           inversion HF as [|? ? (act' & w'' & E & Hs) _]; subst.
           inversion E; subst. congruence.
        -- split; [intros _|reflexivity].
           exists [], w, rs. repeat split; [constructor|assumption].
      * rewrite IH. split.
        -- intros (pre & w' & post & Heq & HF & Hm').
           exists (Rule act w :: pre), w', post. subst.
           repeat split; [constructor; [exists act, w; auto|assumption]|assumption].
        -- intros (pre & w' & post & Heq & HF & Hm').
           destruct pre as [|p pre]; cbn in Heq; inversion Heq; subst.
           ++ congruence.
           ++ exists pre, w', post. inversion HF; subst. auto.
    + split; [discriminate|].
      intros (pre & w' & post & Heq & HF & Hm').
      destruct pre as [|p pre]; cbn in Heq; inversion Heq; subst.
      inversion HF as [|? ? (act' & w'' & E & Hs) _]; discriminate.
Qed.

Lemma eval_malformed_iff rs a :
  eval_rules rs a = DeniedMalformed <->
  exists pre post, rs = pre ++ Malformed :: post /\ Forall (skips a) pre.
Proof.
  induction rs as [|r rs IH]; cbn [eval_rules].
  - split; [discriminate|]. intros (pre & post & Heq & _).
    destruct pre; discriminate.
  - destruct r as [act w|].
    + destruct (matches w a) eqn:Hm.
      * split.
        -- destruct act; discriminate.
        -- intros (pre & post & Heq & HF).
           destruct pre as [|p pre]; cbn in Heq; inversion Heq; subst.
           inversion HF as [|? ? (act' & w'' & E & Hs) _]; subst.
           inversion E; subst. congruence.
      * rewrite IH. split.
        -- intros (pre & post & Heq & HF).
           exists (Rule act w :: pre), post. subst.
           split; [reflexivity|constructor; [exists act, w; auto|assumption]].
        -- intros (pre & post & Heq & HF).
           destruct pre as [|p pre]; cbn in Heq; inversion Heq; subst.
           exists pre, post. inversion HF; subst. auto.
    + split; [intros _|reflexivity].
      exists [], rs. split; [reflexivity|constructor].
Qed.

Lemma eval_never_badaddr rs a : eval_rules rs a <> DeniedBadAddr.
Proof.
  induction rs as [|[act w|] rs IH]; cbn [eval_rules]; try discriminate.
  destruct (matches w a); [destruct act; discriminate|assumption].
Qed.

(** Prefix containment is interval membership for a masked base. *)
Lemma in_prefix_spec width base plen a :
  0 <= plen <= width -> 0 <= a -> 0 <= base ->
  base mod 2 ^ (width - plen) = 0 ->
  in_prefix width base plen a = true <->
  base <= a < base + 2 ^ (width - plen).
Proof.
  intros Hp Ha Hb Hmask. unfold in_prefix.
  rewrite Z.eqb_eq, !Z.shiftr_div_pow2 by lia.
  set (m := 2 ^ (width - plen)) in *.
  assert (Hm : 0 < m) by (apply Z.pow_pos_nonneg; lia).
  pose proof (Z.div_mod base m ltac:(lia)) as Hbase. rewrite Hmask in Hbase.
  pose proof (Z.div_mod a m ltac:(lia)) as Hadm.
  pose proof (Z.mod_pos_bound a m Hm) as Hbound.
  clearbody m.
  split.
  - intros Heq. rewrite Heq in Hadm. lia.
  - intros [Hlo Hhi].
    symmetry. apply Z.div_unique with (r := a - base); lia.
Qed.

Lemma acl_stage_continue_iff rs remote :
  snd (acl_stage rs remote) = true <-> check_acl rs remote = Granted.
Proof.
  unfold acl_stage. destruct (check_acl rs remote); cbn; split; congruence.
Qed.

Lemma acl_stage_reply rs remote :
  fst (acl_stage rs remote) = ReplyOk <-> check_acl rs remote = Granted.
Proof.
  unfold acl_stage. destruct (check_acl rs remote); cbn; split; congruence.
Qed.
