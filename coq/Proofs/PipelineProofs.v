From Coq Require Import List Arith Lia.
From RV Require Import Model.Pipeline.
Import ListNotations.

Lemma advance_inv st g a :
  inv st -> s_write st = 0 -> s_plan st <> [] ->
  g + a + S (s_read st) = g_left st + ch_a st + s_read st ->
  inv (advance st g a).
Proof.
  intros (I1 & I2 & I3 & I4) W NE E. unfold advance.
  destruct (s_plan st) as [|[r d] rest] eqn:P; [contradiction|].
  cbn [sum_r fold_right fst] in I1. inversion I2 as [|? ? Hr Hrest]; subst.
  cbn [fst] in Hr.
  destruct (Nat.eqb (S (s_read st)) r) eqn:Q.
  - apply Nat.eqb_eq in Q. unfold inv. cbn [g_left ch_a s_plan s_read s_write ch_b].
    repeat split.
    + unfold sum_r in *. lia.
    + exact Hrest.
    + destruct rest as [|[r' d'] rest']; [reflexivity|]. inversion Hrest; subst. cbn [fst] in *. lia.
  - apply Nat.eqb_neq in Q. unfold inv. cbn [g_left ch_a s_plan s_read s_write ch_b].
    repeat split.
    + unfold sum_r in *. cbn [fold_right fst] in *. lia.
    + constructor; assumption.
    + lia.
    + intros F. lia.
Qed.

Lemma inv_step ca cb st st' : inv st -> step ca cb st st' -> inv st'.
Proof.
  intros I S. destruct S as [st G A|st C G W NE|st W NE A|st W B|st C W|st B].
  - destruct I as (I1 & I2 & I3 & I4). unfold inv. cbn [g_left ch_a s_plan s_read s_write ch_b]. repeat split; try assumption. lia.
  - apply advance_inv; try assumption. lia.
  - apply advance_inv; try assumption. lia.
  - destruct I as (I1 & I2 & I3 & I4). unfold inv. cbn [g_left ch_a s_plan s_read s_write ch_b]. repeat split; try assumption. intros _. apply I4. lia.
  - destruct I as (I1 & I2 & I3 & I4). unfold inv. cbn [g_left ch_a s_plan s_read s_write ch_b]. repeat split; try assumption. intros _. apply I4. lia.
  - destruct I as (I1 & I2 & I3 & I4). unfold inv. cbn [g_left ch_a s_plan s_read s_write ch_b]. repeat split; assumption.
Qed.

Lemma inv_init plan : Forall (fun p => 1 <= fst p) plan -> inv (init plan).
Proof.
  intros F. unfold inv, init. cbn [g_left ch_a s_plan s_read s_write ch_b]. repeat split; try assumption; try lia.
  destruct plan as [|[r d] rest]; [reflexivity|]. inversion F; subst. cbn [fst] in *. lia.
Qed.

(** no circular wait: a state that is not final always has an enabled step,
    for all capacities including zero *)
Lemma progress ca cb st : inv st -> ~ final st -> exists st', step ca cb st st'.
Proof.
  intros (I1 & I2 & I3 & I4) NF.
  destruct (Nat.eq_dec (s_write st) 0) as [W|W].
  - destruct (s_plan st) as [|[r d] rest] eqn:P.
    + (* nothing left to read: only channel B can hold anything *)
      cbn [sum_r fold_right] in I1.
      destruct (Nat.eq_dec (ch_b st) 0) as [B|B].
      * exfalso. apply NF. unfold final. repeat split; try assumption; lia.
      * eexists. apply rcv_get. lia.
    + destruct (Nat.eq_dec (ch_a st) 0) as [A|A].
      * assert (G : 0 < g_left st).
        { cbn [sum_r fold_right fst] in I1. lia. }
        destruct (Nat.eq_dec ca 0) as [C|C].
        -- eexists. apply gen_rendezvous; try assumption. rewrite P. discriminate.
        -- eexists. apply gen_put; lia.
      * eexists. apply snd_get; try assumption; [rewrite P; discriminate|lia].
  - destruct (Nat.eq_dec cb 0) as [C|C].
    + eexists. apply snd_rendezvous; [assumption|lia].
    + destruct (Nat.lt_ge_cases (ch_b st) cb) as [L|L].
      * eexists. apply snd_put; [lia|assumption].
      * eexists. apply rcv_get. lia.
Qed.

Lemma advance_measure st g a :
  s_write st = 0 -> s_plan st <> [] ->
  measure (advance st g a) = 3 * g + 2 * a + 2 * sum_d (s_plan st) + ch_b st.
Proof.
  intros W NE. unfold advance. destruct (s_plan st) as [|[r d] rest] eqn:P; [contradiction|].
  destruct (Nat.eqb (S (s_read st)) r); unfold measure; cbn [g_left ch_a s_plan s_write ch_b sum_d fold_right snd]; lia.
Qed.

Lemma measure_decreases ca cb st st' : step ca cb st st' -> measure st' < measure st.
Proof.
  intros S. destruct S as [st G A|st C G W NE|st W NE A|st W B|st C W|st B].
  - unfold measure. cbn [g_left ch_a s_plan s_read s_write ch_b]. lia.
  - rewrite advance_measure by assumption. unfold measure. rewrite W. lia.
  - rewrite advance_measure by assumption. unfold measure. rewrite W. lia.
  - unfold measure. cbn [g_left ch_a s_plan s_read s_write ch_b]. lia.
  - unfold measure. cbn [g_left ch_a s_plan s_read s_write ch_b]. lia.
  - unfold measure. cbn [g_left ch_a s_plan s_read s_write ch_b]. lia.
Qed.

(** every schedule is finite, and whatever prefix of a schedule has been run,
    the state reached is final or can move on *)
Lemma steps_bounded ca cb n st st' : steps ca cb n st st' -> n + measure st' <= measure st.
Proof.
  induction 1 as [|n st st1 st2 S _ IH]; [lia|]. apply measure_decreases in S. lia.
Qed.

Lemma steps_inv ca cb n st st' : inv st -> steps ca cb n st st' -> inv st'.
Proof. intros I S. induction S as [|n st st1 st2 S1 _ IH]; [exact I|]. apply IH. eapply inv_step; eauto. Qed.

Theorem no_deadlock ca cb plan n st :
  Forall (fun p => 1 <= fst p) plan ->
  steps ca cb n (init plan) st ->
  n <= measure (init plan) /\ (final st \/ exists st', step ca cb st st').
Proof.
  intros F S. split.
  - apply steps_bounded in S. lia.
  - assert (I : inv st) by (eapply steps_inv; [apply inv_init; exact F|exact S]).
    destruct st as [g a p r w b].
    destruct (Nat.eq_dec g 0), (Nat.eq_dec a 0), (Nat.eq_dec w 0), (Nat.eq_dec b 0), p as [|x p'];
      try (left; unfold final; cbn; repeat split; assumption);
      right; apply progress; try exact I; unfold final; cbn; intros (? & ? & ? & ? & ?); try lia; discriminate.
Qed.

(** a schedule that cannot be extended has delivered everything *)
Theorem maximal_schedules_complete ca cb plan n st :
  Forall (fun p => 1 <= fst p) plan ->
  steps ca cb n (init plan) st -> (forall st', ~ step ca cb st st') -> final st.
Proof.
  intros F S M. destruct (no_deadlock ca cb plan n st F S) as [_ [Fi|[st' St]]]; [exact Fi|].
  exfalso. exact (M st' St).
Qed.
