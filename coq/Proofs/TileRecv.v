From Coq Require Import ZArith List Bool Lia.
From RV Require Import Model.Bytes Model.Checksum Model.Delta Proofs.BytesProofs Proofs.DeltaProofs
     Proofs.TileProofs Proofs.GeneratorProofs Gen.Consts.
Import ListNotations.
Open Scope Z_scope.
Ltac Zify.zify_post_hook ::= Z.div_mod_to_equations.

(** A transmission that references every block of the generator's signature
    in order, followed by the whole-file sum of the basis, makes the receiver
    commit exactly the basis (an unchanged file sent as pure references is
    reproduced bit for bit). *)
Lemma all_refs_commit (H : list Z -> list Z) seed basis rest :
  (forall x, lenZ (H x) = 16) -> lenZ basis < 1099511627776 ->
  let h := sum_sizes_sqroot (lenZ basis) in
  receive_data H seed (Some basis)
    (enc_head h ++ enc_tokens (map (fun j => Ref (Z.of_nat j)) (seq 0 (Z.to_nat (h_count h)))) ++
     le32 0 ++ filesum H seed basis ++ rest) = (Commit basis, rest).
Proof.
  intros H16 Hlen h.
  pose proof (lenZ_nonneg basis) as Hn.
  assert (Hv : head_valid h) by (apply head_valid_sqroot; lia).
  assert (Hwf : Forall wf_token (map (fun j => Ref (Z.of_nat j)) (seq 0 (Z.to_nat (h_count h))))).
  { apply Forall_forall. intros t Ht. apply in_map_iff in Ht. destruct Ht as (j & <- & Hj).
    apply in_seq in Hj. cbn [wf_token]. unfold head_valid in Hv. lia. }
  pose proof (receive_data_exact H seed basis h _ (filesum H seed basis) rest Hv Hwf (H16 _)) as E.
  pose proof (denote_all_refs basis) as D. cbv zeta in D. fold h in D. rewrite D in E.
  rewrite E, list_eqb_refl. reflexivity.
Qed.
