From Coq Require Import ZArith List Bool Lia.
From RV Require Import Model.Bytes Model.Checksum Model.Delta Proofs.BytesProofs Gen.Consts.
Import ListNotations.
Open Scope Z_scope.
Ltac Zify.zify_post_hook ::= Z.div_mod_to_equations.

(** Geometry of the generator's block layout (SumSizesSqroot) as read by
    block_len (receiveSums / receiveData): the blocks lie inside the basis,
    are laid end to end, and the last one ends exactly at the end of the
    basis; an empty basis has no block. *)
Lemma sqroot_blocks_tile n :
  0 <= n ->
  let h := sum_sizes_sqroot n in
  (forall i, 0 <= i < h_count h -> 1 <= block_len h i <= h_blen h /\ i * h_blen h + block_len h i <= n) /\
  (forall i, 0 <= i < h_count h - 1 -> block_len h i = h_blen h) /\
  (0 < n -> 1 <= h_count h /\ (h_count h - 1) * h_blen h + block_len h (h_count h - 1) = n) /\
  (n = 0 -> h_count h = 0).
Proof.
  intros Hn. unfold sum_sizes_sqroot, c_blockSize, c_checksumLength. cbv zeta.
  set (bl := Z.max (Z.sqrt n) 700). assert (Hbl : 700 <= bl) by (unfold bl; lia).
  unfold block_len. cbn [h_count h_blen h_slen h_rem].
  set (cnt := (n + (bl - 1)) / bl). set (rm := n mod bl).
  assert (Hdm : n = bl * (n / bl) + rm) by (unfold rm; apply Z.div_mod; lia).
  assert (Hrm : 0 <= rm < bl) by (unfold rm; apply Z.mod_pos_bound; lia).
  assert (Hq : 0 <= n / bl) by (apply Z.div_pos; lia).
  assert (Hcnt : cnt = n / bl + (if rm =? 0 then 0 else 1)).
  { unfold cnt. destruct (rm =? 0) eqn:E.
    - apply Z.eqb_eq in E. symmetry. apply Z.div_unique with (r := bl - 1); [lia|nia].
    - apply Z.eqb_neq in E. symmetry. apply Z.div_unique with (r := rm - 1); [lia|nia]. }
  repeat split.
  - destruct ((i =? cnt - 1) && negb (rm =? 0)) eqn:E; [|lia].
    apply andb_prop in E. destruct E as [_ E]. apply negb_true_iff, Z.eqb_neq in E. lia.
  - destruct ((i =? cnt - 1) && negb (rm =? 0)) eqn:E; lia.
  - destruct ((i =? cnt - 1) && negb (rm =? 0)) eqn:E.
    + apply andb_prop in E. destruct E as [E1 E2]. apply Z.eqb_eq in E1.
      apply negb_true_iff in E2. rewrite E2 in Hcnt. nia.
    + destruct (rm =? 0) eqn:E2.
      * nia.
      * rewrite andb_true_r in E. apply Z.eqb_neq in E. nia.
  - intros i Hi. replace (i =? cnt - 1) with false by (symmetry; apply Z.eqb_neq; lia). reflexivity.
  - destruct (rm =? 0) eqn:E; [apply Z.eqb_eq in E|]; nia.
  - rewrite Z.eqb_refl. destruct (rm =? 0) eqn:E; cbn [negb andb].
    + apply Z.eqb_eq in E. nia.
    + nia.
  - intros ->. unfold cnt. apply Z.div_small. lia.
Qed.

(** Consequently every block of the generator's signature can be read back
    from the basis it was computed over: a reference to any block index below
    the count denotes exactly [block_len] bytes (receiveData's ReadAt cannot
    come up short on an unchanged basis). *)
Lemma sqroot_refs_readable basis i :
  let h := sum_sizes_sqroot (lenZ basis) in
  0 <= i < h_count h ->
  exists b, ref_bytes basis h i = Some b /\ lenZ b = block_len h i.
Proof.
  intros h Hi.
  destruct (sqroot_blocks_tile (lenZ basis) (lenZ_nonneg basis)) as (Hin & _).
  fold h in Hin. specialize (Hin i Hi). destruct Hin as [Hl Hin].
  assert (Hb : 700 <= h_blen h) by (unfold h, sum_sizes_sqroot, c_blockSize; cbn [h_blen]; lia).
  unfold ref_bytes, sub.
  replace ((0 <=? i * h_blen h) && (0 <=? block_len h i) && (i * h_blen h + block_len h i <=? lenZ basis))
    with true.
  2:{ symmetry. rewrite !andb_true_iff, !Z.leb_le. nia. }
  eexists. split; [reflexivity|].
  rewrite lenZ_takeZ; [reflexivity|]. rewrite lenZ_dropZ by nia. nia.
Qed.
(** The references to blocks k, k+1, ..., count-1 of the generator's
    signature, in order, denote the basis from byte k * blockLength on. *)
Lemma denote_refs_suffix basis :
  let h := sum_sizes_sqroot (lenZ basis) in
  forall m k, Z.of_nat k + Z.of_nat m = h_count h ->
    denote basis h (map (fun j => Ref (Z.of_nat j)) (seq k m)) =
    Some (dropZ (Z.of_nat k * h_blen h) basis).
Proof.
  intros h.
  pose proof (lenZ_nonneg basis) as Hn.
  destruct (sqroot_blocks_tile (lenZ basis) Hn) as (Hin & Hfull & Hlast & Hzero). fold h in Hin, Hfull, Hlast, Hzero.
  assert (Hb : 700 <= h_blen h) by (unfold h, sum_sizes_sqroot, c_blockSize; cbn [h_blen]; lia).
  induction m as [|m IH]; intros k Hk.
  - cbn [seq map denote]. rewrite dropZ_all; [reflexivity|].
    destruct (Z.eq_dec (lenZ basis) 0) as [E|E].
    + lia.
    + destruct (Hlast ltac:(lia)) as [Hc1 He].
      specialize (Hin (h_count h - 1) ltac:(lia)). nia.
  - cbn [seq map denote].
    rewrite (IH (S k)) by lia.
    assert (Hki : 0 <= Z.of_nat k < h_count h) by lia.
    destruct (Hin _ Hki) as [Hl Hi].
    unfold ref_bytes, sub.
    replace ((0 <=? Z.of_nat k * h_blen h) && (0 <=? block_len h (Z.of_nat k)) &&
             (Z.of_nat k * h_blen h + block_len h (Z.of_nat k) <=? lenZ basis)) with true
      by (symmetry; rewrite !andb_true_iff, !Z.leb_le; nia).
    f_equal.
    replace (Z.of_nat (S k) * h_blen h) with (Z.of_nat k * h_blen h + h_blen h) by lia.
    destruct (Z.eq_dec (Z.of_nat k) (h_count h - 1)) as [E|E].
    + (* last block: it runs to the end of the basis *)
      destruct (Hlast ltac:(nia)) as [_ He]. rewrite <- E in He.
      rewrite takeZ_all by (rewrite lenZ_dropZ by nia; lia).
      rewrite (dropZ_all (Z.of_nat k * h_blen h + h_blen h)) by lia.
      apply app_nil_r.
    + rewrite (Hfull (Z.of_nat k)) by lia.
      rewrite <- (dropZ_dropZ (h_blen h) (Z.of_nat k * h_blen h)) by nia.
      apply takeZ_app_dropZ.
Qed.

(** The blocks tile the basis: referencing every block of the generator's
    signature once, in order, denotes exactly the basis. *)
Lemma denote_all_refs basis :
  let h := sum_sizes_sqroot (lenZ basis) in
  denote basis h (map (fun j => Ref (Z.of_nat j)) (seq 0 (Z.to_nat (h_count h)))) = Some basis.
Proof.
  intros h.
  assert (Hc : 0 <= h_count h).
  { unfold h, sum_sizes_sqroot, c_blockSize. cbn [h_count]. pose proof (lenZ_nonneg basis).
    apply Z.div_pos; lia. }
  pose proof (denote_refs_suffix basis (Z.to_nat (h_count h)) 0%nat) as Hs. cbv zeta in Hs. fold h in Hs.
  rewrite Hs by lia. cbn [Z.of_nat]. rewrite Z.mul_0_l, dropZ_0. reflexivity.
Qed.
