(** A whole session over a file list, built from the per-file pipeline. *)
From Coq Require Import ZArith List Bool.
From RV Require Import Model.Bytes Model.Md4 Model.Checksum Model.Delta Model.Sender Model.Generator
     Proofs.BytesProofs Proofs.SenderProofs Proofs.SearchInv Proofs.GeneratorProofs.
Import ListNotations.
Open Scope Z_scope.

Definition fname := list Z.
Definition dest := fname -> option (list Z).          (* content of the regular file at a path, if any *)

Definition dupdate (d : dest) (n : fname) (c : list Z) : dest :=
  fun m => if list_eqb m n then Some c else d m.

Section TreeSync.
  Variable H : list Z -> list Z.
  Variables seed chunk : Z.
  Variable requested : fname -> bool.                   (* the update rule's verdict per listed file (C12) *)

  (** one listed regular file: skipped, or run through generator -> sender -> receiver *)
  Definition sync_step (d : dest) (nc : fname * list Z) : dest :=
    if requested (fst nc) then
      match file_transfer H seed chunk (snd nc) (d (fst nc)) with
      | Commit x => dupdate d (fst nc) x
      | _ => d
      end
    else d.

  Definition sync_all (files : list (fname * list Z)) (d : dest) : dest := fold_left sync_step files d.

  Hypothesis H16 : forall x, lenZ (H x) = 16.
  Hypothesis Hchunk : 1 <= chunk < 2147483648.

  (** the per-file side condition of sync_file_correct, against the destination as it was before the session *)
  Definition file_ok (d : dest) (nc : fname * list Z) : Prop :=
    lenZ (snd nc) < 1099511627776 /\
    match d (fst nc) with
    | Some b => lenZ b < 1099511627776 /\ no_collision H seed b (fst (gen_sums H seed b)) (snd nc)
    | None => True
    end.

  Lemma sync_step_other d nc m : list_eqb m (fst nc) = false -> sync_step d nc m = d m.
  Proof.
    intros E. unfold sync_step. destruct nc as [n c]. cbn [fst snd] in *.
    destruct (requested n); [|reflexivity].
    destruct (file_transfer H seed chunk c (d n)); try reflexivity.
    unfold dupdate. now rewrite E.
  Qed.

  Lemma sync_all_other files : forall d m,
    (forall nc, In nc files -> list_eqb m (fst nc) = false) -> sync_all files d m = d m.
  Proof.
    induction files as [|nc files IH]; intros d m Hm; [reflexivity|].
    cbn [sync_all fold_left]. change (fold_left sync_step files ?x) with (sync_all files x).
    rewrite IH by (intros nc' Hin; apply Hm; now right).
    apply sync_step_other. apply Hm. now left.
  Qed.

  Lemma list_eqb_neq (a b : list Z) : a <> b -> list_eqb a b = false.
  Proof. intros N. destruct (list_eqb a b) eqn:E; [|reflexivity]. apply list_eqb_eq in E. contradiction. Qed.

  (** After the session every requested file of the list holds exactly the
      source's bytes, every other path is as it was. *)
  Theorem sync_all_correct files : forall d,
    NoDup (map fst files) ->
    (forall nc, In nc files -> requested (fst nc) = true -> file_ok d nc) ->
    (forall n c, In (n, c) files -> requested n = true -> sync_all files d n = Some c) /\
    (forall n c, In (n, c) files -> requested n = false -> sync_all files d n = d n) /\
    (forall m, ~ In m (map fst files) -> sync_all files d m = d m).
  Proof.
    induction files as [|[n0 c0] files IH]; intros d ND OK.
    - repeat split; intros; try contradiction; reflexivity.
    - inversion ND as [|? ? Hnotin ND']; subst.
      set (d1 := sync_step d (n0, c0)).
      assert (Hsame : forall nc, In nc files -> d1 (fst nc) = d (fst nc)).
      { intros nc Hin. unfold d1. apply sync_step_other. cbn [fst]. apply list_eqb_neq.
        intros E. apply Hnotin. rewrite <- E. now apply in_map. }
      assert (OK1 : forall nc, In nc files -> requested (fst nc) = true -> file_ok d1 nc).
      { intros nc Hin Hr. unfold file_ok. rewrite (Hsame nc Hin). apply OK; [now right|exact Hr]. }
      destruct (IH d1 ND' OK1) as (I1 & I2 & I3).
      cbn [sync_all fold_left]. change (fold_left sync_step files ?x) with (sync_all files x). fold d1.
      assert (Hd1 : forall m, ~ In m (map fst files) -> sync_all files d1 m = d1 m) by exact I3.
      repeat split.
      + intros n c [E|Hin] Hr.
        * injection E as <- <-. rewrite Hd1 by exact Hnotin. unfold d1, sync_step. cbn [fst snd]. rewrite Hr.
          destruct (OK (n0, c0) (or_introl eq_refl) Hr) as [Hs Hb]. cbn [fst snd] in Hs, Hb.
          rewrite (file_transfer_correct H seed chunk H16 Hchunk c0 (d n0) Hs Hb).
          unfold dupdate. now rewrite list_eqb_refl.
        * now apply I1.
      + intros n c [E|Hin] Hr.
        * injection E as <- <-. rewrite Hd1 by exact Hnotin. unfold d1, sync_step. cbn [fst]. now rewrite Hr.
        * rewrite (I2 n c Hin Hr). apply (Hsame (n, c) Hin).
      + intros m Hm. cbn [map fst] in Hm. rewrite Hd1 by (intros Hin; apply Hm; now right).
        unfold d1. apply sync_step_other. cbn [fst]. apply list_eqb_neq. intros E. apply Hm. now left.
  Qed.
End TreeSync.
