#!/bin/sh
# Extract the model and build the OCaml runner. Run from anywhere.
set -e
cd "$(dirname "$0")"
rm -f model.ml model.mli
timeout 600 coqc -R .. RV Extract.v > extract.log 2>&1 || { cat extract.log; exit 1; }
timeout 600 ocamlfind ocamlopt -O3 -unboxed-types 2>/dev/null -package str model.mli model.ml driver.ml -o modelrun 2>/dev/null || \
timeout 600 ocamlfind ocamlopt -w -a -package str model.mli model.ml driver.ml -o modelrun
