(** Extraction of the executable model for the correspondence harness.
    Only ExtrOcamlBasic (bool/option/list/prod/unit/sumbool to OCaml natives);
    nat, positive, N and Z stay Coq datatypes.  No Extract Constant. *)
From Coq Require Import Extraction ExtrOcamlBasic ExtrOcamlNativeString ZArith List.
From RV Require Import Model.Acl Model.Bytes Model.Md4 Model.Checksum Model.Delta Model.Sender Model.Mux Model.Flist Model.Generator Model.Popt Model.Tree Model.GenOps Model.Session Model.Atomic Model.Daemon Model.Serve Model.Ssh Model.Root Gen.Consts Proofs.EditBound.
Extraction Language OCaml.
Extraction "model.ml"
  Z.add Z.mul Z.sub Z.opp Z.compare Z.of_nat Z.to_nat Z.eqb Z.ltb Z.div Z.modulo
  check_acl acl_stage
  md4 checksum1 tag sum_sizes_sqroot send_one receive_data
  read_full bufio_read mux_read read_msg
  recv_file_list send_file_list path_clean sort_entries find_in_list
  gen_decision gen_sums enc_sums file_transfer
  parse_arguments server_options wire_view getf setf
  delete_files select_all excluded parse_rule render lookup
  run_sender_session echo recv_steps a_run daemon_request daemon_serve admits anon_exec root_resolve rlookup
  entry_step gen_entry' recv_ops run_ops touch_up_ops c_S_IFIFO c_S_IFSOCK c_S_IFCHR c_S_IFBLK c_chunkSize c_sendFile_chunkSize
  no_accident_check build ins_bytes copies lits client_names.
