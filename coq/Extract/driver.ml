(* Line-protocol driver around the extracted model (trusted for the
   correspondence leg only). One case per line, tab separated:
   component <TAB> id <TAB> fields...   ->   component <TAB> id <TAB> observable *)
open Model

let z_of_int (i : int) : z =
  let rec pos n = if n = 1 then XH else if n land 1 = 0 then XO (pos (n lsr 1)) else XI (pos (n lsr 1)) in
  if i = 0 then Z0 else if i > 0 then Zpos (pos i) else Zneg (pos (-i))

let ten = z_of_int 10

let z_of_string (s : string) : z =
  let neg = String.length s > 0 && s.[0] = '-' in
  let start = if neg then 1 else 0 in
  let acc = ref Z0 in
  for i = start to String.length s - 1 do
    let d = Char.code s.[i] - 48 in
    if d < 0 || d > 9 then failwith ("bad integer: " ^ s);
    acc := Z.add (Z.mul !acc ten) (z_of_int d)
  done;
  if neg then Z.opp !acc else !acc

let rec int_of_pos = function
  | XH -> 1 | XO p -> 2 * int_of_pos p | XI p -> 2 * int_of_pos p + 1
let int_of_z = function Z0 -> 0 | Zpos p -> int_of_pos p | Zneg p -> - (int_of_pos p)

(* decimal printing of arbitrary-size z *)
let string_of_z (v : z) : string =
  let neg, v = (match v with Zneg p -> true, Zpos p | _ -> false, v) in
  if v = Z0 then "0" else begin
    let buf = Buffer.create 16 in
    let cur = ref v in
    let digits = ref [] in
    while !cur <> Z0 do
      let q = Z.div !cur ten and r = Z.modulo !cur ten in
      digits := (Char.chr (48 + int_of_z r)) :: !digits;
      cur := q
    done;
    if neg then Buffer.add_char buf '-';
    List.iter (Buffer.add_char buf) !digits;
    Buffer.contents buf
  end

let split c s = if s = "" then [] else String.split_on_char c s

let bytes_of_hex (s : string) : z list =
  if s = "-" || s = "" then [] else begin
    let n = String.length s / 2 in
    let hv c = match c with
      | '0'..'9' -> Char.code c - 48
      | 'a'..'f' -> Char.code c - 87
      | 'A'..'F' -> Char.code c - 55
      | _ -> failwith "bad hex" in
    let tbl = Array.init 256 z_of_int in
    let rec go i acc = if i < 0 then acc
      else go (i-1) (tbl.(hv s.[2*i] * 16 + hv s.[2*i+1]) :: acc) in
    go (n-1) []
  end

let hex_of_bytes (l : z list) : string =
  match l with [] -> "-" | _ ->
  let buf = Buffer.create (2 * List.length l) in
  List.iter (fun b -> Buffer.add_string buf (Printf.sprintf "%02x" (int_of_z b))) l;
  Buffer.contents buf

let hex_of_bytes_plain (l : z list) : string =
  let buf = Buffer.create (2 * List.length l) in
  List.iter (fun b -> Buffer.add_string buf (Printf.sprintf "%02x" (int_of_z b))) l;
  Buffer.contents buf

(* ---- native MD4 (instantiates the model's hash parameter H for speed; the
   Gallina md4 is cross-checked against the implementation by component
   "md4", and the theorems hold for every H) ---- *)
let md4_native (msg : Bytes.t) : Bytes.t =
  let n = Bytes.length msg in
  let padlen = let r = (n + 1) mod 64 in (if r <= 56 then 56 - r else 120 - r) in
  let total = n + 1 + padlen + 8 in
  let p = Bytes.make total '\000' in
  Bytes.blit msg 0 p 0 n;
  Bytes.set p n '\x80';
  let bits = Int64.mul (Int64.of_int n) 8L in
  for i = 0 to 7 do
    Bytes.set p (total - 8 + i) (Char.chr (Int64.to_int (Int64.logand (Int64.shift_right_logical bits (8*i)) 0xffL)))
  done;
  let m = 0xffffffff in
  let rotl x s = ((x lsl s) land m) lor (x lsr (32 - s)) in
  let a = ref 0x67452301 and b = ref 0xefcdab89 and c = ref 0x98badcfe and d = ref 0x10325476 in
  let x = Array.make 16 0 in
  for blk = 0 to total / 64 - 1 do
    for i = 0 to 15 do
      let o = blk * 64 + 4 * i in
      x.(i) <- Char.code (Bytes.get p o) lor (Char.code (Bytes.get p (o+1)) lsl 8)
               lor (Char.code (Bytes.get p (o+2)) lsl 16) lor (Char.code (Bytes.get p (o+3)) lsl 24)
    done;
    let aa = !a and bb = !b and cc = !c and dd = !d in
    let f x y z = (x land y) lor ((lnot x) land m land z) in
    let g x y z = (x land y) lor (x land z) lor (y land z) in
    let h x y z = x lxor y lxor z in
    let st = [| !a; !b; !c; !d |] in
    (* registers rotate: position 0 is updated, then the state becomes (d,a',b,c) *)
    let round fn cst order shifts =
      List.iteri (fun j k ->
        let s = List.nth shifts (j mod 4) in
        let a0 = st.(0) and b0 = st.(1) and c0 = st.(2) and d0 = st.(3) in
        let a' = rotl ((a0 + fn b0 c0 d0 + x.(k) + cst) land m) s in
        st.(0) <- d0; st.(1) <- a'; st.(2) <- b0; st.(3) <- c0) order in
    round f 0 [0;1;2;3;4;5;6;7;8;9;10;11;12;13;14;15] [3;7;11;19];
    round g 0x5a827999 [0;4;8;12;1;5;9;13;2;6;10;14;3;7;11;15] [3;5;9;13];
    round h 0x6ed9eba1 [0;8;4;12;2;10;6;14;1;9;5;13;3;11;7;15] [3;9;11;15];
    a := (aa + st.(0)) land m; b := (bb + st.(1)) land m;
    c := (cc + st.(2)) land m; d := (dd + st.(3)) land m
  done;
  let out = Bytes.create 16 in
  List.iteri (fun i v ->
    for j = 0 to 3 do Bytes.set out (4*i+j) (Char.chr ((v lsr (8*j)) land 0xff)) done) [!a; !b; !c; !d];
  out

let byte_tbl = Array.init 256 z_of_int
let zlist_of_bytes (b : Bytes.t) : z list =
  let rec go i acc = if i < 0 then acc else go (i-1) (byte_tbl.(Char.code (Bytes.get b i)) :: acc) in
  go (Bytes.length b - 1) []
let bytes_of_zlist (l : z list) : Bytes.t =
  let n = List.length l in
  let b = Bytes.create n in
  List.iteri (fun i v -> Bytes.set b i (Char.chr (int_of_z v))) l; b
let h_native (l : z list) : z list = zlist_of_bytes (md4_native (bytes_of_zlist l))

let fnv64 (l : z list) : string =
  let h = ref 0xcbf29ce484222325L in
  List.iter (fun b -> h := Int64.mul (Int64.logxor !h (Int64.of_int (int_of_z b))) 0x100000001b3L) l;
  Printf.sprintf "%016Lx" !h

(* chunk sizes regenerated from /repo (Gen/Consts.v): the search's literal
   flushes and the whole-file path of sendFile *)
let chunk_size = c_chunkSize
let chunk_for (sums : 'a list) (target : 'b list) =
  if sums = [] || target = [] then c_sendFile_chunkSize else c_chunkSize

let parse_head (s : string) : sum_head =
  match List.map z_of_string (split ',' s) with
  | [c; b; sl; r] -> { h_count = c; h_blen = b; h_slen = sl; h_rem = r }
  | _ -> failwith "bad head"

let string_of_head (h : sum_head) =
  Printf.sprintf "%s,%s,%s,%s" (string_of_z h.h_count) (string_of_z h.h_blen) (string_of_z h.h_slen) (string_of_z h.h_rem)

let string_of_tokens (ts : token list) : string =
  String.concat "," (List.map (function
    | Lit bs -> Printf.sprintf "L%d:%s" (List.length bs) (fnv64 bs)
    | Ref i -> "R" ^ string_of_z i) ts)

(* ---- md4: Gallina md4 (the model's) ---- *)
let run_md4 fields = match fields with
  | [hx] -> hex_of_bytes (md4 (bytes_of_hex hx))
  | _ -> failwith "md4: want 1 field"

(* ---- sender ---- *)
let run_sender fields = match fields with
  | [seed; head; sums; target] ->
    let h = parse_head head in
    let sums = List.map (fun s -> match split ':' s with
      | [s1; s2] -> (z_of_string s1, bytes_of_hex s2)
      | _ -> failwith "bad sum") (split ';' sums) in
    let target = bytes_of_hex target in
    (match send_one h_native (z_of_string seed) (chunk_for sums target) h sums target with
     | SOk (h', toks, trailer) ->
       Printf.sprintf "H:%s|T:%s|S:%s" (string_of_head h') (string_of_tokens toks)
         (String.concat "" (List.map (fun b -> Printf.sprintf "%02x" (int_of_z b)) trailer))
     | SCrash CrashUpdate0 -> "CRASH:update0"
     | SCrash CrashUpdateK -> "CRASH:updatek"
     | SFuel -> "FUEL")
  | _ -> failwith "sender: want 4 fields"

(* ---- recv: receive_data on a raw stream ---- *)
let run_recv fields = match fields with
  | [seed; basis; wire] ->
    let b = if basis = "none" then None else Some (bytes_of_hex basis) in
    (match fst (receive_data h_native (z_of_string seed) b (bytes_of_hex wire)) with
     | Commit bs -> "C:" ^ hex_of_bytes bs
     | Reject _ -> "E:corruption"
     | RErrShort -> "E:eof"
     | RErrBasisRead -> "E:eof"
     | RErrHead -> "E:head"
     | RErrNoBasis -> "E:nobasis"
     | RErrFuel -> "E:fuel")
  | _ -> failwith "recv: want 3 fields"

(* ---- mux: frames through the demultiplexer and the buffered reader ---- *)
let run_mux fields = match fields with
  | [bsz; stream; sizes] ->
    let bsz = z_of_string bsz in
    let sizes = List.map z_of_string (split ',' sizes) in
    let rec go st sizes acc = match sizes with
      | [] -> List.rev acc
      | n :: rest ->
        let fuel = Z.to_nat (Z.add (Z.add n (z_of_int (List.length st.bsrc))) (z_of_int 2)) in
        (match read_full fuel bsz n [] st with
         | BOk (got, st') -> go st' rest (("ok:" ^ hex_of_bytes got) :: acc)
         | BErrMsg m -> List.rev (("errmsg:" ^ hex_of_bytes m) :: acc)
         | BErrTag _ -> List.rev ("tag" :: acc)
         | BErrIO -> List.rev ("eof" :: acc)
         | BErrLong -> List.rev ("long" :: acc)
         | BCrash -> List.rev ("crash" :: acc)) in
    String.concat ";" (go { bbuf = []; bsrc = bytes_of_hex stream } sizes [])
  | _ -> failwith "mux: want 3 fields"

(* ---- file list ---- *)
let parse_fopts (s : string) : fopts =
  let b i = s.[i] = '1' in
  { o_uid = b 0; o_gid = b 1; o_links = b 2; o_devices = b 3; o_specials = b 4; o_checksum = b 5 }

let dump_entry (o : fopts) (e : fentry) : string =
  Printf.sprintf "%s/%s/%s/%s/%s/%s/%s/%s/%s" (hex_of_bytes e.e_name) (string_of_z e.e_len)
    (string_of_z e.e_mtime) (string_of_z e.e_mode) (string_of_z e.e_uid) (string_of_z e.e_gid)
    (string_of_z e.e_rdev) (hex_of_bytes e.e_link) (if o.o_checksum then hex_of_bytes e.e_csum else "-")

let parse_entry (s : string) : fentry =
  match split '/' s with
  | [n; l; mt; md; u; g; rd; lk; cs] ->
    { e_name = bytes_of_hex n; e_len = z_of_string l; e_mtime = z_of_string mt; e_mode = z_of_string md;
      e_uid = z_of_string u; e_gid = z_of_string g; e_rdev = z_of_string rd; e_link = bytes_of_hex lk;
      e_csum = bytes_of_hex cs }
  | _ -> failwith ("bad entry " ^ s)

let dump_ids (l : (z * z list) list) : string =
  let l = List.sort (fun (a, _) (b, _) -> compare (int_of_z a) (int_of_z b)) l in
  String.concat "," (List.map (fun (i, n) -> string_of_z i ^ ":" ^ hex_of_bytes n) l)

let parse_ids (s : string) : (z * z list) list =
  List.map (fun x -> match split ':' x with
    | [i; n] -> (z_of_string i, bytes_of_hex n) | _ -> failwith "bad id") (split ',' s)

(* entries with identical names: the implementation's order among them depends on an unstable sort *)
let name_of_dump (s : string) : string = match String.index_opt s '/' with Some i -> String.sub s 0 i | None -> s
let rec canon_runs (l : string list) : string list = match l with
  | [] -> []
  | x :: _ ->
    let nx = name_of_dump x in
    let rec span acc = function
      | y :: r when name_of_dump y = nx -> span (y :: acc) r
      | r -> (List.rev acc, r) in
    let (run, rest) = span [] l in
    List.sort compare run @ canon_runs rest
let run_flist_dec fields = match fields with
  | [opts; wire] ->
    let o = parse_fopts opts in
    let w = bytes_of_hex wire in
    (match recv_file_list o w with
     | Inr FShort -> "ERR:short"
     | Inr FOverflow -> "ERR:overflow"
     | Inr FBadLink -> "ERR:overflow"
     | Inl r ->
       Printf.sprintf "OK|%s|U:%s|G:%s|IO:%s|C:%d"
         (String.concat ";" (canon_runs (List.map (dump_entry o) r.fr_entries)))
         (dump_ids r.fr_uids) (dump_ids r.fr_gids) (string_of_z r.fr_ioerr)
         (List.length w - List.length r.fr_rest))
  | _ -> failwith "flist_dec: want 2 fields"

let run_flist_enc fields = match fields with
  | [opts; entries; uids; gids; ioerr] ->
    let o = parse_fopts opts in
    let es = List.map parse_entry (split ';' entries) in
    let w = send_file_list o es (parse_ids uids) (parse_ids gids) (z_of_string ioerr) in
    String.concat "" (List.map (fun b -> Printf.sprintf "%02x" (int_of_z b)) w)
  | _ -> failwith "flist_enc: want 5 fields"

(* ---- generator: update decision, block checksums ---- *)
let run_decision fields = match fields with
  | [ac; it; d; ssize; smtime; scsum] ->
    let dst = (match split ':' d with
      | ["missing"] -> DstMissing
      | ["other"] -> DstOther
      | ["file"; sz; mt; content] -> DstFile (z_of_string sz, z_of_string mt, bytes_of_hex content)
      | _ -> failwith "bad dst state") in
    (match gen_decision h_native (ac = "1") (it = "1") dst (z_of_string ssize) (z_of_string smtime) (bytes_of_hex scsum) with
     | DSkip -> "skip" | DFull -> "transfer" | DDelta -> "transfer")
  | _ -> failwith "decision: want 6 fields"

let run_gensums fields = match fields with
  | [seed; data] ->
    let (h, sums) = gen_sums h_native (z_of_string seed) (bytes_of_hex data) in
    hex_of_bytes (enc_sums h sums)
  | _ -> failwith "gensums: want 2 fields"


(* ---- generator file-system operations for one entry ---- *)
let now_sentinel = z_of_string "-4000000000000000000"
let kind_name (k : lkind) : string = match k with
  | KDir -> "dir" | KReg -> "reg" | KLnk -> "lnk"
  | KOther t -> if t = c_S_IFIFO then "fifo" else if t = c_S_IFSOCK then "sock"
                else if t = c_S_IFCHR then "chr" else if t = c_S_IFBLK then "blk" else "other"
let kind_of_name (s : string) : lkind = match s with
  | "dir" | "dir-nonempty" -> KDir | "reg" -> KReg | "lnk" -> KLnk
  | "fifo" -> KOther c_S_IFIFO | "sock" -> KOther c_S_IFSOCK | "chr" -> KOther c_S_IFCHR | "blk" -> KOther c_S_IFBLK
  | _ -> failwith ("bad kind " ^ s)
let oct_of_z (v : z) : string = Printf.sprintf "%o" (int_of_z v)
let show_pstate (s : pstate) : string = match s with
  | PAbsent -> "absent"
  | PNode (st, _) ->
    let k = kind_name st.l_kind in
    let perm = if st.l_kind = KLnk then "777" else oct_of_z st.l_perm in
    let mt = if st.l_kind = KLnk then "-" else if st.l_mtime = now_sentinel then "now" else string_of_z st.l_mtime in
    Printf.sprintf "%s:%s:%s:%s:%s:%s:%s" k perm mt (string_of_z st.l_uid) (string_of_z st.l_gid)
      (hex_of_bytes st.l_link) (string_of_z st.l_rdev)
let parse_gopts (bits : string) (umask : string) : gopts * bool * bool =
  let b i = bits.[i] = '1' in
  ({ g_dry = b 0; g_links = b 1; g_devices = b 2; g_specials = b 3; g_perms = b 4; g_times = b 5;
     g_uid = b 6; g_gid = b 7; g_am_root = true; g_umask = z_of_string umask }, b 8, b 9)
let parse_prior (s : string) : pstate =
  match split ':' s with
  | ["none"] -> PAbsent
  | [k; perm; mt; u; g; lk; rd; content] ->
    let kind = kind_of_name k in
    let isdev = (k = "chr" || k = "blk") in
    PNode ({ l_kind = kind; l_perm = (if k = "lnk" then z_of_int 511 else z_of_string perm); l_mtime = z_of_string mt;
             l_uid = z_of_string u; l_gid = z_of_string g;
             l_link = (if k = "lnk" then bytes_of_hex lk else []);
             l_rdev = (if isdev then z_of_string rd else Z0); l_nonempty = (k = "dir-nonempty") },
           (if k = "reg" then bytes_of_hex content else []))
  | _ -> failwith ("bad prior " ^ s)
let run_genops fields = match fields with
  | [bits; umask; ent; prior] ->
    let (o, ac, it) = parse_gopts bits umask in
    let e = (match split ':' ent with
      | [l; mt; md; u; g; rd; lk; cs] ->
        { e_name = [z_of_int 101]; e_len = z_of_string l; e_mtime = z_of_string mt; e_mode = z_of_string md;
          e_uid = z_of_string u; e_gid = z_of_string g; e_rdev = z_of_string rd; e_link = bytes_of_hex lk;
          e_csum = bytes_of_hex cs }
      | _ -> failwith "bad entry") in
    let (s', rq) = entry_step h_native o ac it e now_sentinel (parse_prior prior) in
    (match rq with
     | ReqError -> "ERR"
     | _ -> show_pstate s' ^ "|" ^
            (match rq with ReqNone -> "none" | ReqFull -> if o.g_dry then "dry-request" else "full"
                         | ReqDelta -> if o.g_dry then "dry-request" else "delta" | ReqError -> "ERR"))
  | _ -> failwith "genops: want 4 fields"


(* ---- C16: edit scripts; the theorem's hypothesis and bound evaluated by the extracted definitions ---- *)
let run_editbound fields = match fields with
  | [seed; head; sums; basis; script] ->
    let h = parse_head head in
    let sums = List.map (fun s -> match split ':' s with
      | [s1; s2] -> (z_of_string s1, bytes_of_hex s2)
      | _ -> failwith "bad sum") (split ';' sums) in
    let basis = bytes_of_hex basis in
    let ps = List.map (fun s ->
      if String.length s > 0 && s.[0] = 'C' then
        (match split ':' (String.sub s 1 (String.length s - 1)) with
         | [c; l] -> Copy (z_of_string c, z_of_string l)
         | _ -> failwith "bad copy piece")
      else Ins (bytes_of_hex (String.sub s 1 (String.length s - 1)))) (split ';' script) in
    let seed = z_of_string seed in
    let target = build basis ps in
    let na = no_accident_check h_native seed h sums basis ps in
    let bound = Z.add (ins_bytes ps) (Z.mul (Z.mul (z_of_int 2) (Z.sub h.h_blen (z_of_int 1))) (copies ps)) in
    (match send_one h_native seed (chunk_for sums target) h sums target with
     | SOk (_, toks, _) ->
       Printf.sprintf "lits=%s|na=%d|bound=%s" (string_of_z (lits toks)) (if na then 1 else 0) (string_of_z bound)
     | SCrash _ | SFuel -> "MODELFAIL")
  | _ -> failwith "editbound: want 5 fields"

(* ---- sender request loop over a whole session ---- *)
let run_ssession fields = match fields with
  | [seed; dry; files; req] ->
    let fl = List.map bytes_of_hex (String.split_on_char ';' files) in
    let rq = bytes_of_hex req in
    (match run_sender_session h_native (z_of_string seed) chunk_size (dry = "1") fl rq with
     | SessDone (out, rest) -> Printf.sprintf "OK:%d:%s" (List.length rq - List.length rest) (hex_of_bytes_plain out)
     | SessErr (out, (SeCrash | SeFuel)) -> "MODELFAIL"
     | SessErr (out, _) -> "ERR:" ^ hex_of_bytes_plain out)
  | _ -> failwith "ssession: want 4 fields"


(* ---- receiver commit + metadata for one file ---- *)
let run_recvmeta fields = match fields with
  | [bits; perm; mtime; prior; data; good] ->
    let b i = bits.[i] = '1' in
    let o = { g_dry = b 0; g_links = true; g_devices = true; g_specials = true; g_perms = b 1; g_times = b 2;
              g_uid = false; g_gid = false; g_am_root = true; g_umask = z_of_int 18 } in
    let e = { e_name = [z_of_int 102]; e_len = Z0; e_mtime = z_of_string mtime;
              e_mode = Z.add (z_of_int 32768) (z_of_string perm);
              e_uid = Z0; e_gid = Z0; e_rdev = Z0; e_link = []; e_csum = [] } in
    let s = parse_prior prior in
    let oldp = (match s with PNode (st, _) -> Some st.l_perm | PAbsent -> None) in
    let ops = recv_ops o e (bytes_of_hex data) (good = "1") oldp now_sentinel in
    let s' = run_ops e.e_name now_sentinel s ops in
    show_pstate s' ^ "|" ^ (match s' with PNode (_, c) -> hex_of_bytes c | PAbsent -> "-")
  | _ -> failwith "recvmeta: want 6 fields"


(* ---- atomic replacement: states at every token boundary ---- *)
let run_atomic fields = match fields with
  | [prior; chunks; cut; good] ->
    let o = { g_dry = false; g_links = true; g_devices = true; g_specials = true; g_perms = true; g_times = true;
              g_uid = false; g_gid = false; g_am_root = true; g_umask = z_of_int 18 } in
    let e = { e_name = [z_of_int 102]; e_len = Z0; e_mtime = z_of_string "1000000000";
              e_mode = z_of_int (32768 + 420); e_uid = Z0; e_gid = Z0; e_rdev = Z0; e_link = []; e_csum = [] } in
    let s0 = (match prior with
      | "none" -> PAbsent
      | "empty" -> PNode ({ l_kind = KReg; l_perm = z_of_int 420; l_mtime = Z0; l_uid = Z0; l_gid = Z0; l_link = []; l_rdev = Z0; l_nonempty = false }, [])
      | h -> PNode ({ l_kind = KReg; l_perm = z_of_int 420; l_mtime = Z0; l_uid = Z0; l_gid = Z0; l_link = []; l_rdev = Z0; l_nonempty = false }, bytes_of_hex h)) in
    let ch = List.map bytes_of_hex (split ';' chunks) in
    let c = int_of_string cut in
    let rec nat_of_int n = if n <= 0 then O else S (nat_of_int (n - 1)) in
    let upto = if c < 0 then None else Some (nat_of_int c) in
    let oldp = (match s0 with PNode (st, _) -> Some st.l_perm | PAbsent -> None) in
    let steps = recv_steps o e ch upto (good = "1") oldp now_sentinel in
    let show (a : astate) =
      (match a.a_path with
       | PAbsent -> "-"
       | PNode (st, c) -> if st.l_kind = KReg then "f" ^ hex_of_bytes c else "other") ^ "|" ^
      (match a.a_temp with None -> "none" | Some t -> hex_of_bytes t) in
    let nobs = (if c < 0 then List.length ch + 1 else c + 1) in
    let rec firstn n l = if n <= 0 then [] else match l with [] -> [] | x :: r -> x :: firstn (n - 1) r in
    let at k = show (a_run e.e_name now_sentinel { a_path = s0; a_temp = None } (firstn k steps)) in
    let mids = List.init nobs (fun i -> at (i + 1)) in
    String.concat "," (mids @ [show (a_run e.e_name now_sentinel { a_path = s0; a_temp = None } steps)])
  | _ -> failwith "atomic: want 4 fields"


(* ---- daemon request dispatch ---- *)
let string_of_hexstr (h : string) : string =
  let l = bytes_of_hex h in String.concat "" (List.map (fun b -> String.make 1 (Char.chr (int_of_z b))) l)
let run_daemonreq fields = match fields with
  | [mods; req; flags] ->
    let ms = List.map (fun m -> match split ':' m with
      | [n; w] -> { m_name = n; m_writable = (w = "1") } | _ -> failwith "bad module") (split ',' mods) in
    let fl = List.map string_of_hexstr (split ',' flags) in
    (match daemon_request ms (string_of_hexstr req) true fl with
     | DList -> "list" | DUnknownModule -> "unknown-module" | DDenied -> "denied"
     | DParseError (EExit _) -> "exit" | DParseError _ -> "parse-error"
     | DBadArgs -> "badargs" | DSender (_, _) -> "sender"
     | DRefusedReadOnly _ -> "refused-read-only" | DReceiver (_, _) -> "receiver")
  | _ -> failwith "daemonreq: want 3 fields"


(* ---- daemon file list for request paths ---- *)
let zl_of_string (s : string) : z list = List.init (String.length s) (fun i -> z_of_int (Char.code s.[i]))
let parse_ftree (s : string) : ftree =
  let pos = ref 0 in
  let n = String.length s in
  let rec tree () : ftree =
    if !pos >= n then failwith "tree: eof" else
    match s.[!pos] with
    | 'F' -> incr pos; TFile
    | 'O' -> incr pos; TOther
    | 'D' ->
      incr pos;
      if !pos < n && s.[!pos] = '(' then begin
        incr pos;
        let cs = ref [] in
        let continue = ref true in
        while !continue do
          let st = !pos in
          while s.[!pos] <> ':' do incr pos done;
          let name = String.sub s st (!pos - st) in
          incr pos;
          let t = tree () in
          cs := (zl_of_string name, t) :: !cs;
          if s.[!pos] = ',' then incr pos else (incr pos; continue := false)
        done;
        TDir (List.rev !cs)
      end else TDir []
    | _ -> failwith "tree: bad char" in
  tree ()
let contains_sub (s : string) (sub : string) : bool =
  let n = String.length s and m = String.length sub in
  let rec go i = i + m <= n && (String.sub s i m = sub || go (i + 1)) in go 0
let run_serve fields = match fields with
  | [mname; tree; paths; _fsb] ->
    let ps = List.map string_of_hexstr (split ',' paths) in
    if List.exists (fun p -> List.exists (contains_sub p) ["out-dir"; "out-file"; "out-up"; "in-dir"; "in-file"; "abs-out"; "out-chain"]) ps then "SKIP" else
    let names = daemon_serve (bytes_of_hex mname) (parse_ftree tree) (List.map zl_of_string ps) in
    let hs = List.sort compare (List.map hex_of_bytes_plain names) in
    String.concat ";" hs
  | _ -> failwith "serve: want 4 fields"


(* ---- C01: names a sending client gives an absolute source path ---- *)
let run_clientnames fields = match fields with
  | [tree; path] ->
    let names = client_names (parse_ftree tree) (bytes_of_hex path) in
    String.concat ";" (List.sort compare (List.map hex_of_bytes_plain names))
  | _ -> failwith "clientnames: want 2 fields"

(* ---- SSH listeners ---- *)
let run_sshkey fields = match fields with
  | [anon; listed] ->
    (* keys as booleans: the presented key is "true"; the authorized list holds it iff listed *)
    let auth = if anon = "1" then None else Some (if listed = "1" then [true] else [false]) in
    if admits (fun a b -> a = b) auth true then "1" else "0"
  | _ -> failwith "sshkey: want 2 fields"
let run_sshexec fields = match fields with
  | [perr; args; flags] ->
    (match perr with
     | "split" -> "refused"
     | "empty" -> (match anon_exec (fun _ -> None) [] with DaemonProtocol -> "daemon-protocol" | Refused -> "refused")
     | _ ->
       let al = List.map string_of_hexstr (split ',' args) in
       (* stage 2 (daemon option table) as observed on the implementation's parser *)
       let stage = (fun _ -> if perr = "err" then None else Some (flags = "11")) in
       (match anon_exec stage al with DaemonProtocol -> "daemon-protocol" | Refused -> "refused"))
  | _ -> failwith "sshexec: want 3 fields"


(* ---- os.Root resolution ---- *)
let parse_rnode (s : string) : rnode =
  let pos = ref 0 in
  let n = String.length s in
  let rec node () : rnode =
    if !pos >= n then failwith "rnode: eof" else
    match s.[!pos] with
    | 'F' -> incr pos; RFile []
    | 'L' ->
      incr pos;
      let st = !pos in
      while !pos < n && s.[!pos] <> ',' && s.[!pos] <> ')' do incr pos done;
      RLink (bytes_of_hex (String.sub s st (!pos - st)))
    | 'D' ->
      incr pos;
      if !pos < n && s.[!pos] = '(' then begin
        incr pos;
        let cs = ref [] in
        let continue = ref true in
        while !continue do
          let st = !pos in
          while s.[!pos] <> ':' do incr pos done;
          let name = String.sub s st (!pos - st) in
          incr pos;
          let t = node () in
          cs := (zl_of_string name, t) :: !cs;
          if s.[!pos] = ',' then incr pos else (incr pos; continue := false)
        done;
        RDir (List.rev !cs)
      end else RDir []
    | _ -> failwith "rnode: bad char" in
  node ()
let string_of_zl (l : z list) : string = String.concat "" (List.map (fun b -> String.make 1 (Char.chr (int_of_z b))) l)
let run_osroot fields = match fields with
  | [tree; name; follow] ->
    let t = parse_rnode tree in
    (match root_resolve t (follow = "1") (bytes_of_hex name) with
     | Inr EEscapes -> "err:escapes" | Inr ENotExist -> "err:notexist" | Inr ENotDir -> "err:notdir" | Inr ELoop -> "err:loop"
     | Inl p ->
       (match rlookup t p with
        | None -> "err:notexist"
        | Some _ -> if p = [] then "ok:." else "ok:" ^ String.concat "/" (List.map string_of_zl p)))
  | _ -> failwith "osroot: want 3 fields"

(* ---- option parser ---- *)
let run_popt fields = match fields with
  | [argv] ->
    let args = if argv = "" then [] else String.split_on_char '\x1f' argv in
    (match parse_arguments args with
     | Inr (EBadOpt _) -> "ERR:badopt"
     | Inr EUnwantedArg -> "ERR:unwanted"
     | Inr ENoArg -> "ERR:noarg"
     | Inr EBadNumber -> "ERR:badnumber"
     | Inr (ENotImplemented _) -> "ERR:notimpl"
     | Inr ESenderWithoutServer -> "ERR:senderwos"
     | Inr (EExit _) -> "ERR:exit"
     | Inr EDaemonMode -> "ERR:daemonmode"
     | Inr EFuel -> "ERR:fuel"
     | Inl st ->
       let view = String.concat "" (List.map (fun b -> if b then "1" else "0") (wire_view st)) in
       let so = String.concat "\x1e" (server_options st) in
       let ss = String.concat "\x1e" (server_options (setf st "am_sender" (z_of_int 1))) in
       Printf.sprintf "OK|%s|F:%s|R:%s|S:%s|SS:%s|x%s" view (String.concat "\x1e" st.o_filters)
         (String.concat "\x1e" st.o_remaining) so ss (string_of_z (getf st "xfer_dirs")))
  | [] -> (match parse_arguments [] with Inl _ -> "OK-empty" | Inr _ -> "ERR")
  | _ -> failwith "popt: want 1 field"

(* ---- trees: --delete walk, filtered sender walk ---- *)
let split_path (s : string) : z list list =
  (* s is hex of a slash-separated path *)
  let bytes = bytes_of_hex s in
  let rec go cur acc = function
    | [] -> List.rev (List.rev cur :: acc)
    | b :: r -> if int_of_z b = 47 then go [] (List.rev cur :: acc) r else go (b :: cur) acc r in
  go [] [] bytes

let cmp_name (a : z list) (b : z list) = compare (List.map int_of_z a) (List.map int_of_z b)

(* insert a path with a type into a tree (children kept in bytewise name order) *)
let rec tree_insert (t : ftree) (p : z list list) (typ : string) : ftree =
  match p with
  | [] -> (match typ with "d" -> (match t with TDir _ -> t | _ -> TDir []) | "f" -> TFile | _ -> TOther)
  | c :: r ->
    let cs = (match t with TDir cs -> cs | _ -> []) in
    let sub = (try List.assoc c (List.map (fun (n, x) -> (n, x)) (List.filter (fun (n, _) -> cmp_name n c = 0) cs)) with Not_found -> TDir []) in
    let sub' = tree_insert sub r typ in
    let others = List.filter (fun (n, _) -> cmp_name n c <> 0) cs in
    TDir (List.sort (fun (a, _) (b, _) -> cmp_name a b) ((c, sub') :: others))

let build_tree (spec : string) : ftree =
  List.fold_left (fun t item -> match split ':' item with
    | [p; typ] -> tree_insert t (split_path p) typ
    | _ -> failwith "bad tree item") (TDir []) (split ',' spec)

let rec tree_paths (prefix : z list list) (t : ftree) : z list list list =
  match t with
  | TDir cs -> List.concat_map (fun (n, x) -> let p = prefix @ [n] in p :: tree_paths p x) cs
  | _ -> []

let render_hex (p : z list list) = hex_of_bytes (render p)

let mk_entry (name : z list) : fentry =
  { e_name = name; e_len = Z0; e_mtime = Z0; e_mode = Z0; e_uid = Z0; e_gid = Z0; e_rdev = Z0; e_link = []; e_csum = [] }

let run_delete fields = match fields with
  | [tree; names; rules; ioerr; dry] ->
    let t = build_tree tree in
    let names = List.map bytes_of_hex (split ',' names) in
    let flist = List.map mk_entry names in
    let rules = List.map (fun r -> parse_rule (bytes_of_hex r)) (split ',' rules) in
    let listed p = find_in_list (render p) flist in
    let protected p = (match rules with [] -> false | _ -> excluded rules p) in
    let has_top = List.exists (fun n -> List.map int_of_z n = [46]) names in
    let t' = delete_files listed protected has_top (z_of_string ioerr) (dry = "1") t in
    String.concat "," (List.sort compare (List.map render_hex (tree_paths [] t')))
  | _ -> failwith "delete: want 5 fields"

let run_filter fields = match fields with
  | [rules; name] ->
    let rules = List.map (fun r -> parse_rule (bytes_of_hex r)) (split ',' rules) in
    if List.exists (fun r -> r.r_wild) rules then "ERR:wild"
    else if excluded rules (split_path name) then "excluded" else "kept"
  | _ -> failwith "filter: want 2 fields"

let run_select fields = match fields with
  | [tree; rules] ->
    let t = build_tree tree in
    let rules = List.map (fun r -> parse_rule (bytes_of_hex r)) (split ',' rules) in
    if List.exists (fun r -> r.r_wild) rules then "ERR:wild"
    else String.concat "," (List.sort compare (List.map render_hex (select_all rules t)))
  | _ -> failwith "select: want 2 fields"

(* ---- acl ---- *)
let acl_rule (t : string) : rule =
  match split ':' t with
  | ["M"] -> Malformed
  | [a; "all"] -> Rule ((if a = "A" then Allow else Deny), WAll)
  | [a; "4"; b; p] -> Rule ((if a = "A" then Allow else Deny), WNet4 (z_of_string b, z_of_string p))
  | [a; "6"; b; p] -> Rule ((if a = "A" then Allow else Deny), WNet6 (z_of_string b, z_of_string p))
  | _ -> failwith ("bad acl rule " ^ t)

let acl_addr (t : string) : addr option =
  match split ':' t with
  | ["none"] -> None
  | ["4"; a] -> Some (V4 (z_of_string a))
  | ["6"; a] -> Some (V6 (z_of_string a))
  | _ -> failwith ("bad addr " ^ t)

let run_acl fields =
  match fields with
  | [rules; a] ->
    let rs = List.map acl_rule (split ',' rules) in
    (match check_acl rs (acl_addr a) with
     | Granted -> "G" | Denied -> "D" | DeniedMalformed -> "M" | DeniedBadAddr -> "B")
  | _ -> failwith "acl: want 2 fields"

let dispatch comp fields =
  match comp with
  | "acl" -> run_acl fields
  | "md4" -> run_md4 fields
  | "sender" -> run_sender fields
  | "editbound" -> run_editbound fields
  | "recv" -> run_recv fields
  | "mux" -> run_mux fields
  | "popt" -> run_popt fields
  | "delete" -> run_delete fields
  | "filter" -> run_filter fields
  | "select" -> run_select fields
  | "noop" -> "ok"
  | "decision" -> run_decision fields
  | "gensums" -> run_gensums fields
  | "genops" -> run_genops fields
  | "osroot" -> run_osroot fields
  | "sshkey" -> run_sshkey fields
  | "sshexec" -> run_sshexec fields
  | "serve" -> run_serve fields
  | "clientnames" -> run_clientnames fields
  | "daemonreq" -> run_daemonreq fields
  | "atomic" -> run_atomic fields
  | "recvmeta" -> run_recvmeta fields
  | "ssession" -> run_ssession fields
  | "flist_dec" -> run_flist_dec fields
  | "flist_enc" -> run_flist_enc fields
  | _ -> failwith ("unknown component " ^ comp)

let () =
  (try
    while true do
      let line = input_line stdin in
      if line <> "" then begin
        match String.split_on_char '\t' line with
        | comp :: id :: fields ->
          let out = (try dispatch comp fields with
                     | Failure m -> "MODEL-ERROR:" ^ m
                     | Stack_overflow -> "MODEL-ERROR:stack") in
          print_string comp; print_char '\t'; print_string id; print_char '\t';
          print_string out; print_char '\n'
        | _ -> ()
      end
    done
  with End_of_file -> ());
  flush stdout
