(* Line-protocol driver around the extracted model (trusted for the
   correspondence leg only). One case per line, tab separated:
   component <TAB> id <TAB> fields...   ->   component <TAB> id <TAB> observable *)
open Model

let z_of_int (i : int) : z =
  let rec pos n = if n = 1 then XH else if n land 1 = 0 then XO (pos (n lsr 1)) else XI (pos (n lsr 1)) in
  if i = 0 then Z0 else if i > 0 then Zpos (pos i) else Zneg (pos (-i))

let ten = z_of_int 10

let z_of_string (s : string) : z =
  let neg = String.length s > 0 && s.[0] = '-' in
  let start = if neg then 1 else 0 in
  let acc = ref Z0 in
  for i = start to String.length s - 1 do
    let d = Char.code s.[i] - 48 in
    if d < 0 || d > 9 then failwith ("bad integer: " ^ s);
    acc := Z.add (Z.mul !acc ten) (z_of_int d)
  done;
  if neg then Z.opp !acc else !acc

let rec int_of_pos = function
  | XH -> 1 | XO p -> 2 * int_of_pos p | XI p -> 2 * int_of_pos p + 1
let int_of_z = function Z0 -> 0 | Zpos p -> int_of_pos p | Zneg p -> - (int_of_pos p)

(* decimal printing of arbitrary-size z *)
let string_of_z (v : z) : string =
  let neg, v = (match v with Zneg p -> true, Zpos p | _ -> false, v) in
  if v = Z0 then "0" else begin
    let buf = Buffer.create 16 in
    let cur = ref v in
    let digits = ref [] in
    while !cur <> Z0 do
      let q = Z.div !cur ten and r = Z.modulo !cur ten in
      digits := (Char.chr (48 + int_of_z r)) :: !digits;
      cur := q
    done;
    if neg then Buffer.add_char buf '-';
    List.iter (Buffer.add_char buf) !digits;
    Buffer.contents buf
  end

let split c s = if s = "" then [] else String.split_on_char c s

let bytes_of_hex (s : string) : z list =
  if s = "-" || s = "" then [] else begin
    let n = String.length s / 2 in
    let hv c = match c with
      | '0'..'9' -> Char.code c - 48
      | 'a'..'f' -> Char.code c - 87
      | 'A'..'F' -> Char.code c - 55
      | _ -> failwith "bad hex" in
    let tbl = Array.init 256 z_of_int in
    let rec go i acc = if i < 0 then acc
      else go (i-1) (tbl.(hv s.[2*i] * 16 + hv s.[2*i+1]) :: acc) in
    go (n-1) []
  end

let hex_of_bytes (l : z list) : string =
  match l with [] -> "-" | _ ->
  let buf = Buffer.create (2 * List.length l) in
  List.iter (fun b -> Buffer.add_string buf (Printf.sprintf "%02x" (int_of_z b))) l;
  Buffer.contents buf

(* ---- acl ---- *)
let acl_rule (t : string) : rule =
  match split ':' t with
  | ["M"] -> Malformed
  | [a; "all"] -> Rule ((if a = "A" then Allow else Deny), WAll)
  | [a; "4"; b; p] -> Rule ((if a = "A" then Allow else Deny), WNet4 (z_of_string b, z_of_string p))
  | [a; "6"; b; p] -> Rule ((if a = "A" then Allow else Deny), WNet6 (z_of_string b, z_of_string p))
  | _ -> failwith ("bad acl rule " ^ t)

let acl_addr (t : string) : addr option =
  match split ':' t with
  | ["none"] -> None
  | ["4"; a] -> Some (V4 (z_of_string a))
  | ["6"; a] -> Some (V6 (z_of_string a))
  | _ -> failwith ("bad addr " ^ t)

let run_acl fields =
  match fields with
  | [rules; a] ->
    let rs = List.map acl_rule (split ',' rules) in
    (match check_acl rs (acl_addr a) with
     | Granted -> "G" | Denied -> "D" | DeniedMalformed -> "M" | DeniedBadAddr -> "B")
  | _ -> failwith "acl: want 2 fields"

let dispatch comp fields =
  match comp with
  | "acl" -> run_acl fields
  | _ -> failwith ("unknown component " ^ comp)

let () =
  (try
    while true do
      let line = input_line stdin in
      if line <> "" then begin
        match String.split_on_char '\t' line with
        | comp :: id :: fields ->
          let out = (try dispatch comp fields with
                     | Failure m -> "MODEL-ERROR:" ^ m
                     | Stack_overflow -> "MODEL-ERROR:stack") in
          print_string comp; print_char '\t'; print_string id; print_char '\t';
          print_string out; print_char '\n'
        | _ -> ()
      end
    done
  with End_of_file -> ());
  flush stdout
