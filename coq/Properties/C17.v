(** C17 — Multiplex framing is transparent.  Statements only; proofs in
    Proofs/MuxProofs.v.  Constants ([c_maxMessageSize], [c_clientBufioSize],
    [c_chunkSize], [c_mplexBase], message tags) are regenerated from the Go
    sources on every run (Gen/Consts.v). *)
From Coq Require Import ZArith List Bool Lia.
From RV Require Import Model.Bytes Model.Mux Proofs.BytesProofs Proofs.MuxProofs Gen.Consts.
Import ListNotations.
Open Scope Z_scope.

(** The hard coupling between frame size and the client's buffer size: the
    largest frame the reader accepts fits the buffered reader's buffer.  A
    change to either constant in the source re-opens this obligation. *)
Theorem bufio_covers_frame : c_maxMessageSize <= c_clientBufioSize.
Proof. exact covers. Qed.

(** Transparency.  [Rep st d tail]: the client's reader state [st] holds the
    data bytes [d] — whatever is buffered followed by the payloads of *any*
    sequence of well-formed data frames (any sizes 0..max, empty ones
    included) with informational frames interleaved anywhere — and then
    [tail].  Every read of n <= |d| bytes returns exactly the next n data
    bytes, never crashes, and leaves a state holding the rest. *)
Theorem demux_transparent : forall n st d tail,
  0 <= n <= lenZ d -> Rep st d tail ->
  exists st', client_read n st = BOk (takeZ n d) st' /\ Rep st' (dropZ n d) tail.
Proof. exact client_read_rep. Qed.

(** Hence two different framings of the same data are indistinguishable to
    every read (and, by [demux_transparent] again, to every later read). *)
Theorem framing_irrelevant : forall n st1 st2 d tail1 tail2,
  0 <= n <= lenZ d -> Rep st1 d tail1 -> Rep st2 d tail2 ->
  exists s1 s2, client_read n st1 = BOk (takeZ n d) s1 /\ client_read n st2 = BOk (takeZ n d) s2 /\
                Rep s1 (dropZ n d) tail1 /\ Rep s2 (dropZ n d) tail2.
Proof.
  intros n st1 st2 d tail1 tail2 Hn H1 H2.
  destruct (client_read_rep n st1 d tail1 Hn H1) as (s1 & E1 & R1).
  destruct (client_read_rep n st2 d tail2 Hn H2) as (s2 & E2 & R2).
  exists s1, s2. auto.
Qed.

(** An error frame, at any stage, surfaces as the server's message on the
    first read that needs more than the data in front of it. *)
Theorem error_frame_surfaces : forall n st d m rest,
  lenZ d < n -> lenZ m <= c_maxMessageSize ->
  Rep st d (mux_frame c_MsgError m ++ rest) -> client_read n st = BErrMsg m.
Proof. exact client_read_error. Qed.

(** Every frame the writer emits for a payload within the limit is read back
    with its tag and payload unchanged; the sender's largest data write
    (chunkSize) is within the limit, and the limit fits the 24-bit length. *)
Theorem server_frames_wellformed :
  (forall tg p rest, 0 <= tg < 256 - c_mplexBase -> lenZ p <= c_maxMessageSize ->
      read_msg (mux_frame tg p ++ rest) = MsgOk tg p rest) /\
  c_chunkSize <= c_maxMessageSize /\ c_sendFile_chunkSize <= c_maxMessageSize /\
  c_maxMessageSize < 16777216.
Proof.
  split; [exact read_msg_frame|].
  unfold c_chunkSize, c_sendFile_chunkSize, c_maxMessageSize. lia.
Qed.

(** Non-vacuity: the same 5 data bytes framed as 1+0+4 with an info frame in
    between, and as one frame; a 3-byte read gives the same bytes. *)
Definition ex_src1 : list Z :=
  mux_frame c_MsgData [1] ++ mux_frame c_MsgInfo [104; 105] ++ mux_frame c_MsgData [] ++ mux_frame c_MsgData [2; 3; 4; 5].
Definition ex_src2 : list Z := mux_frame c_MsgData [1; 2; 3; 4; 5].
Example reframing_example :
  (match client_read 3 (mkB [] ex_src1) with BOk g _ => g | _ => [] end) = [1; 2; 3] /\
  (match client_read 3 (mkB [] ex_src2) with BOk g _ => g | _ => [] end) = [1; 2; 3].
Proof. vm_compute. split; reflexivity. Qed.
Example rep_example : Rep (mkB [] ex_src1) [1; 2; 3; 4; 5] [].
Proof.
  exists [FData [1]; FInfo [104; 105]; FData []; FData [2; 3; 4; 5]].
  split; [repeat constructor; vm_compute; discriminate|].
  split; [vm_compute; reflexivity|reflexivity].
Qed.
Example error_example :
  client_read 4 (mkB [] (mux_frame c_MsgData [9] ++ mux_frame c_MsgError [111; 111; 112; 115])) = BErrMsg [111; 111; 112; 115].
Proof. vm_compute. reflexivity. Qed.

Print Assumptions bufio_covers_frame.
Print Assumptions demux_transparent.
Print Assumptions framing_irrelevant.
Print Assumptions error_frame_surfaces.
Print Assumptions server_frames_wellformed.
