(** C16 — Unchanged data is not re-sent: matches are found at every byte
    offset.  Statements only; proofs in Proofs/SearchInv.v, Proofs/Identical.v,
    Proofs/EditBound.v.

    Proved here, for all sizes, block lengths, strong lengths and hashes:
    the rolling registers equal the weak checksum of the current window at
    *every* offset the search visits ([rolling_invariant]); the per-offset
    lookup has no false negatives ([no_false_negative]); an identical file is
    sent as references only ([identical_costs_nothing]); the literal bytes
    sent are at most the positions of the file not covered by a listed block
    standing at some byte offset ([literal_bound_by_uncovered]); and for a
    file that is the receiver's copy after an edit script, the literal bytes
    are at most the new bytes plus less than two block lengths per unedited
    stretch ([edit_bound]).

    The two bounds carry the hypothesis the property's quantifier states as
    "high-entropy": no window of the new file has, by accident, the weak and
    strong sums of a block it is not a copy of ([no_accident]).  Without it
    the bound is false of any greedy matcher (periodic data lets a misaligned
    match shadow the aligned ones), for rsync's own sender too. *)
From Coq Require Import ZArith List Bool Lia FMapPositive.
From RV Require Import Model.Bytes Model.Md4 Model.Checksum Model.Delta Model.Sender
     Proofs.BytesProofs Proofs.ChecksumProofs Proofs.SenderProofs Proofs.SearchInv Proofs.Identical
     Proofs.EditBound.
Import ListNotations.
Open Scope Z_scope.

(** The weak checksum is the pair of exact signed-byte sums modulo 2^16. *)
Theorem weak_checksum_spec : forall w,
  sum_lo (checksum1 w) = S1 w mod 65536 /\ sum_hi (checksum1 w) = S2 w mod 65536.
Proof. intros w; split; [exact (sum_lo_checksum1 w)|exact (sum_hi_checksum1 w)]. Qed.

(** One iteration of the search loop from a state whose registers describe
    the window at its offset never crashes, and the next state's registers
    describe the window at *its* offset (one byte further, or just behind a
    match).  [RInv] says: k = min(blen, size-off), s1 = S1(window) mod 2^16,
    s2 = S2(window) mod 2^16, window = target[off, off+k). *)
Theorem rolling_invariant :
  forall (H : list Z -> list Z) seed chunk h sums target tt end_ st,
    (forall t i s1 s2, In (i, s1, s2) (tt_find tt t) ->
        0 <= i /\ nth_error sums (Z.to_nat i) = Some (s1, s2)) ->
    1 <= h_blen h ->
    SInv H seed chunk h sums target st -> RInv h target st ->
    match body H seed chunk h tt (lenZ target) end_ st with
    | Done _ _ _ => True
    | Next st' => RInv h target st' /\ st_off st < st_off st'
    | Crashed _ => False
    end.
Proof. intros H seed chunk h sums target tt end_ st Htt Hb. exact (body_regs H seed chunk h sums target tt end_ Htt Hb st). Qed.

(** No false negatives: standing at an offset whose window equals a listed
    block (same length; listed weak and strong sums are those of the window),
    the candidate scan finds a block, i.e. a reference is emitted there. *)
Theorem no_false_negative :
  forall (H : list Z -> list Z) seed chunk h sums target tt (end_ : Z),
    (forall t i s1 s2, In (i, s1, s2) (tt_find tt t) ->
        0 <= i /\ nth_error sums (Z.to_nat i) = Some (s1, s2)) ->
    (forall t i s1 s2, 0 <= t -> 0 <= i ->
        nth_error sums (Z.to_nat i) = Some (s1, s2) -> tag s1 = t -> In (i, s1, s2) (tt_find tt t)) ->
    forall st i,
    SInv H seed chunk h sums target st -> RInv h target st -> 0 <= i ->
    let w := takeZ (Z.min (h_blen h) (lenZ target - st_off st)) (st_cur st) in
    nth_error sums (Z.to_nat i) = Some (checksum1 w, strong H seed h w) ->
    block_len h i = Z.min (h_blen h) (lenZ target - st_off st) ->
    exists j, scan H seed h (tt_find tt (tag2 (st_s1 st) (st_s2 st)))
                   (st_s1 st mod 65536 + st_s2 st mod 65536 * 65536)
                   (Z.min (h_blen h) (lenZ target - st_off st)) (st_cur st) None = Some j.
Proof. intros H seed chunk h sums target tt end_ Htt Httc. exact (lookup_complete H seed chunk h sums target tt end_ Htt Httc). Qed.

(** An identical file costs no literal data: every token is a reference. *)
Theorem identical_costs_nothing :
  forall (H : list Z -> list Z) seed chunk h sums data,
    1 <= chunk -> 0 < lenZ data -> 1 <= h_blen h ->
    h_count h = (lenZ data + (h_blen h - 1)) / h_blen h ->
    h_rem h = lenZ data mod h_blen h ->
    (forall j, 0 <= j < h_count h ->
       nth_error sums (Z.to_nat j) = Some (checksum1 (blk data h j), strong H seed h (blk data h j))) ->
    forall h' toks tr,
      send_one H seed chunk h sums data = SOk h' toks tr -> Forall is_ref toks.
Proof. intros H seed chunk h sums data Hc Hn Hb Hcnt Hrem Hs. exact (identical_no_literals H seed chunk Hc h sums data Hn Hb Hcnt Hrem Hs). Qed.

(** The sender always completes (no crash, no fuel exhaustion), for every
    checksum list and every file, once the block length is at least 1. *)
Theorem sender_total :
  forall (H : list Z -> list Z) seed chunk h sums target,
    1 <= chunk -> 1 <= h_blen h -> 0 <= h_rem h ->
    exists h' toks tr, send_one H seed chunk h sums target = SOk h' toks tr.
Proof. exact send_one_total. Qed.

(** Non-vacuity: an 11-byte file, block length 4 (remainder 3) — the
    hypotheses of [identical_costs_nothing] hold and the model sender under
    MD4 emits exactly three references. *)
Definition ex_data : list Z := [200; 1; 255; 7; 7; 7; 7; 7; 0; 128; 3].
Definition ex_h : sum_head := mkHead 3 4 16 3.
Definition ex_sums : list sumbuf :=
  map (fun j => (checksum1 (blk ex_data ex_h j), strong md4 5 ex_h (blk ex_data ex_h j))) [0; 1; 2].
Example identical_example :
  send_one md4 5 262144 ex_h ex_sums ex_data = SOk ex_h [Ref 0; Ref 1; Ref 2] (filesum md4 5 ex_data).
Proof. vm_compute. reflexivity. Qed.
(** ... and a one-byte insertion in front is found at the unaligned offset. *)
Example unaligned_match_example :
  exists tr, send_one md4 5 262144 ex_h ex_sums (99 :: ex_data) = SOk ex_h [Lit [99]; Ref 0; Ref 1; Ref 2] tr.
Proof. eexists. vm_compute. reflexivity. Qed.

(** Literal bytes are bounded by the uncovered positions.  [start] marks
    offsets of the new file where a full-length listed block stands (S1), it
    contains every offset where such a block's sums match (S2: no accidental
    match elsewhere), and starts are a block length apart (S3); [freeb p] says
    that p lies in [o, o + blen) for a start o.  Then the literal bytes of the
    transmission number at most the non-free positions of the file. *)
Theorem literal_bound_by_uncovered :
  forall (H : list Z -> list Z) seed chunk, 1 <= chunk ->
  forall h sums target, 1 <= h_blen h -> 0 <= h_rem h <= h_blen h ->
  forall start : Z -> bool,
    (forall o, start o = true ->
       0 <= o /\ o + h_blen h <= lenZ target /\
       exists i, 0 <= i /\ block_len h i = h_blen h /\
         nth_error sums (Z.to_nat i) =
         Some (checksum1 (window h target o), strong H seed h (window h target o))) ->
    (forall p i, 0 <= p -> p + h_blen h <= lenZ target -> 0 <= i -> block_len h i = h_blen h ->
       nth_error sums (Z.to_nat i) =
       Some (checksum1 (window h target p), strong H seed h (window h target p)) -> start p = true) ->
    (forall o o', start o = true -> start o' = true -> o < o' -> o + h_blen h <= o') ->
  forall freeb : Z -> bool,
    (forall p, freeb p = true <-> exists o, start o = true /\ o <= p < o + h_blen h) ->
  forall h' toks tr,
    sums <> [] -> 0 < lenZ target ->
    send_one H seed chunk h sums target = SOk h' toks tr ->
    lits toks <= nfz freeb (lenZ target).
Proof. exact send_one_lits. Qed.

(** The edit bound.  The receiver holds [basis] and sent its block sums; the
    new file is [build basis ps], a sequence of new bytes ([Ins]) and unedited
    stretches basis[c, c+L) ([Copy c L]) — e insertions, deletions,
    replacements or block moves at arbitrary unaligned offsets give at most
    e + 1 stretches.  The literal data sent is at most the new bytes plus
    2 * (blen - 1) per stretch. *)
Theorem edit_bound :
  forall (H : list Z -> list Z) seed chunk, 1 <= chunk ->
  forall h sums basis,
    0 < lenZ basis -> 1 <= h_blen h ->
    h_count h = (lenZ basis + (h_blen h - 1)) / h_blen h ->
    h_rem h = lenZ basis mod h_blen h ->
    (forall j, 0 <= j < h_count h ->
       nth_error sums (Z.to_nat j) = Some (checksum1 (blk basis h j), strong H seed h (blk basis h j))) ->
  forall ps, Forall (piece_ok basis) ps -> 0 < lenZ (build basis ps) ->
  forall h' toks tr,
    no_accident H seed h sums basis ps ->
    send_one H seed chunk h sums (build basis ps) = SOk h' toks tr ->
    lits toks <= ins_bytes ps + 2 * (h_blen h - 1) * copies ps.
Proof. exact edit_bound_script. Qed.

(** Non-vacuity: a 24-byte file, block length 4; nine bytes kept, four
    replaced by two new ones at the unaligned offset 9, the rest kept.  The
    hypotheses hold ([no_accident] by enumeration of every offset and block)
    and the model sender under MD4 sends 6 literal bytes; the bound is 14. *)
Definition eb_basis : list Z :=
  [11; 200; 37; 4; 150; 66; 7; 98; 19; 210; 31; 142; 53; 164; 75; 186; 97; 8; 119; 230; 41; 252; 63; 174].
Definition eb_h : sum_head := mkHead 6 4 16 0.
Definition eb_sums : list sumbuf :=
  map (fun j => (checksum1 (blk eb_basis eb_h j), strong md4 5 eb_h (blk eb_basis eb_h j))) [0; 1; 2; 3; 4; 5].
Definition eb_script : list piece := [Copy 0 9; Ins [250; 251]; Copy 13 11].
Example edit_bound_hypotheses :
  Forall (piece_ok eb_basis) eb_script /\ no_accident md4 5 eb_h eb_sums eb_basis eb_script /\
  (forall j, 0 <= j < h_count eb_h ->
     nth_error eb_sums (Z.to_nat j) = Some (checksum1 (blk eb_basis eb_h j), strong md4 5 eb_h (blk eb_basis eb_h j))).
Proof.
  split.
  { apply Forall_cons; [|apply Forall_cons; [exact I|apply Forall_cons; [|apply Forall_nil]]];
      unfold piece_ok; change (lenZ eb_basis) with 24; lia. }
  split; [apply no_accident_by_check; vm_compute; reflexivity|].
  intros j Hj. change (h_count eb_h) with 6 in Hj.
  assert (E : j = 0 \/ j = 1 \/ j = 2 \/ j = 3 \/ j = 4 \/ j = 5) by lia.
  destruct E as [->|[->|[->|[->|[->| ->]]]]]; vm_compute; reflexivity.
Qed.
Example edit_bound_example :
  exists tr, send_one md4 5 262144 eb_h eb_sums (build eb_basis eb_script) =
             SOk eb_h [Ref 0; Ref 1; Lit [19; 250; 251; 164; 75; 186]; Ref 4; Ref 5] tr
  /\ ins_bytes eb_script + 2 * (h_blen eb_h - 1) * copies eb_script = 14.
Proof. eexists. split; vm_compute; reflexivity. Qed.

Print Assumptions weak_checksum_spec.
Print Assumptions rolling_invariant.
Print Assumptions no_false_negative.
Print Assumptions identical_costs_nothing.
Print Assumptions sender_total.
Print Assumptions literal_bound_by_uncovered.
Print Assumptions edit_bound.
