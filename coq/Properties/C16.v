(** C16 — Unchanged data is not re-sent: matches are found at every byte
    offset.  Statements only; proofs in Proofs/SearchInv.v, Proofs/Identical.v.

    Proved here: the rolling registers equal the weak checksum of the current
    window at *every* offset the search visits ([rolling_invariant]), the
    per-offset lookup has no false negatives ([no_false_negative]), and an
    identical file is sent as references only ([identical_costs_nothing]),
    for all sizes, block lengths, strong lengths and hashes.

    NOT proved (kept visible, checked only by the harness oracle on the real
    sender): edit_bound — for a target that is the basis with e local edits,
    literal bytes <= edited bytes + 2 * blen * (e + 1).  The missing piece is
    the straddling-match argument (re-synchronisation after an edit). *)
From Coq Require Import ZArith List Bool FMapPositive.
From RV Require Import Model.Bytes Model.Md4 Model.Checksum Model.Delta Model.Sender
     Proofs.BytesProofs Proofs.ChecksumProofs Proofs.SenderProofs Proofs.SearchInv Proofs.Identical.
Import ListNotations.
Open Scope Z_scope.

(** The weak checksum is the pair of exact signed-byte sums modulo 2^16. *)
Theorem weak_checksum_spec : forall w,
  sum_lo (checksum1 w) = S1 w mod 65536 /\ sum_hi (checksum1 w) = S2 w mod 65536.
Proof. intros w; split; [exact (sum_lo_checksum1 w)|exact (sum_hi_checksum1 w)]. Qed.

(** One iteration of the search loop from a state whose registers describe
    the window at its offset never crashes, and the next state's registers
    describe the window at *its* offset (one byte further, or just behind a
    match).  [RInv] says: k = min(blen, size-off), s1 = S1(window) mod 2^16,
    s2 = S2(window) mod 2^16, window = target[off, off+k). *)
Theorem rolling_invariant :
  forall (H : list Z -> list Z) seed chunk h sums target tt end_ st,
    (forall t i s1 s2, In (i, s1, s2) (tt_find tt t) ->
        0 <= i /\ nth_error sums (Z.to_nat i) = Some (s1, s2)) ->
    1 <= h_blen h ->
    SInv H seed chunk h sums target st -> RInv h target st ->
    match body H seed chunk h tt (lenZ target) end_ st with
    | Done _ _ _ => True
    | Next st' => RInv h target st' /\ st_off st < st_off st'
    | Crashed _ => False
    end.
Proof. intros H seed chunk h sums target tt end_ st Htt Hb. exact (body_regs H seed chunk h sums target tt end_ Htt Hb st). Qed.

(** No false negatives: standing at an offset whose window equals a listed
    block (same length; listed weak and strong sums are those of the window),
    the candidate scan finds a block, i.e. a reference is emitted there. *)
Theorem no_false_negative :
  forall (H : list Z -> list Z) seed chunk h sums target tt (end_ : Z),
    (forall t i s1 s2, In (i, s1, s2) (tt_find tt t) ->
        0 <= i /\ nth_error sums (Z.to_nat i) = Some (s1, s2)) ->
    (forall t i s1 s2, 0 <= t -> 0 <= i ->
        nth_error sums (Z.to_nat i) = Some (s1, s2) -> tag s1 = t -> In (i, s1, s2) (tt_find tt t)) ->
    forall st i,
    SInv H seed chunk h sums target st -> RInv h target st -> 0 <= i ->
    let w := takeZ (Z.min (h_blen h) (lenZ target - st_off st)) (st_cur st) in
    nth_error sums (Z.to_nat i) = Some (checksum1 w, strong H seed h w) ->
    block_len h i = Z.min (h_blen h) (lenZ target - st_off st) ->
    exists j, scan H seed h (tt_find tt (tag2 (st_s1 st) (st_s2 st)))
                   (st_s1 st mod 65536 + st_s2 st mod 65536 * 65536)
                   (Z.min (h_blen h) (lenZ target - st_off st)) (st_cur st) None = Some j.
Proof. intros H seed chunk h sums target tt end_ Htt Httc. exact (lookup_complete H seed chunk h sums target tt end_ Htt Httc). Qed.

(** An identical file costs no literal data: every token is a reference. *)
Theorem identical_costs_nothing :
  forall (H : list Z -> list Z) seed chunk h sums data,
    1 <= chunk -> 0 < lenZ data -> 1 <= h_blen h ->
    h_count h = (lenZ data + (h_blen h - 1)) / h_blen h ->
    h_rem h = lenZ data mod h_blen h ->
    (forall j, 0 <= j < h_count h ->
       nth_error sums (Z.to_nat j) = Some (checksum1 (blk data h j), strong H seed h (blk data h j))) ->
    forall h' toks tr,
      send_one H seed chunk h sums data = SOk h' toks tr -> Forall is_ref toks.
Proof. intros H seed chunk h sums data Hc Hn Hb Hcnt Hrem Hs. exact (identical_no_literals H seed chunk Hc h sums data Hn Hb Hcnt Hrem Hs). Qed.

(** The sender always completes (no crash, no fuel exhaustion), for every
    checksum list and every file, once the block length is at least 1. *)
Theorem sender_total :
  forall (H : list Z -> list Z) seed chunk h sums target,
    1 <= chunk -> 1 <= h_blen h -> 0 <= h_rem h ->
    exists h' toks tr, send_one H seed chunk h sums target = SOk h' toks tr.
Proof. exact send_one_total. Qed.

(** Non-vacuity: an 11-byte file, block length 4 (remainder 3) — the
    hypotheses of [identical_costs_nothing] hold and the model sender under
    MD4 emits exactly three references. *)
Definition ex_data : list Z := [200; 1; 255; 7; 7; 7; 7; 7; 0; 128; 3].
Definition ex_h : sum_head := mkHead 3 4 16 3.
Definition ex_sums : list sumbuf :=
  map (fun j => (checksum1 (blk ex_data ex_h j), strong md4 5 ex_h (blk ex_data ex_h j))) [0; 1; 2].
Example identical_example :
  send_one md4 5 262144 ex_h ex_sums ex_data = SOk ex_h [Ref 0; Ref 1; Ref 2] (filesum md4 5 ex_data).
Proof. vm_compute. reflexivity. Qed.
(** ... and a one-byte insertion in front is found at the unaligned offset. *)
Example unaligned_match_example :
  exists tr, send_one md4 5 262144 ex_h ex_sums (99 :: ex_data) = SOk ex_h [Lit [99]; Ref 0; Ref 1; Ref 2] tr.
Proof. eexists. vm_compute. reflexivity. Qed.

Print Assumptions weak_checksum_spec.
Print Assumptions rolling_invariant.
Print Assumptions no_false_negative.
Print Assumptions identical_costs_nothing.
Print Assumptions sender_total.
