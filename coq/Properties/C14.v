(** C14 — Both ends agree on the options; the outcome does not depend on who
    sends.  Statements only; proofs in Proofs/PoptProofs.v, over the option
    table, the switch arms, the defaults, the accessors, ServerOptions and
    the two TransferOpts constructions, all REGENERATED from the Go sources
    on every run (Gen/OptTable.v, Gen/ServerOpts.v, Gen/OptMap.v).

    The option part is finite and is decided by complete enumeration inside
    Coq (vm_compute) over [transfer_vectors]: every sub-list of
    -a -r -l -p -t -g -o -D --devices --specials --no-devices --no-specials
    (4096 argument vectors) and every sub-list of -c -I -n --delete after the
    prefixes "", -rlt, -a (48 vectors) — the bound is part of the statement.
    The claim that the resulting destination is the same in all arrangements
    is decided by the end-to-end oracle (harness component optmatrix). *)
From Coq Require Import ZArith String List Bool.
From RV Require Import Model.Bytes Model.Popt Model.Flist Proofs.PoptProofs Proofs.FlistProofs
     Gen.OptTable Gen.ServerOpts Gen.OptMap.
Import ListNotations.
Open Scope string_scope.

(** Every option that changes the wire format or the remote side's
    obligations reaches the server: parsing ServerOptions(o) on the server
    yields the same recursion / links / perms / times / group / owner /
    devices / specials / checksum / ignore-times / dry-run / delete settings,
    in server mode, with the sender role complementary to the client's. *)
Theorem server_options_roundtrip :
  forall (as_sender : bool) (args : list string) (st : ostate),
    In args transfer_vectors -> parse_arguments args = inl st ->
    exists st' : ostate, server_view (if as_sender then setf st "am_sender" 1 else st) = inl st' /\
      wire_view st' = wire_view (if as_sender then setf st "am_sender" 1 else st) /\
      (getf st' "am_server" =? 0)%Z = false /\
      negb (getf st' "am_sender" =? 0)%Z = negb as_sender.
Proof. intros as_sender args st. exact (roundtrip_vectors as_sender args st). Qed.

(** No desynchronisation of the file list, in either direction: with the
    options each end derives, writer and reader make the same presence
    decision for uid, gid, rdev, link target and checksum, so every entry
    list round-trips (composition with C15's codec theorem). *)
Theorem field_agreement :
  forall (as_sender : bool) (args : list string) (st : ostate),
    In args transfer_vectors -> parse_arguments args = inl st ->
    exists st' : ostate, server_view (if as_sender then setf st "am_sender" 1 else st) = inl st' /\
      forall es uids gids ioerr rest,
        let o := fopts_of (if as_sender then setf st "am_sender" 1 else st) in
        Forall (entry_ok o) es -> Forall id_ok uids -> Forall id_ok gids -> i32 ioerr ->
        recv_file_list (fopts_of st') (send_file_list o es uids gids ioerr ++ rest)
        = inl (mkFR (sort_entries es) (if o_uid o then uids else []) (if o_gid o then gids else []) ioerr rest)
        /\ recv_file_list o (send_file_list (fopts_of st') es uids gids ioerr ++ rest)
        = inl (mkFR (sort_entries es) (if o_uid o then uids else []) (if o_gid o then gids else []) ioerr rest).
Proof.
  intros as_sender args st Hin E.
  destruct (roundtrip_vectors as_sender args st Hin E) as (st' & Es & Hw & _).
  exists st'. split; [exact Es|].
  intros es uids gids ioerr rest o Hes Hu Hg Hio.
  rewrite (wire_view_fopts _ _ Hw). fold o.
  split; apply send_recv_file_list; assumption.
Qed.

(** The client (ClientRun) and the daemon (handleConnReceiver) fill every
    transfer-relevant receiver option from the same accessor, and the
    accessors read the expected option fields. *)
Theorem transfer_opts_agree :
  forallb optmap_field_ok wire_transfer_fields = true /\
  forallb (fun f => match assoc f optmap_client with
                    | Some a => String.eqb a (if String.eqb f "PreserveTimes" then "PreserveMTimes" else f)
                    | None => false end) wire_transfer_fields = true /\
  forallb (fun p => String.eqb (accessor_field (fst p) opt_accessors) (snd p)) expected_accessor_fields = true.
Proof. split; [exact optmaps_agree|split; [exact optmap_uses_matching_accessors|exact accessors_as_expected]]. Qed.

(** The switch arms that the model treats by hand (--sender, filter options,
    daemon mode, version) still have the bodies they were modelled from. *)
Theorem switch_arms_as_modelled :
  forallb (fun p : Z * string => match find_arm (fst p) opt_arms with
                    | Some (_, _, _, fp) => String.eqb fp (snd p)
                    | None => false end) hand_modelled_arms = true.
Proof. exact arms_as_modelled. Qed.

(** Non-vacuity: --specials without --devices now reaches the server as
    itself (this shape used to desynchronise the stream), and --delete is
    re-serialised. *)
Example specials_only :
  match parse_arguments ["-rlpt"; "--specials"; "--delete"] with
  | inl st => server_options (setf st "am_sender" 1)
  | inr _ => [] end = ["--server"; "-ltpr"; "--specials"; "--delete"].
Proof. vm_compute. reflexivity. Qed.
Example vectors_include :
  existsb (fun v => strings_eqb v ["-r"; "-l"; "--specials"]) transfer_vectors = true /\
  existsb (fun v => strings_eqb v ["-a"; "-c"; "--delete"]) transfer_vectors = true.
Proof. split; vm_compute; reflexivity. Qed.

Print Assumptions server_options_roundtrip.
Print Assumptions field_agreement.
Print Assumptions transfer_opts_agree.
