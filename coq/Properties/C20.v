(** C20 — SSH listeners admit only authorised keys and expose only the rsync
    daemon.  Statements only; proofs in Proofs/SshProofs.v.  Keys are an
    arbitrary type with decidable equality (the marshalled public key);
    [load_keys] is the authorized_keys loader over an arbitrary line parser;
    [anon_exec] is the gate in front of the exec request of a session on an
    anonymous listener, built on the model of the option parser (every
    option it knows); the daemon option table's own parse is a parameter. *)
From Coq Require Import ZArith String List Bool.
From RV Require Import Model.Popt Model.Ssh Proofs.SshProofs.
Import ListNotations.
Open Scope string_scope.

(** On an authorised listener a key is admitted exactly when it is listed;
    an empty file admits nobody; an anonymous listener admits everybody. *)
Theorem authorised_listener_admits_exactly_listed_keys :
  forall (key : Type) (key_eqb : key -> key -> bool),
    (forall a b, key_eqb a b = true <-> a = b) ->
    forall l k, admits key key_eqb (Some l) k = true <-> In k l.
Proof. exact admits_listed. Qed.

Theorem empty_authorized_keys_admits_nobody :
  forall (key : Type) (key_eqb : key -> key -> bool) k, admits key key_eqb (Some []) k = false.
Proof. exact admits_empty. Qed.

Theorem anonymous_listener_admits_everybody :
  forall (key : Type) (key_eqb : key -> key -> bool) k, admits key key_eqb None k = true.
Proof. exact admits_anonymous. Qed.

(** The listed keys are exactly the parsed non-blank, non-comment lines. *)
Theorem authorized_keys_file_semantics :
  forall (key : Type) (parse_line : string -> option key) (blank : string -> bool) lines ks,
    load_keys key parse_line blank lines = Some ks ->
    forall k, In k ks <-> exists l, In l lines /\ blank l = false /\ parse_line l = Some k.
Proof. exact load_keys_spec. Qed.

(** Anonymous sessions: the daemon protocol is all there is.  It is reached
    only by a command line that selects daemon mode and carries --server ... *)
Theorem anonymous_session_runs_only_the_daemon :
  forall daemon_stage cmdline,
    anon_exec daemon_stage cmdline = DaemonProtocol ->
    exists c args, cmdline = c :: args /\ parse_arguments args = inr EDaemonMode /\ daemon_stage args = Some true.
Proof. exact anon_exec_allowed. Qed.

(** ... every command line the parser accepts in client or plain server mode
    (client-mode transfers, -e / --rsh, --server on arbitrary paths) is
    refused, as is every command line it rejects. *)
Theorem client_and_server_mode_lines_are_refused :
  forall daemon_stage c args st, parse_arguments args = inl st -> anon_exec daemon_stage (c :: args) = Refused.
Proof. exact anon_exec_refuses_non_daemon. Qed.

Theorem unparsable_lines_are_refused :
  forall daemon_stage c args e, parse_arguments args = inr e -> e <> EDaemonMode -> anon_exec daemon_stage (c :: args) = Refused.
Proof. exact anon_exec_refuses_errors. Qed.

(** Non-vacuity. *)
Definition always_server (_ : list string) : option bool := Some true.
Example gate_examples :
  anon_exec always_server ["rsync"; "--server"; "--daemon"; "."] = DaemonProtocol /\
  anon_exec always_server ["rsync"; "--server"; "--sender"; "-r"; "."; "/etc/"] = Refused /\
  anon_exec always_server ["rsync"; "-a"; "/etc/"; "/tmp/x"] = Refused /\
  anon_exec always_server ["rsync"; "-e"; "sh"; "host:/x"; "/tmp/y"] = Refused /\
  anon_exec always_server ["sh"; "-c"; "id"] = Refused /\
  anon_exec always_server [] = Refused.
Proof. vm_compute. repeat split; reflexivity. Qed.

Print Assumptions authorised_listener_admits_exactly_listed_keys.
Print Assumptions authorized_keys_file_semantics.
Print Assumptions anonymous_session_runs_only_the_daemon.
Print Assumptions client_and_server_mode_lines_are_refused.
Print Assumptions unparsable_lines_are_refused.
