(** C06 — a daemon discloses only what lies inside the requested module.
    Statements only; proofs in Proofs/ServeProofs.v, Proofs/ConfineProofs.v.
    [daemon_serve mname t reqs] is the list of names a serving daemon sends
    for the path arguments [reqs] (any byte strings) when the module named
    [mname] is the directory tree [t]: module-name prefix stripped, request
    made relative and cleaned, the walk started there if that is a valid
    root-relative path, names trimmed by the strip prefix.  Symbolic links are
    leaves of [t]; that resolution through the module root never follows one
    out of the module is os.Root's part (assumed, see C05) and is exercised by
    the harness with outside-pointing links and canary secrets. *)
From Coq Require Import ZArith String List Bool.
From RV Require Import Model.Bytes Model.Flist Model.Tree Model.Serve Proofs.TreeProofs Proofs.ServeProofs
  Proofs.ConfineProofs Gen.FsSites.
Import ListNotations.
Open Scope Z_scope.

(** Whatever is requested, every file-list entry is an object of the module's
    own tree. *)
Theorem listed_entries_are_inside_the_module :
  forall t req p, In p (serve_paths t req) -> path_in t p.
Proof. exact served_inside. Qed.

Theorem every_sent_name_comes_from_the_module :
  forall mname t reqs nm,
    In nm (daemon_serve mname t reqs) ->
    exists r p, In r reqs /\ In p (serve_paths t (strip_module mname r)) /\ path_in t p.
Proof. exact daemon_serve_sound. Qed.

(** Traversal attempts: if a ".." survives cleaning (module/.., module/../x,
    module//../ ...), or the requested root does not exist in the module, the
    listing is empty. *)
Theorem traversal_lists_nothing :
  forall t req, valid_path (walk_root req) = false -> serve_paths t req = [].
Proof. exact invalid_root_nothing. Qed.

Theorem dotdot_is_invalid :
  forall p, In [dot; dot] (split_slash p []) -> list_eqb p [dot] = false -> valid_path p = false.
Proof. exact dotdot_invalid. Qed.

Theorem absent_root_lists_nothing :
  forall t req, lookup t (comps_of (walk_root req)) = None -> serve_paths t req = [].
Proof. exact absent_root_nothing. Qed.

(** In the source, the sending side reaches the file system only through its
    source root: Open, Readlink, the walk over the root's FS (inventory
    regenerated from /repo on every run). *)
Theorem sender_reads_only_through_its_root :
  forallb sender_site_ok sender_fs_sites = true.
Proof. exact sender_inventory_ok. Qed.

(** Non-vacuity: the grammar's traversal forms on a concrete module. *)
Definition s2l (s : string) : list Z := map (fun a => Z.of_nat (Ascii.nat_of_ascii a)) (list_ascii_of_string s).
Definition ex_t : ftree := TDir [(s2l "a.txt", TFile); (s2l "d", TDir [(s2l "b.txt", TFile)]); (s2l "out", TOther)].
Example traversal_examples :
  daemon_serve (s2l "mod") ex_t [s2l "mod/.."] = [] /\
  daemon_serve (s2l "mod") ex_t [s2l "mod/../x"] = [] /\
  daemon_serve (s2l "mod") ex_t [s2l "mod//../"] = [] /\
  daemon_serve (s2l "mod") ex_t [s2l "mod/d/../../etc"] = [] /\
  daemon_serve (s2l "mod") ex_t [s2l "/etc/passwd"] = [] /\
  daemon_serve (s2l "mod") ex_t [s2l "mod/d/"] = [s2l "."; s2l "b.txt"] /\
  daemon_serve (s2l "mod") ex_t [s2l "mod/"] = [s2l "."; s2l "a.txt"; s2l "d"; s2l "d/b.txt"; s2l "out"].
Proof. vm_compute. repeat split; reflexivity. Qed.

Print Assumptions listed_entries_are_inside_the_module.
Print Assumptions every_sent_name_comes_from_the_module.
Print Assumptions traversal_lists_nothing.
Print Assumptions dotdot_is_invalid.
Print Assumptions absent_root_lists_nothing.
Print Assumptions sender_reads_only_through_its_root.
