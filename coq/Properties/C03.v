(** C03 — Only data that passes the whole-file checksum ever replaces a
    destination file.  Statements only; proofs in Proofs/DeltaProofs.v. *)
From Coq Require Import ZArith List Bool.
From RV Require Import Model.Bytes Model.Md4 Model.Checksum Model.Delta
     Proofs.BytesProofs Proofs.DeltaProofs.
Import ListNotations.
Open Scope Z_scope.

(** Whatever bytes arrive (any corruption, any token order, any basis,
    including none or one that changed since its sums were sent): if the
    receiver commits bytes [bs], then the 16 bytes it consumed as the trailer
    are the whole-file sum of exactly [bs]. *)
Theorem commit_only_verified :
  forall (H : list Z -> list Z) seed basis s bs rest,
    receive_data H seed basis s = (Commit bs, rest) ->
    lenZ (filesum H seed bs) = 16 ->
    exists pre, s = pre ++ filesum H seed bs ++ rest.
Proof. exact receive_data_commit. Qed.

(** Consequently, if the stream's trailer is the honest sender's
    [filesum target] and the receiver commits, the committed bytes are the
    target — or an explicit collision of the whole-file sum is exhibited.
    (Equality of lists of integers is decidable; no classical axiom.) *)
Theorem no_silent_corruption :
  forall (H : list Z -> list Z) seed basis pre target rest bs,
    lenZ (filesum H seed bs) = 16 -> lenZ (filesum H seed target) = 16 ->
    receive_data H seed basis (pre ++ filesum H seed target ++ rest) = (Commit bs, rest) ->
    bs = target \/ (bs <> target /\ filesum H seed bs = filesum H seed target).
Proof. exact commit_honest_trailer. Qed.

(** A stream whose trailer does not match is rejected: nothing is committed,
    whatever the tokens were. *)
Theorem mismatch_rejects :
  forall (H : list Z -> list Z) seed basis h ts tr rest d,
    head_valid h -> Forall wf_token ts -> lenZ tr = 16 ->
    denote basis h ts = Some d -> filesum H seed d <> tr ->
    receive_data H seed (Some basis) (enc_head h ++ enc_tokens ts ++ le32 0 ++ tr ++ rest) = (Reject d, rest).
Proof. exact trailer_mismatch_rejects. Qed.

(** Non-vacuity: one flipped literal byte under MD4 is rejected; the clean
    stream commits. *)
Example flipped_bit_rejected :
  fst (receive_data md4 3 None
    (enc_head (mkHead 0 700 16 0) ++ enc_tokens [Lit [10; 20; 31]] ++ le32 0 ++ filesum md4 3 [10; 20; 30]))
  = Reject [10; 20; 31].
Proof. vm_compute. reflexivity. Qed.
Example clean_commits :
  fst (receive_data md4 3 None
    (enc_head (mkHead 0 700 16 0) ++ enc_tokens [Lit [10; 20; 30]] ++ le32 0 ++ filesum md4 3 [10; 20; 30]))
  = Commit [10; 20; 30].
Proof. vm_compute. reflexivity. Qed.

Print Assumptions commit_only_verified.
Print Assumptions no_silent_corruption.
Print Assumptions mismatch_rejects.
