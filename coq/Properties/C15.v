(** C15 — The wire format conforms to rsync protocol 27.  Statements only;
    proofs in Proofs/FlistProofs.v and Proofs/BytesProofs.v.  Flag and type
    constants are regenerated from consts.go on every run. *)
From Coq Require Import ZArith List Bool Permutation.
From RV Require Import Model.Bytes Model.Flist Proofs.BytesProofs Proofs.FlistProofs Gen.Consts.
Import ListNotations.
Open Scope Z_scope.

(** 32/64-bit length encoding: every int64 round-trips; the short form is
    used exactly for 0 .. 2^31-1. *)
Theorem i64_roundtrip : forall v s,
  -9223372036854775808 <= v < 9223372036854775808 -> rd_i64 (enc_i64 v ++ s) = Some (v, s).
Proof. exact rd_i64_enc. Qed.
Theorem i64_switch : forall v,
  (0 <= v <= 2147483647 -> enc_i64 v = le32 v) /\
  (v < 0 \/ 2147483647 < v -> enc_i64 v = le32 (-1) ++ le64 v).
Proof. intros v; split; [exact (enc_i64_short v)|exact (enc_i64_long v)]. Qed.

(** Every valid protocol-27 encoding of a file list — any inherited-prefix
    length the names allow, one- or four-byte name lengths, every "same as
    previous" flag wherever the field equals the previous entry's, 64-bit
    lengths — is decoded into exactly the entries that were sent (sorted),
    the id lists and the I/O-error flag; for lists of any length, names of
    any bytes below PATH_MAX, all option sets (writer and reader agreeing on
    the rdev field). *)
Theorem flist_decode_any_conforming :
  forall has_rdev o ces uids gids ioerr rest,
    chain_ok o empty_entry ces ->
    (forall c e, In (c, e) ces -> has_rdev o (e_mode e) = receiver_has_rdev o (e_mode e)) ->
    Forall id_ok uids -> Forall id_ok gids -> i32 ioerr ->
    recv_file_list o (enc_entries has_rdev o ces ++ enc_trailer o uids gids ioerr ++ rest)
    = inl (mkFR (sort_entries (map snd ces))
                (if o_uid o then uids else []) (if o_gid o then gids else []) ioerr rest).
Proof. exact recv_file_list_enc. Qed.

(** The implementation's own encoder (always long names, no compression)
    round-trips through its decoder, for every option set (the sender's and
    the receiver's conditions for the optional rdev field are the same
    function of the options). *)
Theorem flist_roundtrip_gokr :
  forall o es uids gids ioerr rest,
    Forall (entry_ok o) es -> Forall id_ok uids -> Forall id_ok gids -> i32 ioerr ->
    recv_file_list o (send_file_list o es uids gids ioerr ++ rest)
    = inl (mkFR (sort_entries es) (if o_uid o then uids else []) (if o_gid o then gids else []) ioerr rest).
Proof. exact send_recv_file_list. Qed.

(** Both sides number the files identically: the sort yields a strictly
    increasing permutation, and two strictly increasing lists with the same
    elements are the same list — so index i denotes the same file on both
    ends, whatever (unstable) sorting algorithm either end uses. *)
Theorem index_agreement :
  (forall l, Permutation (sort_entries l) l) /\
  (forall l, NoDup (map e_name l) -> strictly_sorted (sort_entries l)) /\
  (forall l1 l2, strictly_sorted l1 -> strictly_sorted l2 -> Permutation l1 l2 -> l1 = l2).
Proof. split; [exact sort_perm|split; [exact sort_strict|exact strictly_sorted_unique]]. Qed.

(** Non-vacuity: two entries sharing the prefix "dir/" sent with prefix
    compression and a one-byte length, the second repeating mode and time. *)
Definition ex_o : fopts := mkFopts true false true true true false.
Definition ex_e1 : fentry := mkEntry [100;105;114;47;97] 5 1500000000 33188 1000 0 0 [] [].
Definition ex_e2 : fentry := mkEntry [100;105;114;47;98] 4294967296 1500000000 33188 0 0 0 [] [].
Definition ex_c1 : choice := mkChoice 0 false false false false false false true.
Definition ex_c2 : choice := mkChoice 4 false true true false false false false.
Example compressed_example :
  recv_file_list ex_o (enc_entries receiver_has_rdev ex_o [(ex_c1, ex_e1); (ex_c2, ex_e2)] ++
                       enc_trailer ex_o [(1000, [117])] [] 0 ++ [7])
  = inl (mkFR [ex_e1; ex_e2] [(1000, [117])] [] 0 [7]).
Proof. vm_compute. reflexivity. Qed.
Example compressed_is_short :
  length (enc_entry receiver_has_rdev ex_o ex_c2 ex_e2) = 20%nat.
Proof. vm_compute. reflexivity. Qed.

Print Assumptions i64_roundtrip.
Print Assumptions flist_decode_any_conforming.
Print Assumptions flist_roundtrip_gokr.
Print Assumptions index_agreement.
