(** C19 — Module access control follows first-match allow/deny.
    Only statements, closed by [exact]; proofs live in Proofs/AclProofs.v. *)
From Coq Require Import ZArith List Bool.
From RV Require Import Model.Acl Proofs.AclProofs.
Import ListNotations.
Open Scope Z_scope.

(** Access is granted exactly when every rule is stepped over (no rule's
    network contains the address and none is malformed), or the first rule
    that is not stepped over is a well-formed [Allow] whose network contains
    the address.  Unbounded rule lists, all addresses. *)
Theorem acl_first_match : forall rs a,
  eval_rules rs a = Granted <->
  Forall (skips a) rs \/
  exists pre w post, rs = pre ++ Rule Allow w :: post /\
                     Forall (skips a) pre /\ matches w a = true.
Proof. exact eval_granted_iff. Qed.

Theorem acl_first_match_deny : forall rs a,
  eval_rules rs a = Denied <->
  exists pre w post, rs = pre ++ Rule Deny w :: post /\
                     Forall (skips a) pre /\ matches w a = true.
Proof. exact eval_denied_iff. Qed.

(** Reaching a malformed rule denies, whatever follows it. *)
Theorem acl_malformed_denies : forall rs a,
  eval_rules rs a = DeniedMalformed <->
  exists pre post, rs = pre ++ Malformed :: post /\ Forall (skips a) pre.
Proof. exact eval_malformed_iff. Qed.

(** On any verdict but [Granted] the reply is an error line and the session
    does not continue to the transfer stages (no module data). *)
Theorem acl_denied_no_data : forall rs remote,
  (snd (acl_stage rs remote) = true <-> check_acl rs remote = Granted) /\
  (fst (acl_stage rs remote) = ReplyOk <-> check_acl rs remote = Granted).
Proof. intros; split; [exact (acl_stage_continue_iff rs remote)|exact (acl_stage_reply rs remote)]. Qed.

(** "Network contains address" is interval membership for masked bases,
    for both address widths. *)
Theorem acl_prefix_is_interval : forall width base plen a,
  0 <= plen <= width -> 0 <= a -> 0 <= base ->
  base mod 2 ^ (width - plen) = 0 ->
  in_prefix width base plen a = true <-> base <= a < base + 2 ^ (width - plen).
Proof. exact in_prefix_spec. Qed.

(** Non-vacuity: concrete lists meeting each side. 10.0.0.0/8 = 167772160. *)
Example acl_ex_grant :
  eval_rules [Rule Deny (WNet4 3232235520 16); Rule Allow (WNet4 167772160 8); Rule Deny WAll]
             (V4 167772161) = Granted.
Proof. vm_compute. reflexivity. Qed.
Example acl_ex_deny :
  eval_rules [Rule Allow (WNet4 167772160 8); Rule Deny WAll] (V6 1) = Denied.
Proof. vm_compute. reflexivity. Qed.
Example acl_ex_malformed :
  eval_rules [Rule Allow (WNet4 167772160 8); Malformed; Rule Allow WAll] (V4 1) = DeniedMalformed.
Proof. vm_compute. reflexivity. Qed.
Example acl_ex_skips : skips (V4 1) (Rule Allow (WNet4 167772160 8)).
Proof. exists Allow, (WNet4 167772160 8). split; [reflexivity|vm_compute; reflexivity]. Qed.

(** An IPv4-mapped network given in IPv6 syntax matches IPv4 peers. *)
Example acl_ex_mapped :
  eval_rules [Rule Deny (WNet6 281470849515520 104)] (V4 167772161) = Denied.
Proof. vm_compute. reflexivity. Qed.

Print Assumptions acl_first_match.
Print Assumptions acl_first_match_deny.
Print Assumptions acl_malformed_denies.
Print Assumptions acl_denied_no_data.
Print Assumptions acl_prefix_is_interval.
