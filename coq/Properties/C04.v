(** C04 — destination paths change atomically.  Statements only; proofs in
    Proofs/AtomicProofs.v.  [recv_steps] is recvFile1 at token granularity
    (create the separately named pending file, append each data run, and —
    only when the whole-file checksum verified — rename it over the target
    and set its metadata; always end with the deferred clean-up); a crash or
    freeze point is a prefix of that step list. *)
From Coq Require Import ZArith List Bool.
From RV Require Import Model.Bytes Model.Flist Model.GenOps Model.Atomic Proofs.AtomicProofs Gen.Consts.
Import ListNotations.
Open Scope Z_scope.

(** At every instant (after any number [k] of steps), for every token
    stream (any data runs), any point [upto] at which the stream may fail,
    either verification outcome, and any prior state of the target, the
    target path is exactly as it was, or it is a regular file holding the
    complete new content — and the latter only for a complete, verified
    stream.  In-progress data therefore exists only in the pending file. *)
Theorem target_old_or_new_at_every_instant :
  forall o e now chunks upto verified old s0 k,
    let s' := a_run (e_name e) now (mkA s0 None) (firstn k (recv_steps o e chunks upto verified old now)) in
    a_path s' = s0 \/ (upto = None /\ verified = true /\ committed chunks (a_path s')).
Proof. exact atomic_prefix. Qed.

(** When recvFile1 returns — success, checksum mismatch or stream failure —
    no pending file remains. *)
Theorem no_pending_file_after_return :
  forall o e now chunks upto verified old s0,
    g_dry o = false ->
    a_temp (a_run (e_name e) now (mkA s0 None) (recv_steps o e chunks upto verified old now)) = None.
Proof. exact no_temp_after_return. Qed.

(** An unverified stream never changes the target. *)
Theorem unverified_never_replaces :
  forall o e now chunks upto old s0,
    a_path (a_run (e_name e) now (mkA s0 None) (recv_steps o e chunks upto false old now)) = s0.
Proof. exact unverified_keeps_target. Qed.

(** Replacing a symlink: at every instant the path is the old entry or a
    symlink with the complete new target. *)
Theorem symlink_old_or_new_at_every_instant :
  forall o e now s k,
    let s' := run_ops (e_name e) now s (firstn k (fst (new_symlink o e now))) in
    s' = s \/ exists st, s' = PNode st [] /\ l_kind st = KLnk /\ l_link st = e_link e.
Proof. exact symlink_replace_atomic. Qed.

(** Non-vacuity: a three-run stream over an existing file, observed after
    two runs (old content, pending file holds the first two runs) and at the
    end (new content, no pending file). *)
Definition ex_o : gopts := mkG false true true true true true false false true 18.
Definition ex_e : fentry := mkEntry [102] 0 1000000000 (c_S_IFREG + 420) 0 0 0 [] [].
Definition ex_s0 : pstate := PNode (mkL KReg 420 0 0 0 [] 0 false) [9; 9].
Example mid_flight :
  a_run [102] 7 (mkA ex_s0 None) (firstn 3 (recv_steps ex_o ex_e [[1]; [2]; [3]] None true (Some 420) 7)) =
  mkA ex_s0 (Some [1; 2]).
Proof. vm_compute. reflexivity. Qed.
Example completed :
  content_of (a_path (a_run [102] 7 (mkA ex_s0 None) (recv_steps ex_o ex_e [[1]; [2]; [3]] None true (Some 420) 7))) = Some [1; 2; 3].
Proof. vm_compute. reflexivity. Qed.

Print Assumptions target_old_or_new_at_every_instant.
Print Assumptions no_pending_file_after_return.
Print Assumptions unverified_never_replaces.
Print Assumptions symlink_old_or_new_at_every_instant.
