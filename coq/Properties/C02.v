(** C02 — Delta encoding and decoding are exact for every basis, target and
    block layout.  Statements only; proofs in Proofs/SenderProofs.v and
    Proofs/DeltaProofs.v.  [H] is an arbitrary strong hash (MD4 in the code),
    [seed] any seed, [chunk] any positive literal chunk size. *)
From Coq Require Import ZArith List Bool FMapPositive.
From RV Require Import Model.Bytes Model.Md4 Model.Checksum Model.Delta Model.Sender
     Proofs.BytesProofs Proofs.DeltaProofs Proofs.TileProofs Proofs.SenderProofs Proofs.GeneratorProofs Proofs.TileRecv Gen.Consts.
Import ListNotations.
Open Scope Z_scope.

(** Sender half.  For every basis, every block layout with block length >= 1
    whose strong sums were computed over that basis (any strong length), and
    every source file: if the sender completes, its token stream applied to
    the basis is the source file and the trailer is the whole-file sum —
    provided no window of the source collides with a *different* basis block
    under the truncated strong sum ([no_collision]: a statement about these
    specific strings; for 16-byte sums an MD4 collision). *)
Theorem sender_exact :
  forall (H : list Z -> list Z) (seed chunk : Z) (basis : list Z) (h : sum_head)
         (sums : list sumbuf) (target : list Z) h' toks tr,
    1 <= chunk -> 1 <= h_blen h -> 0 <= h_rem h ->
    send_one H seed chunk h sums target = SOk h' toks tr ->
    sums_legal H seed basis h sums ->
    no_collision H seed basis h target ->
    denote basis h' toks = Some target /\ tr = filesum H seed target.
Proof.
  intros H seed chunk basis h sums target h' toks tr Hc Hb Hr E Hl Hn.
  exact (send_one_exact H seed chunk Hc basis h sums target Hb Hr h' toks tr E Hl Hn).
Qed.

(** With full-length strong sums a weak-checksum collision alone never yields
    a block reference: every reference the search emits is *justified*, i.e.
    the truncated strong sum of the window equals the listed sum of that block
    (the loop-body invariant [SInv] carries [rcov], whose [rc_ref] case demands
    [justified]). *)
Theorem match_is_strong :
  forall (H : list Z -> list Z) (seed chunk : Z) (h : sum_head) (sums : list sumbuf) (target : list Z)
         (tt : tagtable) (end_ : Z) (st : sstate),
    1 <= chunk -> 1 <= h_blen h -> end_ <= lenZ target ->
    (forall t i s1 s2, In (i, s1, s2) (tt_find tt t) ->
        0 <= i /\ nth_error sums (Z.to_nat i) = Some (s1, s2)) ->
    SInv H seed chunk h sums target st ->
    match body H seed chunk h tt (lenZ target) end_ st with
    | Done lastm' lmc' rtoks' => rcov H seed chunk h sums target rtoks' lastm' /\ lmc' = dropZ lastm' target
    | Next st' => SInv H seed chunk h sums target st'
    | Crashed _ => True
    end.
Proof.
  intros H seed chunk h sums target tt end_ st Hc Hb He Htt Hinv.
  exact (body_sound H seed chunk Hc h sums target tt end_ Htt He Hb st Hinv).
Qed.

(** Receiver half.  For any basis and any valid token stream (literal runs of
    any chunking, references in any order, repeated), the receiver writes
    exactly the bytes the stream denotes and commits iff the trailer is their
    whole-file sum; a reference outside the basis is an error. *)
Theorem receiver_exact :
  forall (H : list Z -> list Z) seed basis h ts tr rest,
    head_valid h -> Forall wf_token ts -> lenZ tr = 16 ->
    match denote basis h ts with
    | Some d =>
        receive_data H seed (Some basis) (enc_head h ++ enc_tokens ts ++ le32 0 ++ tr ++ rest) =
        if list_eqb (filesum H seed d) tr then (Commit d, rest) else (Reject d, rest)
    | None =>
        exists r, receive_data H seed (Some basis) (enc_head h ++ enc_tokens ts ++ le32 0 ++ tr ++ rest) =
                  (RErrBasisRead, r)
    end.
Proof. exact receive_data_exact. Qed.

(** The tag table the search consults is exactly the received list grouped by
    tag, in ascending block order (no entry lost, none invented). *)
Theorem tag_table_exact :
  forall sums t, 0 <= t ->
    tt_find (tt_build sums 0 (PositiveMap.empty _)) t = entries sums 0 t.
Proof.
  intros sums t Ht. rewrite tt_build_spec by exact Ht.
  rewrite tt_find_empty. apply app_nil_r.
Qed.

(** Geometry of the signature the generator produces (SumSizesSqroot) as the
    receiver reads it back (block_len): for every basis length the blocks lie
    inside the basis, all but the last have the full block length, they are
    laid end to end, and the last one ends exactly at the end of the basis;
    an empty basis has no block.  So the layouts over which [sender_exact]
    and [receiver_exact] quantify include every layout the code generates,
    and no byte of the basis is outside the signature. *)
Theorem signature_blocks_tile_the_basis :
  forall n, 0 <= n ->
    let h := sum_sizes_sqroot n in
    (forall i, 0 <= i < h_count h ->
       1 <= block_len h i <= h_blen h /\ i * h_blen h + block_len h i <= n) /\
    (forall i, 0 <= i < h_count h - 1 -> block_len h i = h_blen h) /\
    (0 < n -> 1 <= h_count h /\
              (h_count h - 1) * h_blen h + block_len h (h_count h - 1) = n) /\
    (n = 0 -> h_count h = 0).
Proof. exact sqroot_blocks_tile. Qed.

(** Every block of that signature can be read back from the unchanged basis:
    a reference to any index below the count denotes exactly [block_len]
    bytes (receiveData's ReadAt never comes up short on an unchanged basis). *)
Theorem signature_blocks_are_readable :
  forall basis i,
    let h := sum_sizes_sqroot (lenZ basis) in
    0 <= i < h_count h ->
    exists b, ref_bytes basis h i = Some b /\ lenZ b = block_len h i.
Proof. exact sqroot_refs_readable. Qed.

(** The blocks tile the basis: referencing every block of the generator's
    signature once, in order, denotes exactly the basis — no byte of it is
    missing from, or counted twice in, the layout both sides compute. *)
Theorem all_block_references_denote_the_basis :
  forall basis,
    let h := sum_sizes_sqroot (lenZ basis) in
    denote basis h (map (fun j => Ref (Z.of_nat j)) (seq 0 (Z.to_nat (h_count h)))) = Some basis.
Proof. exact denote_all_refs. Qed.

(** End to end on the receiver: a transmission that references every block of
    the generator's signature in order, followed by the whole-file sum of the
    basis, makes receiveData commit exactly the basis (any strong hash with
    16-byte output, any seed, any basis below 2^40 bytes). *)
Theorem whole_signature_reproduces_the_basis :
  forall (H : list Z -> list Z) seed basis rest,
    (forall x, lenZ (H x) = 16) -> lenZ basis < 1099511627776 ->
    let h := sum_sizes_sqroot (lenZ basis) in
    receive_data H seed (Some basis)
      (enc_head h ++ enc_tokens (map (fun j => Ref (Z.of_nat j)) (seq 0 (Z.to_nat (h_count h)))) ++
       le32 0 ++ filesum H seed basis ++ rest) = (Commit basis, rest).
Proof. exact all_refs_commit. Qed.

(** Non-vacuity: 1401 bytes give two full blocks of 700 and a remainder of 1;
    490000 bytes (sqrt = 700) give exactly 700 full blocks. *)
Example tile_example :
  sum_sizes_sqroot 1401 = mkHead 3 700 16 1 /\ block_len (sum_sizes_sqroot 1401) 2 = 1 /\
  sum_sizes_sqroot 490000 = mkHead 700 700 16 0 /\ sum_sizes_sqroot 1000000 = mkHead 1000 1000 16 0.
Proof. vm_compute. repeat split; reflexivity. Qed.

(** Non-vacuity: a 3-block basis (block length 2, remainder 1) with a
    duplicated block; the model sender under MD4 produces a mixed stream that
    denotes the target, and the hypotheses of [sender_exact] are met by it. *)
Definition ex_basis : list Z := [1; 2; 1; 2; 255].
Definition ex_head : sum_head := mkHead 3 2 16 1.
Definition ex_sums : list sumbuf :=
  map (fun i => (checksum1 (blk ex_basis ex_head i),
                 takeZ 16 (checksum2 md4 7 (blk ex_basis ex_head i)))) [0; 1; 2].
Definition ex_target : list Z := [9; 1; 2; 255; 1; 2; 7].

Example sender_example :
  exists toks tr, send_one md4 7 262144 ex_head ex_sums ex_target = SOk ex_head toks tr /\
                  denote ex_basis ex_head toks = Some ex_target /\
                  toks = [Lit [9]; Ref 0; Lit [255]; Ref 0; Lit [7]].
Proof. eexists. eexists. vm_compute. repeat split; reflexivity. Qed.

Example receiver_example :
  receive_data md4 7 (Some ex_basis)
    (enc_head ex_head ++ enc_tokens [Ref 2; Lit [5; 6]; Ref 0; Ref 0] ++ le32 0 ++
     filesum md4 7 [255; 5; 6; 1; 2; 1; 2] ++ [42]) = (Commit [255; 5; 6; 1; 2; 1; 2], [42]).
Proof. vm_compute. reflexivity. Qed.

Print Assumptions sender_exact.
Print Assumptions match_is_strong.
Print Assumptions receiver_exact.
Print Assumptions tag_table_exact.
Print Assumptions signature_blocks_tile_the_basis.
Print Assumptions signature_blocks_are_readable.
Print Assumptions all_block_references_denote_the_basis.
Print Assumptions whole_signature_reproduces_the_basis.
