(** C01 — A successful sync leaves destination files byte-identical to the
    source.  Statements only; proofs in Proofs/GeneratorProofs.v (which
    composes SenderProofs, SearchInv, DeltaProofs).

    What is a theorem: for ONE file, the complete pipeline — the generator's
    request computed from whatever the destination path holds (nothing, or
    any existing file used as delta basis, including an emptied / truncated /
    extended / unrelated one), the sender's hash search over the source, the
    receiver's reconstruction and checksum verification — succeeds and
    commits exactly the source bytes, for all contents and sizes below 2^40;
    and the update rule that decides whether the pipeline runs at all (C12).
    [sync_session_correct] lifts this to a whole file list over a destination
    state (each listed, requested file ends equal to its source, every other
    path is untouched).
    The names a serving daemon gives the selected files — which, joined to
    the destination, are the paths the receiver writes — are covered by
    [every_object_under_the_requested_root_is_listed],
    [contents_of_a_directory_requested_with_a_slash],
    [directory_requested_with_a_slash_lands_its_contents_directly],
    [path_requested_without_a_slash_keeps_its_module_relative_name] and
    [other_requests_keep_the_module_relative_path] (model: Model/Serve.v,
    tied to the real daemon by the serve component and to the destination
    tree by the sync component).
    The client's own source arguments (push / local copy: an absolute path is
    split into filepath.Dir and filepath.Base before the same walk runs) are
    covered by [client_source_without_a_slash_is_named_by_its_last_element]
    and [client_source_with_a_slash_lands_its_contents_directly] (model
    client_names, tied to the real SendFileList by component clientnames).
    filepath.Clean / Dir / Base are modelled ([path_clean], [path_dir],
    [path_base]) and compared with the real ones through those components;
    relative source arguments are made absolute by the client before
    (os.Getwd, not modelled).
    KNOWN FINDING visible in [mapping_examples]: a nested path requested
    *without* trailing slash (module/d/e) keeps its whole module-relative
    path (d/e/...) where rsync names it by its last element (e/...). *)
From Coq Require Import ZArith List Bool.
From Coq Require Import String.
From RV Require Import Model.Bytes Model.Md4 Model.Checksum Model.Delta Model.Sender Model.Generator
     Model.Flist Model.Tree Model.Serve
     Proofs.BytesProofs Proofs.SenderProofs Proofs.SearchInv Proofs.GeneratorProofs Proofs.TreeSyncProofs
     Proofs.ServeProofs.
Import ListNotations.
Open Scope Z_scope.

(** The only escape is an explicit collision between a window of the source
    and a *different* block of the old destination file under the 16-byte
    strong checksum ([no_collision], a statement about these strings). *)
Theorem sync_file_correct :
  forall (H : list Z -> list Z) seed chunk src dst,
    (forall x, lenZ (H x) = 16) -> 1 <= chunk < 2147483648 ->
    lenZ src < 1099511627776 ->
    match dst with
    | Some b => lenZ b < 1099511627776 /\ no_collision H seed b (fst (gen_sums H seed b)) src
    | None => True
    end ->
    file_transfer H seed chunk src dst = Commit src.
Proof.
  intros H seed chunk src dst H16 Hc. exact (file_transfer_correct H seed chunk H16 Hc src dst).
Qed.

(** Transfers in this domain succeed rather than fail: the sender never
    crashes or stalls, for any checksum list a generator can produce. *)
Theorem sync_sender_succeeds :
  forall (H : list Z -> list Z) seed chunk src b,
    1 <= chunk ->
    exists h' toks tr,
      send_one H seed chunk (fst (gen_sums H seed b)) (snd (gen_sums H seed b)) src = SOk h' toks tr.
Proof. exact gen_then_send_total. Qed.

(** A whole session: the file list is any list of (name, source content)
    with distinct names, the destination any assignment of contents to paths,
    [requested] the update rule's verdict per file (C12).  After the session
    every requested file holds exactly the source's bytes; every other path —
    listed but not requested, or not listed at all — is as it was.  The side
    condition [file_ok] is the one of [sync_file_correct], taken against the
    destination as it was before the session. *)
Theorem sync_session_correct :
  forall (H : list Z -> list Z) seed chunk (requested : fname -> bool),
    (forall x, lenZ (H x) = 16) -> 1 <= chunk < 2147483648 ->
    forall files d,
      NoDup (map fst files) ->
      (forall nc, In nc files -> requested (fst nc) = true -> file_ok H seed d nc) ->
      (forall n c, In (n, c) files -> requested n = true -> sync_all H seed chunk requested files d n = Some c) /\
      (forall n c, In (n, c) files -> requested n = false -> sync_all H seed chunk requested files d n = d n) /\
      (forall m, ~ In m (map fst files) -> sync_all H seed chunk requested files d m = d m).
Proof.
  intros H seed chunk requested H16 Hc files d. exact (sync_all_correct H seed chunk requested H16 Hc files d).
Qed.

(** Non-vacuity, under MD4: a file that became empty over a non-empty copy
    (the case that used to crash the sender), and an edited copy. *)
Example emptied_file : file_transfer md4 9 262144 [] (Some [1; 2; 3; 4; 5]) = Commit [].
Proof. vm_compute. reflexivity. Qed.
Example edited_copy :
  file_transfer md4 9 262144 [7; 1; 2; 3; 250] (Some [1; 2; 3]) = Commit [7; 1; 2; 3; 250].
Proof. vm_compute. reflexivity. Qed.
Example new_file : file_transfer md4 9 262144 [0; 255] None = Commit [0; 255].
Proof. vm_compute. reflexivity. Qed.

(** ** Source argument -> destination path (a daemon serving a module tree) *)

(** Everything that exists under the requested root is in the file list. *)
Theorem every_object_under_the_requested_root_is_listed :
  forall t req sub rel node,
    valid_path (walk_root req) = true ->
    lookup t (comps_of (walk_root req)) = Some sub -> lookup sub rel = Some node ->
    In (comps_of (walk_root req) ++ rel) (serve_paths t req).
Proof. exact serve_complete. Qed.

(** A directory requested with a trailing slash (the strip prefix is its path
    followed by a slash): its contents are named by their path relative to
    it, so they land directly under the destination; the directory itself is
    ".". *)
Theorem contents_of_a_directory_requested_with_a_slash :
  forall p0 rel, p0 <> [] -> wire_name (render p0 ++ [slash]) (p0 ++ rel) = render rel.
Proof. exact wire_name_contents. Qed.

(** The same for the request as the daemon receives it, "/c1/.../ck/" with
    ordinary components (no slash inside, none empty, "." or ".."): whatever
    exists under that directory is listed under its path relative to it —
    filepath.Clean, the strip prefix and the walk root included. *)
Theorem directory_requested_with_a_slash_lands_its_contents_directly :
  forall p0, p0 <> [] -> Forall (fun c => good_comp c = true) p0 ->
  forall t sub rel node, lookup t p0 = Some sub -> lookup sub rel = Some node ->
    In (render rel) (serve_names t (slash :: render_from p0 ++ [slash])).
Proof. exact directory_contents_named_relative. Qed.

(** "/c1/.../ck" without trailing slash: listed under the module-relative
    path.  For k = 1 this is rsync's naming (the directory's own name, then the
    relative path); for k > 1 rsync names by ck alone — the known finding. *)
Theorem path_requested_without_a_slash_keeps_its_module_relative_name :
  forall p0, p0 <> [] -> Forall (fun c => good_comp c = true) p0 ->
  forall t sub rel node, lookup t p0 = Some sub -> lookup sub rel = Some node ->
    In (render (p0 ++ rel)) (serve_names t (slash :: render_from p0)).
Proof. exact path_named_module_relative. Qed.

(** The client as sender (push, local copy): the absolute source path
    "/pre/c" is split into the directory to open and the last element, and is
    named c, c/... — rsync's naming, for every depth of pre. *)
Theorem client_source_without_a_slash_is_named_by_its_last_element :
  forall pre c, Forall (fun x => good_comp x = true) pre -> good_comp c = true ->
  forall t cs rel node,
    lookup t pre = Some (TDir cs) -> lookup (TDir cs) (c :: rel) = Some node ->
    In (render (c :: rel)) (client_names t (slash :: render_from (pre ++ [c]))).
Proof. exact client_path_is_named_by_its_last_element. Qed.

(** ... and "/pre/c/" lands the contents of c directly under the destination. *)
Theorem client_source_with_a_slash_lands_its_contents_directly :
  forall pre c, Forall (fun x => good_comp x = true) pre -> good_comp c = true ->
  forall t cs rel node,
    lookup t (pre ++ [c]) = Some (TDir cs) -> lookup (TDir cs) rel = Some node ->
    In (render rel) (client_names t ((slash :: render_from (pre ++ [c])) ++ [slash])).
Proof. exact client_directory_with_a_slash_lands_its_contents_directly. Qed.

(** Any other request: the module-relative path. *)
Theorem other_requests_keep_the_module_relative_path :
  forall p, wire_name [] p = render p.
Proof. reflexivity. Qed.

Definition s2l (s : string) : list Z := map (fun a => Z.of_nat (Ascii.nat_of_ascii a)) (list_ascii_of_string s).
Definition map_t : ftree :=
  TDir [(s2l "a.txt", TFile); (s2l "d", TDir [(s2l "b.txt", TFile); (s2l "e", TDir [(s2l "x", TFile)])])].
Example mapping_examples :
  daemon_serve (s2l "mod") map_t [s2l "mod/d/"] = [s2l "."; s2l "b.txt"; s2l "e"; s2l "e/x"] /\
  daemon_serve (s2l "mod") map_t [s2l "mod/d/e/"] = [s2l "."; s2l "x"] /\
  daemon_serve (s2l "mod") map_t [s2l "mod/d"] = [s2l "d"; s2l "d/b.txt"; s2l "d/e"; s2l "d/e/x"] /\
  daemon_serve (s2l "mod") map_t [s2l "mod/d/e"] = [s2l "d/e"; s2l "d/e/x"] /\
  get_strip (s2l "/d/e/") = render [s2l "d"; s2l "e"] ++ [slash] /\
  comps_of (walk_root (s2l "/d/e/")) = [s2l "d"; s2l "e"].
Proof. vm_compute. repeat split; reflexivity. Qed.

Print Assumptions sync_file_correct.
Print Assumptions sync_sender_succeeds.
Print Assumptions sync_session_correct.
Print Assumptions every_object_under_the_requested_root_is_listed.
Print Assumptions contents_of_a_directory_requested_with_a_slash.
Print Assumptions other_requests_keep_the_module_relative_path.
Print Assumptions directory_requested_with_a_slash_lands_its_contents_directly.
Print Assumptions path_requested_without_a_slash_keeps_its_module_relative_name.
Print Assumptions client_source_without_a_slash_is_named_by_its_last_element.
Print Assumptions client_source_with_a_slash_lands_its_contents_directly.
