(** C01 — A successful sync leaves destination files byte-identical to the
    source.  Statements only; proofs in Proofs/GeneratorProofs.v (which
    composes SenderProofs, SearchInv, DeltaProofs).

    What is a theorem: for ONE file, the complete pipeline — the generator's
    request computed from whatever the destination path holds (nothing, or
    any existing file used as delta basis, including an emptied / truncated /
    extended / unrelated one), the sender's hash search over the source, the
    receiver's reconstruction and checksum verification — succeeds and
    commits exactly the source bytes, for all contents and sizes below 2^40;
    and the update rule that decides whether the pipeline runs at all (C12).
    [sync_session_correct] lifts this to a whole file list over a destination
    state (each listed, requested file ends equal to its source, every other
    path is untouched).
    What is NOT a theorem (correspondence only, see DESIGN.md): the mapping
    of source arguments to destination paths across the four arrangements and
    the walk that produces the list; those are exercised end to end by the
    harness. *)
From Coq Require Import ZArith List Bool.
From RV Require Import Model.Bytes Model.Md4 Model.Checksum Model.Delta Model.Sender Model.Generator
     Proofs.BytesProofs Proofs.SenderProofs Proofs.SearchInv Proofs.GeneratorProofs Proofs.TreeSyncProofs.
Import ListNotations.
Open Scope Z_scope.

(** The only escape is an explicit collision between a window of the source
    and a *different* block of the old destination file under the 16-byte
    strong checksum ([no_collision], a statement about these strings). *)
Theorem sync_file_correct :
  forall (H : list Z -> list Z) seed chunk src dst,
    (forall x, lenZ (H x) = 16) -> 1 <= chunk < 2147483648 ->
    lenZ src < 1099511627776 ->
    match dst with
    | Some b => lenZ b < 1099511627776 /\ no_collision H seed b (fst (gen_sums H seed b)) src
    | None => True
    end ->
    file_transfer H seed chunk src dst = Commit src.
Proof.
  intros H seed chunk src dst H16 Hc. exact (file_transfer_correct H seed chunk H16 Hc src dst).
Qed.

(** Transfers in this domain succeed rather than fail: the sender never
    crashes or stalls, for any checksum list a generator can produce. *)
Theorem sync_sender_succeeds :
  forall (H : list Z -> list Z) seed chunk src b,
    1 <= chunk ->
    exists h' toks tr,
      send_one H seed chunk (fst (gen_sums H seed b)) (snd (gen_sums H seed b)) src = SOk h' toks tr.
Proof. exact gen_then_send_total. Qed.

(** A whole session: the file list is any list of (name, source content)
    with distinct names, the destination any assignment of contents to paths,
    [requested] the update rule's verdict per file (C12).  After the session
    every requested file holds exactly the source's bytes; every other path —
    listed but not requested, or not listed at all — is as it was.  The side
    condition [file_ok] is the one of [sync_file_correct], taken against the
    destination as it was before the session. *)
Theorem sync_session_correct :
  forall (H : list Z -> list Z) seed chunk (requested : fname -> bool),
    (forall x, lenZ (H x) = 16) -> 1 <= chunk < 2147483648 ->
    forall files d,
      NoDup (map fst files) ->
      (forall nc, In nc files -> requested (fst nc) = true -> file_ok H seed d nc) ->
      (forall n c, In (n, c) files -> requested n = true -> sync_all H seed chunk requested files d n = Some c) /\
      (forall n c, In (n, c) files -> requested n = false -> sync_all H seed chunk requested files d n = d n) /\
      (forall m, ~ In m (map fst files) -> sync_all H seed chunk requested files d m = d m).
Proof.
  intros H seed chunk requested H16 Hc files d. exact (sync_all_correct H seed chunk requested H16 Hc files d).
Qed.

(** Non-vacuity, under MD4: a file that became empty over a non-empty copy
    (the case that used to crash the sender), and an edited copy. *)
Example emptied_file : file_transfer md4 9 262144 [] (Some [1; 2; 3; 4; 5]) = Commit [].
Proof. vm_compute. reflexivity. Qed.
Example edited_copy :
  file_transfer md4 9 262144 [7; 1; 2; 3; 250] (Some [1; 2; 3]) = Commit [7; 1; 2; 3; 250].
Proof. vm_compute. reflexivity. Qed.
Example new_file : file_transfer md4 9 262144 [0; 255] None = Commit [0; 255].
Proof. vm_compute. reflexivity. Qed.

Print Assumptions sync_file_correct.
Print Assumptions sync_sender_succeeds.
Print Assumptions sync_session_correct.
