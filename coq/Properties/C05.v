(** C05 — a receiver never touches anything outside its destination
    directory.  Statements only; proofs in Proofs/ConfineProofs.v.  Three
    layers: (1) in the model, every file-system operation of a receiving
    session names a path taken from the file list and is root-relative by
    construction; (2) the inventory of file-system call sites in the
    receiving side's source (Gen/FsSites.v, regenerated from /repo on every
    run) consists of os.Root methods, handle methods, pure path functions,
    helpers that are given the root, and a fixed list of directory-fd-relative
    calls — nothing else; (3) os.Root's own confinement is an explicit
    assumption (Section hypothesis [root_confines]), exercised by the
    hostile-file-list matrix of the harness. *)
From Coq Require Import ZArith String List Bool.
From RV Require Import Model.Bytes Model.Flist Model.Tree Model.GenOps Model.Root Proofs.ConfineProofs Proofs.RootProofs Gen.FsSites.
Import ListNotations.

(** (1) Whatever the file list, destination state and options: each
    operation issued acts on the root-relative name of a listed entry. *)
Theorem operations_name_listed_paths_only :
  forall o now ws op,
    In op (receiver_session_ops o now ws) -> exists w, In w ws /\ op_path op = e_name (w_entry w).
Proof. exact session_ops_paths. Qed.

(** Given that resolution through the root never leaves it, no operation of
    any session touches an object outside the root. *)
Theorem session_confined_given_root :
  forall (gpath : Type) (under_root : gpath -> Prop) (resolve : list Z -> option gpath),
    (forall p g, resolve p = Some g -> under_root g) ->
    forall o now ws op g,
      In op (receiver_session_ops o now ws) -> touched gpath resolve op = Some g -> under_root g.
Proof. exact session_confined. Qed.

(** (2) The code has no file-system call site that builds a destination path
    by itself: every site is root-relative, handle-relative, pure, or one of
    the listed directory-fd-relative calls on a base name; socket paths are
    /proc/self/fd/<parent fd>/<base>; the daemon's subdirectory argument is
    cleaned and opened through the root. *)
Theorem every_fs_call_site_is_root_relative :
  forallb site_ok fs_sites = true /\ bind_path_ok = true /\ subdir_ok = true.
Proof. exact inventory_ok. Qed.

(** (3) os.Root itself: [root_resolve] is a model of its resolution (component
    walk, ".." by restart, relative links spliced in, absolute links and ".."
    at the root refused, a final link followed or not per operation), checked
    against the real os.Root on random trees by the harness.  In the model a
    successful resolution — whatever the name and whatever relative,
    absolute, dangling, cyclic or ".."-laden symbolic links the tree holds —
    ends at a directory of the tree or at an entry name directly inside one. *)
Theorem root_resolution_stays_inside :
  forall t follow_last name p,
    (exists cs, t = RDir cs) -> root_resolve t follow_last name = inl p ->
    is_dir_at t p \/ exists d c, p = (d ++ [c])%list /\ is_dir_at t d.
Proof. exact root_resolve_inside. Qed.

Theorem dotdot_at_the_root_is_refused :
  forall f t follow_last rest, resolve (S f) t follow_last [] (dotdot :: rest) = inr EEscapes.
Proof. exact dotdot_at_root_escapes. Qed.

(** Non-vacuity: a plain-path call would be rejected by the inventory check. *)
Example plain_path_call_rejected :
  site_ok ("internal/receiver/generator.go:setPerms", "pkg", "os.Chmod", "filepath.Join(rt.Dest, f.Name), perm")%string = false.
Proof. vm_compute. reflexivity. Qed.

Print Assumptions operations_name_listed_paths_only.
Print Assumptions session_confined_given_root.
Print Assumptions every_fs_call_site_is_root_relative.
Print Assumptions root_resolution_stays_inside.
