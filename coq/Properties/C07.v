(** C07 — read-only modules are never modified.  Statements only; proofs in
    Proofs/DaemonProofs.v and Proofs/ConfineProofs.v.  [daemon_request] is the
    daemon's handling of one connection up to the start of a transfer, for any
    module table, requested module line and flag lines (parsed by the model of
    the real option parser); [DReceiver] is the only outcome in which the
    receiving code (and with it any file-system write) runs. *)
From Coq Require Import ZArith String List Bool.
From RV Require Import Model.Popt Model.Daemon Proofs.DaemonProofs Proofs.ConfineProofs Gen.FsSites.
Import ListNotations.
Open Scope string_scope.

(** Whatever the client sends — any module line, any flag lines — the daemon
    starts receiving only into the module that was requested by name, and
    only if that module is configured writable. *)
Theorem only_writable_modules_receive :
  forall mods requested acl flags m paths,
    daemon_request mods requested acl flags = DReceiver m paths ->
    In m mods /\ m_name m = requested /\ m_writable m = true /\ acl = true /\
    exists st, parse_arguments flags = inl st /\ (getf st "am_sender" =? 0)%Z = true.
Proof. exact receiver_only_if_writable. Qed.

Theorem writes_imply_writable :
  forall mods requested acl flags,
    writes (daemon_request mods requested acl flags) = true ->
    exists m, In m mods /\ m_name m = requested /\ m_writable m = true.
Proof. exact writes_only_writable. Qed.

(** Every receive-mode request for a read-only module is refused (with the
    "module is read only" error), for all flag sets. *)
Theorem readonly_module_refuses_uploads :
  forall mods requested flags m st p ps,
    get_module mods requested = Some m -> m_writable m = false ->
    requested <> "" -> requested <> "#list" ->
    parse_arguments flags = inl st -> (getf st "am_sender" =? 0)%Z = true ->
    o_remaining st = "." :: p :: ps ->
    daemon_request mods requested true flags = DRefusedReadOnly m.
Proof. exact readonly_refused. Qed.

(** In the source, the Writable check of the receive handler precedes every
    file-system call of that handler (inventory regenerated on every run) ... *)
Theorem refusal_precedes_any_fs_call :
  existsb is_guard (before_first_fs (filter in_recv_handler fs_sites)) = true.
Proof. exact writable_guard_first. Qed.

(** ... and the sending side, which serves read-only modules, has no
    modifying call at all: it opens, reads links and walks, through its
    source. *)
Theorem sender_only_reads :
  forallb sender_site_ok sender_fs_sites = true.
Proof. exact sender_inventory_ok. Qed.

(** Non-vacuity: the same upload request is accepted for a writable module
    and refused for a read-only one; a pull is served by both. *)
Definition ex_mods : list dmodule := [mkMod "ro" false; mkMod "rw" true].
Example upload_ro : daemon_request ex_mods "ro" true ["--server"; "-r"; "--delete"; "."; "ro/"] = DRefusedReadOnly (mkMod "ro" false).
Proof. vm_compute. reflexivity. Qed.
Example upload_rw : writes (daemon_request ex_mods "rw" true ["--server"; "-r"; "--delete"; "."; "rw/"]) = true.
Proof. vm_compute. reflexivity. Qed.
Example pull_ro : daemon_request ex_mods "ro" true ["--server"; "--sender"; "-r"; "."; "ro/"] = DSender (mkMod "ro" false) ["/"].
Proof. vm_compute. reflexivity. Qed.

Print Assumptions only_writable_modules_receive.
Print Assumptions writes_imply_writable.
Print Assumptions readonly_module_refuses_uploads.
Print Assumptions refusal_precedes_any_fs_call.
Print Assumptions sender_only_reads.
