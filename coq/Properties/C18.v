(** C18 — sessions terminate under any interleaving.  Statements only;
    proofs in Proofs/PipelineProofs.v.  [step cap_a cap_b] is one scheduling
    step of the generator / sender / receiver pipeline over two transports of
    capacity [cap_a] (requests) and [cap_b] (file data), byte by byte; the
    scheduler is unconstrained: any enabled step may be taken next.
    Capacities range over all naturals, 0 being a rendezvous pipe.  The
    request and answer sizes of every file are arbitrary ([plan]), so mixes
    of many tiny files, huge literals and huge checksum lists are all
    instances. *)
From Coq Require Import List Arith Lia.
From RV Require Import Model.Pipeline Proofs.PipelineProofs.
Import ListNotations.

(** After any number of steps of any schedule the pipeline has finished or
    can still move: there is no deadlock between checksum generation, sending
    and receiving — and no schedule is longer than the initial amount of work. *)
Theorem no_deadlock_for_any_capacity_and_schedule :
  forall cap_a cap_b plan n st,
    Forall (fun p => 1 <= fst p) plan ->
    steps cap_a cap_b n (init plan) st ->
    n <= measure (init plan) /\ (final st \/ exists st', step cap_a cap_b st st').
Proof. exact no_deadlock. Qed.

(** A schedule that cannot be extended has delivered every request and every
    answer. *)
Theorem maximal_schedules_deliver_everything :
  forall cap_a cap_b plan n st,
    Forall (fun p => 1 <= fst p) plan ->
    steps cap_a cap_b n (init plan) st -> (forall st', ~ step cap_a cap_b st st') -> final st.
Proof. exact maximal_schedules_complete. Qed.

Theorem every_step_reduces_the_remaining_work :
  forall cap_a cap_b st st', step cap_a cap_b st st' -> measure st' < measure st.
Proof. exact measure_decreases. Qed.

(** Non-vacuity: over two rendezvous pipes, a 2-byte request answered by 1
    byte of data completes in a concrete schedule. *)
Example rendezvous_run :
  exists st, steps 0 0 3 (init [(2, 1)]) st /\ final st.
Proof.
  eexists. split.
  - eapply steps_S. { apply gen_rendezvous; cbn; try lia; try reflexivity; discriminate. }
    eapply steps_S. { apply gen_rendezvous; cbn; try lia; try reflexivity; discriminate. }
    eapply steps_S. { apply snd_rendezvous; cbn; try lia; reflexivity. }
    apply steps_0.
  - cbn. unfold final. cbn. repeat split.
Qed.

Print Assumptions no_deadlock_for_any_capacity_and_schedule.
Print Assumptions maximal_schedules_deliver_everything.
Print Assumptions every_step_reduces_the_remaining_work.
