(** C12 — Files are re-sent exactly when the update rule says so; repeat
    syncs are no-ops.  Statements only; proofs in Proofs/GeneratorProofs.v.
    [Hplain] is the seedless whole-file hash used under -c (MD4 in the code);
    destination mtimes are floored to the second, source mtimes are whole
    seconds (wire format). *)
From Coq Require Import ZArith List Bool.
From RV Require Import Model.Bytes Model.Md4 Model.Generator Proofs.BytesProofs Proofs.GeneratorProofs.
Import ListNotations.
Open Scope Z_scope.

(** The decision rule, as the implication table of the property. *)
Theorem request_iff :
  forall (Hplain : list Z -> list Z) always_checksum ignore_times d ssize smtime scsum,
    gen_decision Hplain always_checksum ignore_times d ssize smtime scsum <> DSkip <->
    match d with
    | DstMissing => True
    | DstOther => True
    | DstFile dsize dmtime dcontent =>
        dsize <> ssize \/
        (if always_checksum then scsum <> Hplain dcontent
         else if ignore_times then True else dmtime <> smtime)
    end.
Proof. exact decision_request_iff. Qed.

(** After a successful -t sync the destination holds the source's bytes and
    the source's mtime: the next run (default rule or -c) skips the file. *)
Theorem resync_noop :
  forall (Hplain : list Z -> list Z) always_checksum content mtime,
    gen_decision Hplain always_checksum false
      (DstFile (lenZ content) mtime content) (lenZ content) mtime (Hplain content) = DSkip.
Proof. exact resync_skips. Qed.

(** Under -c equal content is skipped whatever the mtimes (and whatever -I). *)
Theorem checksum_rule_ignores_mtime :
  forall (Hplain : list Z -> list Z) ignore_times content m1 m2,
    gen_decision Hplain true ignore_times
      (DstFile (lenZ content) m1 content) (lenZ content) m2 (Hplain content) = DSkip.
Proof. exact checksum_skips_equal_content. Qed.

(** Any change of size or of the mtime's seconds is picked up by the default
    rule; -I (without -c) always transfers. *)
Theorem change_detected :
  forall (Hplain : list Z -> list Z) dsize dmtime dcontent ssize smtime scsum,
    dsize <> ssize \/ dmtime <> smtime ->
    gen_decision Hplain false false (DstFile dsize dmtime dcontent) ssize smtime scsum = DDelta.
Proof. exact GeneratorProofs.change_detected. Qed.

Theorem ignore_times_always_transfers :
  forall (Hplain : list Z -> list Z) dsize dmtime dcontent ssize smtime scsum,
    gen_decision Hplain false true (DstFile dsize dmtime dcontent) ssize smtime scsum = DDelta.
Proof. exact ignore_times_always. Qed.

(** Non-vacuity: same size, mtime one second apart => requested; equal =>
    skipped; under -c a content change with identical size and mtime is
    requested. *)
Example ex_plus_one_second :
  gen_decision md4 false false (DstFile 3 1000 [1;2;3]) 3 1001 [] = DDelta.
Proof. vm_compute. reflexivity. Qed.
Example ex_same_second :
  gen_decision md4 false false (DstFile 3 1000 [1;2;3]) 3 1000 [] = DSkip.
Proof. vm_compute. reflexivity. Qed.
Example ex_checksum_detects :
  gen_decision md4 true false (DstFile 3 1000 [1;2;3]) 3 1000 (md4 [1;2;4]) = DDelta.
Proof. vm_compute. reflexivity. Qed.

Print Assumptions request_iff.
Print Assumptions resync_noop.
Print Assumptions change_detected.
Print Assumptions ignore_times_always_transfers.
