(** C09 — --delete removes exactly the extraneous entries and nothing else.
    Statements only; proofs in Proofs/TreeProofs.v.  [listed] is membership in
    the sender's (sorted) file list, [protected] the user's exclude rules;
    trees of any shape, depth and fan-out. *)
From Coq Require Import ZArith List Bool.
From RV Require Import Model.Bytes Model.Flist Model.Tree Proofs.TreeProofs Proofs.FlistProofs.
Import ListNotations.
Open Scope Z_scope.

(** After the delete walk an entry exists (with its kind unchanged) exactly
    when, walking down its path, every component is named in the list — or a
    component is protected by the exclude rules, below which everything is
    kept.  Every other entry is gone, at any depth and however many there
    are.  With sender I/O errors, in a dry run, or without a top directory
    in the list, nothing at all is removed. *)
Theorem delete_exact :
  forall (listed protected : path -> bool) has_top ioerrors dry t p,
    kind_at (delete_files listed protected has_top ioerrors dry t) p =
    if (0 <? ioerrors) || dry || negb has_top then kind_at t p
    else if keeps listed protected [] p then kind_at t p else None.
Proof. exact delete_files_kind. Qed.

(** Nothing that is in the sender's list (together with its ancestors) is
    ever removed. *)
Theorem delete_keeps_listed :
  forall (listed protected : path -> bool) p,
    all_listed listed [] p = true -> keeps listed protected [] p = true.
Proof. intros listed protected p. exact (all_listed_keeps listed protected p []). Qed.

Theorem no_delete_on_ioerror :
  forall (listed protected : path -> bool) has_top dry t, delete_files listed protected has_top 1 dry t = t.
Proof. reflexivity. Qed.
Theorem no_delete_in_dry_run :
  forall (listed protected : path -> bool) has_top ioerrors t, delete_files listed protected has_top ioerrors true t = t.
Proof. intros. unfold delete_files. now rewrite orb_true_r. Qed.

(** findInFileList is membership by name. *)
Theorem find_is_membership :
  forall name l, find_in_list name l = true <-> exists x, In x l /\ e_name x = name.
Proof. exact find_in_list_spec. Qed.

(** Non-vacuity: two extraneous files in one directory are both removed, a
    listed sibling and a protected file stay. *)
Definition nm (s : list Z) : name := s.
Definition ex_tree : ftree :=
  TDir [([97], TFile); ([100], TDir [([107], TFile); ([120;49], TFile); ([120;50], TFile); ([122], TFile)])].
Definition ex_listed (p : path) : bool :=
  existsb (fun q => list_eqb (render q) (render p)) [[[97]]; [[100]]; [[100]; [122]]].
Definition ex_protected (p : path) : bool := list_eqb (base_name p) [107].
Example delete_example :
  delete_files ex_listed ex_protected true 0 false ex_tree =
  TDir [([97], TFile); ([100], TDir [([107], TFile); ([122], TFile)])].
Proof. vm_compute. reflexivity. Qed.

Print Assumptions delete_exact.
Print Assumptions delete_keeps_listed.
Print Assumptions no_delete_in_dry_run.
