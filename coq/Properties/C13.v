(** C13 — Exclude/include rules filter exactly the named entries.  Statements
    only; proofs in Proofs/TreeProofs.v.  Plain-name rules; the sender's
    recursive walk. *)
From Coq Require Import ZArith List Bool.
From RV Require Import Model.Bytes Model.Tree Proofs.TreeProofs.
Import ListNotations.
Open Scope Z_scope.

(** An entry is left out iff the first rule matching its name — or the name
    of one of the directories above it — is an exclude rule: every selected
    name exists and has no excluded component ([allowed]); every existing
    entry without an excluded component is selected (later siblings of an
    excluded file and names matched by an include rule included). *)
Theorem filter_exact_sound :
  forall rules fuel t q,
    In q (select rules fuel [] t) ->
    exists p, p <> [] /\ q = p /\ path_in t p /\ allowed rules [] p = true.
Proof.
  intros rules fuel t q Hin.
  destruct (select_sound rules fuel [] t q Hin) as (p & Hne & E & Hp & Ha).
  exists p. cbn in E. auto.
Qed.

Theorem filter_exact_complete :
  forall rules t p node,
    p <> [] -> lookup t p = Some node -> allowed rules [] p = true ->
    In p (select rules (depth t) [] t).
Proof.
  intros rules t p node Hne Hl Ha.
  exact (select_complete rules p (depth t) [] t node (le_n _) Hne Hl Ha).
Qed.

(** "excluded" is decided by the first matching rule. *)
Theorem first_match_decides :
  forall rs p,
    excluded rs p = true <->
    exists pre r post, rs = pre ++ r :: post /\ Forall (fun x => rule_matches x p = false) pre /\
                       rule_matches r p = true /\ r_include r = false.
Proof. exact excluded_first_match. Qed.

(** Rule syntax that cannot be honoured (wildcards) is an error. *)
Theorem wildcard_is_error :
  forall lines,
    (check_rules lines = None <-> exists l, In l lines /\ r_wild (parse_rule l) = true) /\
    (forall rs, check_rules lines = Some rs ->
       rs = map parse_rule lines /\ Forall (fun r => existsb is_wild_char (r_pattern r) = false) rs).
Proof. intros lines. split; [exact (check_rules_none lines)|exact (check_rules_some lines)]. Qed.

(** Non-vacuity: excluding file "m" keeps its later sibling "z"; an include
    rule in front protects "d/m". *)
Definition ex_t : ftree :=
  TDir [([97], TFile); ([100], TDir [([109], TFile); ([122], TFile)]); ([109], TFile); ([122], TFile)].
Example exclude_file_keeps_siblings :
  select_all [parse_rule [45; 32; 109]] ex_t = [[]; [[97]]; [[100]]; [[100]; [122]]; [[122]]].
Proof. vm_compute. reflexivity. Qed.
Example include_first :
  select_all [parse_rule [43; 32; 100; 47; 109]; parse_rule [45; 32; 109]] ex_t
  = [[]; [[97]]; [[100]]; [[100]; [109]]; [[100]; [122]]; [[122]]].
Proof. vm_compute. reflexivity. Qed.
Example wildcard_rejected : check_rules [[45; 32; 98; 42; 120]] = None.
Proof. vm_compute. reflexivity. Qed.

Print Assumptions filter_exact_sound.
Print Assumptions filter_exact_complete.
Print Assumptions first_match_decides.
Print Assumptions wildcard_is_error.
