(** C10 — a dry run changes nothing.  Statements only; proofs in
    Proofs/GenOpsProofs.v and Proofs/TreeProofs.v.  The receiving side's
    file-system effects are the operation lists of Model/GenOps.v (generator,
    receiver commit, directory touch-up) plus the delete walk of
    Model/Tree.v; the sender's output is Model/Session.v. *)
From Coq Require Import ZArith List Bool.
From RV Require Import Model.Bytes Model.Flist Model.Tree Model.GenOps Model.Session
  Proofs.GenOpsProofs Proofs.TreeProofs Gen.Consts.
Import ListNotations.
Open Scope Z_scope.

(** With -n, a whole receiving session — any file list, any destination
    state (whatever Lstat returns for each entry), any verdict of the update
    rule, any option subset — issues no file-system operation at all:
    nothing is created, removed, renamed, re-permissioned, re-owned or
    re-timed. *)
Theorem dry_run_no_fs_operation :
  forall o now ws, g_dry o = true -> receiver_session_ops o now ws = [].
Proof. exact dry_session_ops. Qed.

(** ... so every destination path keeps its state, entry by entry ... *)
Theorem dry_run_entry_unchanged :
  forall Hplain o ac it e now s, g_dry o = true -> fst (entry_step Hplain o ac it e now s) = s.
Proof. exact dry_entry_step. Qed.

(** ... the session is not aborted by the generator (no entry errors) ... *)
Theorem dry_run_completes :
  forall o e dst skip now, g_dry o = true -> snd (gen_entry' o e dst skip now) <> ReqError.
Proof. exact dry_no_error. Qed.

(** ... and --delete removes nothing. *)
Theorem dry_run_deletes_nothing :
  forall (listed protected : path -> bool) has_top ioerrors t,
    delete_files listed protected has_top ioerrors true t = t.
Proof. intros. unfold delete_files. now rewrite orb_true_r. Qed.

(** The generator requests files by bare index: no block checksums are sent. *)
Theorem dry_run_requests_are_bare :
  forall H seed o idx rq s, g_dry o = true ->
    gen_wire H seed o idx rq s = [] \/ gen_wire H seed o idx rq s = le32 idx.
Proof. exact dry_gen_wire. Qed.

(** The sender transmits no file data: what it writes is exactly the bytes
    it read (the echoed indices and the two end-of-phase markers), whatever
    the files contain ... *)
Theorem dry_run_sender_echoes :
  forall H seed chunk files s out rest, bytesb s = true ->
    run_sender_session H seed chunk true files s = SessDone out rest -> s = out ++ rest.
Proof.
  intros H seed chunk files s out rest B E. unfold run_sender_session in E.
  destruct (dry_sender_echo H seed chunk _ _ _ _ _ _ _ B E) as [c [E1 E2]]. now subst.
Qed.
(** ... and independent of them. *)
Theorem dry_run_sender_ignores_files :
  forall H seed chunk files files' s,
    run_sender_session H seed chunk true files s = run_sender_session H seed chunk true files' s.
Proof. intros. unfold run_sender_session. apply dry_sender_files_irrelevant. Qed.

(** Non-vacuity: the same entry against the same destination does change it
    without -n (a symlink replaces a regular file). *)
Definition ex_opts (dry : bool) : gopts := mkG dry true true true true true false false true 18.
Definition ex_entry : fentry := mkEntry [108] 0 1500000000 (c_S_IFLNK + 511) 0 0 0 [116] [].
Definition ex_prior : pstate := PNode (mkL KReg 420 1400000000 0 0 [] 0 false) [1; 2; 3].
Example wet_run_changes :
  fst (entry_step (fun _ => []) (ex_opts false) false false ex_entry 7 ex_prior) <> ex_prior /\
  fst (entry_step (fun _ => []) (ex_opts true) false false ex_entry 7 ex_prior) = ex_prior.
Proof. split; [vm_compute; discriminate | vm_compute; reflexivity]. Qed.
Example dry_sender_example :
  run_sender_session (fun _ => []) 1 262144 true [[1; 2; 3]] (le32 0 ++ le32 (-1) ++ le32 (-1)) =
  SessDone (le32 0 ++ le32 (-1) ++ le32 (-1)) [].
Proof. vm_compute. reflexivity. Qed.

Print Assumptions dry_run_no_fs_operation.
Print Assumptions dry_run_entry_unchanged.
Print Assumptions dry_run_completes.
Print Assumptions dry_run_deletes_nothing.
Print Assumptions dry_run_requests_are_bare.
Print Assumptions dry_run_sender_echoes.
Print Assumptions dry_run_sender_ignores_files.
