(** C08 — malformed or hostile peer input ends only that session, with an
    error.  Statements only; proofs in Proofs/SessionProofs.v,
    Proofs/MuxProofs.v, Proofs/DaemonProofs.v and the lemmas cited.  In the
    model every decoder is a total function whose result is success or a
    named error; the theorems below say that the "crash" results the model
    has (an out-of-range access in the sender's search loop, running out of
    buffer space in the demultiplexer, a process exit in the option parser)
    are unreachable for every byte string, and that out-of-range fields are
    errors.  The inventory of process-ending calls is regenerated from the
    source on every run. *)
From Coq Require Import ZArith String List Bool.
From RV Require Import Model.Bytes Model.Checksum Model.Sender Model.Session Model.Mux Model.Flist Model.Popt Model.Daemon Model.Tree
  Proofs.SessionProofs Proofs.MuxProofs Proofs.TreeProofs Gen.Consts Gen.AbortSites.
Import ListNotations.
Open Scope Z_scope.

(** The sender's request loop — indices, checksum headers, checksum lists,
    phase markers, in any order and with any values, truncated anywhere —
    completes or ends with one of three protocol errors; it never crashes
    (the search loop's [SCrash]) and never spins. *)
Theorem sender_survives_any_request_stream :
  forall (H : list Z -> list Z) seed chunk, 1 <= chunk ->
  forall dry files s, benign (run_sender_session H seed chunk dry files s).
Proof. exact sender_survives_any_stream. Qed.

Theorem out_of_range_index_is_an_error :
  forall (H : list Z -> list Z) seed chunk files idx rest,
    (idx < 0 \/ Z.of_nat (length files) <= idx) -> idx <> -1 ->
    -2147483648 <= idx < 2147483648 ->
    run_sender_session H seed chunk false files (le32 idx ++ rest) = SessErr [] SeIndex.
Proof. exact bad_index_is_error. Qed.

(** An accepted checksum header has every field in range. *)
Theorem accepted_header_is_in_range :
  forall s h r, read_head s = HeadOk h r ->
    (length r <= length s)%nat /\ 0 <= h_count h /\ 0 <= h_blen h /\ 0 <= h_rem h.
Proof. exact read_head_ok. Qed.

(** Multiplex headers: whatever the frame says, the client's reader (buffer
    of clientBufioSize, from the source) never runs out of buffer space. *)
Theorem demultiplexer_never_overruns :
  forall n st, bufio_read c_clientBufioSize n st <> BCrash.
Proof. intros n st. apply bufio_read_no_crash. exact covers. Qed.

(** File-list lengths: a negative or over-long name length is an error. *)
Theorem bad_name_length_is_an_error :
  forall o flags last s l1 s1 l2 s2,
    (if has_flag flags c_XMIT_SAME_NAME then rd8 s else Some (0, s)) = Some (l1, s1) ->
    (if has_flag flags c_XMIT_LONG_NAME then rd32 s1 else rd8 s1) = Some (l2, s2) ->
    (l2 < 0 \/ c_PATH_MAX - l1 <= l2) ->
    recv_entry o flags last s = inr FOverflow.
Proof.
  intros o flags last s l1 s1 l2 s2 E1 E2 Hb. unfold recv_entry. rewrite E1, E2.
  assert (G : (l2 <? 0) || (c_PATH_MAX - l1 <=? l2) = true).
  { apply orb_true_iff. destruct Hb as [Hb|Hb]; [left; now apply Z.ltb_lt|right; now apply Z.leb_le]. }
  now rewrite G.
Qed.

(** Filter rules with wildcards are rejected when the list is received
    (they can never reach the matcher's panic). *)
Theorem wildcard_rules_are_rejected :
  forall lines, check_rules lines = None <-> exists l, In l lines /\ r_wild (parse_rule l) = true.
Proof. intros lines. exact (check_rules_none lines). Qed.

(** Argument lines: the parser returns a value for every list of strings —
    --help and friends included — and the daemon answers a parse error by
    ending that connection only ([DParseError] is an outcome, not an exit). *)
Open Scope string_scope.
Example help_is_a_parse_error :
  daemon_request [mkMod "mod" false] "mod" true ["--server"; "--sender"; "--help"; "."; "mod/"] = DParseError (EExit 0) /\
  daemon_request [mkMod "mod" false] "mod" true ["--server"; "--version"; "."; "mod/"] = DParseError (EExit 0) /\
  daemon_request [mkMod "mod" false] "mod" true ["--server"; "--info=help"; "."; "mod/"] = DParseError (EExit 0).
Proof. vm_compute. repeat split; reflexivity. Qed.

(** The library code contains no call that ends the process other than two
    panics, both unreachable by the theorems above (buffer space: C17's
    bound; wildcard matcher: rules with wildcards are rejected at parse). *)
Definition allowed_aborts : list (string * string) :=
  [("internal/rsyncwire/wire.go:Read", "panic"); ("internal/sender/exclude.go:matches", "panic")].
Definition abort_ok (s : string * string * string) : bool :=
  let '(w, callee, _) := s in
  existsb (fun a => String.eqb (fst a) w && String.eqb (snd a) callee) allowed_aborts.
Theorem no_process_ending_call :
  forallb abort_ok abort_sites = true /\ (30 <= abort_scanned_files)%nat.
Proof. vm_compute. split; [reflexivity|]. repeat constructor. Qed.

Print Assumptions sender_survives_any_request_stream.
Print Assumptions out_of_range_index_is_an_error.
Print Assumptions accepted_header_is_in_range.
Print Assumptions demultiplexer_never_overruns.
Print Assumptions bad_name_length_is_an_error.
Print Assumptions wildcard_rules_are_rejected.
Print Assumptions no_process_ending_call.
