(** C11 — requested metadata is reproduced at the destination.  Statements
    only; proofs in Proofs/GenOpsProofs.v.  [entry_step] is the generator
    pass followed by the directory touch-up pass for one file-list entry
    against one destination path in an arbitrary prior state; [recv_ops] is
    the receiver's commit of a requested file.  [wanted o e st] says that the
    Lstat [st] has the entry's type, permission bits, symlink target and
    device numbers, and — when -t / -o / -g are on (and the process is root)
    — its modification time, owner and group. *)
From Coq Require Import ZArith List Bool.
From RV Require Import Model.Bytes Model.Flist Model.GenOps Proofs.GenOpsProofs Gen.Consts.
Import ListNotations.
Open Scope Z_scope.

(** Directories: whatever was at the path (nothing, a directory, or something
    else that could be unlinked), the entry ends as a directory with the
    source's mode, for all 512 permission values — including those without
    owner write permission, which are created writable (so that their
    contents can be received) and get their final mode in the touch-up pass. *)
Theorem directory_metadata :
  forall Hplain o ac it e now s s' rq,
    g_dry o = false -> is_dir (e_mode e) = true ->
    entry_step Hplain o ac it e now s = (s', rq) -> rq <> ReqError ->
    exists st c, s' = PNode st c /\ wanted o e st.
Proof.
  intros Hplain o ac it e now s s' rq D Hd E Hne.
  destruct (entry_step_dir Hplain o ac it e now s s' rq D Hd E Hne) as [st0 [c0 [K Es]]].
  exists (dir_final o e st0), c0. split; [exact Es|]. now apply dir_final_wanted.
Qed.

Theorem readonly_directory_writable_while_filled :
  forall o e st0, is_dir (e_mode e) = true ->
    Z.land (l_perm (set_perms_spec o e
       (if Z.land (e_mode e) 128 =? 0 then Z.lor (e_mode e) 128 else e_mode e) st0)) 128 = 128.
Proof. intros o e st0. exact (dir_writable_meanwhile o e st0). Qed.

(** Symlinks with -l: target of any bytes and length. *)
Theorem symlink_metadata :
  forall Hplain o ac it e now s s' rq,
    g_dry o = false -> g_links o = true -> is_link (e_mode e) = true ->
    entry_step Hplain o ac it e now s = (s', rq) -> rq <> ReqError ->
    exists st c, s' = PNode st c /\ wanted o e st.
Proof. exact entry_step_link. Qed.

(** Devices with --devices, fifos and sockets with --specials: type, device
    numbers, permissions, and times/owner per option; a node of another type
    or with other device numbers is replaced. *)
Theorem device_metadata :
  forall Hplain o ac it e now s s' rq,
    g_dry o = false ->
    (g_devices o && is_dev (e_mode e)) || (g_specials o && is_special (e_mode e)) = true ->
    entry_step Hplain o ac it e now s = (s', rq) -> rq <> ReqError ->
    exists st c, s' = PNode st c /\ wanted o e st.
Proof. exact entry_step_node. Qed.

(** A transferred regular file (verified content [c] committed): regular,
    content [c], permissions of the source — or, without -p, those of the
    file that was there before —, and with -t the source's modification
    time, for every mtime value. *)
Theorem transferred_file_metadata :
  forall o e c old now s,
    g_dry o = false -> is_reg (e_mode e) = true ->
    (forall p, old = Some p -> 0 <= p < 512) ->
    run_ops (e_name e) now s (recv_ops o e c true old now) =
    PNode (mkL KReg
               (match old with Some p => if g_perms o then perm_of (e_mode e) else p | None => perm_of (e_mode e) end)
               (if g_times o then e_mtime e else now)
               (if g_uid o && g_am_root o then e_uid e else 0)
               (if g_gid o && g_am_root o then e_gid e else 0) [] 0 false) c.
Proof. exact recv_commit_result. Qed.

(** An up-to-date regular file is not transferred; it gets the listed
    metadata, and without -p keeps its own permissions. *)
Theorem uptodate_file_metadata :
  forall Hplain o ac it e now st c s' rq,
    g_dry o = false -> is_reg (e_mode e) = true -> l_kind st = KReg -> 0 <= l_perm st < 512 ->
    skip_of Hplain ac it e (PNode st c) = true ->
    entry_step Hplain o ac it e now (PNode st c) = (s', rq) ->
    rq = ReqNone /\
    s' = PNode (mkL KReg (if g_perms o then perm_of (e_mode e) else l_perm st)
                    (if g_times o then e_mtime e else l_mtime st)
                    (if g_uid o && g_am_root o then e_uid e else l_uid st)
                    (if g_gid o && g_am_root o then e_gid e else l_gid st)
                    (l_link st) (l_rdev st) (l_nonempty st)) c.
Proof. exact entry_step_uptodate. Qed.

(** Owner and group by name: the entry the generator and receiver work with
    is [localise um gm e], where [um] / [gm] come from the id lists the
    sender transmitted ([id_map_of lookup ids], [lookup] = the local user /
    group database).  An id listed with a name that exists locally becomes
    the local id of that name; an id listed with an unknown name, and an id
    that is not listed at all, is kept as it is.  (All theorems above hold
    for every entry, hence for the localised one.) *)
Theorem listed_known_name_maps_to_local_id :
  forall lookup ids id name l,
    NoDup (map fst ids) -> In (id, name) ids -> lookup name = Some l ->
    map_id (id_map_of lookup ids) id = l.
Proof. exact id_map_of_known. Qed.

Theorem listed_unknown_name_keeps_the_id :
  forall lookup ids id name,
    NoDup (map fst ids) -> In (id, name) ids -> lookup name = None ->
    map_id (id_map_of lookup ids) id = id.
Proof. exact id_map_of_unknown_name. Qed.

Theorem unlisted_id_is_kept :
  forall lookup ids id, (forall name, ~ In (id, name) ids) -> map_id (id_map_of lookup ids) id = id.
Proof. exact id_map_of_unlisted. Qed.

Theorem localise_changes_only_the_owner :
  forall um gm e,
    e_uid (localise um gm e) = map_id um (e_uid e) /\ e_gid (localise um gm e) = map_id gm (e_gid e) /\
    e_name (localise um gm e) = e_name e /\ e_mode (localise um gm e) = e_mode e /\
    e_mtime (localise um gm e) = e_mtime e /\ e_link (localise um gm e) = e_link e /\ e_rdev (localise um gm e) = e_rdev e.
Proof. intros. repeat split; reflexivity. Qed.

(** setPerms itself, for any mode and any current Lstat. *)
Theorem set_perms_exact :
  forall o e mode now st c, g_dry o = false ->
    run_ops (e_name e) now (PNode st c) (set_perms_ops o e mode st) = PNode (set_perms_spec o e mode st) c.
Proof. exact set_perms_result. Qed.

(** Non-vacuity: a read-only directory (0555) over a regular file, with -t. *)
Example readonly_dir_example :
  entry_step (fun _ => []) (mkG false true true true true true true true true 18) false false
             (mkEntry [100] 4096 1500000000 (c_S_IFDIR + 365) 1234 4321 0 [] []) 7
             (PNode (mkL KReg 420 1400000000 0 0 [] 0 false) [1]) =
  (PNode (mkL KDir 365 1500000000 1234 4321 [] 0 false) [], ReqNone).
Proof. vm_compute. reflexivity. Qed.

Print Assumptions directory_metadata.
Print Assumptions readonly_directory_writable_while_filled.
Print Assumptions symlink_metadata.
Print Assumptions device_metadata.
Print Assumptions transferred_file_metadata.
Print Assumptions uptodate_file_metadata.
Print Assumptions set_perms_exact.
Print Assumptions listed_known_name_maps_to_local_id.
Print Assumptions unlisted_id_is_kept.
