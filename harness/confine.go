package main

import (
	"encoding/hex"
	"fmt"
	"os"
	"path/filepath"
	"strings"
	"sync"
)

func hx(s string) string { return hex.EncodeToString([]byte(s)) }

// C05: hostile file lists against a receiving client and a writable daemon
// module; everything around the destination must stay exactly as it was.
func runConfine(r *run) error {
	g := newRng(r.seed, "confine")
	base, err := mkTemp("confine")
	if err != nil {
		return err
	}
	defer rmTemp(base)
	pool := newSessionPool(8)
	defer pool.close()

	victimData := []byte("victim content: must never change\n")
	const victimMtime = 1_234_567_890
	setup := func(id string) (root, dest, outside string, err error) {
		root = filepath.Join(base, id)
		dest, outside = filepath.Join(root, "dest"), filepath.Join(root, "outside")
		t := treeSpec{
			{Path: "outside/victim.txt", Type: "f", Data: victimData, Mode: 0o600, Mtime: victimMtime, Uid: 4242, Gid: 4343},
			{Path: "outside/victimdir", Type: "d", Mode: 0o750, Mtime: victimMtime},
			{Path: "outside/victimdir/inner", Type: "f", Data: []byte("inner"), Mode: 0o640, Mtime: victimMtime},
			{Path: "outside/victimlink", Type: "l", Link: "victim.txt"},
			{Path: "outside", Type: "d", Mode: 0o755, Mtime: victimMtime},
			{Path: "dest/link", Type: "l", Link: "../outside"},
			{Path: "dest/linkabs", Type: "l", Link: outside},
			{Path: "dest/sub", Type: "d", Mode: 0o755, Mtime: victimMtime},
			{Path: "dest/sub/up", Type: "l", Link: "../../outside"},
			{Path: "dest/hop", Type: "l", Link: "../outside"},
			{Path: "dest/chain", Type: "l", Link: "hop/"},
			{Path: "dest/ordinary", Type: "f", Data: []byte("ordinary"), Mode: 0o644, Mtime: victimMtime},
			{Path: "dest", Type: "d", Mode: 0o755, Mtime: victimMtime},
		}
		return root, dest, outside, t.materialise(root)
	}
	outsideSnap := func(root string) string {
		s := takeSnapshot(root)
		for k := range s {
			if k == "dest" || strings.HasPrefix(k, "dest/") || k == "." {
				delete(s, k)
			}
		}
		return s.canon("tcmTNor")
	}

	type vector struct {
		name   string
		prefix func(outside string) string // name prefix leading to the outside directory
		pre    []hEntry                    // entries sent before the hostile one
		subdir string                      // daemon: module subdirectory argument
		bare   string                      // if set: the hostile entry is named exactly this (a directory name ending in a slash)
	}
	dirE := func(n string) hEntry {
		return hEntry{NameHex: hx(n), Mode: sIFDIR | 0o755, Len: 4096, Mtime: victimMtime}
	}
	vectors := []vector{
		{name: "dotdot", prefix: func(string) string { return "../outside/" }},
		{name: "absolute", prefix: func(o string) string { return o + "/" }},
		{name: "existing-symlink", prefix: func(string) string { return "link/" }},
		{name: "existing-abs-symlink", prefix: func(string) string { return "linkabs/" }},
		{name: "nested-dotdot", prefix: func(string) string { return "sub/../../outside/" }, pre: []hEntry{dirE("sub")}},
		{name: "nested-existing-symlink", prefix: func(string) string { return "sub/up/" }, pre: []hEntry{dirE("sub")}},
		{name: "symlink-in-same-list", prefix: func(string) string { return "newlink/" },
			pre: []hEntry{{NameHex: hx("newlink"), Mode: sIFLNK | 0o777, Mtime: victimMtime, LinkHex: hx("../outside")}}},
		{name: "symlink-then-dir-in-same-list", prefix: func(string) string { return "nl2/" },
			pre: []hEntry{{NameHex: hx("nl2"), Mode: sIFLNK | 0o777, Mtime: victimMtime, LinkHex: hx("../outside")}, dirE("nl2")}},
		{name: "existing-symlink-trailing-slash", prefix: func(string) string { return "link/" }, bare: "link/"},
		{name: "nested-existing-symlink-trailing-slash", prefix: func(string) string { return "sub/up/" }, pre: []hEntry{dirE("sub")}, bare: "sub/up/"},
		{name: "symlink-in-same-list-trailing-slash", prefix: func(string) string { return "newlink/" }, bare: "newlink/",
			pre: []hEntry{{NameHex: hx("newlink"), Mode: sIFLNK | 0o777, Mtime: victimMtime, LinkHex: hx("../outside")}}},
		{name: "existing-chain-trailing-slash-target", prefix: func(string) string { return "chain/" }},
		{name: "same-list-chain-trailing-slash-target", prefix: func(string) string { return "nchain/" },
			pre: []hEntry{{NameHex: hx("nhop"), Mode: sIFLNK | 0o777, Mtime: victimMtime, LinkHex: hx("../outside")}, {NameHex: hx("nchain"), Mode: sIFLNK | 0o777, Mtime: victimMtime, LinkHex: hx("nhop/")}}},
		{name: "daemon-subdir-chain", prefix: func(string) string { return "" }, subdir: "chain"},
		{name: "daemon-subdir-symlink", prefix: func(string) string { return "" }, subdir: "link"},
		{name: "daemon-subdir-symlink-slash", prefix: func(string) string { return "" }, subdir: "link/"},
		{name: "daemon-subdir-dotdot", prefix: func(string) string { return "" }, subdir: "../outside"},
		{name: "daemon-subdir-nested", prefix: func(string) string { return "" }, subdir: "sub/up/"},
	}
	targets := []string{"victim.txt", "newname", "victimdir", "victimdir/inner", "victimlink"}
	type kind struct {
		name string
		mk   func(n string) hEntry
	}
	kinds := []kind{
		{"regular-new-content", func(n string) hEntry {
			return hEntry{NameHex: hx(n), Mode: sIFREG | 0o666, Len: 7, Mtime: 1_600_000_000, DataHex: hx("PWNED!\n"), Uid: 1, Gid: 1}
		}},
		{"regular-uptodate-meta", func(n string) hEntry { // same size and mtime as the victim: the skip path, chmod/chown only
			return hEntry{NameHex: hx(n), Mode: sIFREG | 0o777, Len: int64(len(victimData)), Mtime: victimMtime, DataHex: hex.EncodeToString(victimData), Uid: 1, Gid: 1}
		}},
		{"directory", func(n string) hEntry {
			return hEntry{NameHex: hx(n), Mode: sIFDIR | 0o777, Len: 4096, Mtime: 1_600_000_000, Uid: 1, Gid: 1}
		}},
		{"directory-readonly", func(n string) hEntry {
			return hEntry{NameHex: hx(n), Mode: sIFDIR | 0o555, Len: 4096, Mtime: 1_600_000_000}
		}},
		{"symlink", func(n string) hEntry {
			return hEntry{NameHex: hx(n), Mode: sIFLNK | 0o777, Mtime: 1_600_000_000, LinkHex: hx("/etc/passwd")}
		}},
		{"fifo", func(n string) hEntry { return hEntry{NameHex: hx(n), Mode: sIFIFO | 0o666, Mtime: 1_600_000_000} }},
		{"socket", func(n string) hEntry { return hEntry{NameHex: hx(n), Mode: sIFSOCK | 0o666, Mtime: 1_600_000_000} }},
		{"chardev", func(n string) hEntry {
			return hEntry{NameHex: hx(n), Mode: sIFCHR | 0o666, Mtime: 1_600_000_000, Rdev: 1<<8 | 3}
		}},
	}
	type job struct {
		sp     sessionSpec
		root   string
		before string
		desc   string
		escape bool // the hostile name leaves the root (a basis request with checksums means outside data was read)
	}
	var jobs []job
	n := 0
	add := func(side string, v vector, tgt string, k kind, args []string) error {
		n++
		if r.tier != "thorough" && (n+int(r.seed))%3 != 0 && v.subdir == "" && v.bare == "" {
			return nil
		}
		id := fmt.Sprintf("cf%d-%s", n, side)
		root, dest, outside, err := setup(id)
		if err != nil {
			return err
		}
		es := append([]hEntry{dirE(".")}, v.pre...)
		name := v.prefix(outside) + tgt
		// parents of the target, as a real sender would list them
		if strings.Contains(tgt, "/") && !strings.HasPrefix(k.name, "directory") {
			es = append(es, dirE(v.prefix(outside)+filepath.Dir(tgt)))
		}
		if v.bare != "" {
			// the entry itself is the symlinked directory, named with a trailing slash: only directory entries make sense
			if tgt != "victim.txt" || !strings.HasPrefix(k.name, "directory") {
				os.RemoveAll(root)
				return nil
			}
			name = v.bare
		}
		es = append(es, k.mk(name))
		sp := sessionSpec{Kind: "hostile", ID: id, Args: args, Dest: dest, TimeoutMs: 20000,
			Hostile: &hostileSpec{Target: side, Entries: es, Seed: int32(1000 + n), ModSubdir: v.subdir}}
		jobs = append(jobs, job{sp, root, outsideSnap(root), fmt.Sprintf("%s receiver, vector %s, target outside/%s, entry %s, options %v", side, v.name, tgt, k.name, args), true})
		return nil
	}
	for _, side := range []string{"client", "daemon"} {
		for _, v := range vectors {
			if v.subdir != "" && side != "daemon" {
				continue
			}
			for _, tgt := range targets {
				for _, k := range kinds {
					args := []string{"-rlptgoD"}
					if g.chance(25) {
						args = append(args, "--delete")
					}
					if err := add(side, v, tgt, k, args); err != nil {
						return err
					}
				}
			}
		}
	}
	// --delete walk: the destination holds symlinks to outside directories; the list omits / lists them
	for _, side := range []string{"client", "daemon"} {
		for i, es := range [][]hEntry{
			{dirE(".")},
			{dirE("."), dirE("link")},
			{dirE("."), dirE("sub"), dirE("sub/up")},
			{dirE("."), {NameHex: hx("ordinary"), Mode: sIFREG | 0o644, Len: 8, Mtime: victimMtime, DataHex: hx("ordinary")}},
		} {
			id := fmt.Sprintf("cfdel%d-%s", i, side)
			root, dest, _, err := setup(id)
			if err != nil {
				return err
			}
			sp := sessionSpec{Kind: "hostile", ID: id, Args: []string{"-rlptgoD", "--delete"}, Dest: dest, TimeoutMs: 20000,
				Hostile: &hostileSpec{Target: side, Entries: es, Seed: 77}}
			jobs = append(jobs, job{sp, root, outsideSnap(root), fmt.Sprintf("%s receiver, --delete walk %d over symlinks to outside directories", side, i), false})
		}
	}
	// control: a benign list through the same fake sender is received completely (both sides)
	for _, side := range []string{"client", "daemon"} {
		id := "cfctl-" + side
		root, dest, _, err := setup(id)
		if err != nil {
			return err
		}
		es := []hEntry{dirE("."), dirE("d"), kinds[0].mk("d/x"), kinds[0].mk("good.txt"), kinds[4].mk("sl"), kinds[5].mk("ff")}
		sp := sessionSpec{Kind: "hostile", ID: id, Args: []string{"-rlptgoD"}, Dest: dest, TimeoutMs: 20000,
			Hostile: &hostileSpec{Target: side, Entries: es, Seed: 5}}
		jobs = append(jobs, job{sp, root, outsideSnap(root), "control:" + side, false})
	}
	// random hostile lists
	nRand := 40
	if r.tier == "thorough" {
		nRand = 600
	}
	comps := []string{"..", "link", "linkabs", "sub", "up", "outside", "victim.txt", "victimdir", "inner", "x", ".", "", "newlink", "ordinary"}
	for i := 0; i < nRand; i++ {
		side := []string{"client", "daemon"}[i%2]
		id := fmt.Sprintf("cfr%d-%s", i, side)
		root, dest, outside, err := setup(id)
		if err != nil {
			return err
		}
		es := []hEntry{dirE(".")}
		for k := 0; k < 1+g.intn(6); k++ {
			var parts []string
			for c := 0; c < 1+g.intn(4); c++ {
				parts = append(parts, comps[g.intn(len(comps))])
			}
			name := strings.Join(parts, "/")
			if g.chance(15) {
				name = outside + "/" + name
			}
			e := kinds[g.intn(len(kinds))].mk(name)
			if g.chance(30) {
				e.LinkHex = hx([]string{"../outside", outside, "..", "../outside/victimdir"}[g.intn(4)])
				e.Mode = sIFLNK | 0o777
			}
			es = append(es, e)
		}
		args := []string{"-rlptgoD"}
		if g.bool() {
			args = append(args, "--delete")
		}
		sub := ""
		if side == "daemon" && g.chance(30) {
			sub = []string{"link", "sub/up", "link/victimdir/", "sub/"}[g.intn(4)]
		}
		sp := sessionSpec{Kind: "hostile", ID: id, Args: args, Dest: dest, TimeoutMs: 20000,
			Hostile: &hostileSpec{Target: side, Entries: es, Seed: int32(i), ModSubdir: sub}}
		jobs = append(jobs, job{sp, root, outsideSnap(root), fmt.Sprintf("%s receiver, random hostile list %d (subdir %q)", side, i, sub), false})
	}
	var wg sync.WaitGroup
	var mu sync.Mutex
	for _, j := range jobs {
		wg.Add(1)
		go func(j job) {
			defer wg.Done()
			res := pool.run(j.sp)
			after := outsideSnap(j.root)
			mu.Lock()
			defer mu.Unlock()
			r.count("confine/" + j.sp.Hostile.Target + "/" + res.Outcome)
			r.emit("noop", j.sp.ID, []string{clipStr(j.desc, 150)}, "ok", true)
			detail := map[string]any{"case": j.desc, "args": j.sp.Args, "entries": j.sp.Hostile.Entries, "subdir": j.sp.Hostile.ModSubdir, "err": res.Err, "log": res.Log,
				"regenerate": fmt.Sprintf("VERIF_SEED=%d ./check C05 (session %s)", r.seed, j.sp.ID)}
			if strings.HasPrefix(j.desc, "control:") {
				got := takeSnapshot(filepath.Join(j.root, "dest"))
				ok := res.Outcome == "ok" && got["d/x"].Type == "f" && got["d/x"].Size == 7 && got["good.txt"].Type == "f" && got["sl"].Link == "/etc/passwd" && got["ff"].Type == "p"
				r.count(fmt.Sprintf("control/%s/received=%v", j.sp.Hostile.Target, ok))
				if !ok {
					detail["dest"] = got.canon("tc")
					r.oracleFail(j.sp.ID, "harness control: a benign list sent by the hand-written sender was not received completely ("+res.Outcome+" "+res.Err+")", detail)
				}
			}
			if after != j.before {
				detail["before"], detail["after"] = j.before, after
				r.oracleFail(j.sp.ID, "something outside the destination root changed: "+j.desc+": "+firstLineDiff(j.before, after), detail)
				return
			}
			if j.escape {
				for _, l := range res.Log {
					if strings.HasPrefix(l, "requested:") && !strings.HasSuffix(l, ":0") {
						r.oracleFail(j.sp.ID, "block checksums of a file outside the destination root were sent ("+l+"): "+j.desc, detail)
						return
					}
				}
			}
			if res.Outcome == "timeout" || res.Outcome == "died" {
				r.count("confine/needs-C08-or-C18-attention/" + res.Outcome)
			}
			os.RemoveAll(j.root)
		}(j)
	}
	wg.Wait()
	r.notes["sessions"] = len(jobs)
	r.emit("noop", "confine-summary", []string{fmt.Sprint(len(jobs) > 0)}, "ok", true)
	return nil
}

func firstLineDiff(a, b string) string {
	la, lb := strings.Split(a, "\n"), strings.Split(b, "\n")
	for i := 0; i < len(la) || i < len(lb); i++ {
		x, y := "", ""
		if i < len(la) {
			x = la[i]
		}
		if i < len(lb) {
			y = lb[i]
		}
		if x != y {
			return fmt.Sprintf("%s => %s", clipStr(x, 120), clipStr(y, 120))
		}
	}
	return ""
}

func init() { components["confine"] = runConfine }
