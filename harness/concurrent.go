package main

import (
	"bytes"
	"context"
	"fmt"
	"io"
	"net"
	"os"
	"path/filepath"
	"runtime"
	"strings"
	"sync"
	"time"

	"github.com/gokrazy/rsync/rsynccmd"
	"github.com/gokrazy/rsync/rsyncd"
)

type concurrentSpec struct {
	N        int    `json:"n"`
	Mode     string `json:"mode"` // pull | push-distinct | push-same | mixed
	Procs    int    `json:"procs"`
	SrcRoot  string `json:"src_root"`  // what is pulled / what every client uploads
	ModRoot  string `json:"mod_root"`  // writable module (uploads land in mod/u<i> or mod/same)
	DestBase string `json:"dest_base"` // pull destinations dest<i>
}

// runConcurrent (inside a worker, normally the race-instrumented binary):
// N simultaneous real clients against one daemon over TCP.
func runConcurrent(sp sessionSpec, res *sessionResult) error {
	c := sp.Concurrent
	if c.Procs > 0 {
		defer runtime.GOMAXPROCS(runtime.GOMAXPROCS(c.Procs))
	}
	var stderr bytes.Buffer
	ctx, cancel := context.WithCancel(context.Background())
	defer cancel()
	srv, err := rsyncd.NewServer([]rsyncd.Module{{Name: "src", Path: c.SrcRoot}, {Name: "mod", Path: c.ModRoot, Writable: true}}, rsyncd.DontRestrict(), rsyncd.WithStderr(io.Discard))
	if err != nil {
		return err
	}
	ln, err := net.Listen("tcp", "127.0.0.1:0")
	if err != nil {
		return err
	}
	defer ln.Close()
	go srv.Serve(ctx, ln)
	url := "rsync://" + ln.Addr().String() + "/"
	var wg sync.WaitGroup
	errs := make([]string, c.N)
	for i := 0; i < c.N; i++ {
		wg.Add(1)
		go func(i int) {
			defer wg.Done()
			var args []string
			pull := c.Mode == "pull" || (c.Mode == "mixed" && i%2 == 0)
			switch {
			case pull:
				args = []string{"-rt", url + "src/", filepath.Join(c.DestBase, fmt.Sprintf("dest%d", i))}
			case c.Mode == "push-same":
				args = []string{"-rt", c.SrcRoot + "/", url + "mod/same"}
			default:
				args = []string{"-rt", c.SrcRoot + "/", url + fmt.Sprintf("mod/u%d", i)}
			}
			cmd := rsynccmd.Command("rsync", args...)
			var eb bytes.Buffer
			cmd.Stdout, cmd.Stderr, cmd.DontRestrict = io.Discard, &eb, true
			if _, err := cmd.Run(ctx); err != nil {
				errs[i] = clipStr(err.Error(), 200)
			}
		}(i)
	}
	done := make(chan struct{})
	go func() { wg.Wait(); close(done) }()
	select {
	case <-done:
	case <-time.After(90 * time.Second):
		res.Parse = "hang"
		stderr.WriteString(allStacks())
		res.Stderr = tailStr(stderr.String(), 6000)
		return nil
	}
	var bad []string
	for i, e := range errs {
		if e != "" {
			bad = append(bad, fmt.Sprintf("session %d: %s", i, e))
		}
	}
	res.Parse = "done"
	if len(bad) > 0 {
		res.Parse = "errors"
		res.Err = strings.Join(bad, "; ")
	}
	return nil
}

// C18 (second half): simultaneous sessions against one daemon, under the race detector.
func runConcurrentSessions(r *run) error {
	g := newRng(r.seed, "concurrent")
	base, err := mkTemp("concurrent")
	if err != nil {
		return err
	}
	defer rmTemp(base)
	pool := newSessionPool(2)
	defer pool.close()
	var src treeSpec
	for i := 0; i < 40; i++ {
		src = append(src, nodeSpec{Path: fmt.Sprintf("d%d/f%02d", i%4, i), Type: "f", Data: g.bytes(g.intn(3000)), Mode: 0o644, Mtime: 1_500_000_000})
	}
	bigSize := 150000
	if r.tier == "thorough" {
		bigSize = 700000
	}
	src = append(src, nodeSpec{Path: "big.bin", Type: "f", Data: g.bytes(bigSize), Mode: 0o644, Mtime: 1_500_000_000})
	srcRoot := filepath.Join(base, "src")
	if err := src.materialise(srcRoot); err != nil {
		return err
	}
	want := takeSnapshot(srcRoot).canon("tc")
	race := strings.Contains(os.Args[0], "-race")
	r.notes["race_detector"] = race
	ns := []int{2, 9}
	if r.tier == "thorough" {
		ns = []int{2, 3, 8, 16, 32}
	}
	k := 0
	for _, n := range ns {
		for _, mode := range []string{"pull", "push-distinct", "push-same", "mixed"} {
			k++
			procs := []int{1, 2, 4, 16}[k%4]
			id := fmt.Sprintf("cc-%s-%d-p%d", mode, n, procs)
			modRoot := filepath.Join(base, id+"-mod")
			destBase := filepath.Join(base, id+"-dest")
			os.MkdirAll(modRoot, 0o755)
			os.MkdirAll(destBase, 0o755)
			sp := sessionSpec{Kind: "concurrent", ID: id, TimeoutMs: 150000,
				Concurrent: &concurrentSpec{N: n, Mode: mode, Procs: procs, SrcRoot: srcRoot, ModRoot: modRoot, DestBase: destBase}}
			res := pool.run(sp)
			obs := res.Parse
			if res.Outcome != "ok" {
				obs = "process:" + res.Outcome
			}
			r.count("concurrent/" + mode + "/" + obs)
			r.emit("noop", id, []string{mode, fmt.Sprint(n), fmt.Sprint(procs)}, "ok", true)
			detail := map[string]any{"mode": mode, "sessions": n, "gomaxprocs": procs, "observed": obs, "err": res.Err, "stderr": tailStr(res.Stderr, 6000), "race_detector": race}
			if strings.Contains(res.Stderr, "DATA RACE") {
				r.oracleFail(id, "the race detector reported a data race during simultaneous sessions", detail)
				continue
			}
			if obs != "done" {
				r.oracleFail(id, "simultaneous sessions did not all complete successfully ("+obs+"): "+clipStr(res.Err, 200), detail)
				continue
			}
			// each session produced what it would have produced alone
			for i := 0; i < n; i++ {
				var got string
				pull := mode == "pull" || (mode == "mixed" && i%2 == 0)
				switch {
				case pull:
					got = filepath.Join(destBase, fmt.Sprintf("dest%d", i))
				case mode == "push-same":
					got = filepath.Join(modRoot, "same")
				default:
					got = filepath.Join(modRoot, fmt.Sprintf("u%d", i))
				}
				if s := takeSnapshot(got).canon("tc"); s != want {
					detail["session"], detail["diff"] = i, firstLineDiff(want, s)
					r.oracleFail(id, fmt.Sprintf("session %d of %d simultaneous %s sessions did not produce the result it produces alone: %s", i, n, mode, firstLineDiff(want, s)), detail)
					break
				}
			}
			os.RemoveAll(modRoot)
			os.RemoveAll(destBase)
		}
	}
	return nil
}

func init() { components["concurrent"] = runConcurrentSessions }
