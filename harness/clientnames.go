package main

import (
	"fmt"
	"os"
	"path/filepath"
	"sort"
	"strings"

	"github.com/gokrazy/rsync/verifhook"
)

// ---- C01: the client as sender — which names an absolute source path gets ----
//
// The real SendFileList with the implicit module "/" (what a pushing or
// locally copying client runs) against Model/Serve.v's client_names: the
// split into filepath.Dir / filepath.Base, filepath.Clean, the walk and the
// strip prefix.  The model's root stands for a scratch directory.

func runClientNames(r *run) error {
	g := newRng(r.seed, "clientnames")
	base, err := mkTemp("clientnames")
	if err != nil {
		return err
	}
	defer rmTemp(base)
	// a fixed tree (names without , : ( ) so that the model's tree syntax stays trivial)
	files := []string{"a.txt", "d/b.txt", "d/e/c.txt", "d/e/deep/z", "sp ace/f", "2/two.txt", "d/e/deep/\xc3\xa4"}
	dirs := []string{"d", "d/e", "d/e/deep", "d/e/empty", "sp ace", "2"}
	for _, d := range dirs {
		if err := os.MkdirAll(filepath.Join(base, d), 0o755); err != nil {
			return err
		}
	}
	for _, f := range files {
		if err := os.WriteFile(filepath.Join(base, f), []byte(f), 0o644); err != nil {
			return err
		}
	}
	modelTree := "D(2:D(two.txt:F),a.txt:F,d:D(b.txt:F,e:D(c.txt:F,deep:D(z:F,\xc3\xa4:F),empty:D)),sp ace:D(f:F))"
	fixed := []string{"/d", "/d/", "/d/e", "/d/e/", "/d/e/deep", "/d/e/deep/", "/a.txt", "/d/b.txt", "/", "//d//e", "/d/./e", "/d/e/../e",
		"/d/e//", "/nonexistent", "/d/nonexistent/", "/d/nonexistent/x", "/a.txt/", "/sp ace", "/sp ace/", "/d/e/empty", "/d/e/empty/", "/2", "/d/e/./", "/d/e/deep/..", "/d/e/deep/../"}
	n := 300
	if r.tier == "thorough" {
		n = 4000
	}
	comps := []string{"d", "e", "deep", "empty", "a.txt", "b.txt", "c.txt", "sp ace", "2", "two.txt", "z", "nonexistent", ".", ".."}
	var reqs []string
	reqs = append(reqs, fixed...)
	existing := append(append([]string{}, dirs...), files...)
	for len(reqs) < n {
		if g.chance(65) {
			// an existing object, decorated: doubled slashes, "." elements, optional trailing slash
			var b strings.Builder
			for _, c := range strings.Split(existing[g.intn(len(existing))], "/") {
				b.WriteString(strings.Repeat("/", 1+g.intn(6)/5))
				if g.chance(10) {
					b.WriteString("./")
				}
				b.WriteString(c)
			}
			if g.chance(45) {
				b.WriteString("/")
			}
			reqs = append(reqs, b.String())
			continue
		}
		depth := 0
		var b strings.Builder
		k := 1 + g.intn(4)
		for j := 0; j < k; j++ {
			c := comps[g.intn(len(comps))]
			if c == ".." {
				if depth == 0 {
					continue // never climb above the scratch directory (outside the model's root)
				}
				depth--
			} else if c != "." {
				depth++
			}
			b.WriteString(strings.Repeat("/", 1+g.intn(5)/4))
			b.WriteString(c)
		}
		if b.Len() == 0 {
			continue
		}
		if g.chance(40) {
			b.WriteString("/")
		}
		reqs = append(reqs, b.String())
	}
	for i, p := range reqs {
		id := fmt.Sprintf("cn%d", i)
		// The model cleans the path lexically; the kernel resolves it component by component. The two
		// differ when ".." follows something that is not an existing directory: outside the model.
		ordinary, physical := true, true
		prefix := base
		for _, c := range strings.Split(p, "/") {
			switch c {
			case "", ".":
				if c == "." {
					ordinary = false
				}
			case "..":
				ordinary = false
				if st, e := os.Lstat(prefix); e != nil || !st.IsDir() {
					physical = false
				}
				prefix = filepath.Dir(prefix)
			default:
				prefix = filepath.Join(prefix, c)
			}
		}
		if !physical {
			r.count("skipped/dotdot-after-a-non-directory")
			continue
		}
		_, names, err := verifhook.SendFileList([]string{"-r"}, "/", []string{base + p}, nil)
		obs := ""
		if err != nil {
			obs = "ERR"
		} else {
			sort.Strings(names)
			hs := make([]string, len(names))
			for k, nm := range names {
				hs[k] = hx(nm)
			}
			sort.Strings(hs)
			obs = strings.Join(hs, ";")
		}
		kind := "noslash"
		if strings.HasSuffix(p, "/") {
			kind = "slash"
		}
		r.count(fmt.Sprintf("%s/depth=%d/listed=%v", kind, strings.Count(strings.Trim(p, "/"), "/")+1, len(names) > 0))
		r.emit("clientnames", id, []string{modelTree, hx(p)}, obs, len(names) > 1)
		// oracle (rsync's naming), for paths without "." and ".." elements: an existing path /x/.../c lists
		// c and c/...; with a trailing slash "." and the relative paths
		clean := filepath.Clean(p)
		if st, serr := os.Lstat(filepath.Join(base, clean)); serr == nil && err == nil && clean != "/" && ordinary {
			want := map[string]bool{}
			root := filepath.Join(base, clean)
			prefix := filepath.Base(clean)
			if strings.HasSuffix(p, "/") {
				prefix = "."
			}
			if strings.HasSuffix(p, "/") && !st.IsDir() {
				continue // "file/" cannot be opened as a directory: nothing to say
			}
			filepath.Walk(root, func(q string, _ os.FileInfo, _ error) error {
				rel, _ := filepath.Rel(root, q)
				want[filepath.Join(prefix, rel)] = true
				return nil
			})
			got := map[string]bool{}
			for _, nm := range names {
				got[nm] = true
			}
			for w := range want {
				if !got[w] {
					r.oracleFail(id, fmt.Sprintf("source path %q: %q is not in the file list under that name", p, w), map[string]any{"path": p, "listed": names})
					break
				}
			}
		}
	}
	return nil
}

func init() { components["clientnames"] = runClientNames }
