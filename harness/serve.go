package main

import (
	"bufio"
	"bytes"
	"context"
	"fmt"
	"io"
	"os"
	"path/filepath"
	"sort"
	"strings"
	"sync"
	"time"

	"github.com/gokrazy/rsync/rsyncd"
)

type pullRawSpec struct {
	Modules  []modSpec `json:"modules"`
	Module   string    `json:"module"`
	Flags    []string  `json:"flags"`    // flag lines incl. "." and the path arguments
	Canaries []string  `json:"canaries"` // hex byte strings that must never appear in what the daemon sends
	Fetch    bool      `json:"fetch"`    // request every regular file of the list
}

// runPullRaw: a hand-written receiving client against a real daemon.
// Result (res.Parse): class|names(hex,sorted,;)|canaries found(indices)
func runPullRaw(sp sessionSpec, res *sessionResult) error {
	d := sp.PullRaw
	var stderr bytes.Buffer
	ctx, cancel := context.WithCancel(context.Background())
	defer cancel()
	var mods []rsyncd.Module
	for _, m := range d.Modules {
		if m.FS {
			// an fs.FS that is itself confined to the directory (os.DirFS follows symlinks out of it)
			rt, err := os.OpenRoot(m.Path)
			if err != nil {
				return err
			}
			defer rt.Close()
			mods = append(mods, rsyncd.Module{Name: m.Name, FS: rt.FS()})
		} else {
			mods = append(mods, rsyncd.Module{Name: m.Name, Path: m.Path, Writable: m.Writable})
		}
	}
	srv, err := rsyncd.NewServer(mods, rsyncd.DontRestrict(), rsyncd.WithStderr(&stderr))
	if err != nil {
		return err
	}
	r, rb := pullExchange(ctx, srv, d.Module, d.Flags, d.Fetch)
	var found []string
	for i, c := range d.Canaries {
		if bytes.Contains(rb, unhex(c)) {
			found = append(found, fmt.Sprint(i))
		}
	}
	res.Parse = r + strings.Join(found, ",")
	res.Stderr = tailStr(stderr.String(), 500)
	return nil
}

// pullExchange: one hand-written pull against srv over buffered pipes.
// Returns "class|names|" and everything the daemon sent.
func pullExchange(ctx context.Context, srv *rsyncd.Server, module string, flags []string, fetch bool) (string, []byte) {
	c2s, s2c := newBufPipe(), newBufPipe()
	go func() {
		srv.HandleDaemonConn(ctx, rsyncd.NewConnection(c2s, s2c, "127.0.0.1:1"))
		s2c.Close()
	}()
	defer func() { c2s.Close(); s2c.Close() }()
	var raw bytes.Buffer // everything the daemon sent, framing included
	tee := io.TeeReader(s2c, &raw)
	out := make(chan string, 1)
	go func() {
		out <- func() string {
			br := bufio.NewReader(tee)
			if _, err := br.ReadString('\n'); err != nil {
				return "no-greeting||"
			}
			io.WriteString(c2s, "@RSYNCD: 27\n"+module+"\n")
			for {
				l, err := br.ReadString('\n')
				if err != nil {
					return "closed||"
				}
				l = strings.TrimSpace(l)
				if l == "@RSYNCD: OK" {
					break
				}
				if strings.HasPrefix(l, "@ERROR") || l == "@RSYNCD: EXIT" {
					return "refused||"
				}
			}
			io.WriteString(c2s, strings.Join(flags, "\n")+"\n\n")
			if _, err := rdI32(br); err != nil {
				return "badargs||"
			}
			var msgs []string
			dr := &demuxR{r: br, msgs: &msgs}
			c2s.Write(le32(0)) // empty filter list
			// collect the file list: read until the daemon goes quiet
			var data bytes.Buffer
			var mu sync.Mutex
			last := time.Now()
			eof := make(chan struct{})
			go func() {
				buf := make([]byte, 65536)
				for {
					n, err := dr.Read(buf)
					mu.Lock()
					data.Write(buf[:n])
					last = time.Now()
					mu.Unlock()
					if err != nil {
						close(eof)
						return
					}
				}
			}()
			quiet := func() {
				// first byte (or the end of the stream) may take a while on a busy machine
				for w := 0; w < 250; w++ {
					mu.Lock()
					n := data.Len()
					mu.Unlock()
					if n > 0 {
						break
					}
					select {
					case <-eof:
						return
					case <-time.After(20 * time.Millisecond):
					}
				}
				for {
					select {
					case <-eof:
						return
					case <-time.After(20 * time.Millisecond):
					}
					mu.Lock()
					q := time.Since(last) > 250*time.Millisecond
					mu.Unlock()
					if q {
						return
					}
				}
			}
			quiet()
			o := (&hostileSpec{}).fopts(flags)
			mu.Lock()
			fl := append([]byte{}, data.Bytes()...)
			mu.Unlock()
			class := "listed"
			ents, derr := refDecode(o, fl)
			if derr != nil {
				class = "undecodable"
				if len(fl) == 0 {
					class = "nothing"
				}
			}
			for _, m := range msgs {
				if strings.Contains(m, "msg1:") {
					class = "error"
				}
			}
			var names []string
			for _, e := range ents {
				names = append(names, fmt.Sprintf("%x", e.name))
			}
			sort.Strings(names)
			if fetch && derr == nil {
				sorted := sortedEntries(ents)
				for i, e := range sorted {
					// a hostile client may request any index, e.g. that of a symbolic link
					if typeIs(e.mode, sIFREG) || typeIs(e.mode, sIFLNK) {
						c2s.Write(le32(int32(i)))
						c2s.Write(encHead(sumHead{}))
					}
				}
				c2s.Write(le32(-1))
				c2s.Write(le32(-1))
				quiet()
			}
			return class + "|" + strings.Join(names, ";") + "|"
		}()
	}()
	var r string
	select {
	case r = <-out:
	case <-time.After(8 * time.Second):
		r = "hang||"
	}
	c2s.Close()
	time.Sleep(20 * time.Millisecond)
	return r, raw.Bytes()
}

// C06: what a serving daemon discloses for request paths from a traversal grammar.
func runServe(r *run) error {
	g := newRng(r.seed, "serve")
	base, err := mkTemp("serve")
	if err != nil {
		return err
	}
	defer rmTemp(base)
	pool := newSessionPool(8)
	defer pool.close()
	n := 220
	if r.tier == "thorough" {
		n = 3000
	}
	const secretContent = "CANARY-CONTENT-9d41c7-outside-data"
	const secretName = "CANARYNAME-5be2"
	// one arena: outside area + three modules whose names are prefixes of each other
	arena := treeSpec{
		{Path: "outside-area/plain.txt", Type: "f", Data: []byte(secretContent + " (file)"), Mode: 0o644, Mtime: 1_500_000_000},
		{Path: "outside-area/" + secretName, Type: "f", Data: []byte(secretContent + " (named)"), Mode: 0o644, Mtime: 1_500_000_000},
		{Path: "outside-area/deep/" + secretName + "-2", Type: "f", Data: []byte(secretContent + " (deep)"), Mode: 0o644, Mtime: 1_500_000_000},
	}
	modTree := func(prefix, tag string) treeSpec {
		return treeSpec{
			{Path: prefix + "/a.txt", Type: "f", Data: []byte("inside " + tag + " a"), Mode: 0o644, Mtime: 1_500_000_000},
			{Path: prefix + "/d", Type: "d", Mode: 0o755, Mtime: 1_500_000_000},
			{Path: prefix + "/d/b.txt", Type: "f", Data: []byte("inside " + tag + " b"), Mode: 0o600, Mtime: 1_500_000_000},
			{Path: prefix + "/d/e", Type: "d", Mode: 0o755, Mtime: 1_500_000_000},
			{Path: prefix + "/d/e/c.txt", Type: "f", Data: []byte("inside " + tag + " c"), Mode: 0o644, Mtime: 1_500_000_000},
			{Path: prefix + "/2", Type: "d", Mode: 0o755, Mtime: 1_500_000_000},
			{Path: prefix + "/2/two.txt", Type: "f", Data: []byte("inside " + tag + " two"), Mode: 0o644, Mtime: 1_500_000_000},
			{Path: prefix + "/out-dir", Type: "l", Link: "../outside-area"},
			{Path: prefix + "/out-file", Type: "l", Link: "../outside-area/plain.txt"},
			{Path: prefix + "/d/out-up", Type: "l", Link: "../../outside-area/deep"},
			{Path: prefix + "/in-dir", Type: "l", Link: "d"},
			{Path: prefix + "/in-file", Type: "l", Link: "d/b.txt"},
			{Path: prefix + "/abs-out", Type: "l", Link: filepath.Join(base, "arena", "outside-area")},
			{Path: prefix + "/out-chain", Type: "l", Link: "out-dir/"},
			{Path: prefix + "/d/out-chain2", Type: "l", Link: "out-up/."},
		}
	}
	arena = append(arena, modTree("mod", "mod")...)
	arena = append(arena, modTree("mod2", "mod2")...)
	arena = append(arena, modTree("mo", "mo")...)
	root := filepath.Join(base, "arena")
	if err := arena.materialise(root); err != nil {
		return err
	}
	canaries := []string{hx(secretContent), hx(secretName)}
	// the module tree as the model sees it (symlinks are leaves)
	modelTree := "D(2:D(two.txt:F),a.txt:F,abs-out:O,d:D(b.txt:F,e:D(c.txt:F),out-chain2:O,out-up:O),in-dir:O,in-file:O,out-chain:O,out-dir:O,out-file:O)"
	segs := []string{"", ".", "..", "d", "d/", "d/e", "a.txt", "out-dir", "out-dir/", "out-file", "in-dir", "in-dir/", "in-file", "abs-out/", "d/out-up/", "nosuch", "2", "/", "//", "d/../..", "d/../../outside-area", "../outside-area/", "../outside-area/plain.txt", "./d/./e/", "d//e", "out-dir/" + secretName, "d/e/../../..", "out-chain", "out-chain/", "d/out-chain2", "d/out-chain2/", "out-chain/" + secretName}
	var wg sync.WaitGroup
	var mu sync.Mutex
	for i := 0; i < n; i++ {
		id := fmt.Sprintf("sv%d", i)
		modName := []string{"mod", "mod", "mod2", "mo"}[g.intn(4)]
		fsBacked := g.chance(25)
		mods := []modSpec{{Name: "mo", Path: filepath.Join(root, "mo")}, {Name: "mod", Path: filepath.Join(root, "mod")}, {Name: "mod2", Path: filepath.Join(root, "mod2")}}
		for k := range mods {
			if mods[k].Name == modName {
				mods[k].FS = fsBacked
			}
		}
		var paths []string
		for k := 0; k < 1+g.intn(2); k++ {
			var p string
			switch g.intn(6) {
			case 0:
				p = modName + "/" + segs[g.intn(len(segs))]
			case 1:
				p = modName + segs[g.intn(len(segs))]
			case 2:
				p = "mod" + "/" + segs[g.intn(len(segs))] // another module's name in front
			case 3:
				sib := map[string]string{"mo": "mod", "mod": "mod2", "mod2": "mod"}[modName]
				p = []string{"/etc/passwd", filepath.Join(root, "outside-area") + "/", "/", "..", "../outside-area/", modName + "/..", modName + "/../outside-area/", modName + "//../",
					modName + "/../" + sib + "/", modName + "/d/../../" + sib + "/d/", modName + "/../" + sib + "/d/"}[g.intn(11)]
			case 4:
				p = segs[g.intn(len(segs))]
			default:
				p = modName + "/" + segs[g.intn(len(segs))] + "/" + segs[g.intn(len(segs))]
			}
			if p == "" {
				p = "." // an empty line would end the argument list
			}
			paths = append(paths, p)
		}
		opt := []string{"-r", "-rl", "-rc", "-rlc", "-rlptgoD"}[g.intn(5)]
		flags := append([]string{"--server", "--sender", opt, "."}, paths...)
		// canaries 0,1: the outside area; 2..: file content of the sibling modules
		cs := append([]string{}, canaries...)
		for _, other := range []string{"mo", "mod", "mod2"} {
			if other != modName {
				cs = append(cs, hx("inside "+other+" "))
			}
		}
		sp := sessionSpec{Kind: "pullraw", ID: id, TimeoutMs: 20000,
			PullRaw: &pullRawSpec{Modules: mods, Module: modName, Flags: flags, Canaries: cs, Fetch: g.chance(60)}}
		// is the request inside the model's domain?  (no symlink on the way, directory-backed module)
		wg.Add(1)
		go func() {
			defer wg.Done()
			res := pool.run(sp)
			mu.Lock()
			defer mu.Unlock()
			parts := strings.SplitN(res.Parse, "|", 3)
			for len(parts) < 3 {
				parts = append(parts, "")
			}
			class, names, found := parts[0], parts[1], parts[2]
			if res.Outcome != "ok" {
				class = "outcome:" + res.Outcome
			}
			r.count("serve/" + class)
			detail := map[string]any{"module": modName, "fs_backed": fsBacked, "flags": flags, "class": class, "stderr": res.Stderr}
			if found != "" {
				r.oracleFail(id, "the daemon's byte stream contains data from outside the module (canary "+found+")", detail)
			}
			// every listed name must denote an object inside the module directory
			modDir := filepath.Join(root, modName)
			for _, hn := range strings.Split(names, ";") {
				if hn == "" {
					continue
				}
				name := string(unhex(hn))
				if strings.Contains(name, secretName) {
					r.oracleFail(id, "file list names an outside object: "+name, detail)
				}
				_ = modDir
			}
			pf := make([]string, len(paths))
			for k, p := range paths {
				pf[k] = hx(p)
			}
			obs := names
			if class != "listed" {
				obs = ""
			}
			// requests that touch a symbolic link are outside the model's domain (oracle only)
			for _, p := range paths {
				for _, l := range []string{"out-dir", "out-file", "out-up", "in-dir", "in-file", "abs-out", "out-chain"} {
					if strings.Contains(p, l) {
						obs = "SKIP"
					}
				}
			}
			r.emit("serve", id, []string{hx(modName), modelTree, strings.Join(pf, ","), b01(fsBacked)}, obs, names != "")
		}()
	}
	wg.Wait()
	return nil
}

func init() { components["serve"] = runServe }
