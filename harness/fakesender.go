package main

import (
	"bufio"
	"bytes"
	"context"
	"encoding/binary"
	"encoding/hex"
	"fmt"
	"io"
	"sort"
	"strings"
	"sync"
	"time"

	"github.com/gokrazy/rsync/rsyncclient"
	"github.com/gokrazy/rsync/rsyncd"
)

// A hostile sender: speaks the sending side of protocol 27 by hand, so that
// the file list (and everything after it) can be anything at all.

type hEntry struct {
	NameHex string `json:"name"`
	Mode    int32  `json:"mode"`
	Len     int64  `json:"len"`
	Mtime   int32  `json:"mtime"`
	LinkHex string `json:"link,omitempty"`
	Rdev    int32  `json:"rdev,omitempty"`
	Uid     int32  `json:"uid,omitempty"`
	Gid     int32  `json:"gid,omitempty"`
	DataHex string `json:"data,omitempty"` // content served when the file is requested
}

type hostileSpec struct {
	Target     string   `json:"target"` // client | daemon
	Entries    []hEntry `json:"entries"`
	RawFlist   string   `json:"raw_flist,omitempty"`   // hex; sent instead of Entries (incl. terminator)
	AfterFlist string   `json:"after_flist,omitempty"` // hex; sent right after the list (instead of id lists + io error count)
	Replies    string   `json:"replies,omitempty"`     // hex; sent instead of answering requests
	ModSubdir  string   `json:"mod_subdir,omitempty"`  // daemon: rsync://host/mod/<subdir>
	Seed       int32    `json:"seed"`
	ReadOnly   bool     `json:"read_only,omitempty"` // daemon: the module is not writable
}

func unhex(s string) []byte { b, _ := hex.DecodeString(s); return b }

func (h *hostileSpec) fopts(args []string) fopts {
	all := hasShort(args, 'a')
	return fopts{uid: all || hasShort(args, 'o'), gid: all || hasShort(args, 'g'), links: all || hasShort(args, 'l'),
		devices: all || hasShort(args, 'D') || hasLong(args, "--devices"), specials: all || hasShort(args, 'D') || hasLong(args, "--specials"),
		checksum: hasShort(args, 'c')}
}

func (h *hostileSpec) flistBytes(o fopts) []byte {
	if h.RawFlist != "" {
		return unhex(h.RawFlist)
	}
	var b bytes.Buffer
	for _, e := range h.Entries {
		fe := fentry{name: unhex(e.NameHex), length: e.Len, mtime: e.Mtime, mode: e.Mode, uid: e.Uid, gid: e.Gid, rdev: e.Rdev, link: unhex(e.LinkHex), csum: make([]byte, 16)}
		refEncodeEntry(&b, o, fchoice{long: true}, fe, hasRdevField(o, e.Mode))
	}
	b.WriteByte(0)
	if h.AfterFlist != "" {
		b.Write(unhex(h.AfterFlist))
		return b.Bytes()
	}
	if o.uid {
		b.Write(le32(0))
	}
	if o.gid {
		b.Write(le32(0))
	}
	b.Write(le32(0)) // io errors
	return b.Bytes()
}

// sortedData: file contents in the receiver's index order (sorted by name).
func (h *hostileSpec) sortedData() [][]byte {
	type nd struct {
		name string
		data []byte
	}
	var l []nd
	for _, e := range h.Entries {
		l = append(l, nd{string(unhex(e.NameHex)), unhex(e.DataHex)})
	}
	sort.SliceStable(l, func(i, j int) bool { return l[i].name < l[j].name })
	out := make([][]byte, len(l))
	for i := range l {
		out[i] = l[i].data
	}
	return out
}

type muxW struct{ w io.Writer }

func (m muxW) Write(p []byte) (int, error) {
	for off := 0; off < len(p); {
		n := len(p) - off
		if n > 0xffff {
			n = 0xffff
		}
		var hd [4]byte
		binary.LittleEndian.PutUint32(hd[:], uint32(7)<<24|uint32(n))
		if _, err := m.w.Write(append(hd[:], p[off:off+n]...)); err != nil {
			return off, err
		}
		off += n
	}
	return len(p), nil
}

// demuxR: strips the multiplexing of the daemon's output; non-data frames go to msgs.
type demuxR struct {
	r    io.Reader
	left int
	msgs *[]string
}

func (d *demuxR) Read(p []byte) (int, error) {
	for d.left == 0 {
		var hd [4]byte
		if _, err := io.ReadFull(d.r, hd[:]); err != nil {
			return 0, err
		}
		v := binary.LittleEndian.Uint32(hd[:])
		tag, n := int(v>>24)-7, int(v&0xffffff)
		if tag == 0 {
			d.left = n
			continue
		}
		b := make([]byte, n)
		if _, err := io.ReadFull(d.r, b); err != nil {
			return 0, err
		}
		*d.msgs = append(*d.msgs, fmt.Sprintf("msg%d:%s", tag, strings.TrimSpace(string(b))))
	}
	if len(p) > d.left {
		p = p[:d.left]
	}
	n, err := d.r.Read(p)
	d.left -= n
	return n, err
}

func rdI32(r io.Reader) (int32, error) {
	var b [4]byte
	if _, err := io.ReadFull(r, b[:]); err != nil {
		return 0, err
	}
	return int32(binary.LittleEndian.Uint32(b[:])), nil
}

// answerRequests: the sender's loop — whole files as literal data.
func (h *hostileSpec) answerRequests(r io.Reader, w io.Writer, log *[]string) error {
	data := h.sortedData()
	if h.Replies != "" {
		w.Write(unhex(h.Replies))
	}
	phase := 0
	for {
		idx, err := rdI32(r)
		if err != nil {
			return fmt.Errorf("reading request: %v", err)
		}
		if idx == -1 {
			if h.Replies == "" {
				w.Write(le32(-1))
			}
			phase++
			if phase == 2 {
				return nil
			}
			continue
		}
		var head [4]int32
		for i := range head {
			if head[i], err = rdI32(r); err != nil {
				return err
			}
		}
		if head[0] > 0 {
			if _, err := io.CopyN(io.Discard, r, int64(head[0])*int64(4+head[2])); err != nil {
				return err
			}
		}
		*log = append(*log, fmt.Sprintf("requested:%d:%d", idx, head[0]))
		if h.Replies != "" {
			continue
		}
		var d []byte
		if idx >= 0 && int(idx) < len(data) {
			d = data[idx]
		}
		var b bytes.Buffer
		b.Write(le32(idx))
		b.Write(encHead(sumHead{}))
		if len(d) > 0 {
			b.Write(le32(int32(len(d))))
			b.Write(d)
		}
		b.Write(le32(0))
		b.Write(fileSum(h.Seed, d))
		if _, err := w.Write(b.Bytes()); err != nil {
			return err
		}
	}
}

func readFilterList(r io.Reader) error {
	for {
		n, err := rdI32(r)
		if err != nil {
			return err
		}
		if n == 0 {
			return nil
		}
		if n < 0 || n > 1<<20 {
			return fmt.Errorf("filter rule length %d", n)
		}
		if _, err := io.CopyN(io.Discard, r, int64(n)); err != nil {
			return err
		}
	}
}

// runHostile executes one hostile-sender session against the real receiving
// client (library) or a real writable daemon module whose path is sp.Dest.
func runHostile(sp sessionSpec, res *sessionResult) error {
	h := sp.Hostile
	var stderr bytes.Buffer
	ctx, cancel := context.WithCancel(context.Background())
	defer cancel()
	var log []string
	defer func() { res.Stderr = tailStr(stderr.String(), 1200); res.Log = log }()
	o := h.fopts(sp.Args)
	switch h.Target {
	case "client":
		cl, err := rsyncclient.New(sp.Args, rsyncclient.DontRestrict(), rsyncclient.WithStderr(&stderr))
		if err != nil {
			return fmt.Errorf("client.New: %v", err)
		}
		c2s, s2c := newBufPipe(), newBufPipe()
		c2sR, c2sW, s2cR, s2cW := c2s, c2s, s2c, s2c
		fake := make(chan error, 1)
		go func() {
			defer s2cW.Close()
			fake <- func() error {
				if _, err := rdI32(c2sR); err != nil {
					return err
				}
				s2cW.Write(le32(27))
				s2cW.Write(le32(h.Seed))
				w := muxW{s2cW}
				if err := readFilterList(c2sR); err != nil {
					return err
				}
				w.Write(h.flistBytes(o))
				if err := h.answerRequests(c2sR, w, &log); err != nil {
					return err
				}
				var st bytes.Buffer
				wI64(&st, 1)
				wI64(&st, 2)
				wI64(&st, 3)
				w.Write(st.Bytes())
				_, err := rdI32(c2sR) // goodbye
				return err
			}()
			io.Copy(io.Discard, c2sR)
		}()
		_, err = cl.Run(ctx, struct {
			io.Reader
			io.Writer
		}{s2cR, c2sW}, []string{sp.Dest})
		c2sW.Close()
		s2cR.Close()
		select {
		case fe := <-fake:
			if fe != nil {
				log = append(log, "fake-sender: "+fe.Error())
			}
		case <-time.After(2 * time.Second):
			log = append(log, "fake-sender still running")
		}
		return err
	case "daemon":
		srv, err := rsyncd.NewServer([]rsyncd.Module{{Name: "mod", Path: sp.Dest, Writable: !h.ReadOnly}}, rsyncd.DontRestrict(), rsyncd.WithStderr(&stderr))
		if err != nil {
			return err
		}
		c2s, s2c := newBufPipe(), newBufPipe()
		c2sR, c2sW, s2cR, s2cW := c2s, c2s, s2c, s2c
		srvDone := make(chan error, 1)
		go func() {
			e := srv.HandleDaemonConn(ctx, rsyncd.NewConnection(c2sR, s2cW, "hostile"))
			s2cW.Close()
			c2sR.Close()
			srvDone <- e
		}()
		ferr := func() error {
			rd := bufio.NewReader(s2cR)
			if _, err := rd.ReadString('\n'); err != nil {
				return err
			}
			io.WriteString(c2sW, "@RSYNCD: 27\nmod\n")
			if l, err := rd.ReadString('\n'); err != nil || !strings.HasPrefix(l, "@RSYNCD: OK") {
				return fmt.Errorf("module not accepted: %q %v", l, err)
			}
			args := append([]string{"--server"}, sp.Args...)
			args = append(args, ".", "mod/"+h.ModSubdir)
			io.WriteString(c2sW, strings.Join(args, "\n")+"\n\n")
			seed, err := rdI32(rd)
			if err != nil {
				return err
			}
			h.Seed = seed // the daemon chooses the checksum seed
			var msgs []string
			dr := &demuxR{r: rd, msgs: &msgs}
			defer func() { log = append(log, msgs...) }()
			if hasLong(sp.Args, "--delete") {
				c2sW.Write(le32(0)) // empty exclusion list
			}
			if _, err := c2sW.Write(h.flistBytes(o)); err != nil {
				return err
			}
			if err := h.answerRequests(dr, c2sW, &log); err != nil {
				return err
			}
			_, err = rdI32(dr) // goodbye
			return err
		}()
		c2sW.Close()
		var serr error
		select {
		case serr = <-srvDone:
		case <-time.After(3 * time.Second):
			log = append(log, "daemon handler still running 3s after the client closed")
		}
		s2cR.Close()
		if ferr != nil {
			log = append(log, "fake-sender: "+ferr.Error())
		}
		if serr != nil {
			res.SrvErr = serr.Error()
			return serr
		}
		return nil
	}
	return fmt.Errorf("unknown hostile target %q", h.Target)
}

// bufPipe: a pipe with unbounded buffering (a socket with generous buffers):
// writes never block, reads block until data or close.
type bufPipe struct {
	mu     sync.Mutex
	cond   *sync.Cond
	buf    []byte
	closed bool
}

func newBufPipe() *bufPipe { p := &bufPipe{}; p.cond = sync.NewCond(&p.mu); return p }
func (p *bufPipe) Write(b []byte) (int, error) {
	p.mu.Lock()
	defer p.mu.Unlock()
	if p.closed {
		return 0, io.ErrClosedPipe
	}
	p.buf = append(p.buf, b...)
	p.cond.Broadcast()
	return len(b), nil
}
func (p *bufPipe) Read(b []byte) (int, error) {
	p.mu.Lock()
	defer p.mu.Unlock()
	for len(p.buf) == 0 {
		if p.closed {
			return 0, io.EOF
		}
		p.cond.Wait()
	}
	n := copy(b, p.buf)
	p.buf = p.buf[n:]
	return n, nil
}
func (p *bufPipe) Close() error {
	p.mu.Lock()
	defer p.mu.Unlock()
	p.closed = true
	p.cond.Broadcast()
	return nil
}
