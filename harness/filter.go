package main

import (
	"fmt"
	"path/filepath"
	"sort"
	"strings"

	"github.com/gokrazy/rsync/verifhook"
)

func genRules(g *rng, n int) []string {
	names := []string{"a", "b", "m", "z", "x1", "keep", "c", "aa", "b.txt", "M", "0", "d/m", "c/keep", "x2/"}
	var out []string
	for i := 0; i < n; i++ {
		nm := names[g.intn(len(names))]
		switch g.intn(5) {
		case 0:
			out = append(out, "+ "+nm)
		case 1:
			out = append(out, nm) // no prefix: exclude
		default:
			out = append(out, "- "+nm)
		}
	}
	return out
}

// reference: the entry set rsync's plain-name rules select
func refSelect(nodes []tnode, rules []string) []string {
	sort.Slice(nodes, func(i, j int) bool { return nodes[i].path < nodes[j].path })
	sel := map[string]bool{}
	var out []string
	for _, n := range nodes {
		par := filepath.Dir(n.path)
		if par != "." && !sel[par] {
			continue
		}
		if refExcluded(rules, n.path) {
			continue
		}
		sel[n.path] = true
		out = append(out, n.path)
	}
	sort.Strings(out)
	return out
}

func runFilter(r *run) error {
	g := newRng(r.seed, "filter")
	base, err := mkTemp("filter")
	if err != nil {
		return err
	}
	defer rmTemp(base)
	// (1) unit: rule list x name
	n := 3000
	if r.tier == "thorough" {
		n = 40000
	}
	pnames := []string{"a", "m", "z", "d/m", "d/z", "x/d/m", "keep", "c/keep", "x/c/keep", "b.txt", "x2", "x2/y", "M", "mm", "am", "."}
	for i := 0; i < n; i++ {
		rules := genRules(g, g.intn(5))
		if g.chance(6) {
			rules = append(rules, []string{"- b*x", "+ a?", "- [ab]", "*.o"}[g.intn(4)])
		}
		name := pnames[g.intn(len(pnames))]
		ex, err := verifhook.FilterExcluded(rules, name)
		obs := "kept"
		if err != nil {
			obs = "ERR:wild"
			if !strings.Contains(err.Error(), "wildcard") {
				obs = "ERR:" + err.Error()
			}
		} else if ex {
			obs = "excluded"
		}
		r.count("unit/" + obs)
		r.emit("filter", fmt.Sprintf("fu%d", i), []string{strings.Join(hexAll(rules), ","), hexOrDash([]byte(name))}, obs, len(rules) >= 2)
		trail := false
		for _, ru := range rules {
			if strings.HasSuffix(ru, "/") {
				trail = true
			}
		}
		if err == nil && !trail && name != "." && ex != refExcluded(rules, name) {
			r.oracleFail(fmt.Sprintf("fu%d", i), "first-match exclude/include semantics violated", map[string]any{"rules": rules, "name": name, "excluded": ex})
		}
	}
	// (2) the sender's walk with rules
	nt := 150
	if r.tier == "thorough" {
		nt = 2000
	}
	for i := 0; i < nt; i++ {
		nodes := genDestTree(g, 3)
		rules := genRules(g, g.intn(5))
		noSlashRules := rules[:0:0]
		for _, ru := range rules {
			if !strings.HasSuffix(ru, "/") {
				noSlashRules = append(noSlashRules, ru)
			}
		}
		rules = noSlashRules
		id := fmt.Sprintf("fw%d", i)
		dir := filepath.Join(base, id)
		materialiseNodes(dir, nodes)
		_, names, err := verifhook.SendFileList([]string{"-r"}, dir, []string{"/"}, rules)
		obs := ""
		if err != nil {
			obs = "ERR:" + err.Error()
		} else {
			sort.Strings(names)
			obs = strings.Join(hexAll(names), ",")
		}
		var tl []string
		for _, nd := range nodes {
			tl = append(tl, hexOrDash([]byte(nd.path))+":"+nd.typ)
		}
		sort.Strings(tl)
		r.count(fmt.Sprintf("walk/rules=%d", len(rules)))
		r.emit("select", id, []string{strings.Join(tl, ","), strings.Join(hexAll(rules), ",")}, obs, len(rules) > 0 && len(nodes) > 3)
		want := append([]string{"."}, refSelect(nodes, rules)...)
		sort.Strings(want)
		if err == nil && strings.Join(want, "\x00") != strings.Join(names, "\x00") {
			r.oracleFail(id, "the sender's file list is not the tree minus the excluded entries", map[string]any{"tree": nodes2str(nodes), "rules": rules, "got": names, "want": want})
		}
	}
	// (3) end to end in pull / push / local, rules given as --exclude / --include / -f
	pool := newSessionPool(8)
	defer pool.close()
	ne := 30
	if r.tier == "thorough" {
		ne = 300
	}
	for i := 0; i < ne; i++ {
		nodes := genDestTree(g, 2)
		rules := genRules(g, 1+g.intn(4))
		var args []string
		args = append(args, "-a")
		var wire []string
		for _, ru := range rules {
			ru = strings.TrimSuffix(ru, "/")
			switch {
			case strings.HasPrefix(ru, "+ "):
				if g.bool() {
					args = append(args, "--include="+ru[2:])
				} else {
					args = append(args, "-f", ru)
				}
			case strings.HasPrefix(ru, "- "):
				if g.bool() {
					args = append(args, "--exclude="+ru[2:])
				} else {
					args = append(args, "-f", ru)
				}
			default:
				args = append(args, "--exclude="+ru)
				ru = "- " + ru
			}
			wire = append(wire, ru)
		}
		wild := g.chance(12)
		if wild {
			args = append(args, "--exclude="+[]string{"*.o", "b?", "[xy]1"}[g.intn(3)])
		}
		arr := []string{"pull", "push", "local", "libpull"}[i%4]
		if wild && arr == "libpull" {
			// an error while the peer is still writing over a zero-capacity pipe is C18's subject
			arr = "pull"
		}
		id := fmt.Sprintf("fe%d-%s", i, arr)
		srcRoot := filepath.Join(base, id+"-src")
		dest := filepath.Join(base, id+"-dst")
		materialiseNodes(srcRoot, nodes)
		res := pool.run(sessionSpec{ID: id, Arr: arr, Args: args, SrcRoot: srcRoot, Srcs: []string{""}, Dest: dest, TimeoutMs: 60000})
		got := listPaths(dest)
		r.count(fmt.Sprintf("e2e/%s/%s/wild=%v", arr, res.Outcome, wild))
		detail := map[string]any{"arr": arr, "args": args, "tree": nodes2str(nodes), "got": got, "err": res.Err}
		if wild {
			if res.Outcome != "error" || !strings.Contains(res.Err+res.Stderr, "wildcard") {
				r.oracleFail(id, "a wildcard rule did not produce an error ("+res.Outcome+")", detail)
			}
			continue
		}
		if res.Outcome != "ok" {
			r.oracleFail(id, "session with plain-name rules failed: "+res.Err, detail)
			continue
		}
		want := refSelect(nodes, wire)
		if strings.Join(want, "\x00") != strings.Join(got, "\x00") {
			detail["want"] = want
			r.oracleFail(id, "the destination does not hold exactly the entries the rules select", detail)
		}
	}
	return nil
}

func init() { components["filter"] = runFilter }
