package main

import (
	"bufio"
	"context"
	"fmt"
	"io"
	"math/big"
	"net"
	"net/netip"
	"strings"
	"time"

	"github.com/gokrazy/rsync/rsyncd"
)

// Structured ACL rules, rendered to the strings checkACL parses.
type aclRule struct {
	text  string // what the Go code sees
	model string // what the model sees
	// oracle view: malformed, action, prefix ("" for all)
	malformed bool
	allow     bool
	all       bool
	prefix    netip.Prefix
}

func mkNetRule(allow bool, cidr string) aclRule {
	act, a := "deny", "D"
	if allow {
		act, a = "allow", "A"
	}
	p := netip.MustParsePrefix(cidr)
	masked := p.Masked()
	base := new(big.Int).SetBytes(masked.Addr().AsSlice())
	fam := "4"
	if masked.Addr().Is6() { // includes v4-mapped syntax: 16-byte network in Go's net package
		fam = "6"
	}
	// Oracle view: a network is a set of addresses; an IPv4-mapped network
	// (::ffff:a.b.c.d/96+n) is the IPv4 network a.b.c.d/n.
	oracle := masked
	if masked.Addr().Is4In6() && p.Bits() >= 96 {
		oracle = netip.PrefixFrom(masked.Addr().Unmap(), p.Bits()-96)
	}
	return aclRule{
		text:   act + " " + cidr,
		model:  fmt.Sprintf("%s:%s:%s:%d", a, fam, base.String(), p.Bits()),
		allow:  allow,
		prefix: oracle,
	}
}

func aclPool() []aclRule {
	var pool []aclRule
	for _, allow := range []bool{true, false} {
		act, a := "deny", "D"
		if allow {
			act, a = "allow", "A"
		}
		pool = append(pool, aclRule{text: act + " all", model: a + ":all", allow: allow, all: true})
		for _, c := range []string{
			"0.0.0.0/0", "10.0.0.0/8", "10.1.2.0/24", "10.1.2.3/32", "10.1.2.77/24", "127.0.0.0/8", "192.168.0.0/16",
			"::/0", "2001:db8::/32", "2001:db8::/64", "2001:db8::1/128", "::1/128", "::ffff:10.0.0.0/104",
		} {
			pool = append(pool, mkNetRule(allow, c))
		}
	}
	for _, m := range []string{"allowall", "permit all", "permit 10.0.0.0/8", "Deny 192.168.0.0/16", "ALLOW 2001:db8::/32", "allow 10.0.0.0", "allow 10.0.0.0/33", "deny  all", "Allow all", "allow ALL", "deny 2001:db8::/129", ""} {
		pool = append(pool, aclRule{text: m, model: "M", malformed: true})
	}
	return pool
}

type aclAddr struct {
	text  string // remoteAddr string as net.Conn.RemoteAddr().String() would give
	model string
	addr  netip.Addr // unmapped; invalid for unparsable
}

func aclAddrs() []aclAddr {
	var out []aclAddr
	add4 := func(s string) {
		a := netip.MustParseAddr(s)
		v := new(big.Int).SetBytes(a.AsSlice()).String()
		out = append(out, aclAddr{text: s + ":51234", model: "4:" + v, addr: a})
		// the same address as an IPv4-mapped IPv6 peer
		out = append(out, aclAddr{text: "[::ffff:" + s + "]:51234", model: "4:" + v, addr: a})
	}
	add6 := func(s string) {
		a := netip.MustParseAddr(s)
		v := new(big.Int).SetBytes(a.AsSlice()).String()
		out = append(out, aclAddr{text: "[" + s + "]:873", model: "6:" + v, addr: a})
	}
	for _, s := range []string{"0.0.0.0", "9.255.255.255", "10.0.0.0", "10.1.1.255", "10.1.2.0", "10.1.2.3", "10.1.2.4", "10.1.2.255", "10.1.3.0",
		"10.255.255.255", "11.0.0.0", "126.255.255.255", "127.0.0.1", "128.0.0.0", "192.167.255.255", "192.168.0.0", "192.168.255.255", "192.169.0.0", "255.255.255.255"} {
		add4(s)
	}
	for _, s := range []string{"::", "::1", "::2", "2001:db7:ffff:ffff:ffff:ffff:ffff:ffff", "2001:db8::", "2001:db8::1", "2001:db8::2",
		"2001:db8:0:0:ffff:ffff:ffff:ffff", "2001:db8:0:1::", "2001:db8:ffff:ffff:ffff:ffff:ffff:ffff", "2001:db9::", "ffff:ffff:ffff:ffff:ffff:ffff:ffff:ffff",
		"::fffe:10.0.0.1"} {
		add6(s)
	}
	out = append(out, aclAddr{text: "<remote-shell-daemon>", model: "none"})
	out = append(out, aclAddr{text: "10.1.2.3", model: "none"}) // no port
	out = append(out, aclAddr{text: "host.example:873", model: "none"})
	return out
}

func classifyACLErr(err error) string {
	switch {
	case err == nil:
		return "G"
	case strings.Contains(err.Error(), "access denied"):
		return "D"
	case strings.Contains(err.Error(), "invalid acl"):
		return "M"
	case strings.Contains(err.Error(), "BUG: invalid remote"):
		return "B"
	}
	return "?" + err.Error()
}

// aclOracle evaluates the property's statement directly, with net/netip as an
// implementation of "network contains address" independent of the model.
func aclOracle(rules []aclRule, a aclAddr) string {
	if len(rules) == 0 {
		return "G"
	}
	if !a.addr.IsValid() {
		return "B"
	}
	for _, r := range rules {
		if r.malformed {
			return "M"
		}
		if r.all || r.prefix.Contains(a.addr) {
			if r.allow {
				return "G"
			}
			return "D"
		}
	}
	return "G"
}

func runACL(r *run) error {
	pool := aclPool()
	addrs := aclAddrs()
	r.notes["pool_rules"] = len(pool)
	r.notes["pool_addrs"] = len(addrs)
	id := 0
	eval := func(rules []aclRule, kind string) {
		texts := make([]string, len(rules))
		models := make([]string, len(rules))
		decisive := false
		for i, ru := range rules {
			texts[i], models[i] = ru.text, ru.model
		}
		for _, a := range addrs {
			id++
			got := classifyACLErr(rsyncd.VerifCheckACL(texts, a.text))
			want := aclOracle(rules, a)
			if len(rules) >= 2 {
				decisive = true
			}
			r.count(kind + "/len" + fmt.Sprint(len(rules)) + "/" + got)
			cid := fmt.Sprintf("acl%d", id)
			r.emit("acl", cid, []string{strings.Join(models, ","), a.model}, got, decisive && got != "B")
			if got != want {
				r.oracleFail(cid, "first-match allow/deny violated: implementation says "+got+", property says "+want,
					map[string]any{"acls": texts, "remote": a.text})
			}
		}
	}
	// exhaustive part: all lists of length 0..maxLen over the pool
	maxLen := 2
	if r.tier == "thorough" {
		maxLen = 3
	}
	r.notes["exhaustive_max_len"] = maxLen
	var rec func(prefix []aclRule)
	rec = func(prefix []aclRule) {
		eval(prefix, "exh")
		if len(prefix) == maxLen {
			return
		}
		for _, ru := range pool {
			rec(append(append([]aclRule{}, prefix...), ru))
		}
	}
	rec(nil)
	// random longer lists
	g := newRng(r.seed, "acl")
	n := 1500
	if r.tier == "thorough" {
		n = 20000
	}
	for i := 0; i < n; i++ {
		l := maxLen + 1 + g.intn(5)
		rules := make([]aclRule, l)
		for j := range rules {
			// mostly well-formed, non-"all" rules so that evaluation gets deep
			ru := pool[g.intn(len(pool))]
			for tries := 0; tries < 3 && (ru.all || ru.malformed) && g.chance(70); tries++ {
				ru = pool[g.intn(len(pool))]
			}
			rules[j] = ru
		}
		eval(rules, "rnd")
	}
	return runACLTCP(r, pool, g)
}

// runACLTCP checks the placement of the ACL in the daemon: real listener, real
// connection from 127.0.0.1 and ::1, reply line and absence of further data.
func runACLTCP(r *run, pool []aclRule, g *rng) error {
	type lst struct {
		rules []aclRule
	}
	var lists []lst
	n := 40
	if r.tier == "thorough" {
		n = 300
	}
	lists = append(lists, lst{nil})
	for i := 0; i < n; i++ {
		l := 1 + g.intn(3)
		rules := make([]aclRule, l)
		for j := range rules {
			rules[j] = pool[g.intn(len(pool))]
		}
		lists = append(lists, lst{rules})
	}
	var mods []rsyncd.Module
	dir, err := mkTemp("acl")
	if err != nil {
		return err
	}
	defer rmTemp(dir)
	for i, l := range lists {
		var acl []string
		for _, ru := range l.rules {
			acl = append(acl, ru.text)
		}
		mods = append(mods, rsyncd.Module{Name: fmt.Sprintf("m%d", i), Path: dir, ACL: acl})
	}
	srv, err := rsyncd.NewServer(mods, rsyncd.DontRestrict(), rsyncd.WithStderr(io.Discard))
	if err != nil {
		return err
	}
	ctx, cancel := context.WithCancel(context.Background())
	defer cancel()
	for _, la := range []struct{ listen, model string }{{"127.0.0.1:0", "4:2130706433"}, {"[::1]:0", "6:1"}} {
		ln, err := net.Listen("tcp", la.listen)
		if err != nil {
			r.notes["tcp_skip_"+la.listen] = err.Error()
			continue
		}
		go srv.Serve(ctx, ln)
		for i, l := range lists {
			models := make([]string, len(l.rules))
			for j, ru := range l.rules {
				models[j] = ru.model
			}
			c, err := net.Dial("tcp", ln.Addr().String())
			if err != nil {
				return err
			}
			c.SetDeadline(time.Now().Add(10 * time.Second))
			rd := bufio.NewReader(c)
			greeting, _ := rd.ReadString('\n')
			fmt.Fprintf(c, "@RSYNCD: 27\nm%d\n", i)
			reply, _ := rd.ReadString('\n')
			obs := "?"
			switch {
			case reply == "@RSYNCD: OK\n":
				obs = "G"
			case strings.HasPrefix(reply, "@ERROR: access denied"):
				obs = "D"
			case strings.HasPrefix(reply, "@ERROR: invalid acl"):
				obs = "M"
			case strings.HasPrefix(reply, "@ERROR: BUG: invalid remote"):
				obs = "B"
			default:
				obs = "?" + reply
			}
			extra := ""
			if obs != "G" {
				// no module data: nothing but EOF may follow the error line
				rest, _ := io.ReadAll(rd)
				if len(rest) > 0 {
					extra = fmt.Sprintf("+%dbytes", len(rest))
				}
			}
			c.Close()
			cid := fmt.Sprintf("acltcp-%s-%d", la.model, i)
			r.count("tcp/" + obs)
			r.emit("acl", cid, []string{strings.Join(models, ","), la.model}, obs+extra, len(l.rules) > 0)
			if !strings.HasPrefix(greeting, "@RSYNCD: 27") {
				r.oracleFail(cid, "bad greeting", greeting)
			}
			if extra != "" {
				r.oracleFail(cid, "data after @ERROR", map[string]any{"acls": mods[i].ACL, "listen": la.listen})
			}
		}
		ln.Close()
	}
	return nil
}
