package main

import (
	"bufio"
	"bytes"
	"context"
	"fmt"
	"github.com/gokrazy/rsync/verifhook"
	"io"
	"net"
	"os"
	"path/filepath"
	"strings"
	"sync"
	"time"

	"github.com/gokrazy/rsync/rsyncd"
)

type modSpec struct {
	Name     string `json:"name"`
	Path     string `json:"path"`
	Writable bool   `json:"writable"`
	FS       bool   `json:"fs"` // served through fs.FS (os.DirFS) instead of a directory path
}

type daemonReqSpec struct {
	Modules   []modSpec `json:"modules"`
	Module    string    `json:"module"`    // requested module line
	Flags     []string  `json:"flags"`     // lines sent after @RSYNCD: OK (without the final empty line)
	Transport string    `json:"transport"` // pipe | tcp
	Payload   string    `json:"payload"`   // hex; sent after the seed was read (file list etc.)
}

// runDaemonReq: one raw daemon-protocol exchange; the observable is how far
// the daemon let the request go.
func runDaemonReq(sp sessionSpec, res *sessionResult) error {
	d := sp.DaemonReq
	var stderr bytes.Buffer
	ctx, cancel := context.WithCancel(context.Background())
	defer cancel()
	var mods []rsyncd.Module
	for _, m := range d.Modules {
		if m.FS {
			mods = append(mods, rsyncd.Module{Name: m.Name, FS: os.DirFS(m.Path), Writable: m.Writable})
		} else {
			mods = append(mods, rsyncd.Module{Name: m.Name, Path: m.Path, Writable: m.Writable})
		}
	}
	srv, err := rsyncd.NewServer(mods, rsyncd.DontRestrict(), rsyncd.WithStderr(&stderr))
	if err != nil {
		res.Parse = "config-rejected"
		return nil
	}
	var rd io.Reader
	var wr io.WriteCloser
	var closeAll func()
	if d.Transport == "tcp" {
		ln, err := net.Listen("tcp", "127.0.0.1:0")
		if err != nil {
			return err
		}
		go srv.Serve(ctx, ln)
		conn, err := net.Dial("tcp", ln.Addr().String())
		if err != nil {
			return err
		}
		rd, wr, closeAll = conn, conn, func() { conn.Close(); ln.Close() }
	} else {
		c2s, s2c := newBufPipe(), newBufPipe()
		go func() {
			srv.HandleDaemonConn(ctx, rsyncd.NewConnection(c2s, s2c, "127.0.0.1:1"))
			s2c.Close()
		}()
		rd, wr, closeAll = s2c, c2s, func() { c2s.Close(); s2c.Close() }
	}
	defer closeAll()
	class := make(chan string, 1)
	go func() {
		class <- func() string {
			br := bufio.NewReader(rd)
			if _, err := br.ReadString('\n'); err != nil {
				return "no-greeting"
			}
			io.WriteString(wr, "@RSYNCD: 27\n"+d.Module+"\n")
			var lines []string
			for {
				l, err := br.ReadString('\n')
				if err != nil {
					if len(lines) > 0 {
						return "closed-after:" + lines[len(lines)-1]
					}
					return "closed"
				}
				l = strings.TrimSpace(l)
				if l == "@RSYNCD: OK" {
					break
				}
				if l == "@RSYNCD: EXIT" {
					return "list"
				}
				if strings.HasPrefix(l, "@ERROR: Unknown module") {
					return "unknown-module"
				}
				if strings.HasPrefix(l, "@ERROR") {
					return "denied"
				}
				lines = append(lines, l)
			}
			io.WriteString(wr, strings.Join(d.Flags, "\n")+"\n\n")
			seed, err := rdI32(br)
			if err != nil {
				return "badargs"
			}
			var msgs []string
			dr := &demuxR{r: br, msgs: &msgs}
			wr.Write(unhex(d.Payload))
			var first [4]byte
			_, err = io.ReadFull(dr, first[:])
			for _, m := range msgs {
				switch {
				case strings.Contains(m, "module is read only"):
					return "refused-read-only"
				case strings.Contains(m, "parsing server args"):
					return "parse-error"
				}
			}
			if err != nil {
				if len(msgs) > 0 {
					switch {
					case strings.Contains(msgs[0], "[receiver]"):
						return "receiver" // accepted as an upload, failed later
					case strings.Contains(msgs[0], "[sender]"):
						return "sender"
					}
					return "error:" + clipStr(msgs[0], 80)
				}
				return fmt.Sprintf("closed-after-seed:%x", seed&0)
			}
			if first == [4]byte{0xff, 0xff, 0xff, 0xff} {
				// let the (empty) receiving session finish
				wr.Write(append(le32(-1), le32(-1)...))
				io.Copy(io.Discard, dr)
				return "receiver"
			}
			return "sender"
		}()
	}()
	select {
	case c := <-class:
		res.Parse = c
	case <-time.After(5 * time.Second):
		res.Parse = "hang"
	}
	res.Stderr = tailStr(stderr.String(), 600)
	return nil
}

// C07 (and the dispatch half of C06): the daemon's request handling against the model.
func runDaemonReqs(r *run) error {
	g := newRng(r.seed, "daemonreq")
	base, err := mkTemp("daemonreq")
	if err != nil {
		return err
	}
	defer rmTemp(base)
	pool := newSessionPool(8)
	defer pool.close()
	n := 260
	if r.tier == "thorough" {
		n = 4000
	}
	flagPool := []string{"--server", "--sender", "-r", "-a", "-n", "--delete", "-logDtpr", "-vvv", "--dry-run", "-c", "-I", ".", ".", "--no-such-option", "-e.iLsfxC", "--devices", "--exclude=x", "-f", "- y", "--timeout=5", "--bwlimit=0"}
	var wg sync.WaitGroup
	var mu sync.Mutex
	for i := 0; i < n; i++ {
		id := fmt.Sprintf("dr%d", i)
		root := filepath.Join(base, id)
		names := [][]string{{"mod"}, {"mod", "mod2"}, {"m", "mod", "mo"}, {"data", "mod"}}[g.intn(4)]
		var mods []modSpec
		var modelMods []string
		snaps := map[string]string{}
		for _, nm := range names {
			p := filepath.Join(root, nm)
			t := treeSpec{{Path: "keep.txt", Type: "f", Data: []byte("keep " + nm), Mode: 0o644, Mtime: 1_500_000_000}, {Path: "sub", Type: "d", Mode: 0o755, Mtime: 1_500_000_000}, {Path: "sub/inner", Type: "f", Data: []byte("inner"), Mode: 0o600, Mtime: 1_500_000_001}}
			if err := t.materialise(p); err != nil {
				return err
			}
			m := modSpec{Name: nm, Path: p, Writable: g.chance(40), FS: g.chance(20)}
			if m.FS {
				m.Writable = false // NewServer rejects writable fs.FS modules (checked separately below)
			}
			mods = append(mods, m)
			modelMods = append(modelMods, nm+":"+b01(m.Writable))
			snaps[nm] = takeSnapshot(p).canon("tcmTNo")
		}
		req := []string{"mod", "mod", "mod", "mod", "mod", "mod2", "mo", "nosuch", "", "#list", "MOD", "mod "}[g.intn(12)]
		var flags []string
		switch g.intn(6) {
		case 0:
			flags = []string{"--server", "--sender", "-r", ".", req + "/"}
		case 1:
			flags = []string{"--server", "-r", ".", req + "/"}
		case 2:
			flags = []string{"--server", "-r", "--delete", ".", req + "/sub"}
		case 3:
			flags = []string{"--server", "-rn", ".", req}
		default:
			for k := 0; k < 1+g.intn(6); k++ {
				flags = append(flags, flagPool[g.intn(len(flagPool))])
			}
			if g.chance(70) {
				flags = append(flags, ".", req+[]string{"", "/", "/sub", "/../x"}[g.intn(4)])
			}
		}
		// a file list that would create and (with --delete) remove entries if it were accepted
		var pl bytes.Buffer
		// what the daemon will expect is decided by how the argument lines parse, not by how they look
		// ("-f" takes the next line as its rule, be it "--sender" or "--delete")
		isSender, isDelete := hasLong(flags, "--sender"), hasLong(flags, "--delete")
		o := (&hostileSpec{}).fopts(flags) // the fields the daemon will expect per entry (-o, -g, -c ...)
		if po, _, perr := verifhook.ParseOpts(flags); perr == nil {
			isSender, isDelete = po.Sender(), po.DeleteMode()
			o = fopts{uid: po.PreserveUid(), gid: po.PreserveGid(), links: po.PreserveLinks(), devices: po.PreserveDevices(),
				specials: po.PreserveSpecials(), checksum: po.AlwaysChecksum()}
		}
		if isSender {
			pl.Write(le32(0)) // empty filter list; the daemon then sends its file list
		} else if isDelete {
			pl.Write(le32(0))
		}
		if !isSender {
			refEncodeEntry(&pl, o, fchoice{long: true}, fentry{name: []byte("."), mode: sIFDIR | 0o755, mtime: 1_500_000_000, csum: make([]byte, 16)}, false)
			refEncodeEntry(&pl, o, fchoice{long: true}, fentry{name: []byte("uploaded"), mode: sIFDIR | 0o755, mtime: 1_500_000_000, csum: make([]byte, 16)}, false)
			pl.WriteByte(0)
			if o.uid {
				pl.Write(le32(0))
			}
			if o.gid {
				pl.Write(le32(0))
			}
			pl.Write(le32(0))
		}
		sp := sessionSpec{Kind: "daemonreq", ID: id, TimeoutMs: 15000,
			DaemonReq: &daemonReqSpec{Modules: mods, Module: req, Flags: flags, Transport: []string{"pipe", "tcp"}[g.intn(2)], Payload: fmt.Sprintf("%x", pl.Bytes())}}
		wg.Add(1)
		go func() {
			defer wg.Done()
			res := pool.run(sp)
			mu.Lock()
			defer mu.Unlock()
			obs := res.Parse
			if res.Outcome != "ok" {
				obs = "outcome:" + res.Outcome
			}
			changed := ""
			for _, m := range mods {
				if takeSnapshot(m.Path).canon("tcmTNo") != snaps[m.Name] {
					changed += m.Name + ","
				}
			}
			r.count("daemonreq/" + strings.SplitN(obs, ":", 2)[0])
			if res.Outcome == "died" {
				r.oracleFail(id, "the daemon process crashed or exited while handling the request ("+res.Err+")",
					map[string]any{"modules": mods, "requested": req, "flags": flags, "payload_hex": clipStr(sp.DaemonReq.Payload, 400), "stderr": tailStr(res.Stderr, 3000)})
			}
			fl := make([]string, len(flags))
			for i, f := range flags {
				fl[i] = hx(f)
			}
			r.emit("daemonreq", id, []string{strings.Join(modelMods, ","), hx(strings.TrimSpace(req)), strings.Join(fl, ",")}, obs, obs == "refused-read-only" || obs == "receiver" || obs == "sender")
			detail := map[string]any{"modules": mods, "requested": req, "flags": flags, "transport": sp.DaemonReq.Transport, "observed": obs, "stderr": res.Stderr}
			// C07: a module not configured writable is never changed; a refused upload is reported as an error
			for _, m := range mods {
				if !m.Writable && strings.Contains(changed, m.Name+",") {
					r.oracleFail(id, "read-only module "+m.Name+" was modified", detail)
				}
			}
			for _, m := range mods {
				if m.Name == strings.TrimSpace(req) && !m.Writable && obs == "receiver" {
					r.oracleFail(id, "an upload into the non-writable module "+m.Name+" was accepted instead of refused", detail)
				}
			}
			// a change of any module other than the requested one is never legitimate
			for _, m := range mods {
				if strings.Contains(changed, m.Name+",") && m.Name != strings.TrimSpace(req) {
					r.oracleFail(id, "module "+m.Name+" changed through a request for module "+strings.TrimSpace(req)+" ("+obs+")", detail)
				}
			}
		}()
	}
	wg.Wait()
	// real clients and hand-written senders uploading into a read-only module
	{
		src := treeSpec{{Path: "new.txt", Type: "f", Data: []byte("new"), Mode: 0o644, Mtime: 1_600_000_000}, {Path: "keep.txt", Type: "f", Data: []byte("changed!"), Mode: 0o600, Mtime: 1_600_000_000}}
		srcRoot := filepath.Join(base, "ro-src")
		if err := src.materialise(srcRoot); err != nil {
			return err
		}
		k := 0
		for _, args := range [][]string{{"-r"}, {"-a", "--delete"}, {"-rn", "--delete"}, {"-rlptgoD"}, {"-rc", "--delete"}} {
			for _, sub := range []string{"", "sub", "sub/", "newdir/deeper"} {
				for _, hostile := range []bool{false, true} {
					k++
					id := fmt.Sprintf("ro%d", k)
					dest := filepath.Join(base, id)
					t := treeSpec{{Path: "keep.txt", Type: "f", Data: []byte("keep"), Mode: 0o644, Mtime: 1_500_000_000}, {Path: "sub", Type: "d", Mode: 0o755, Mtime: 1_500_000_000}, {Path: "sub/inner", Type: "f", Data: []byte("inner"), Mode: 0o600, Mtime: 1_500_000_001}}
					if err := t.materialise(dest); err != nil {
						return err
					}
					before := takeSnapshot(dest).canon("tcmTNo")
					sp := sessionSpec{ID: id, Arr: "push", Args: args, SrcRoot: srcRoot, Srcs: []string{""}, Dest: dest, ReadOnly: true, ModSubdir: sub, TimeoutMs: 20000}
					if hostile {
						sp = sessionSpec{Kind: "hostile", ID: id, Args: args, Dest: dest, TimeoutMs: 20000,
							Hostile: &hostileSpec{Target: "daemon", ReadOnly: true, ModSubdir: sub, Seed: 3, Entries: []hEntry{
								{NameHex: hx("."), Mode: sIFDIR | 0o755, Mtime: 1_600_000_000},
								{NameHex: hx("keep.txt"), Mode: sIFREG | 0o600, Len: 3, Mtime: 1_600_000_000, DataHex: hx("bad")},
								{NameHex: hx("planted"), Mode: sIFLNK | 0o777, LinkHex: hx("/etc")}}}}
					}
					wg.Add(1)
					go func() {
						defer wg.Done()
						res := pool.run(sp)
						after := takeSnapshot(dest).canon("tcmTNo")
						mu.Lock()
						defer mu.Unlock()
						r.count(fmt.Sprintf("readonly-upload/hostile=%v/%s", hostile, res.Outcome))
						r.emit("noop", id, []string{strings.Join(args, " "), sub, b01(hostile)}, "ok", true)
						detail := map[string]any{"args": args, "subdir": sub, "hostile_sender": hostile, "err": res.Err, "log": res.Log, "stderr": tailStr(res.Stderr, 300)}
						if after != before {
							r.oracleFail(id, "read-only module was modified by an upload: "+firstLineDiff(before, after), detail)
						}
						refused := strings.Contains(res.Err+res.Stderr+strings.Join(res.Log, " "), "read only")
						if res.Outcome == "ok" || !refused {
							r.oracleFail(id, "upload into a read-only module was not refused with an error ("+res.Outcome+": "+clipStr(res.Err, 120)+")", detail)
						}
					}()
				}
			}
		}
		wg.Wait()
	}
	// fs.FS-backed modules cannot be configured writable
	if _, err := rsyncd.NewServer([]rsyncd.Module{{Name: "x", FS: os.DirFS(base), Writable: true}}, rsyncd.DontRestrict()); err == nil {
		r.oracleFail("fs-writable", "NewServer accepted a writable fs.FS module", nil)
	}
	return nil
}

func init() { components["daemonreq"] = runDaemonReqs }
