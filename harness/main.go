// Command verifharness runs the gokrazy/rsync implementation (built from
// /repo's working tree with -tags verif) on generated cases and writes, per
// component, the cases in the model's line protocol, the implementation's
// canonical observables and the verdicts of the property oracles.
package main

import (
	"bufio"
	"encoding/json"
	"flag"
	"fmt"
	"os"
	"path/filepath"
	"runtime"
	"sort"
	"strings"
	"sync"
	"time"
)

// ---- deterministic PRNG: every random choice derives from one state ----

type rng struct{ s uint64 }

func newRng(seed uint64, stream string) *rng {
	r := &rng{s: seed ^ 0x9e3779b97f4a7c15}
	for _, c := range []byte(stream) {
		r.s = (r.s ^ uint64(c)) * 0x100000001b3
	}
	r.next()
	return r
}
func (r *rng) next() uint64 {
	r.s += 0x9e3779b97f4a7c15
	z := r.s
	z = (z ^ (z >> 30)) * 0xbf58476d1ce4e5b9
	z = (z ^ (z >> 27)) * 0x94d049bb133111eb
	return z ^ (z >> 31)
}
func (r *rng) intn(n int) int {
	if n <= 0 {
		return 0
	}
	return int(r.next() % uint64(n))
}
func (r *rng) bool() bool        { return r.next()&1 == 1 }
func (r *rng) chance(p int) bool { return r.intn(100) < p }
func (r *rng) bytes(n int) []byte {
	b := make([]byte, n)
	for i := range b {
		b[i] = byte(r.next())
	}
	return b
}

// ---- run context ----

type run struct {
	component string
	tier      string
	seed      uint64
	outDir    string

	mu       sync.Mutex
	cases    *bufio.Writer
	impl     *bufio.Writer
	oracle   *bufio.Writer
	nCases   int
	nOracle  int
	hist     map[string]int
	samples  []string
	distinct map[string]bool
	nontriv  map[string]bool
	notes    map[string]any
}

func (r *run) count(key string) {
	r.mu.Lock()
	r.hist[key]++
	r.mu.Unlock()
}

// emit records one case: the model input line (component, id, fields), the
// implementation's observable, and whether the case is non-trivial.
func (r *run) emit(comp, id string, fields []string, implObs string, nontrivial bool) {
	r.mu.Lock()
	defer r.mu.Unlock()
	line := comp + "\t" + id + "\t" + strings.Join(fields, "\t")
	fmt.Fprintln(r.cases, line)
	fmt.Fprintf(r.impl, "%s\t%s\t%s\n", comp, id, implObs)
	r.nCases++
	key := comp + "\t" + strings.Join(fields, "\t")
	if len(key) > 200 {
		key = key[:100] + fmt.Sprintf("…%x", fnv(key))
	}
	if !r.distinct[key] {
		r.distinct[key] = true
		if nontrivial {
			r.nontriv[key] = true
		}
	}
	if len(r.samples) < 5 || (nontrivial && len(r.samples) < 12) {
		s := line + "  =>  " + implObs
		if len(s) > 400 {
			s = s[:400] + "…"
		}
		r.samples = append(r.samples, s)
	}
}

func fnv(s string) uint64 {
	h := uint64(0xcbf29ce484222325)
	for i := 0; i < len(s); i++ {
		h = (h ^ uint64(s[i])) * 0x100000001b3
	}
	return h
}

// oracleFail records a failure of the property's own statement on the real
// code for a concrete case; detail is the replayable input.
func (r *run) oracleFail(id, what string, detail any) {
	r.mu.Lock()
	defer r.mu.Unlock()
	rec := map[string]any{"id": id, "what": what, "detail": detail}
	// a shape tag (set from the concrete input) identifies a known finding
	if m, ok := detail.(map[string]any); ok {
		if sh, ok := m["shape"].(string); ok && sh != "" {
			rec["shape"] = sh
		}
	}
	b, _ := json.Marshal(rec)
	fmt.Fprintln(r.oracle, string(b))
	r.nOracle++
}

var components = map[string]func(*run) error{}

func main() {
	comp := flag.String("component", "", "component / property leg to run")
	tier := flag.String("tier", "quick", "quick|thorough")
	seed := flag.Uint64("seed", 1, "PRNG seed")
	out := flag.String("out", "", "output directory")
	flag.Parse()
	fn, ok := components[*comp]
	if !ok {
		var names []string
		for n := range components {
			names = append(names, n)
		}
		sort.Strings(names)
		fmt.Fprintf(os.Stderr, "unknown component %q; have %v\n", *comp, names)
		os.Exit(2)
	}
	if strings.HasPrefix(*comp, "_") { // helper subprocess modes
		fn(nil)
		return
	}
	if err := os.MkdirAll(*out, 0o755); err != nil {
		fmt.Fprintln(os.Stderr, err)
		os.Exit(2)
	}
	open := func(n string) (*os.File, *bufio.Writer) {
		f, err := os.Create(filepath.Join(*out, n))
		if err != nil {
			fmt.Fprintln(os.Stderr, err)
			os.Exit(2)
		}
		return f, bufio.NewWriterSize(f, 1<<20)
	}
	// watchdog: a component that does not finish is a failure to report, not a stall to sit out
	limit := 25 * time.Minute
	if *tier == "thorough" {
		limit = 100 * time.Minute
	}
	go func() {
		time.Sleep(limit)
		buf := make([]byte, 1<<20)
		buf = buf[:runtime.Stack(buf, true)]
		fmt.Fprintf(os.Stderr, "harness watchdog: component %s still running after %v\n%s\n", *comp, limit, buf)
		os.Exit(3)
	}()
	cf, cw := open("cases.tsv")
	imf, iw := open("impl.tsv")
	of, ow := open("oracle.jsonl")
	r := &run{component: *comp, tier: *tier, seed: *seed, outDir: *out,
		cases: cw, impl: iw, oracle: ow,
		hist: map[string]int{}, distinct: map[string]bool{}, nontriv: map[string]bool{}, notes: map[string]any{}}
	// The implementation is called in-process by the unit components: a Go panic inside it (an
	// index or slice error on a peer-controlled value, say) is the implementation's failure on the
	// case at hand, not the harness's — record it as a property-oracle failure with the stack.
	err := func() (err error) {
		defer func() {
			if p := recover(); p != nil {
				buf := make([]byte, 1<<16)
				buf = buf[:runtime.Stack(buf, false)]
				r.oracleFail("panic", fmt.Sprintf("the implementation panicked inside component %s: %v", *comp, p),
					map[string]any{"panic": fmt.Sprint(p), "stack": string(buf), "after_cases": r.nCases})
			}
		}()
		return fn(r)
	}()
	cw.Flush()
	iw.Flush()
	ow.Flush()
	cf.Close()
	imf.Close()
	of.Close()
	stats := map[string]any{
		"component": *comp, "tier": *tier, "seed": *seed,
		"cases": r.nCases, "distinct": len(r.distinct), "distinct_nontrivial": len(r.nontriv),
		"oracle_failures": r.nOracle, "histogram": r.hist, "samples": r.samples, "notes": r.notes,
	}
	if err != nil {
		stats["error"] = err.Error()
	}
	b, _ := json.MarshalIndent(stats, "", " ")
	os.WriteFile(filepath.Join(*out, "stats.json"), b, 0o644)
	if err != nil {
		fmt.Fprintln(os.Stderr, "harness error:", err)
		os.Exit(3)
	}
}
