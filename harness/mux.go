package main

import (
	"bufio"
	"bytes"
	"context"
	"crypto/sha256"
	"encoding/binary"
	"encoding/hex"
	"fmt"
	"io"
	"os"
	"os/exec"
	"path/filepath"
	"regexp"
	"sort"
	"strings"
	"syscall"
	"time"

	"github.com/gokrazy/rsync/rsyncclient"
	"github.com/gokrazy/rsync/rsyncd"
	"github.com/gokrazy/rsync/verifhook"
)

// genConst reads a constant from the Coq file the translator generated from
// the Go sources in this very run (VERIF_ROOT/coq/Gen/Consts.v).
func genConst(name string, def int) int {
	root := os.Getenv("VERIF_ROOT")
	b, err := os.ReadFile(filepath.Join(root, "coq", "Gen", "Consts.v"))
	if err != nil {
		return def
	}
	m := regexp.MustCompile(`Definition ` + name + ` : Z := (-?\d+)\.`).FindSubmatch(b)
	if m == nil {
		return def
	}
	v := 0
	fmt.Sscan(string(m[1]), &v)
	return v
}

// ---- unit leg: frames through MultiplexReader + bufio.Reader ----

func muxReads(bsz int, stream []byte, sizes []int) (obs []string) {
	rd := bufio.NewReaderSize(verifhook.MuxReader(bytes.NewReader(stream)), bsz)
	for _, n := range sizes {
		res := func() (s string) {
			defer func() {
				if e := recover(); e != nil {
					s = "crash"
				}
			}()
			buf := make([]byte, n)
			_, err := io.ReadFull(rd, buf)
			if err == nil {
				return "ok:" + hexOrDash(buf)
			}
			switch {
			case err == io.EOF || err == io.ErrUnexpectedEOF:
				return "eof"
			case strings.Contains(err.Error(), "exceeds max message size"):
				return "long"
			case strings.Contains(err.Error(), "unexpected tag"):
				return "tag"
			default:
				return "errmsg:" + hexOrDash([]byte(err.Error()))
			}
		}()
		obs = append(obs, res)
		if !strings.HasPrefix(res, "ok:") {
			break
		}
	}
	return obs
}

func rawFrame(tagByte byte, length int, payload []byte) []byte {
	var h [4]byte
	binary.LittleEndian.PutUint32(h[:], uint32(tagByte)<<24|uint32(length)&0xffffff)
	return append(h[:], payload...)
}

func runMux(r *run) error {
	g := newRng(r.seed, "mux")
	realBsz := genConst("c_clientBufioSize", 262144)
	maxMsg := genConst("c_maxMessageSize", 262144)
	r.notes["client_bufio_size_from_source"] = realBsz
	r.notes["max_message_size_from_source"] = maxMsg
	n := 3000
	if r.tier == "thorough" {
		n = 40000
	}
	id := 0
	for i := 0; i < n; i++ {
		id++
		bsz := realBsz
		big := g.chance(2)
		if !big && g.chance(50) {
			bsz = []int{16, 17, 64, 300}[g.intn(4)]
		}
		var stream bytes.Buffer
		var data []byte
		nf := 1 + g.intn(12)
		kind := "valid"
		for k := 0; k < nf; k++ {
			psz := g.intn(40)
			if big && g.chance(30) {
				psz = []int{maxMsg, maxMsg - 1, maxMsg / 2, maxMsg/2 + 1, 131072, 131073}[g.intn(6)]
			}
			if g.chance(15) {
				psz = 0
			}
			p := g.bytes(psz)
			switch x := g.intn(100); {
			case x < 70:
				stream.Write(verifhook.MuxFrame(0, p))
				data = append(data, p...)
			case x < 88:
				stream.Write(verifhook.MuxFrame(2, p)) // info
			case x < 92:
				stream.Write(verifhook.MuxFrame(1, p)) // error
				kind = "error-frame"
			case x < 95:
				stream.Write(rawFrame(byte(7+3+g.intn(200)), len(p), p)) // unknown tag
				kind = "bad-tag"
			case x < 97:
				stream.Write(rawFrame(7, maxMsg+1+g.intn(1000), nil)) // over the limit
				kind = "too-long"
			default:
				stream.Write(rawFrame(byte(g.intn(7)), len(p), p)) // tag byte below mplexBase: uint8 wrap
				kind = "low-tag"
			}
		}
		s := stream.Bytes()
		if g.chance(8) && len(s) > 0 {
			s = s[:g.intn(len(s))]
			kind = "truncated"
		}
		var sizes []int
		total := 0
		for total <= len(data) && len(sizes) < 30 {
			sz := 1 + g.intn(9)
			if g.chance(20) {
				sz = 4
			}
			if big && g.chance(30) {
				sz = []int{bsz, bsz - 1, bsz + 1, 100000}[g.intn(4)]
			}
			sizes = append(sizes, sz)
			total += sz
		}
		obs := muxReads(bsz, s, sizes)
		ss := make([]string, len(sizes))
		for j, v := range sizes {
			ss[j] = fmt.Sprint(v)
		}
		if bsz != realBsz {
			kind += "/small-buffer"
		} else if big {
			kind += "/max-frames"
		}
		last := obs[len(obs)-1]
		r.count(kind + "/" + strings.SplitN(last, ":", 2)[0])
		r.emit("mux", fmt.Sprintf("m%d", id), []string{fmt.Sprint(bsz), hexOrDash(s), strings.Join(ss, ",")}, strings.Join(obs, ";"), len(obs) > 2)
		// oracle (transparency): with the real buffer size, valid streams never crash and every
		// successful read returns the next bytes of the concatenated data payloads
		if bsz == realBsz {
			// reference demultiplexer, written for the oracle only: the payload bytes of the data
			// frames in front of the first frame that is neither data nor info (or is cut short)
			var deliverable []byte
			for rest := s; len(rest) >= 4; {
				hd := binary.LittleEndian.Uint32(rest[:4])
				tag, ln := int(hd>>24), int(hd&0xffffff)
				if (tag != 7 && tag != 9) || ln > maxMsg || len(rest) < 4+ln {
					break
				}
				if tag == 7 {
					deliverable = append(deliverable, rest[4:4+ln]...)
				}
				rest = rest[4+ln:]
			}
			got := 0
			for j, o := range obs {
				if strings.HasPrefix(o, "ok:") {
					end := got + sizes[j]
					if end > len(deliverable) || o != "ok:"+hexOrDash(deliverable[got:end]) {
						r.oracleFail(fmt.Sprintf("m%d", id), "a read returned bytes that are not payload of a data frame (the text of an error frame, or bytes behind a frame that must end the stream, reached the reader as data)",
							map[string]any{"stream_hex": clipHex(s), "sizes": sizes, "read_index": j, "observed": o, "kind": kind})
						break
					}
					got = end
				}
			}
			pos := 0
			for j, o := range obs {
				if o == "crash" {
					r.oracleFail(fmt.Sprintf("m%d", id), "client demultiplexer panicked on a legal frame sequence", map[string]any{"stream_hex": clipHex(s), "sizes": sizes})
				}
				if strings.HasPrefix(o, "ok:") {
					want := ""
					if pos+sizes[j] <= len(data) {
						want = hexOrDash(data[pos : pos+sizes[j]])
					}
					if kind == "valid" && o != "ok:"+want {
						r.oracleFail(fmt.Sprintf("m%d", id), "read returned bytes that are not the next data payload bytes", map[string]any{"stream_hex": clipHex(s), "sizes": sizes})
					}
					pos += sizes[j]
				}
			}
		}
	}
	return runReframe(r, g)
}

// ---- end-to-end leg: a real server's stream re-framed adversarially, real client in a subprocess ----

type reframer struct {
	name   string
	size   func(g *rng) int // next data frame size
	info   int              // percent chance of an info frame at a boundary
	empty  int              // percent chance of an empty data frame at a boundary
	burst  int              // info frames in front of everything
	errAt  int              // inject an error frame after this many payload bytes (-1: never)
	coales bool
}

func treeDigest(root string) string {
	var lines []string
	filepath.Walk(root, func(p string, fi os.FileInfo, err error) error {
		if err != nil {
			return nil
		}
		rel, _ := filepath.Rel(root, p)
		switch {
		case fi.Mode()&os.ModeSymlink != 0:
			t, _ := os.Readlink(p)
			lines = append(lines, fmt.Sprintf("L %s -> %s", rel, t))
		case fi.IsDir():
			lines = append(lines, fmt.Sprintf("D %s %o", rel, fi.Mode().Perm()))
		default:
			b, _ := os.ReadFile(p)
			h := sha256.Sum256(b)
			lines = append(lines, fmt.Sprintf("F %s %o %d %d %s", rel, fi.Mode().Perm(), len(b), fi.ModTime().Unix(), hex.EncodeToString(h[:8])))
		}
		return nil
	})
	sort.Strings(lines)
	h := sha256.Sum256([]byte(strings.Join(lines, "\n")))
	return fmt.Sprintf("%d entries %s", len(lines), hex.EncodeToString(h[:8]))
}

func makeTree(g *rng, dir string) error {
	os.MkdirAll(filepath.Join(dir, "d", "deep"), 0o755)
	files := map[string][]byte{
		"a":          {},
		"b":          {0x42},
		"c.txt":      g.bytes(5000),
		"d/e.bin":    g.bytes(300000),
		"d/deep/f":   bytes.Repeat([]byte("0123456789abcdef"), 5000),
		"d/deep/gg":  g.bytes(701),
		"zz-last":    g.bytes(33),
		"d/\xc3\xa9": g.bytes(10),
	}
	for n, b := range files {
		if err := os.WriteFile(filepath.Join(dir, n), b, 0o644); err != nil {
			return err
		}
		mt := time.Unix(1_500_000_000+int64(len(b)), 0)
		os.Chtimes(filepath.Join(dir, n), mt, mt)
	}
	os.Symlink("c.txt", filepath.Join(dir, "link"))
	return nil
}

// clientMain is the subprocess: a real rsyncclient over stdin/stdout.
func clientMain() {
	args := strings.Split(os.Getenv("VERIF_CLIENT_ARGS"), "\x1f")
	dest := os.Getenv("VERIF_CLIENT_DEST")
	c, err := rsyncclient.New(args, rsyncclient.DontRestrict(), rsyncclient.WithStderr(os.Stderr))
	if err != nil {
		fmt.Fprintln(os.Stderr, "CLIENT-NEW-ERROR:", err)
		os.Exit(3)
	}
	_, err = c.Run(context.Background(), struct {
		io.Reader
		io.Writer
	}{os.Stdin, os.Stdout}, []string{dest})
	if err != nil {
		fmt.Fprintln(os.Stderr, "CLIENT-ERROR:", err)
		os.Exit(1)
	}
	os.Exit(0)
}

// maxServerFrame: the longest multiplexed frame any real server emitted during the reframing sessions
var maxServerFrame int

func runReframeSession(src, dest string, rf reframer, g *rng) (status string, stderr string, err error) {
	args := []string{"-a"}
	cl, err := rsyncclient.New(args, rsyncclient.DontRestrict())
	if err != nil {
		return "", "", err
	}
	srv, err := rsyncd.NewServer(nil, rsyncd.DontRestrict(), rsyncd.WithStderr(io.Discard))
	if err != nil {
		return "", "", err
	}
	sargs := cl.ServerCommandOptions(src + "/")
	c2sR, c2sW := io.Pipe() // client -> server
	s2pR, s2pW := io.Pipe() // server -> proxy
	cmd := exec.Command(os.Args[0], "-component", "_muxclient")
	cmd.Env = append(os.Environ(), "VERIF_CLIENT_ARGS="+strings.Join(args, "\x1f"), "VERIF_CLIENT_DEST="+dest)
	childIn, _ := cmd.StdinPipe()
	childOut, _ := cmd.StdoutPipe()
	var errBuf bytes.Buffer
	cmd.Stderr = &errBuf
	if err := cmd.Start(); err != nil {
		return "", "", err
	}
	go func() { io.Copy(c2sW, childOut); c2sW.Close() }()
	go func() {
		conn := rsyncd.NewConnection(c2sR, s2pW, "reframe")
		srv.HandleConnArgs(context.Background(), conn, nil, sargs)
		s2pW.Close()
	}()
	// proxy: 8 unmultiplexed bytes (protocol version, seed), then frames
	go func() {
		defer childIn.Close()
		hdr := make([]byte, 8)
		if _, err := io.ReadFull(s2pR, hdr); err != nil {
			return
		}
		childIn.Write(hdr)
		for i := 0; i < rf.burst; i++ {
			childIn.Write(verifhook.MuxFrame(2, []byte("burst info\n")))
		}
		type chunk struct {
			tag byte
			p   []byte
		}
		ch := make(chan chunk, 64)
		go func() {
			defer close(ch)
			for {
				var h [4]byte
				if _, err := io.ReadFull(s2pR, h[:]); err != nil {
					return
				}
				v := binary.LittleEndian.Uint32(h[:])
				// (sessions with an injected error are excluded: once the client is gone the server's
				// failing goroutines may interleave their last writes)
				if n := int(v & 0xffffff); n > maxServerFrame && rf.errAt < 0 {
					maxServerFrame = n // largest frame the real server emitted (server_frames_wellformed)
				}
				p := make([]byte, v&0xffffff)
				if _, err := io.ReadFull(s2pR, p); err != nil {
					return
				}
				ch <- chunk{byte(v>>24) - 7, p}
			}
		}()
		sent := 0
		var pending []byte
		flush := func(all bool) bool {
			for len(pending) > 0 {
				sz := rf.size(g)
				if sz > len(pending) {
					if rf.coales && !all {
						return true
					}
					sz = len(pending)
				}
				if g.intn(100) < rf.info {
					childIn.Write(verifhook.MuxFrame(2, []byte("interleaved info\n")))
				}
				if g.intn(100) < rf.empty {
					childIn.Write(verifhook.MuxFrame(0, nil))
				}
				if rf.errAt >= 0 && sent+sz > rf.errAt {
					pre := rf.errAt - sent
					if pre > 0 {
						childIn.Write(verifhook.MuxFrame(0, pending[:pre]))
					}
					childIn.Write(verifhook.MuxFrame(1, []byte("injected server error 4711\n")))
					return false
				}
				if _, err := childIn.Write(verifhook.MuxFrame(0, pending[:sz])); err != nil {
					return false
				}
				sent += sz
				pending = pending[sz:]
			}
			return true
		}
		for {
			var c chunk
			var ok bool
			if rf.coales && len(pending) > 0 {
				select {
				case c, ok = <-ch:
				case <-time.After(60 * time.Millisecond):
					if !flush(true) {
						io.Copy(io.Discard, s2pR)
						return
					}
					continue
				}
			} else {
				c, ok = <-ch
			}
			if !ok {
				flush(true)
				return
			}
			if c.tag != 0 {
				flush(true)
				childIn.Write(verifhook.MuxFrame(c.tag, c.p))
				continue
			}
			pending = append(pending, c.p...)
			if !flush(false) {
				go io.Copy(io.Discard, s2pR)
				return
			}
		}
	}()
	done := make(chan error, 1)
	go func() { done <- cmd.Wait() }()
	select {
	case werr := <-done:
		status = "exit0"
		if werr != nil {
			status = "exit-nonzero"
			if ee, ok := werr.(*exec.ExitError); ok {
				if ws, ok := ee.Sys().(syscall.WaitStatus); ok && ws.Signaled() {
					status = "signal"
				} else {
					status = fmt.Sprintf("exit%d", ee.ExitCode())
				}
			}
		}
	case <-time.After(60 * time.Second):
		cmd.Process.Kill()
		status = "timeout"
	}
	c2sR.Close()
	s2pR.Close()
	return status, errBuf.String(), nil
}

func runReframe(r *run, g *rng) error {
	base, err := mkTemp("reframe")
	if err != nil {
		return err
	}
	defer rmTemp(base)
	src := filepath.Join(base, "src")
	os.MkdirAll(src, 0o755)
	if err := makeTree(g, src); err != nil {
		return err
	}
	want := treeDigest(src)
	maxMsg := genConst("c_maxMessageSize", 262144)
	fixed := func(n int) func(*rng) int { return func(*rng) int { return n } }
	rfs := []reframer{
		{name: "native-sizes", size: fixed(1 << 30), errAt: -1},
		{name: "1-byte", size: fixed(1), errAt: -1},
		{name: "3-byte(mid-integer)", size: fixed(3), errAt: -1},
		{name: "7-byte+info+empty", size: fixed(7), info: 30, empty: 30, errAt: -1},
		{name: "random-small", size: func(g *rng) int { return 1 + g.intn(64) }, info: 10, empty: 10, errAt: -1},
		{name: "max-size-coalesced", size: fixed(maxMsg), coales: true, errAt: -1},
		{name: "half-max+1-coalesced", size: fixed(maxMsg/2 + 1), coales: true, info: 50, errAt: -1},
		{name: "info-burst-1000", size: fixed(4096), burst: 1000, errAt: -1},
		{name: "random-large", size: func(g *rng) int { return 1 + g.intn(maxMsg) }, coales: true, empty: 20, errAt: -1},
	}
	stages := []int{0, 1, 5, 100, 700, 5000, 100000, 250000}
	if r.tier == "thorough" {
		for i := 0; i < 24; i++ {
			stages = append(stages, g.intn(350000))
		}
	}
	for _, at := range stages {
		rfs = append(rfs, reframer{name: fmt.Sprintf("error-frame@%d", at), size: func(g *rng) int { return 1 + g.intn(9000) }, errAt: at})
	}
	for i, rf := range rfs {
		dest := filepath.Join(base, fmt.Sprintf("dest%d", i))
		if i%2 == 0 {
			// an older, shorter copy: the transfer is a delta whose last literal run exceeds 256 KiB
			if b, err := os.ReadFile(filepath.Join(src, "d", "e.bin")); err == nil {
				os.MkdirAll(filepath.Join(dest, "d"), 0o755)
				os.WriteFile(filepath.Join(dest, "d", "e.bin"), b[:20000], 0o644)
				old := time.Unix(1_400_000_000, 0)
				os.Chtimes(filepath.Join(dest, "d", "e.bin"), old, old)
			}
		}
		status, stderr, err := runReframeSession(src, dest, rf, g)
		if err != nil {
			return err
		}
		got := treeDigest(dest)
		panicked := strings.Contains(stderr, "panic:") || strings.Contains(stderr, "goroutine ")
		cid := "reframe/" + rf.name
		r.count("reframe/" + status)
		r.notes[cid] = status
		detail := map[string]any{"framing": rf.name, "status": status, "stderr_tail": tailStr(stderr, 600), "dest": got, "source": want}
		if rf.errAt < 0 {
			if status != "exit0" || got != want {
				what := "the client's result depends on how the server's output is cut into frames"
				if panicked {
					what = "client crashed (panic) on a legal re-framing of the server's output"
				}
				r.oracleFail(cid, what, detail)
			}
		} else {
			if status != "exit1" || !strings.Contains(stderr, "injected server error 4711") || panicked {
				r.oracleFail(cid, "an error frame did not surface as a failed transfer carrying the server's message", detail)
			}
		}
		os.RemoveAll(dest)
	}
	r.notes["max_server_frame"] = maxServerFrame
	if limit := genConst("c_maxMessageSize", 262144); maxServerFrame > limit {
		r.oracleFail("reframe/server-frame-length", fmt.Sprintf("the server emitted a multiplexed frame of %d bytes, more than the %d a client accepts", maxServerFrame, limit), map[string]any{"max_frame": maxServerFrame})
	}
	return nil
}

func tailStr(s string, n int) string {
	if len(s) > n {
		return s[len(s)-n:]
	}
	return s
}

func init() {
	components["mux"] = runMux
	components["_muxclient"] = func(*run) error { clientMain(); return nil }
}
