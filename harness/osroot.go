package main

import (
	"fmt"
	"os"
	"path/filepath"
	"sort"
	"strings"
	"syscall"
)

// osroot: Go's os.Root (the confinement every destination and module access
// relies on) against the model of Model/Root.v, on random trees with
// relative, absolute, dangling, cyclic and ".."-laden symbolic links.
type rtNode struct {
	kind     byte // 'd' 'f' 'l'
	target   string
	children map[string]*rtNode
}

func (n *rtNode) render() string {
	switch n.kind {
	case 'f':
		return "F"
	case 'l':
		return "L" + hx(n.target)
	}
	var names []string
	for k := range n.children {
		names = append(names, k)
	}
	sort.Strings(names)
	var parts []string
	for _, k := range names {
		parts = append(parts, k+":"+n.children[k].render())
	}
	if len(parts) == 0 {
		return "D"
	}
	return "D(" + strings.Join(parts, ",") + ")"
}

func (n *rtNode) materialise(p string) {
	switch n.kind {
	case 'f':
		os.WriteFile(p, []byte("x"), 0o644)
	case 'l':
		os.Symlink(n.target, p)
	case 'd':
		os.MkdirAll(p, 0o755)
		for k, c := range n.children {
			c.materialise(filepath.Join(p, k))
		}
	}
}

func errClassRoot(err error) string {
	s := err.Error()
	switch {
	case strings.Contains(s, "escapes"):
		return "escapes"
	case strings.Contains(s, "no such file"):
		return "notexist"
	case strings.Contains(s, "not a directory"):
		return "notdir"
	case strings.Contains(s, "too many levels"), strings.Contains(s, "name too long"):
		return "loop"
	}
	return "other:" + clipStr(s, 60)
}

func runOSRoot(r *run) error {
	g := newRng(r.seed, "osroot")
	base, err := mkTemp("osroot")
	if err != nil {
		return err
	}
	defer rmTemp(base)
	nTrees, nNames := 40, 30
	if r.tier == "thorough" {
		nTrees, nNames = 600, 60
	}
	names := []string{"a", "b", "d", "e", "l1", "l2", "l3", "up", "abs", "loop", "out"}
	for ti := 0; ti < nTrees; ti++ {
		arena := filepath.Join(base, fmt.Sprintf("t%d", ti))
		rootDir := filepath.Join(arena, "root")
		os.MkdirAll(filepath.Join(arena, "outside", "sub"), 0o755)
		os.WriteFile(filepath.Join(arena, "outside", "secret"), []byte("s"), 0o644)
		targets := []string{"a", "d", "d/e", "../a", "..", "../..", "../outside", "../../outside/secret", "d/../a", "./a", "nosuch", "loop", "l1", "l2", "d/l3", "../root/a",
			filepath.Join(arena, "outside"), filepath.Join(rootDir, "a"), "/", "d/", "d//e", "e/../../outside"}
		var gen func(depth int) *rtNode
		gen = func(depth int) *rtNode {
			n := &rtNode{kind: 'd', children: map[string]*rtNode{}}
			for _, nm := range names {
				if !g.chance(45) {
					continue
				}
				switch x := g.intn(10); {
				case x < 3:
					n.children[nm] = &rtNode{kind: 'f'}
				case x < 6 && depth < 3:
					n.children[nm] = gen(depth + 1)
				default:
					n.children[nm] = &rtNode{kind: 'l', target: targets[g.intn(len(targets))]}
				}
			}
			return n
		}
		tree := gen(0)
		tree.materialise(rootDir)
		// inode -> path relative to the arena (to tell where a resolution ended)
		inoPath := map[uint64]string{}
		filepath.Walk(arena, func(p string, fi os.FileInfo, err error) error {
			if err == nil {
				rel, _ := filepath.Rel(arena, p)
				inoPath[fi.Sys().(*syscall.Stat_t).Ino] = rel
			}
			return nil
		})
		root, err := os.OpenRoot(rootDir)
		if err != nil {
			return err
		}
		rendered := tree.render()
		for k := 0; k < nNames; k++ {
			var comps []string
			if g.chance(60) {
				// walk down existing entries (through links as named), sometimes stepping back up
				cur := tree
				for c := 0; c < 1+g.intn(5) && cur != nil && cur.kind == 'd' && len(cur.children) > 0; c++ {
					var ks []string
					for k := range cur.children {
						ks = append(ks, k)
					}
					sort.Strings(ks)
					k := ks[g.intn(len(ks))]
					comps = append(comps, k)
					cur = cur.children[k]
					if g.chance(10) {
						comps = append(comps, "..")
						cur = nil
					}
				}
				if g.chance(30) {
					comps = append(comps, append(names, "..", "nosuch")[g.intn(len(names)+2)])
				}
			}
			for c := 0; len(comps) == 0 || c < g.intn(3); c++ {
				comps = append(comps, append(names, "..", "nosuch")[g.intn(len(names)+2)])
			}
			name := filepath.Clean(strings.Join(comps, "/")) // the code under verification only passes cleaned names
			for _, follow := range []bool{false, true} {
				var fi os.FileInfo
				var rerr error
				if follow {
					fi, rerr = root.Stat(name)
				} else {
					fi, rerr = root.Lstat(name)
				}
				obs := ""
				if rerr != nil {
					obs = "err:" + errClassRoot(rerr)
				} else {
					p, ok := inoPath[fi.Sys().(*syscall.Stat_t).Ino]
					switch {
					case !ok:
						obs = "ok:?"
					case p == "root":
						obs = "ok:."
					case strings.HasPrefix(p, "root/"):
						obs = "ok:" + strings.TrimPrefix(p, "root/")
					default:
						obs = "OUTSIDE:" + p
						r.oracleFail(fmt.Sprintf("or%d-%d", ti, k), "os.Root resolved a name to an object outside the root: "+name+" -> "+p, map[string]any{"tree": rendered, "name": name, "follow_last": follow})
					}
				}
				r.count("osroot/" + strings.SplitN(obs, ":", 2)[0] + "/" + strings.SplitN(strings.TrimPrefix(obs, "err:"), ":", 2)[0])
				r.emit("osroot", fmt.Sprintf("or%d-%d-%v", ti, k, follow), []string{rendered, hx(name), b01(follow)}, obs, rerr == nil && strings.Contains(name, "l"))
			}
		}
		root.Close()
		os.RemoveAll(arena)
	}
	return nil
}

func init() { components["osroot"] = runOSRoot }
