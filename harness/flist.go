package main

import (
	"bytes"
	"encoding/binary"
	"encoding/hex"
	"fmt"
	"os"
	"path/filepath"
	"sort"
	"strings"
	"syscall"
	"time"

	"github.com/gokrazy/rsync/verifhook"
)

const (
	xTopDir   = 1
	xSameMode = 2
	xSameRdev = 4
	xSameUID  = 8
	xSameGID  = 16
	xSameName = 32
	xLongName = 64
	xSameTime = 128

	sIFMT   = 0o170000
	sIFDIR  = 0o040000
	sIFCHR  = 0o020000
	sIFBLK  = 0o060000
	sIFREG  = 0o100000
	sIFIFO  = 0o010000
	sIFLNK  = 0o120000
	sIFSOCK = 0o140000
)

type fopts struct{ uid, gid, links, devices, specials, checksum bool }

func (o fopts) String() string {
	b := func(x bool) byte {
		if x {
			return '1'
		}
		return '0'
	}
	return string([]byte{b(o.uid), b(o.gid), b(o.links), b(o.devices), b(o.specials), b(o.checksum)})
}

func (o fopts) hook() verifhook.FlistOpts {
	return verifhook.FlistOpts{PreserveUid: o.uid, PreserveGid: o.gid, PreserveLinks: o.links, PreserveDevices: o.devices, PreserveSpecials: o.specials, AlwaysChecksum: o.checksum}
}

type fentry struct {
	name           []byte
	length         int64
	mtime          int32
	mode           int32
	uid, gid, rdev int32
	link           []byte
	csum           []byte
}

func (e fentry) dump(o fopts) string {
	cs := "-"
	if o.checksum {
		cs = hexOrDash(e.csum)
	}
	return fmt.Sprintf("%s/%d/%d/%d/%d/%d/%d/%s/%s", hexOrDash(e.name), e.length, e.mtime, e.mode, e.uid, e.gid, e.rdev, hexOrDash(e.link), cs)
}

type idname struct {
	id   int32
	name []byte
}

func dumpIDs(l []idname) string {
	s := make([]string, len(l))
	for i, x := range l {
		s[i] = fmt.Sprintf("%d:%s", x.id, hexOrDash(x.name))
	}
	return strings.Join(s, ",")
}

// ---- reference encoder: every conforming protocol-27 encoding (written from rsync.5 / flist.c) ----

type fchoice struct {
	l1                                                        int
	long, sameTime, sameMode, sameUID, sameGID, sameRdev, top bool
}

func wI64(b *bytes.Buffer, v int64) {
	if v >= 0 && v <= 0x7fffffff {
		b.Write(le32(int32(v)))
		return
	}
	b.Write(le32(-1))
	var x [8]byte
	binary.LittleEndian.PutUint64(x[:], uint64(v))
	b.Write(x[:])
}

func typeIs(mode int32, t int32) bool { return mode&sIFMT == t }

func refEncodeEntry(b *bytes.Buffer, o fopts, c fchoice, e fentry, hasRdev bool) {
	flags := byte(0)
	set := func(x bool, f byte) {
		if x {
			flags |= f
		}
	}
	set(c.top, xTopDir)
	set(c.sameMode, xSameMode)
	set(c.sameRdev, xSameRdev)
	set(c.sameUID, xSameUID)
	set(c.sameGID, xSameGID)
	set(c.l1 > 0, xSameName)
	set(c.long, xLongName)
	set(c.sameTime, xSameTime)
	b.WriteByte(flags)
	if c.l1 > 0 {
		b.WriteByte(byte(c.l1))
	}
	suffix := e.name[c.l1:]
	if c.long {
		b.Write(le32(int32(len(suffix))))
	} else {
		b.WriteByte(byte(len(suffix)))
	}
	b.Write(suffix)
	wI64(b, e.length)
	if !c.sameTime {
		b.Write(le32(e.mtime))
	}
	if !c.sameMode {
		b.Write(le32(e.mode))
	}
	if o.uid && !c.sameUID {
		b.Write(le32(e.uid))
	}
	if o.gid && !c.sameGID {
		b.Write(le32(e.gid))
	}
	if hasRdev && !c.sameRdev {
		b.Write(le32(e.rdev))
	}
	if o.links && typeIs(e.mode, sIFLNK) {
		b.Write(le32(int32(len(e.link))))
		b.Write(e.link)
	}
	if o.checksum {
		b.Write(e.csum)
	}
}

func refEncodeIDs(b *bytes.Buffer, l []idname) {
	for _, x := range l {
		b.Write(le32(x.id))
		b.WriteByte(byte(len(x.name)))
		b.Write(x.name)
	}
	b.Write(le32(0))
}

// conformingChoices picks random legal choices for a list (tridge-like state machine).
func conformingChoices(g *rng, o fopts, es []fentry, aggressive bool) []fchoice {
	cs := make([]fchoice, len(es))
	prev := fentry{}
	for i, e := range es {
		c := fchoice{}
		cp := 0
		for cp < len(e.name) && cp < len(prev.name) && cp < 255 && e.name[cp] == prev.name[cp] {
			cp++
		}
		pick := func(eq bool) bool { return eq && (aggressive || g.bool()) }
		if cp > 0 {
			if aggressive {
				c.l1 = cp
			} else {
				c.l1 = g.intn(cp + 1)
			}
		}
		c.long = len(e.name)-c.l1 > 255 || (!aggressive && g.bool())
		c.sameTime = pick(e.mtime == prev.mtime)
		c.sameMode = pick(e.mode == prev.mode)
		c.sameUID = pick(e.uid == prev.uid)
		c.sameGID = pick(e.gid == prev.gid)
		c.sameRdev = pick(e.rdev == prev.rdev)
		c.top = string(e.name) == "." || (!aggressive && g.chance(10))
		// a conforming sender never emits a zero flags byte for an entry
		if !(c.top || c.sameMode || c.sameRdev || c.sameUID || c.sameGID || c.l1 > 0 || c.long || c.sameTime) {
			if typeIs(e.mode, sIFDIR) {
				c.long = true
			} else {
				c.top = true
			}
		}
		cs[i] = c
		prev = e
	}
	return cs
}

func hasRdevField(o fopts, mode int32) bool {
	dev := typeIs(mode, sIFCHR) || typeIs(mode, sIFBLK)
	spec := typeIs(mode, sIFIFO) || typeIs(mode, sIFSOCK)
	return (o.devices && dev) || (o.specials && spec)
}

func sortedEntries(es []fentry) []fentry {
	out := append([]fentry{}, es...)
	sort.SliceStable(out, func(i, j int) bool { return bytes.Compare(out[i].name, out[j].name) < 0 })
	return out
}

func runFlistDecCase(r *run, id string, o fopts, wire []byte, kind string, intended []fentry, uids, gids []idname, ioerr int32) {
	ents, us, gs, ioe, consumed, err := verifhook.ReceiveFileList(o.hook(), wire)
	obs := ""
	if err != nil {
		s := err.Error()
		switch {
		case strings.Contains(s, "overflow"):
			obs = "ERR:overflow"
		case strings.Contains(s, "EOF"):
			obs = "ERR:short"
		default:
			obs = "ERR:" + s
		}
	} else {
		var parts []string
		var got []fentry
		for _, e := range ents {
			fe := fentry{name: []byte(e.Name), length: e.Length, mtime: int32(e.ModTime), mode: e.Mode, uid: e.Uid, gid: e.Gid, rdev: e.Rdev, link: []byte(e.LinkTarget), csum: e.Checksum}
			if int64(int32(e.ModTime)) != e.ModTime {
				obs = "BADMTIME"
			}
			got = append(got, fe)
			parts = append(parts, fe.dump(o))
		}
		conv := func(l []verifhook.IdName) []idname {
			var out []idname
			for _, x := range l {
				out = append(out, idname{x.Id, []byte(x.Name)})
			}
			sort.Slice(out, func(i, j int) bool { return out[i].id < out[j].id })
			return out
		}
		// entries with identical names: their relative order depends on an unstable sort; canonicalise
		canon := append([]string{}, parts...)
		for i := 0; i < len(canon); {
			j := i + 1
			for j < len(canon) && strings.SplitN(canon[j], "/", 2)[0] == strings.SplitN(canon[i], "/", 2)[0] {
				j++
			}
			sort.Strings(canon[i:j])
			i = j
		}
		obs += fmt.Sprintf("OK|%s|U:%s|G:%s|IO:%d|C:%d", strings.Join(canon, ";"), dumpIDs(conv(us)), dumpIDs(conv(gs)), ioe, consumed)
		if intended != nil {
			want := sortedEntries(intended)
			ok := len(want) == len(got)
			for i := 0; ok && i < len(want); i++ {
				if want[i].dump(o) != got[i].dump(o) {
					ok = false
				}
			}
			if !ok || ioe != ioerr || dumpIDs(conv(us)) != dumpIDs(uids) || dumpIDs(conv(gs)) != dumpIDs(gids) {
				r.oracleFail(id, "a valid protocol-27 file list was not decoded into exactly the entries that were sent", map[string]any{"opts": o.String(), "wire_hex": clipHex(wire), "kind": kind})
			}
		}
	}
	if intended != nil && err != nil {
		r.oracleFail(id, "a valid protocol-27 file list was rejected: "+err.Error(), map[string]any{"opts": o.String(), "wire_hex": clipHex(wire), "kind": kind})
	}
	r.count(kind + "/" + strings.SplitN(obs, "|", 2)[0])
	r.emit("flist_dec", id, []string{o.String(), hexOrDash(wire)}, obs, err == nil && len(ents) >= 2)
}

var nameAlphabet = []string{"a", "b", "dir", "sub", "x.txt", "\xc3\xa9", "\xff\xfe", "longer-name", "z", "0", "dir.txt", "dir-x", "dir x", "sub+", "a!", "#a", "-b"} // incl. siblings that differ from a directory name by a byte below '/'

func genEntries(g *rng, n int) []fentry {
	seen := map[string]bool{}
	var es []fentry
	for len(es) < n {
		depth := 1 + g.intn(4)
		var comps []string
		for d := 0; d < depth; d++ {
			c := nameAlphabet[g.intn(len(nameAlphabet))]
			if g.chance(15) {
				c += fmt.Sprintf("%d", g.intn(100))
			}
			comps = append(comps, c)
		}
		name := strings.Join(comps, "/")
		if len(es) == 0 && g.chance(50) {
			name = "."
		}
		if g.chance(3) {
			name = strings.Repeat("n", 250+g.intn(20)) + "/" + strings.Repeat("m", 200+g.intn(100))
		}
		if seen[name] {
			continue
		}
		seen[name] = true
		types := []int32{sIFREG, sIFREG, sIFREG, sIFDIR, sIFLNK, sIFIFO, sIFSOCK, sIFCHR, sIFBLK}
		t := types[g.intn(len(types))]
		e := fentry{name: []byte(name), mode: t | int32(g.intn(0o1000))}
		lens := []int64{0, 1, 699, 700, 4096, 0x7fffffff, 0x80000000, 1 << 40, int64(g.intn(1 << 20))}
		e.length = lens[g.intn(len(lens))]
		mt := []int32{0, 1, -1, 1_500_000_000, 0x7fffffff, -0x80000000, int32(g.next())}
		e.mtime = mt[g.intn(len(mt))]
		if len(es) > 0 && g.chance(40) { // repeat previous values so "same" flags become usable
			p := es[len(es)-1]
			e.mtime, e.uid, e.gid = p.mtime, p.uid, p.gid
			if g.bool() {
				e.mode = p.mode
			}
		} else {
			e.uid, e.gid = int32(g.intn(3))*1000, int32(g.intn(3))*100
		}
		if typeIs(e.mode, sIFLNK) {
			e.link = []byte([]string{"target", "../up", "/abs/olute", "\xff\x00x"[:2], strings.Repeat("t", 300)}[g.intn(5)])
			e.length = int64(len(e.link))
		}
		if typeIs(e.mode, sIFCHR) || typeIs(e.mode, sIFBLK) || typeIs(e.mode, sIFIFO) || typeIs(e.mode, sIFSOCK) {
			e.rdev = int32(g.intn(1 << 16))
			if g.bool() && len(es) > 0 {
				e.rdev = es[len(es)-1].rdev
			}
		}
		e.csum = g.bytes(16)
		es = append(es, e)
	}
	return es
}

func runFlist(r *run) error {
	g := newRng(r.seed, "flist")
	id := 0
	next := func() string { id++; return fmt.Sprintf("fl%d", id) }
	n := 1500
	if r.tier == "thorough" {
		n = 20000
	}
	for i := 0; i < n; i++ {
		o := fopts{uid: g.bool(), gid: g.bool(), links: g.bool(), devices: g.bool(), checksum: g.chance(30)}
		o.specials = g.bool()
		ne := g.intn(9)
		if g.chance(5) {
			ne = 30 + g.intn(200)
		}
		es := genEntries(g, ne)
		// canonicalise fields that are not transmitted under o
		for k := range es {
			if !o.uid {
				es[k].uid = 0
			}
			if !o.gid {
				es[k].gid = 0
			}
			if !hasRdevField(o, es[k].mode) {
				es[k].rdev = 0
			}
			if !(o.links && typeIs(es[k].mode, sIFLNK)) {
				es[k].link = nil
			}
		}
		aggressive := g.chance(40)
		cs := conformingChoices(g, o, es, aggressive)
		var uids, gids []idname
		if o.uid {
			for k := g.intn(3); k > 0; k-- {
				uids = append(uids, idname{int32(1000 * (k + 1)), []byte(fmt.Sprintf("user%d", k))})
			}
		}
		if o.gid {
			for k := g.intn(3); k > 0; k-- {
				gids = append(gids, idname{int32(100 * (k + 1)), []byte(fmt.Sprintf("grp%d\xc3\xa4", k))})
			}
		}
		sort.Slice(uids, func(i, j int) bool { return uids[i].id < uids[j].id })
		sort.Slice(gids, func(i, j int) bool { return gids[i].id < gids[j].id })
		ioerr := int32(0)
		if g.chance(10) {
			ioerr = 1
		}
		var b bytes.Buffer
		for k, e := range es {
			refEncodeEntry(&b, o, cs[k], e, hasRdevField(o, e.mode))
		}
		b.WriteByte(0)
		if o.uid {
			refEncodeIDs(&b, uids)
		}
		if o.gid {
			refEncodeIDs(&b, gids)
		}
		b.Write(le32(ioerr))
		b.Write(g.bytes(g.intn(4))) // following bytes belong to the next phase
		wire := b.Bytes()
		kind := "conforming"
		if aggressive {
			kind = "conforming-compressed"
		}
		intended := es
		switch g.intn(12) {
		case 0:
			wire = wire[:g.intn(len(wire))]
			kind, intended = "truncated", nil
		case 1:
			wire = append([]byte{}, wire...)
			p := g.intn(len(wire))
			wire[p] ^= byte(1 << g.intn(8))
			kind, intended = "bitflip", nil
		case 2: // hostile lengths
			var h bytes.Buffer
			h.WriteByte(xLongName)
			h.Write(le32([]int32{-1, -5, 4095, 4096, 5000, 0x7fffffff}[g.intn(6)]))
			h.Write(g.bytes(10))
			wire, kind, intended = h.Bytes(), "hostile-namelen", nil
		}
		// decoding of huge declared lengths is outside the guarantee
		runFlistDecCase(r, next(), o, wire, kind, intended, uids, gids, ioerr)
	}
	if err := runFlistEnc(r, g); err != nil {
		return err
	}
	return runTridge(r, g)
}

// ---- the real sender's encoding of real trees ----

type treeEnt struct {
	rel  string
	kind string
}

func buildTree(g *rng, root string) error {
	os.MkdirAll(root, 0o755)
	names := []string{"a", "b.txt", "dir1", "dir1/x", "dir1/y.bin", "dir1/sub", "dir1/sub/deep", "dir2", "e\xcc\x81", "zz", "link1", "dir2/link2", "fifo", "sock", "chr", "blk", "dir2/empty"}
	for _, n := range names {
		p := filepath.Join(root, n)
		if _, err := os.Lstat(p); err == nil {
			continue
		}
		switch {
		case n == "dir1" || n == "dir2" || n == "dir1/sub":
			os.MkdirAll(p, os.FileMode(0o700|g.intn(0o100)))
		case strings.HasPrefix(filepath.Base(n), "link"):
			os.Symlink([]string{"a", "../a", "/etc/hostname", "dangling/\xff"}[g.intn(4)], p)
		case n == "fifo":
			syscall.Mkfifo(p, uint32(0o600|g.intn(0o100)))
		case n == "sock":
			fd, err := syscall.Socket(syscall.AF_UNIX, syscall.SOCK_DGRAM, 0)
			if err == nil {
				syscall.Bind(fd, &syscall.SockaddrUnix{Name: p})
				syscall.Close(fd)
			}
		case n == "chr":
			syscall.Mknod(p, syscall.S_IFCHR|0o640, 1<<8|3)
		case n == "blk":
			syscall.Mknod(p, syscall.S_IFBLK|0o600, 7<<8|g.intn(200))
		default:
			if g.chance(15) {
				continue
			}
			sz := []int{0, 1, 699, 700, 701, 5000}[g.intn(6)]
			os.WriteFile(p, g.bytes(sz), os.FileMode(g.intn(0o1000)))
			os.Chmod(p, os.FileMode(g.intn(0o1000)))
		}
		fi, err := os.Lstat(p)
		if err != nil {
			continue
		}
		if fi.Mode()&os.ModeSymlink == 0 {
			mt := []int64{0, 1, 1_500_000_000, 2_000_000_000, -86400, 951782400}[g.intn(6)]
			t := time.Unix(mt, int64(g.intn(1e9)))
			os.Chtimes(p, t, t)
		}
		if g.chance(25) {
			os.Lchown(p, 65534, 65534)
		} else if g.chance(10) {
			os.Lchown(p, 0, 65534)
		}
	}
	return nil
}

func lstatEntry(root, rel string, name string) (fentry, error) {
	p := filepath.Join(root, rel)
	fi, err := os.Lstat(p)
	if err != nil {
		return fentry{}, err
	}
	st := fi.Sys().(*syscall.Stat_t)
	e := fentry{name: []byte(name), length: fi.Size(), mtime: int32(fi.ModTime().Unix()), uid: int32(st.Uid), gid: int32(st.Gid), rdev: int32(st.Rdev)}
	e.mode = int32(st.Mode) // S_IF* and permission bits (no suid/sticky in generated trees)
	e.mode &= sIFMT | 0o777
	if fi.IsDir() {
		e.length = 4096
	}
	if fi.Mode()&os.ModeSymlink != 0 {
		t, _ := os.Readlink(p)
		e.link = []byte(t)
	}
	if fi.Mode().IsRegular() && fi.Size() < 1<<24 {
		b, _ := os.ReadFile(p)
		e.csum = plainMD4(b)
	} else {
		e.csum = make([]byte, 16)
	}
	return e, nil
}

func walkOrder(root, rel string, out *[]string) {
	*out = append(*out, rel)
	fi, err := os.Lstat(filepath.Join(root, rel))
	if err != nil || !fi.IsDir() {
		return
	}
	ents, _ := os.ReadDir(filepath.Join(root, rel))
	for _, e := range ents { // ReadDir sorts by filename
		walkOrder(root, filepath.Join(rel, e.Name()), out)
	}
}

func runFlistEnc(r *run, g *rng) error {
	base, err := mkTemp("flistenc")
	if err != nil {
		return err
	}
	defer rmTemp(base)
	nTrees := 6
	if r.tier == "thorough" {
		nTrees = 40
	}
	optSets := [][]string{{"-r"}, {"-rl"}, {"-rlptgoD"}, {"-a"}, {"-a", "-c"}, {"-rlD"}, {"-rog"}, {"-rlt", "-c"}, {"-rlpt"}}
	id := 0
	for t := 0; t <= nTrees; t++ {
		root := filepath.Join(base, fmt.Sprintf("t%d", t))
		sets := optSets
		if t == nTrees {
			// sparse files at the 32/64-bit length boundaries (no -c: the data is never read)
			os.MkdirAll(root, 0o755)
			for i, sz := range []int64{0x7fffffff, 0x80000000, 3 << 30, 0xffffffff, 0x100000000, 1 << 40} {
				f, err := os.Create(filepath.Join(root, fmt.Sprintf("sparse%d", i)))
				if err != nil {
					return err
				}
				if err := f.Truncate(sz); err != nil {
					r.notes["sparse_skip"] = err.Error()
				}
				f.Close()
			}
			sets = [][]string{{"-r"}, {"-rlt"}}
		} else if err := buildTree(g, root); err != nil {
			return err
		}
		for _, args := range sets {
			id++
			cid := fmt.Sprintf("fe%d", id)
			opts, _, err := verifhook.ParseOpts(args)
			if err != nil {
				return err
			}
			o := fopts{uid: opts.PreserveUid(), gid: opts.PreserveGid(), links: opts.PreserveLinks(), devices: opts.PreserveDevices(), specials: opts.PreserveSpecials(), checksum: opts.AlwaysChecksum()}
			wire, names, err := verifhook.SendFileList(args, root, []string{"/"}, nil)
			if err != nil {
				r.oracleFail(cid, "SendFileList failed: "+err.Error(), map[string]any{"args": args})
				continue
			}
			var order []string
			walkOrder(root, ".", &order)
			var es []fentry
			uidSet, gidSet := map[int32]bool{}, map[int32]bool{}
			for _, rel := range order {
				e, err := lstatEntry(root, rel, rel)
				if err != nil {
					return err
				}
				if !o.uid {
					e.uid = 0
				} else if e.uid != 0 {
					uidSet[e.uid] = true
				}
				if !o.gid {
					e.gid = 0
				} else if e.gid != 0 {
					gidSet[e.gid] = true
				}
				if !((o.devices && (typeIs(e.mode, sIFCHR) || typeIs(e.mode, sIFBLK))) || (o.specials && (typeIs(e.mode, sIFIFO) || typeIs(e.mode, sIFSOCK)))) {
					e.rdev = 0
				}
				if !(o.links && typeIs(e.mode, sIFLNK)) {
					e.link = nil
				}
				es = append(es, e)
			}
			var uids, gids []idname
			for u := range uidSet {
				uids = append(uids, idname{u, []byte("nobody")})
			}
			for gg := range gidSet {
				gids = append(gids, idname{gg, []byte("nogroup")})
			}
			parts := make([]string, len(es))
			for i, e := range es {
				parts[i] = e.dump(fopts{checksum: true})
			}
			// index agreement: the sender's sorted order is the bytewise order of the names
			sorted := sortedEntries(es)
			for i := range sorted {
				if i >= len(names) || names[i] != string(sorted[i].name) {
					r.oracleFail(cid, "sender's file numbering is not the bytewise order of the transfer names", map[string]any{"args": args, "names": names})
					break
				}
			}
			// conformance: an independent decoder gets exactly the entries of the source tree
			dec, derr := refDecode(o, wire)
			if derr != nil {
				r.oracleFail(cid, "independent protocol-27 decoder rejects the sender's file list: "+derr.Error(), map[string]any{"args": args, "wire_hex": clipHex(wire)})
			} else {
				ok := len(dec) == len(es)
				for i := 0; ok && i < len(es); i++ {
					if dec[i].dump(o) != es[i].dump(o) {
						ok = false
					}
				}
				if !ok {
					r.oracleFail(cid, "independent protocol-27 decoder does not get the entries of the source tree", map[string]any{"args": args, "wire_hex": clipHex(wire)})
				}
			}
			r.count("enc/" + strings.Join(args, ""))
			r.emit("flist_enc", cid, []string{o.String(), strings.Join(parts, ";"), dumpIDs(uids), dumpIDs(gids), "0"}, hex.EncodeToString(wire), len(es) > 3)
		}
	}
	return nil
}

// refDecode: an independent decoder of the entry part (all flags), written from the protocol description.
func refDecode(o fopts, w []byte) ([]fentry, error) {
	p := 0
	need := func(n int) error {
		if p+n > len(w) {
			return fmt.Errorf("short at %d", p)
		}
		return nil
	}
	r32 := func() (int32, error) {
		if err := need(4); err != nil {
			return 0, err
		}
		v := int32(binary.LittleEndian.Uint32(w[p:]))
		p += 4
		return v, nil
	}
	var out []fentry
	prev := fentry{}
	for {
		if err := need(1); err != nil {
			return nil, err
		}
		fl := w[p]
		p++
		if fl == 0 {
			return out, nil
		}
		l1 := 0
		if fl&xSameName != 0 {
			if err := need(1); err != nil {
				return nil, err
			}
			l1 = int(w[p])
			p++
		}
		var l2 int
		if fl&xLongName != 0 {
			v, err := r32()
			if err != nil {
				return nil, err
			}
			l2 = int(v)
		} else {
			if err := need(1); err != nil {
				return nil, err
			}
			l2 = int(w[p])
			p++
		}
		if l2 < 0 || l1 > len(prev.name) {
			return nil, fmt.Errorf("bad name lengths")
		}
		if err := need(l2); err != nil {
			return nil, err
		}
		e := fentry{name: append(append([]byte{}, prev.name[:l1]...), w[p:p+l2]...)}
		p += l2
		v, err := r32()
		if err != nil {
			return nil, err
		}
		if v == -1 {
			if err := need(8); err != nil {
				return nil, err
			}
			e.length = int64(binary.LittleEndian.Uint64(w[p:]))
			p += 8
		} else {
			e.length = int64(v)
		}
		rd := func(same bool, pv int32) (int32, error) {
			if same {
				return pv, nil
			}
			return r32()
		}
		if e.mtime, err = rd(fl&xSameTime != 0, prev.mtime); err != nil {
			return nil, err
		}
		if e.mode, err = rd(fl&xSameMode != 0, prev.mode); err != nil {
			return nil, err
		}
		if o.uid {
			if e.uid, err = rd(fl&xSameUID != 0, prev.uid); err != nil {
				return nil, err
			}
		}
		if o.gid {
			if e.gid, err = rd(fl&xSameGID != 0, prev.gid); err != nil {
				return nil, err
			}
		}
		if (o.devices && (typeIs(e.mode, sIFCHR) || typeIs(e.mode, sIFBLK))) || (o.specials && (typeIs(e.mode, sIFIFO) || typeIs(e.mode, sIFSOCK))) {
			if e.rdev, err = rd(fl&xSameRdev != 0, prev.rdev); err != nil {
				return nil, err
			}
		}
		if o.links && typeIs(e.mode, sIFLNK) {
			ll, err := r32()
			if err != nil || ll < 0 {
				return nil, fmt.Errorf("bad link length")
			}
			if err := need(int(ll)); err != nil {
				return nil, err
			}
			e.link = append([]byte{}, w[p:p+int(ll)]...)
			p += int(ll)
		}
		if o.checksum {
			if err := need(16); err != nil {
				return nil, err
			}
			e.csum = append([]byte{}, w[p:p+16]...)
			p += 16
		}
		out = append(out, e)
		prev = e
	}
}

func hookReceive(o fopts, wire []byte) ([]fentry, []idname, []idname, int32, int, error) {
	ents, us, gs, ioe, consumed, err := verifhook.ReceiveFileList(o.hook(), wire)
	if err != nil {
		return nil, nil, nil, 0, consumed, err
	}
	var got []fentry
	for _, e := range ents {
		got = append(got, fentry{name: []byte(e.Name), length: e.Length, mtime: int32(e.ModTime), mode: e.Mode, uid: e.Uid, gid: e.Gid, rdev: e.Rdev, link: []byte(e.LinkTarget), csum: e.Checksum})
	}
	conv := func(l []verifhook.IdName) []idname {
		var out []idname
		for _, x := range l {
			out = append(out, idname{x.Id, []byte(x.Name)})
		}
		return out
	}
	return got, conv(us), conv(gs), ioe, consumed, nil
}

func init() { components["flist"] = runFlist }
