package main

import (
	"fmt"
	"path/filepath"
	"sort"
	"strings"
	"sync"

	"github.com/gokrazy/rsync/verifhook"
)

// parseObservable runs the real option parser (inside a worker: --help,
// --version etc. exit the process, which the parent observes as "exit").
func parseObservable(args []string) string {
	opts, rem, err := verifhook.ParseOpts(args)
	if err != nil {
		s := err.Error()
		switch {
		case strings.Contains(s, "unknown option"):
			return "ERR:badopt"
		case strings.Contains(s, "does not take an argument"):
			return "ERR:unwanted"
		case strings.Contains(s, "missing argument"):
			return "ERR:noarg"
		case strings.Contains(s, "errno -17"), strings.Contains(s, "errno -18"):
			return "ERR:badnumber"
		case strings.Contains(s, "not yet implemented"), strings.Contains(s, "not supported"):
			return "ERR:notimpl"
		case strings.Contains(s, "--sender only allowed"):
			return "ERR:senderwos"
		case strings.HasPrefix(s, "exit status"):
			return "ERR:exit" // help / version printed: the caller decides whether to exit
		}
		return "ERR:" + s
	}
	b := func(x bool) byte {
		if x {
			return '1'
		}
		return '0'
	}
	view := string([]byte{b(opts.Recurse()), b(opts.PreserveLinks()), b(opts.PreservePerms()), b(opts.PreserveMTimes()), b(opts.PreserveGid()), b(opts.PreserveUid()),
		b(opts.PreserveDevices()), b(opts.PreserveSpecials()), b(opts.AlwaysChecksum()), b(opts.IgnoreTimes()), b(opts.DryRun()), b(opts.DeleteMode())})
	so := strings.Join(opts.ServerOptions(), "\x1e")
	wasSender := opts.Sender()
	opts.SetSender()
	ss := strings.Join(opts.ServerOptions(), "\x1e")
	_ = wasSender
	return fmt.Sprintf("OK|%s|F:%s|R:%s|S:%s|SS:%s|x%d", view, strings.Join(opts.FilterRules(), "\x1e"), strings.Join(rem, "\x1e"), so, ss, opts.XferDirs())
}

func runPopt(r *run) error {
	g := newRng(r.seed, "popt")
	pool := newSessionPool(8)
	defer pool.close()
	vocab := []string{"-a", "-r", "-l", "-p", "-t", "-g", "-o", "-D", "-c", "-I", "-n", "-v", "-u", "-d", "-H",
		"--devices", "--specials", "--no-devices", "--no-specials", "--no-D", "--delete", "--archive", "--recursive", "--links", "--perms", "--times",
		"--no-p", "--no-t", "--no-l", "--no-r", "--no-perms", "--checksum", "--no-c", "--ignore-times", "--dry-run", "--owner", "--group", "--no-o", "--no-g",
		"-rlt", "-rlptgoD", "-vvrl", "-logDtpr", "-av", "-na", "--dirs", "--no-dirs", "--update", "--motd", "--no-motd", "--progress"}
	withArg := []string{"--exclude=foo", "--exclude", "--include=bar", "--include", "-f", "--filter=- x", "--filter", "-e", "--rsh=ssh -p 22", "--rsh", "--port=873", "--port", "--contimeout=5", "--contimeout",
		"-fx", "-e=cmd", "--info=flist2", "--debug=recv", "--info", "--port=abc", "--contimeout=99999999999"}
	odd := []string{"--version", "--help", "-V", "--info=help", "--debug=help", "-h", "--bogus", "-Z", "--delete=1", "-r=1", "--server", "--sender", "-", "--", "---r", "-x", "-q", "-z", "-F", "-P", "--del", "--no-such", "--exclude=", "-y", "--chmod=u+x", "--bwlimit=1"}
	argvals := []string{"x", "- x", "+ y", "5", "src/", "dst", "host:path", "rsync://h/m"}
	n := 1500
	if r.tier == "thorough" {
		n = 20000
	}
	var cases [][]string
	// all singletons and the documented examples
	for _, v := range append(append(append([]string{}, vocab...), withArg...), odd...) {
		cases = append(cases, []string{v}, []string{v, "x"}, []string{"--server", v, ".", "p"})
	}
	for i := 0; i < n; i++ {
		var a []string
		for k := g.intn(7); k > 0; k-- {
			switch x := g.intn(100); {
			case x < 70:
				a = append(a, vocab[g.intn(len(vocab))])
			case x < 85:
				a = append(a, withArg[g.intn(len(withArg))])
			case x < 93:
				a = append(a, argvals[g.intn(len(argvals))])
			default:
				a = append(a, odd[g.intn(len(odd))])
			}
		}
		if g.chance(30) {
			a = append(a, "src/", "dst")
		}
		cases = append(cases, a)
	}
	var wg sync.WaitGroup
	var mu sync.Mutex
	results := make([]string, len(cases))
	for i, a := range cases {
		daemonish := false
		for _, x := range a {
			if strings.HasPrefix(x, "--daemon") || strings.HasPrefix(x, "--config") || strings.HasPrefix(x, "--detach") || strings.HasPrefix(x, "--no-detach") || strings.HasPrefix(x, "--dparam") {
				daemonish = true
			}
		}
		if daemonish {
			continue
		}
		wg.Add(1)
		go func(i int, a []string) {
			defer wg.Done()
			res := pool.run(sessionSpec{Kind: "parse", ID: fmt.Sprint(i), Args: a, TimeoutMs: 20000})
			obs := res.Parse
			if res.Outcome == "died" {
				obs = "ERR:exit"
				if !strings.Contains(res.Err, "exit status 0") {
					obs = "DIED:" + res.Err
				}
			} else if res.Outcome != "ok" {
				obs = "ERR:" + res.Outcome
			}
			mu.Lock()
			results[i] = obs
			mu.Unlock()
		}(i, a)
	}
	wg.Wait()
	for i, a := range cases {
		if results[i] == "" {
			continue
		}
		r.count("parse/" + strings.SplitN(results[i], "|", 2)[0])
		r.emit("popt", fmt.Sprintf("p%d", i), []string{strings.Join(a, "\x1f")}, results[i], len(a) >= 2 && strings.HasPrefix(results[i], "OK"))
	}
	return runOptMatrix(r, g, pool)
}

// ---- C14 end to end: same source, same options, every arrangement ----

func allTypesTree(g *rng) treeSpec {
	t := treeSpec{
		{Path: "dir", Type: "d", Mode: 0o750, Mtime: 1_400_000_000},
		{Path: "dir/deep", Type: "d", Mode: 0o755, Mtime: 1_400_000_001},
		{Path: "dir/rodir", Type: "d", Mode: 0o555, Mtime: 1_400_000_002},
		{Path: "dir/rodir/inside", Type: "f", Data: g.bytes(123), Mode: 0o444, Mtime: 1_300_000_000},
		{Path: "a.txt", Type: "f", Data: g.bytes(1000), Mode: 0o640, Mtime: 1_350_000_000},
		{Path: "dir/b.bin", Type: "f", Data: g.bytes(70000), Mode: 0o755, Mtime: 1_360_000_000, Uid: 65534, Gid: 65534},
		{Path: "dir/deep/c", Type: "f", Data: []byte{}, Mode: 0o600, Mtime: 0},
		{Path: "dir/owned", Type: "f", Data: g.bytes(10), Mode: 0o604, Mtime: 1_370_000_000, Uid: 1234, Gid: 4321},
		{Path: "lnk", Type: "l", Link: "a.txt"},
		{Path: "dir/dangling", Type: "l", Link: "../nowhere/\xff"},
		{Path: "fifo", Type: "p", Mode: 0o620, Mtime: 1_380_000_000},
		{Path: "dir/sock", Type: "s", Mode: 0o755, Mtime: 1_380_000_001},
		{Path: "chr", Type: "c", Mode: 0o660, Mtime: 1_380_000_002, Rdev: 1<<8 | 5},
		{Path: "dir/blk", Type: "b", Mode: 0o600, Mtime: 1_380_000_003, Rdev: 8<<8 | 17},
	}
	return t
}

func runOptMatrix(r *run, g *rng, pool *sessionPool) error {
	base, err := mkTemp("optmatrix")
	if err != nil {
		return err
	}
	defer rmTemp(base)
	src := allTypesTree(g)
	srcRoot := filepath.Join(base, "src")
	if err := src.materialise(srcRoot); err != nil {
		return err
	}
	prior := treeSpec{
		{Path: "a.txt", Type: "f", Data: g.bytes(1000), Mode: 0o600, Mtime: 1_000_000_000},
		{Path: "dir/owned", Type: "f", Data: src[7].Data, Mode: 0o666, Mtime: 1_370_000_000},
		{Path: "extraneous", Type: "f", Data: []byte("x"), Mode: 0o644, Mtime: 1_000_000_000},
		{Path: "dir/extra-dir/x", Type: "f", Data: []byte("y"), Mode: 0o644, Mtime: 1_000_000_000},
		{Path: "lnk", Type: "l", Link: "old-target"},
	}
	toks := []string{"-l", "-p", "-t", "-g", "-o", "-D", "--devices", "--specials", "-c", "-I", "-n", "--delete", "--no-specials", "--exclude=b.bin"}
	var vectors [][]string
	vectors = append(vectors, []string{"-r"}, []string{"-a"}, []string{"-a", "--delete"}, []string{"-a", "-n"}, []string{"-rlpt", "--specials"}, []string{"-rlpt", "--devices"}, []string{"-a", "--no-specials"}, []string{"-a", "-c", "--exclude=b.bin"})
	for _, t := range toks {
		vectors = append(vectors, []string{"-r", t})
	}
	nRand := 25
	if r.tier == "thorough" {
		nRand = 400
	}
	for i := 0; i < nRand; i++ {
		v := []string{"-r"}
		for _, t := range toks {
			if g.chance(35) {
				v = append(v, t)
			}
		}
		vectors = append(vectors, v)
	}
	arrs := []string{"pull", "push", "local", "libpull", "libpush"}
	type outc struct {
		res  sessionResult
		snap snapshot
	}
	var wg sync.WaitGroup
	var mu sync.Mutex
	all := make([]map[string]outc, len(vectors))
	for vi, v := range vectors {
		all[vi] = map[string]outc{}
		for _, arr := range arrs {
			wg.Add(1)
			go func(vi int, v []string, arr string) {
				defer wg.Done()
				dest := filepath.Join(base, fmt.Sprintf("d%d-%s", vi, arr))
				prior.materialise(dest)
				res := pool.run(sessionSpec{ID: fmt.Sprintf("om%d-%s", vi, arr), Arr: arr, Args: v, SrcRoot: srcRoot, Srcs: []string{""}, Dest: dest, TimeoutMs: 60000})
				snap := takeSnapshot(dest)
				mu.Lock()
				all[vi][arr] = outc{res, snap}
				mu.Unlock()
			}(vi, v, arr)
		}
	}
	wg.Wait()
	for vi, v := range vectors {
		hasT := false
		for _, a := range v {
			if a == "-t" || a == "-a" || strings.HasPrefix(a, "-") && !strings.HasPrefix(a, "--") && strings.Contains(a, "t") {
				hasT = true
			}
		}
		fields := "tcmor"
		if hasT {
			fields = "tcmorT"
		}
		canon := func(s snapshot) string {
			// directory mtimes depend on the order of later writes: compare type, mode and owner only
			files, dirs, others := snapshot{}, snapshot{}, snapshot{}
			for p, e := range s {
				switch e.Type {
				case "d":
					dirs[p] = e
				case "f":
					files[p] = e
				default: // mtimes of symlinks / devices / fifos / sockets are never set by the receiver
					others[p] = e
				}
			}
			return files.canon(fields) + dirs.canon("tmo") + others.canon("tcmor")
		}
		ref := ""
		var outcomes []string
		for _, arr := range arrs {
			o := all[vi][arr]
			outcomes = append(outcomes, arr+"="+o.res.Outcome)
			r.count("optmatrix/" + arr + "/" + o.res.Outcome)
		}
		sort.Strings(outcomes)
		id := fmt.Sprintf("om%d", vi)
		detail := map[string]any{"args": v, "outcomes": outcomes}
		bad := false
		for _, arr := range arrs {
			o := all[vi][arr]
			if o.res.Outcome != "ok" {
				detail[arr+"_err"] = o.res.Err + " | " + tailStr(o.res.Stderr, 300)
				bad = true
			}
		}
		if bad {
			r.oracleFail(id, "an accepted option combination did not complete in every arrangement (desynchronisation / error)", detail)
			continue
		}
		for _, arr := range arrs {
			c := canon(all[vi][arr].snap)
			if ref == "" {
				ref = c
			} else if c != ref {
				detail["differs"] = arr
				detail["reference_pull"] = digest(ref)
				detail["diff"] = firstDiff(ref, c)
				r.oracleFail(id, "the resulting destination depends on the arrangement (who sends)", detail)
				break
			}
		}
	}
	r.notes["optmatrix_vectors"] = len(vectors)
	return nil
}

func firstDiff(a, b string) string {
	la, lb := strings.Split(a, "\n"), strings.Split(b, "\n")
	for i := 0; i < len(la) || i < len(lb); i++ {
		x, y := "", ""
		if i < len(la) {
			x = la[i]
		}
		if i < len(lb) {
			y = lb[i]
		}
		if x != y {
			return fmt.Sprintf("%q vs %q", x, y)
		}
	}
	return ""
}

func init() { components["popt"] = runPopt }
