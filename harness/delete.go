package main

import (
	"fmt"
	"os"
	"path/filepath"
	"sort"
	"strings"
	"sync"

	"github.com/gokrazy/rsync/verifhook"
)

type tnode struct {
	path string
	typ  string // d f o
}

// genDestTree: directories with 0..many entries per directory in every sort position.
func genDestTree(g *rng, maxDepth int) []tnode {
	var out []tnode
	names := []string{"a", "b", "c", "m", "x1", "x2", "z", "0", "aa", "keep", "\xc3\xa9", "M", "b.txt", "a-b", "#notes#", "-dash", "!bang", "+plus", " sp"} // incl. names that sort before "."
	var rec func(prefix string, depth int)
	rec = func(prefix string, depth int) {
		n := g.intn(6)
		if depth == 0 {
			n = 2 + g.intn(6)
		}
		perm := g.intn(len(names))
		for i := 0; i < n; i++ {
			nm := names[(perm+i*3)%len(names)]
			p := filepath.Join(prefix, nm)
			dup := false
			for _, e := range out {
				if e.path == p {
					dup = true
				}
			}
			if dup {
				continue
			}
			switch x := g.intn(10); {
			case x < 3 && depth < maxDepth:
				out = append(out, tnode{p, "d"})
				rec(p, depth+1)
			case x < 4:
				out = append(out, tnode{p, "o"})
			default:
				out = append(out, tnode{p, "f"})
			}
		}
	}
	rec("", 0)
	return out
}

func materialiseNodes(root string, nodes []tnode) {
	os.MkdirAll(root, 0o755)
	for _, n := range nodes {
		p := filepath.Join(root, n.path)
		switch n.typ {
		case "d":
			os.MkdirAll(p, 0o755)
		case "f":
			os.MkdirAll(filepath.Dir(p), 0o755)
			os.WriteFile(p, []byte(n.path), 0o644)
		case "o":
			os.MkdirAll(filepath.Dir(p), 0o755)
			os.Symlink("target", p)
		}
	}
}

func listPaths(root string) []string {
	var out []string
	filepath.Walk(root, func(p string, fi os.FileInfo, err error) error {
		if err != nil {
			return nil
		}
		rel, _ := filepath.Rel(root, p)
		if rel != "." {
			out = append(out, rel)
		}
		return nil
	})
	sort.Strings(out)
	return out
}

// the property, evaluated directly: an entry survives iff it is named in the
// list (and reachable: all ancestors survive) or is protected by an exclude
// rule (or lies below a protected directory); plain-name rules.
func deleteOracle(nodes []tnode, listed map[string]bool, rules []string) []string {
	var out []string
	sort.Slice(nodes, func(i, j int) bool { return nodes[i].path < nodes[j].path })
	surv := map[string]string{} // path -> "listed" | "protected"
	for _, n := range nodes {
		parent := filepath.Dir(n.path)
		ps := "listed"
		if parent != "." {
			var ok bool
			if ps, ok = surv[parent]; !ok {
				continue
			}
		}
		switch {
		case ps == "protected":
			surv[n.path] = "protected"
		case listed[n.path]:
			surv[n.path] = "listed"
		case refExcluded(rules, n.path):
			surv[n.path] = "protected"
		default:
			continue
		}
		out = append(out, n.path)
	}
	sort.Strings(out)
	return out
}

// reference semantics of plain-name rules: first matching rule decides;
// a pattern without '/' matches the last component, one with '/' the whole name
func refExcluded(rules []string, name string) bool {
	for _, r := range rules {
		incl := false
		pat := r
		if strings.HasPrefix(r, "- ") {
			pat = r[2:]
		} else if strings.HasPrefix(r, "+ ") {
			pat, incl = r[2:], true
		}
		pat = strings.TrimSuffix(pat, "/")
		target := name
		if !strings.Contains(pat, "/") {
			target = filepath.Base(name)
		}
		if pat == target {
			return !incl
		}
	}
	return false
}

func runDelete(r *run) error {
	g := newRng(r.seed, "delete")
	base, err := mkTemp("delete")
	if err != nil {
		return err
	}
	defer rmTemp(base)
	n := 400
	if r.tier == "thorough" {
		n = 5000
	}
	var mu sync.Mutex
	var wg sync.WaitGroup
	sem := make(chan struct{}, 12)
	for i := 0; i < n; i++ {
		nodes := genDestTree(g, 3)
		listed := map[string]bool{}
		var names []string
		hasTop := !g.chance(7)
		if hasTop {
			names = append(names, ".")
		}
		closed := !g.chance(10)
		for _, nd := range nodes {
			p := g.intn(100) < 55
			if closed && filepath.Dir(nd.path) != "." && !listed[filepath.Dir(nd.path)] {
				p = false // a real sender lists parents of listed entries
			}
			if p {
				listed[nd.path] = true
				names = append(names, nd.path)
			}
		}
		// names the source has but the destination does not
		for k := g.intn(3); k > 0; k-- {
			names = append(names, fmt.Sprintf("new%d", k))
		}
		sort.Strings(names)
		var rules []string
		if g.chance(45) {
			for k := 1 + g.intn(3); k > 0; k-- {
				nm := []string{"keep", "x1", "b", "m", "a", "z", "c/keep", "b.txt"}[g.intn(8)]
				rules = append(rules, []string{"- ", "+ ", "- "}[g.intn(3)]+nm)
			}
		}
		ioerr := int32(0)
		if g.chance(8) {
			ioerr = 1
		}
		dry := g.chance(8)
		id := fmt.Sprintf("del%d", i)
		dir := filepath.Join(base, id)
		materialiseNodes(dir, nodes)
		wg.Add(1)
		sem <- struct{}{}
		go func(id, dir string, nodes []tnode, names, rules []string, listed map[string]bool, hasTop bool, ioerr int32, dry bool) {
			defer wg.Done()
			defer func() { <-sem }()
			err := verifhook.DeleteFiles(dir, names, ioerr, dry, rules)
			got := listPaths(dir)
			os.RemoveAll(dir)
			obs := strings.Join(hexAll(got), ",")
			if err != nil {
				obs = "ERR:" + err.Error()
			}
			var want []string
			if ioerr > 0 || dry || !hasTop {
				for _, nd := range nodes {
					want = append(want, nd.path)
				}
				sort.Strings(want)
			} else {
				want = deleteOracle(nodes, listed, rules)
			}
			var tl []string
			for _, nd := range nodes {
				tl = append(tl, hexOrDash([]byte(nd.path))+":"+nd.typ)
			}
			sort.Strings(tl)
			mu.Lock()
			defer mu.Unlock()
			kind := "delete"
			switch {
			case ioerr > 0:
				kind = "ioerror"
			case dry:
				kind = "dry-run"
			case !hasTop:
				kind = "no-top-dir"
			case len(rules) > 0:
				kind = "with-rules"
			}
			r.count(fmt.Sprintf("%s/removed=%v", kind, len(got) < len(nodes)))
			r.emit("delete", id, []string{strings.Join(tl, ","), strings.Join(hexAll(names), ","), strings.Join(hexAll(rules), ","), fmt.Sprint(ioerr), b01(dry)}, obs, len(got) < len(nodes) && len(got) > 0)
			if strings.Join(got, "\x00") != strings.Join(want, "\x00") {
				r.oracleFail(id, "--delete did not leave exactly the listed plus the protected entries", map[string]any{
					"tree": nodes2str(nodes), "listed": names, "rules": rules, "ioerrors": ioerr, "dry_run": dry, "got": got, "want": want})
			}
		}(id, dir, nodes, names, rules, listed, hasTop, ioerr, dry)
	}
	wg.Wait()
	return runDeleteE2E(r, g, base)
}

func nodes2str(n []tnode) []string {
	var out []string
	for _, x := range n {
		out = append(out, x.typ+":"+x.path)
	}
	return out
}

func hexAll(l []string) []string {
	out := make([]string, len(l))
	for i, s := range l {
		out[i] = hexOrDash([]byte(s))
	}
	return out
}

// end to end: --delete through real sessions, pull / push / local, with and
// without exclude rules, and with the sender's I/O-error flag forced by an
// unreadable source directory.
func runDeleteE2E(r *run, g *rng, base string) error {
	pool := newSessionPool(8)
	defer pool.close()
	n := 24
	if r.tier == "thorough" {
		n = 200
	}
	for i := 0; i < n; i++ {
		srcNodes := genDestTree(g, 2)
		dstNodes := genDestTree(g, 2)
		// make the destination a superset-ish: source entries plus extraneous ones
		byPath := map[string]string{}
		for _, s := range srcNodes {
			byPath[s.path] = s.typ
		}
		var dst []tnode
		for _, s := range srcNodes {
			if g.chance(70) {
				dst = append(dst, s)
			}
		}
		for _, d := range dstNodes {
			if _, ok := byPath[d.path]; !ok {
				// only add when the parent is a directory (or absent) on both sides
				if pt, ok := byPath[filepath.Dir(d.path)]; ok && pt != "d" {
					continue
				}
				dst = append(dst, d)
			}
		}
		// parents are created implicitly on disk: make them explicit in the node list
		have := map[string]bool{}
		for _, d := range dst {
			have[d.path] = true
		}
		for _, d := range append([]tnode{}, dst...) {
			for par := filepath.Dir(d.path); par != "."; par = filepath.Dir(par) {
				if !have[par] {
					have[par] = true
					dst = append(dst, tnode{par, "d"})
				}
			}
		}
		arr := []string{"pull", "push", "local"}[i%3]
		args := []string{"-a", "--delete"}
		var rules []string
		if g.chance(50) {
			for k := 1 + g.intn(2); k > 0; k-- {
				nm := []string{"keep", "x1", "b", "m", "z", "aa"}[g.intn(6)]
				args = append(args, "--exclude="+nm)
				rules = append(rules, "- "+nm)
			}
		}
		withDelete := !g.chance(12)
		if !withDelete {
			args = []string{"-a"}
			rules = nil
		}
		ioErr := g.chance(10) && arr != "pull"
		id := fmt.Sprintf("dele2e%d-%s", i, arr)
		srcRoot := filepath.Join(base, id+"-src")
		dest := filepath.Join(base, id+"-dst")
		materialiseNodes(srcRoot, srcNodes)
		materialiseNodes(dest, dst)
		before := listPaths(dest)
		// what is really on disk is the prior state (entries under a non-directory cannot be created)
		dst = dst[:0]
		for _, p := range before {
			fi, err := os.Lstat(filepath.Join(dest, p))
			if err != nil {
				continue
			}
			typ := "f"
			if fi.IsDir() {
				typ = "d"
			} else if !fi.Mode().IsRegular() {
				typ = "o"
			}
			dst = append(dst, tnode{p, typ})
		}
		spec := sessionSpec{ID: id, Arr: arr, Args: args, SrcRoot: srcRoot, Srcs: []string{""}, Dest: dest, TimeoutMs: 60000}
		if ioErr {
			// a source argument that does not exist: the sender's walk reports an error and sets the I/O-error flag
			spec.Srcs = []string{"", "does-not-exist/"}
		}
		// pull: a source directory that cannot be read (served through an fs.FS whose ReadDir fails)
		if arr == "pull" && !ioErr && withDelete && i%2 == 0 {
			for _, s := range srcNodes {
				// a directory the sender will actually read: neither it nor a parent is excluded
				skip := false
				for p := s.path; p != "." && p != ""; p = filepath.Dir(p) {
					if refExcluded(rules, p) {
						skip = true
					}
				}
				if s.typ == "d" && !skip {
					spec.FaultyDir = s.path
					ioErr = true
					// the unreadable directory's contents are not in the list
					var kept []tnode
					for _, x := range srcNodes {
						if !strings.HasPrefix(x.path, s.path+"/") {
							kept = append(kept, x)
						}
					}
					srcNodes = kept
					break
				}
			}
		}
		res := pool.run(spec)
		after := listPaths(dest)
		// a directory in the way of a non-directory (or vice versa) is outside this property's domain
		conflict := false
		for _, d := range dst {
			if t, ok := byPath[d.path]; ok && t != d.typ && (t == "d" || d.typ == "d") {
				conflict = true
			}
		}
		if conflict {
			r.count("e2e/type-conflict-skipped")
			continue
		}
		r.count(fmt.Sprintf("e2e/%s/%s/ioerr=%v", arr, res.Outcome, ioErr))
		detail := map[string]any{"arr": arr, "args": args, "src": nodes2str(srcNodes), "dst_before": before, "dst_after": after, "err": res.Err}
		if res.Outcome != "ok" {
			r.oracleFail(id, "--delete session failed: "+res.Err, detail)
			continue
		}
		// expected entry set: the transferred entries (source minus excluded subtrees) plus,
		// of the old destination, what is listed or protected
		srcSel := map[string]bool{}
		sort.Slice(srcNodes, func(a, b int) bool { return srcNodes[a].path < srcNodes[b].path })
		for _, s := range srcNodes {
			par := filepath.Dir(s.path)
			if par != "." && !srcSel[par] {
				continue
			}
			if refExcluded(rules, s.path) {
				continue
			}
			srcSel[s.path] = true
		}
		want := map[string]bool{}
		for p := range srcSel {
			want[p] = true
		}
		var old []string
		if withDelete && !ioErr {
			old = deleteOracle(dst, srcSel, rules)
		} else {
			for _, d := range dst {
				old = append(old, d.path)
			}
		}
		for _, p := range old {
			want[p] = true
		}
		var wl []string
		for p := range want {
			wl = append(wl, p)
		}
		sort.Strings(wl)
		if strings.Join(wl, "\x00") != strings.Join(after, "\x00") {
			detail["want"] = wl
			r.oracleFail(id, "after --delete the destination does not hold exactly the listed plus the protected entries", detail)
		}
	}
	return nil
}

func init() { components["delete"] = runDelete }
