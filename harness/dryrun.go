package main

import (
	"fmt"
	"path/filepath"
	"sort"
	"strings"
	"sync"
)

// genMixedTree: every entry type, varied metadata.
func genMixedTree(g *rng, n int, dataBytes int) treeSpec {
	var t treeSpec
	dirs := []string{""}
	for i := 0; i < 1+g.intn(3); i++ {
		d := filepath.Join(dirs[g.intn(len(dirs))], fmt.Sprintf("d%d", i))
		dirs = append(dirs, d)
		t = append(t, nodeSpec{Path: d, Type: "d", Mode: uint32([]int{0o755, 0o700, 0o555, 0o750, 0o511}[g.intn(5)]), Mtime: 1_400_000_000 + int64(g.intn(1e8))})
	}
	types := []string{"f", "f", "f", "l", "p", "s", "c", "b", "f", "l"}
	for i := 0; i < n; i++ {
		ty := types[g.intn(len(types))]
		p := filepath.Join(dirs[g.intn(len(dirs))], fmt.Sprintf("e%02d%s", i, ty))
		ns := nodeSpec{Path: p, Type: ty, Mode: uint32(g.intn(0o1000)), Mtime: []int64{1_300_000_000 + int64(g.intn(3e8)), -86400 * int64(1+g.intn(10000)), 1, 2_000_000_000 + int64(g.intn(1e8))}[g.intn(4)],
			Nsec: int64(g.intn(2)) * int64(g.intn(1e9)), Uid: []int{0, 1234, 65534, 77777}[g.intn(4)], Gid: []int{0, 4321, 65534, 88888}[g.intn(4)]}
		switch ty {
		case "f":
			sz := sizePool[g.intn(9)]
			if dataBytes > 0 && i == 0 {
				sz = dataBytes
			}
			ns.Data = genFileData(g, sz)
			ns.Mode |= 0o400 // readable by the (root) sender anyway; keep owner-read for non-root reruns
		case "l":
			ns.Link = []string{"e00f", "../outside", "/etc/hostname", "dangling-\xff", strings.Repeat("long/", 40) + "x", ".", "d0/../e00f", "./e00f", "d0//x", "d0/", "missing/../also-missing/."}[g.intn(11)]
		case "c", "b":
			ns.Rdev = (1+g.intn(250))<<8 | g.intn(256)
		}
		t = append(t, ns)
	}
	return t
}

// mixedPrior: for every source entry one update situation at the destination,
// plus extraneous entries (candidates for --delete).
func mixedPrior(g *rng, src treeSpec) (treeSpec, map[string]string) {
	var t treeSpec
	sit := map[string]string{}
	for _, n := range src {
		if n.Type == "d" {
			if g.chance(50) {
				d := n
				if g.chance(50) {
					d.Mode, d.Mtime = 0o700, 1_000_000_000
				}
				t = append(t, d)
				sit[n.Path] = "dir-exists"
			}
			continue
		}
		k := []string{"missing", "missing", "same", "same-meta-differs", "different", "wrong-type", "same-subsecond-before"}[g.intn(7)]
		sit[n.Path] = k
		switch k {
		case "missing":
		case "same":
			t = append(t, n)
		case "same-meta-differs":
			d := n
			d.Mode, d.Mtime, d.Uid, d.Gid = uint32(g.intn(0o1000))|0o400, n.Mtime-3600, 0, 0
			t = append(t, d)
		case "same-subsecond-before":
			d := n
			d.Mtime, d.Nsec = n.Mtime-1, []int64{500_000_000, 999_999_999, 1}[g.intn(3)]
			t = append(t, d)
		case "different":
			d := n
			switch n.Type {
			case "f":
				d.Data = mutate(g, append(g.bytes(3), n.Data...))
				d.Mtime = n.Mtime - 100
			case "l":
				d.Link = "elsewhere"
			case "c", "b":
				d.Rdev = n.Rdev + 1
			}
			t = append(t, d)
		case "wrong-type":
			w := []string{"f", "l", "p", "d"}[g.intn(4)]
			if w == n.Type {
				w = map[string]string{"f": "l", "l": "f", "p": "f"}[w]
			}
			t = append(t, nodeSpec{Path: n.Path, Type: w, Data: []byte("in the way"), Link: "in-the-way", Mode: 0o640, Mtime: 1_200_000_000})
		}
	}
	for i := 0; i < g.intn(4); i++ {
		ty := []string{"f", "l", "d", "p"}[g.intn(4)]
		t = append(t, nodeSpec{Path: fmt.Sprintf("extra%d%s", i, ty), Type: ty, Data: []byte("extraneous"), Link: "x", Mode: 0o644, Mtime: 1_100_000_000})
		if ty == "d" {
			t = append(t, nodeSpec{Path: fmt.Sprintf("extra%d%s/inner", i, ty), Type: "f", Data: []byte("inner"), Mode: 0o600, Mtime: 1_100_000_001})
		}
	}
	// parents of nested prior entries exist as directories
	sort.SliceStable(t, func(i, j int) bool { return t[i].Path < t[j].Path })
	return t, sit
}

func pickOpts(g *rng, pool []string) []string {
	var out []string
	for _, o := range pool {
		if g.bool() {
			out = append(out, o)
		}
	}
	return out
}

// C10: sessions with -n against destinations in every update situation.
func runDryRun(r *run) error {
	g := newRng(r.seed, "dryrun")
	base, err := mkTemp("dryrun")
	if err != nil {
		return err
	}
	defer rmTemp(base)
	pool := newSessionPool(8)
	defer pool.close()
	nTrees := 8
	if r.tier == "thorough" {
		nTrees = 80
	}
	arrs := []string{"pull", "push", "local", "libpull", "libpush"}
	type job struct {
		sp       sessionSpec
		before   snapshot
		srcBytes int
		sit      map[string]string
		entries  int
	}
	var jobs []job
	for t := 0; t < nTrees; t++ {
		data := 0
		if t%2 == 0 {
			data = 400000 + g.intn(300000)
		}
		src := genMixedTree(g, 6+g.intn(8), data)
		srcRoot := filepath.Join(base, fmt.Sprintf("src%d", t))
		if err := src.materialise(srcRoot); err != nil {
			return err
		}
		srcBytes := 0
		for _, n := range src {
			srcBytes += len(n.Data)
		}
		for k := 0; k < 5; k++ {
			arr := arrs[(t+k)%len(arrs)]
			args := append([]string{"-r", "-n"}, pickOpts(g, []string{"-l", "-p", "-t", "-g", "-o", "-D", "-c", "-I", "--delete"})...)
			if g.chance(15) {
				args = []string{"-a", "-n", "--delete"}
			}
			if g.chance(10) {
				args = append(args, "--devices")
			}
			if g.chance(10) {
				args = append(args, "--specials")
			}
			id := fmt.Sprintf("dry-t%d-%d-%s", t, k, arr)
			dest := filepath.Join(base, id)
			prior, sit := mixedPrior(g, src)
			if err := prior.materialise(dest); err != nil {
				return err
			}
			sp := sessionSpec{ID: id, Arr: arr, Args: args, SrcRoot: srcRoot, Srcs: []string{""}, Dest: dest, TimeoutMs: 60000}
			jobs = append(jobs, job{sp, takeSnapshot(dest), srcBytes, sit, len(src)})
		}
	}
	var wg sync.WaitGroup
	var mu sync.Mutex
	for _, j := range jobs {
		wg.Add(1)
		go func(j job) {
			defer wg.Done()
			res := pool.run(j.sp)
			after := takeSnapshot(j.sp.Dest)
			mu.Lock()
			defer mu.Unlock()
			r.count("dryrun/" + j.sp.Arr + "/" + res.Outcome)
			r.emit("noop", j.sp.ID, []string{strings.Join(j.sp.Args, " ")}, "ok", true)
			for _, s := range j.sit {
				r.count("situation/" + s)
			}
			detail := map[string]any{"arrangement": j.sp.Arr, "args": j.sp.Args, "err": res.Err, "stderr": tailStr(res.Stderr, 400),
				"regenerate": fmt.Sprintf("VERIF_SEED=%d ./check C10 (session %s)", r.seed, j.sp.ID)}
			if res.Outcome != "ok" {
				r.oracleFail(j.sp.ID, "a dry run did not run to completion ("+res.Outcome+"): "+res.Err, detail)
				return
			}
			const fields = "tcmTNori"
			if b, a := j.before.canon(fields), after.canon(fields); a != b {
				detail["diff"] = snapDiff(j.before, after, fields)
				r.oracleFail(j.sp.ID, "a dry run changed the destination: "+fmt.Sprint(detail["diff"]), detail)
				return
			}
			if res.Bytes >= 0 && j.srcBytes >= 300000 && res.Bytes > int64(j.srcBytes)/4 {
				detail["wire_bytes"], detail["source_bytes"] = res.Bytes, j.srcBytes
				r.oracleFail(j.sp.ID, fmt.Sprintf("a dry run moved %d bytes over the wire for %d bytes of source data", res.Bytes, j.srcBytes), detail)
			}
		}(j)
	}
	wg.Wait()
	r.emit("noop", "dryrun-summary", []string{fmt.Sprint(len(jobs))}, "ok", true)
	r.notes["sessions"] = len(jobs)
	return nil
}

// snapDiff lists the paths whose rendering differs (at most 6).
func snapDiff(a, b snapshot, fields string) []string {
	var out []string
	seen := map[string]bool{}
	for n := range a {
		seen[n] = true
	}
	for n := range b {
		seen[n] = true
	}
	var names []string
	for n := range seen {
		names = append(names, n)
	}
	sort.Strings(names)
	for _, n := range names {
		ea, oka := a[n]
		eb, okb := b[n]
		ra, rb := "absent", "absent"
		if oka {
			ra = strings.TrimSpace(snapshot{n: ea}.canon(fields))
		}
		if okb {
			rb = strings.TrimSpace(snapshot{n: eb}.canon(fields))
		}
		if ra != rb && len(out) < 6 {
			out = append(out, ra+" => "+rb)
		}
	}
	return out
}

func init() { components["dryrun"] = runDryRun }
