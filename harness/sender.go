package main

import (
	"bytes"
	"encoding/binary"
	"encoding/hex"
	"fmt"
	"sort"
	"strings"

	"github.com/gokrazy/rsync/verifhook"
	xmd4 "golang.org/x/crypto/md4"
)

type sumHead struct{ count, blen, slen, rem int32 }

type senderCase struct {
	seed   int32
	head   sumHead
	sum1   []uint32
	sum2   [][]byte // truncated to slen
	basis  []byte   // nil if the sums were not computed over a basis
	target []byte
	kind   string
}

func le32(v int32) []byte {
	var b [4]byte
	binary.LittleEndian.PutUint32(b[:], uint32(v))
	return b[:]
}

func hexOrDash(b []byte) string {
	if len(b) == 0 {
		return "-"
	}
	return hex.EncodeToString(b)
}

// legalSums computes what a receiver holding basis sends for block length blen
// and strong length slen, with the implementation's own checksum functions.
func legalSums(seed int32, basis []byte, blen, slen int32) (sumHead, []uint32, [][]byte) {
	n := int32(len(basis))
	h := sumHead{count: (n + blen - 1) / blen, blen: blen, slen: slen, rem: n % blen}
	var s1 []uint32
	var s2 [][]byte
	for off := int32(0); off < n; off += blen {
		end := off + blen
		if end > n {
			end = n
		}
		blk := basis[off:end]
		s1 = append(s1, verifhook.Checksum1(blk))
		s2 = append(s2, verifhook.Checksum2(seed, blk)[:slen])
	}
	return h, s1, s2
}

func (c *senderCase) request() []byte {
	var b bytes.Buffer
	b.Write(le32(0)) // file index
	b.Write(le32(c.head.count))
	b.Write(le32(c.head.blen))
	b.Write(le32(c.head.slen))
	b.Write(le32(c.head.rem))
	for i := range c.sum1 {
		b.Write(le32(int32(c.sum1[i])))
		b.Write(c.sum2[i])
	}
	b.Write(le32(-1))
	b.Write(le32(-1))
	return b.Bytes()
}

type tok struct {
	lit []byte
	ref int32
}

type senderOut struct {
	head    sumHead
	toks    []tok
	trailer []byte
}

// parseSenderOutput decodes what SendFiles wrote for one file request:
// index, header, tokens, 0, 16-byte sum, then the phase markers.
func parseSenderOutput(out []byte) (*senderOut, error) {
	rd := bytes.NewReader(out)
	r32 := func() (int32, error) {
		var b [4]byte
		if _, err := rd.Read(b[:]); err != nil {
			return 0, err
		}
		if rd.Len() < 0 {
			return 0, fmt.Errorf("short")
		}
		return int32(binary.LittleEndian.Uint32(b[:])), nil
	}
	idx, err := r32()
	if err != nil {
		return nil, fmt.Errorf("no index: %v", err)
	}
	if idx != 0 {
		return nil, fmt.Errorf("index %d", idx)
	}
	var so senderOut
	for _, p := range []*int32{&so.head.count, &so.head.blen, &so.head.slen, &so.head.rem} {
		if *p, err = r32(); err != nil {
			return nil, fmt.Errorf("short header")
		}
	}
	for {
		t, err := r32()
		if err != nil {
			return nil, fmt.Errorf("short token")
		}
		if t == 0 {
			break
		}
		if t > 0 {
			if int(t) > rd.Len() {
				return nil, fmt.Errorf("literal longer than stream")
			}
			lit := make([]byte, t)
			rd.Read(lit)
			so.toks = append(so.toks, tok{lit: lit})
		} else {
			so.toks = append(so.toks, tok{ref: -(t + 1)})
		}
	}
	so.trailer = make([]byte, 16)
	if n, _ := rd.Read(so.trailer); n != 16 {
		return nil, fmt.Errorf("short trailer")
	}
	rest := make([]byte, rd.Len())
	rd.Read(rest)
	want := append(le32(-1), le32(-1)...)
	if !bytes.Equal(rest, want) {
		return nil, fmt.Errorf("unexpected tail %x", rest)
	}
	return &so, nil
}

func fnv64(b []byte) uint64 {
	h := uint64(0xcbf29ce484222325)
	for _, c := range b {
		h = (h ^ uint64(c)) * 0x100000001b3
	}
	return h
}

func blockLen(h sumHead, i int32) int32 {
	if i == h.count-1 && h.rem != 0 {
		return h.rem
	}
	return h.blen
}

// canonical observable: header | tokens (block references normalised to the
// least index with identical (len, sum1, sum2)) | trailer
func (c *senderCase) observable(so *senderOut) string {
	class := map[string]int32{}
	classOf := make([]int32, len(c.sum1))
	for i := range c.sum1 {
		k := fmt.Sprintf("%d/%d/%x", blockLen(c.head, int32(i)), c.sum1[i], c.sum2[i])
		if _, ok := class[k]; !ok {
			class[k] = int32(i)
		}
		classOf[i] = class[k]
	}
	var sb strings.Builder
	fmt.Fprintf(&sb, "H:%d,%d,%d,%d|T:", so.head.count, so.head.blen, so.head.slen, so.head.rem)
	for i, t := range so.toks {
		if i > 0 {
			sb.WriteByte(',')
		}
		if t.lit != nil {
			fmt.Fprintf(&sb, "L%d:%016x", len(t.lit), fnv64(t.lit))
		} else if int(t.ref) < len(classOf) && t.ref >= 0 {
			fmt.Fprintf(&sb, "R%d", classOf[t.ref])
		} else {
			fmt.Fprintf(&sb, "R?%d", t.ref)
		}
	}
	fmt.Fprintf(&sb, "|S:%x", so.trailer)
	return sb.String()
}

func (c *senderCase) modelFields() []string {
	sums := make([]string, len(c.sum1))
	for i := range c.sum1 {
		sums[i] = fmt.Sprintf("%d:%s", c.sum1[i], hexOrDash(c.sum2[i]))
	}
	return []string{
		fmt.Sprint(c.seed),
		fmt.Sprintf("%d,%d,%d,%d", c.head.count, c.head.blen, c.head.slen, c.head.rem),
		strings.Join(sums, ";"),
		hexOrDash(c.target),
	}
}

// applyTokens is the independent oracle: what the token stream denotes.
func applyTokens(basis []byte, h sumHead, toks []tok) ([]byte, error) {
	var out []byte
	for _, t := range toks {
		if t.lit != nil {
			out = append(out, t.lit...)
			continue
		}
		off := int64(t.ref) * int64(h.blen)
		l := int64(blockLen(h, t.ref))
		if t.ref < 0 || off+l > int64(len(basis)) {
			return nil, fmt.Errorf("reference %d outside basis", t.ref)
		}
		out = append(out, basis[off:off+l]...)
	}
	return out, nil
}

func fileSum(seed int32, data []byte) []byte {
	h := xmd4.New()
	h.Write(le32(seed))
	h.Write(data)
	return h.Sum(nil)
}

type litStats struct{ literal, matched int }

func runSenderCase(r *run, id string, c *senderCase) (so *senderOut, ok bool) {
	out, err := verifhook.SenderRun(c.seed, c.request(), c.target)
	obs := ""
	if err != nil {
		obs = "ERR:" + errClass(err)
	} else if so, err = parseSenderOutput(out); err != nil {
		obs = "BADOUT:" + err.Error()
		so = nil
	} else {
		obs = c.observable(so)
	}
	nontrivial := false
	if so != nil {
		hasL, hasR := false, false
		for _, t := range so.toks {
			if t.lit != nil {
				hasL = true
			} else {
				hasR = true
			}
		}
		nontrivial = hasL && hasR
		r.count(fmt.Sprintf("%s/lit=%v/ref=%v", c.kind, hasL, hasR))
	} else {
		r.count(c.kind + "/" + obs)
	}
	r.emit("sender", id, c.modelFields(), obs, nontrivial)
	detail := func() map[string]any {
		return map[string]any{"seed": c.seed, "head": []int32{c.head.count, c.head.blen, c.head.slen, c.head.rem},
			"basis_hex": clipHex(c.basis), "target_hex": clipHex(c.target), "basis_len": len(c.basis), "target_len": len(c.target), "kind": c.kind}
	}
	if c.basis != nil {
		// property oracle (C02, sender half): legal sums => success, exact reconstruction, right trailer
		if so == nil {
			r.oracleFail(id, "sender failed on a legal checksum set: "+obs, detail())
			return nil, false
		}
		got, err := applyTokens(c.basis, so.head, so.toks)
		if err != nil {
			r.oracleFail(id, "sender emitted an invalid block reference: "+err.Error(), detail())
			return so, false
		}
		if !bytes.Equal(got, c.target) {
			// a block reference to different content with equal truncated strong sum is
			// the property's stated escape (only possible for slen < 16 in practice)
			if c.head.slen == 16 || !explainedByStrongCollision(c, so) {
				r.oracleFail(id, "token stream applied to the basis does not reproduce the source file", detail())
				return so, false
			}
			r.count("strong-collision-explained")
		}
		if !bytes.Equal(so.trailer, fileSum(c.seed, c.target)) {
			r.oracleFail(id, "whole-file checksum trailer is wrong", detail())
			return so, false
		}
		if so.head != c.head && !(len(c.target) == 0 || c.head.count == 0) {
			r.oracleFail(id, "echoed checksum header differs from the request", detail())
			return so, false
		}
	}
	return so, true
}

// With truncated strong sums a reference may legally denote different bytes
// when the truncated sums collide; check that every wrong reference is of
// that kind.
func explainedByStrongCollision(c *senderCase, so *senderOut) bool {
	pos := 0
	for _, t := range so.toks {
		if t.lit != nil {
			if pos+len(t.lit) > len(c.target) || !bytes.Equal(c.target[pos:pos+len(t.lit)], t.lit) {
				return false
			}
			pos += len(t.lit)
			continue
		}
		l := int(blockLen(so.head, t.ref))
		off := int(t.ref) * int(so.head.blen)
		if pos+l > len(c.target) || off+l > len(c.basis) {
			return false
		}
		w := c.target[pos : pos+l]
		if !bytes.Equal(w, c.basis[off:off+l]) {
			if !bytes.Equal(verifhook.Checksum2(c.seed, w)[:so.head.slen], c.sum2[t.ref]) || verifhook.Checksum1(w) != c.sum1[t.ref] {
				return false
			}
		}
		pos += l
	}
	return pos == len(c.target)
}

func clipHex(b []byte) string {
	if len(b) > 4096 {
		return hex.EncodeToString(b[:4096]) + fmt.Sprintf("…(+%d bytes, regenerate from seed)", len(b)-4096)
	}
	return hex.EncodeToString(b)
}

func errClass(err error) string {
	s := err.Error()
	for _, k := range []string{"file has changed mid-transfer", "invalid block length", "invalid checksum", "invalid remainder", "EOF", "out of range", "corruption", "overflow"} {
		if strings.Contains(s, k) {
			return strings.ReplaceAll(k, " ", "_")
		}
	}
	if len(s) > 60 {
		s = s[:60]
	}
	return s
}

// ---------------------------------------------------------------- generators

func allStrings(alpha []byte, maxLen int) [][]byte {
	out := [][]byte{{}}
	prev := [][]byte{{}}
	for l := 1; l <= maxLen; l++ {
		var cur [][]byte
		for _, p := range prev {
			for _, a := range alpha {
				s := append(append([]byte{}, p...), a)
				cur = append(cur, s)
			}
		}
		out = append(out, cur...)
		prev = cur
	}
	return out
}

// structured large files: random / periodic / low entropy / high bytes
func genData(g *rng, n int) []byte {
	b := make([]byte, n)
	switch g.intn(5) {
	case 0, 1: // high entropy
		for i := range b {
			b[i] = byte(g.next())
		}
	case 2: // periodic with a short period
		p := 1 + g.intn(97)
		pat := g.bytes(p)
		for i := range b {
			b[i] = pat[i%p]
		}
	case 3: // low entropy: two symbols, one >= 0x80
		for i := range b {
			if g.intn(7) == 0 {
				b[i] = 0xfe
			}
		}
	case 4: // runs
		for i := 0; i < n; {
			l := 1 + g.intn(3000)
			c := byte(g.next())
			for j := 0; j < l && i < n; j++ {
				b[i] = c
				i++
			}
		}
	}
	return b
}

type edit struct {
	kind string
	pos  int
	n    int
}

// editData derives a target from a basis by local edits; returns the number
// of edited (inserted/replaced) bytes and the edit list.
func editData(g *rng, basis []byte, nEdits int, maxEdit int) (target []byte, edited int, edits []edit) {
	target = append([]byte{}, basis...)
	for e := 0; e < nEdits; e++ {
		n := 1 + g.intn(maxEdit)
		pos := 0
		if len(target) > 0 {
			pos = g.intn(len(target) + 1)
		}
		switch g.intn(5) {
		case 0: // insert
			ins := g.bytes(n)
			target = append(target[:pos], append(ins, target[pos:]...)...)
			edited += n
			edits = append(edits, edit{"insert", pos, n})
		case 1: // delete
			if pos+n > len(target) {
				n = len(target) - pos
			}
			target = append(target[:pos], target[pos+n:]...)
			edits = append(edits, edit{"delete", pos, n})
		case 2: // replace
			if pos+n > len(target) {
				n = len(target) - pos
			}
			copy(target[pos:pos+n], g.bytes(n))
			edited += n
			edits = append(edits, edit{"replace", pos, n})
		case 3: // prepend
			target = append(g.bytes(n), target...)
			edited += n
			edits = append(edits, edit{"prepend", 0, n})
		case 4: // append
			target = append(target, g.bytes(n)...)
			edited += n
			edits = append(edits, edit{"append", len(target), n})
		}
	}
	return target, edited, edits
}

func runSender(r *run) error {
	g := newRng(r.seed, "sender")
	id := 0
	next := func() string { id++; return fmt.Sprintf("s%d", id) }

	// (1) bounded-exhaustive small stream
	alpha := []byte{0x01, 0xff}
	maxLen := 5
	if r.tier == "thorough" {
		maxLen = 6
	}
	strs := allStrings(alpha, maxLen)
	r.notes["exhaustive_small"] = fmt.Sprintf("alphabet %x, all (basis,target) pairs of length 0..%d, blen 1..3, slen {0,2,16}", alpha, maxLen)
	for _, basis := range strs {
		for _, target := range strs {
			for blen := int32(1); blen <= 3; blen++ {
				for _, slen := range []int32{0, 2, 16} {
					if len(basis) == 0 && (blen > 1 || slen != 16) {
						continue // all the same request: no sums
					}
					c := &senderCase{seed: 7, basis: basis, target: target, kind: "exh"}
					if len(basis) == 0 {
						c.head = sumHead{0, 0, 0, 0} // what requestFullFile sends
					} else {
						c.head, c.sum1, c.sum2 = legalSums(c.seed, basis, blen, slen)
					}
					runSenderCase(r, next(), c)
				}
			}
		}
	}

	// (2) small random with richer alphabet, longer
	nSmall := 4000
	if r.tier == "thorough" {
		nSmall = 60000
	}
	al2 := []byte{0x00, 0x01, 0x7f, 0x80, 0xff}
	for i := 0; i < nSmall; i++ {
		bl := 1 + g.intn(40)
		basis := make([]byte, bl)
		for j := range basis {
			basis[j] = al2[g.intn(len(al2))]
		}
		blen := int32(1 + g.intn(8))
		slen := []int32{0, 1, 2, 8, 16}[g.intn(5)]
		var target []byte
		switch g.intn(4) {
		case 0:
			target = make([]byte, g.intn(60))
			for j := range target {
				target[j] = al2[g.intn(len(al2))]
			}
		case 1: // blocks of the basis permuted / duplicated, remainder reused mid-file
			nb := (bl + int(blen) - 1) / int(blen)
			for k := 0; k < 1+g.intn(8); k++ {
				b := g.intn(nb)
				e := (b + 1) * int(blen)
				if e > bl {
					e = bl
				}
				target = append(target, basis[b*int(blen):e]...)
				if g.chance(30) {
					target = append(target, al2[g.intn(len(al2))])
				}
			}
		default:
			target, _, _ = editData(g, basis, 1+g.intn(3), 6)
		}
		c := &senderCase{seed: int32(g.next()), basis: basis, target: target, kind: "small"}
		c.head, c.sum1, c.sum2 = legalSums(c.seed, basis, blen, slen)
		runSenderCase(r, next(), c)
	}

	// (3) weak-checksum collisions: (a,b,c) vs (a+1,b-2,c+1) share S1 and S2
	for i := 0; i < 300; i++ {
		blen := int32(3 + g.intn(6))
		blk := g.bytes(int(blen))
		for j := range blk {
			blk[j] = 10 + blk[j]%100
		}
		coll := append([]byte{}, blk...)
		p := g.intn(int(blen) - 2)
		coll[p]++
		coll[p+1] -= 2
		coll[p+2]++
		basis := append(append(append([]byte{}, blk...), g.bytes(int(blen))...), blk...)
		target := append(append(append([]byte{}, g.bytes(g.intn(4))...), coll...), blk...)
		if verifhook.Checksum1(blk) != verifhook.Checksum1(coll) {
			return fmt.Errorf("weak collision construction broken")
		}
		slen := []int32{0, 2, 16}[g.intn(3)]
		c := &senderCase{seed: int32(g.next()), basis: basis, target: target, kind: "weakcoll"}
		c.head, c.sum1, c.sum2 = legalSums(c.seed, basis, blen, slen)
		runSenderCase(r, next(), c)
	}

	// (4) structured large files: window crossings, foreign block sizes
	nLarge := 10
	if r.tier == "thorough" {
		nLarge = 120
	}
	blens := []int32{700, 704, 1024, 1448, 2048, 4096, 8192, 32768, 131072}
	for i := 0; i < nLarge; i++ {
		n := 200000 + g.intn(900000)
		if r.tier == "thorough" && g.chance(20) {
			n = 1500000 + g.intn(1800000)
		}
		basis := genData(g, n)
		var blen int32
		switch g.intn(3) {
		case 0:
			blen = verifhook.SumSizesSqroot(int64(n)).BlockLength
		default:
			blen = blens[g.intn(len(blens))]
		}
		var target []byte
		kind := "large"
		switch g.intn(6) {
		case 0:
			target = append([]byte{}, basis...)
			kind = "large-identical"
		case 1: // long unmatched run (> window) in the middle, matched data after it
			cut := g.intn(n)
			run := g.bytes(270000 + g.intn(300000))
			target = append(append(append([]byte{}, basis[:cut]...), run...), basis[cut:]...)
			kind = "large-longrun"
		case 2: // long unmatched tail
			target = append(append([]byte{}, basis[:g.intn(n)]...), g.bytes(264000+g.intn(400000))...)
			kind = "large-longtail"
		default:
			target, _, _ = editData(g, basis, 1+g.intn(6), 5000)
			kind = "large-edits"
		}
		c := &senderCase{seed: int32(g.next()), basis: basis, target: target, kind: kind}
		c.head, c.sum1, c.sum2 = legalSums(c.seed, basis, blen, 16)
		if g.chance(15) {
			c.head, c.sum1, c.sum2 = legalSums(c.seed, basis, blen, 2)
		}
		runSenderCase(r, next(), c)
	}
	// (5) in every run: a peer that chose 128 KiB blocks and a long unmatched run: the largest single read
	// request the search makes (pending literal + two blocks) against the window of 3 blocks
	for _, tail := range []bool{false, true} {
		basis := genData(g, 600000)
		run := g.bytes(420000)
		cut := 150000 + g.intn(1000)
		target := append(append(append([]byte{}, basis[:cut]...), run...), basis[cut:]...)
		kind := "window-growth-run"
		if tail {
			target, kind = append(append([]byte{}, basis[:cut]...), run...), "window-growth-tail"
		}
		c := &senderCase{seed: int32(g.next()), basis: basis, target: target, kind: kind}
		c.head, c.sum1, c.sum2 = legalSums(c.seed, basis, 131072, 16)
		runSenderCase(r, next(), c)
	}
	return nil
}

func init() {
	components["sender"] = runSender
	_ = sort.Ints
}
