package main

import (
	"fmt"

	"github.com/gokrazy/rsync/verifhook"
)

// C16: literal data is bounded by the edited bytes plus a small multiple of the
// block length per edit; an identical file costs no literal data.
func literalBytes(so *senderOut) (lit int, refs int) {
	for _, t := range so.toks {
		if t.lit != nil {
			lit += len(t.lit)
		} else {
			refs++
		}
	}
	return
}

func runEdits(r *run) error {
	g := newRng(r.seed, "edits")
	id := 0
	next := func() string { id++; return fmt.Sprintf("e%d", id) }
	type spec struct {
		n      int
		nEdits int
	}
	var specs []spec
	if r.tier == "thorough" {
		for i := 0; i < 60; i++ {
			specs = append(specs, spec{100000 + g.intn(3000000), g.intn(7)})
		}
		specs = append(specs, spec{9 << 20, 3}, spec{17<<20 + 12345, 5}, spec{33 << 20, 2})
	} else {
		for i := 0; i < 9; i++ {
			specs = append(specs, spec{100000 + g.intn(1100000), g.intn(5)})
		}
		specs = append(specs, spec{2<<20 + 777, 0}, spec{3 << 20, 2})
	}
	for _, sp := range specs {
		basis := g.bytes(sp.n) // high entropy
		blen := verifhook.SumSizesSqroot(int64(sp.n)).BlockLength
		if g.chance(40) {
			blen = []int32{700, 1024, 2048, 8192, 16384, 65536}[g.intn(6)]
		}
		var target []byte
		edited, nEd := 0, sp.nEdits
		kind := "edits"
		if sp.nEdits == 0 {
			target = append([]byte{}, basis...)
			kind = "identical"
		} else if g.chance(25) {
			// prepend a weak-checksum collision of the first block: same S1/S2, other bytes
			blk := append([]byte{}, basis[:blen]...)
			p := g.intn(int(blen) - 2)
			for blk[p] == 0xff || blk[p+1] < 2 || blk[p+2] == 0xff || blk[p] == 0x7f || blk[p+1] == 0x80 || blk[p+1] == 0x81 || blk[p+2] == 0x7f {
				p = g.intn(int(blen) - 2)
			}
			blk[p]++
			blk[p+1] -= 2
			blk[p+2]++
			if verifhook.Checksum1(blk) != verifhook.Checksum1(basis[:blen]) {
				return fmt.Errorf("weak collision construction broken")
			}
			target = append(blk, basis...)
			edited, nEd = int(blen), 1
			kind = "weakcoll-prepend"
		} else {
			var eds []edit
			target, edited, eds = editData(g, basis, sp.nEdits, 20000)
			_ = eds
		}
		c := &senderCase{seed: int32(g.next()), basis: basis, target: target, kind: kind}
		c.head, c.sum1, c.sum2 = legalSums(c.seed, basis, blen, 16)
		cid := next()
		var so *senderOut
		if len(target) <= 3<<20 {
			so, _ = runSenderCase(r, cid, c) // also feeds the model correspondence
		} else {
			out, err := verifhook.SenderRun(c.seed, c.request(), c.target)
			if err == nil {
				so, err = parseSenderOutput(out)
			}
			if err != nil {
				r.oracleFail(cid, "sender failed: "+err.Error(), map[string]any{"n": sp.n, "blen": blen})
				continue
			}
			r.count("oracle-only-large")
		}
		if so == nil {
			continue
		}
		lit, refs := literalBytes(so)
		bound := edited + 2*int(blen)*(nEd+1)
		if kind == "identical" {
			bound = 0
		}
		r.count(fmt.Sprintf("%s/edits=%d", kind, nEd))
		r.notes[cid] = fmt.Sprintf("%s n=%d blen=%d edits=%d edited=%d literal=%d refs=%d bound=%d", kind, sp.n, blen, nEd, edited, lit, refs, bound)
		if lit > bound {
			r.oracleFail(cid, fmt.Sprintf("unchanged data re-sent: %d literal bytes for %d edited bytes in %d edits (block length %d, bound %d)", lit, edited, nEd, blen, bound),
				map[string]any{"seed": c.seed, "kind": kind, "basis_len": len(basis), "target_len": len(target), "blen": blen,
					"regenerate": fmt.Sprintf("VERIF_SEED=%d ./check C16 (case %s of component edits)", r.seed, cid)})
		}
	}
	return nil
}

func init() { components["edits"] = runEdits }
