package main

import (
	"fmt"

	"github.com/gokrazy/rsync/verifhook"
)

// C16: literal data is bounded by the edited bytes plus a small multiple of the
// block length per edit; an identical file costs no literal data.
func literalBytes(so *senderOut) (lit int, refs int) {
	for _, t := range so.toks {
		if t.lit != nil {
			lit += len(t.lit)
		} else {
			refs++
		}
	}
	return
}

func runEdits(r *run) error {
	g := newRng(r.seed, "edits")
	id := 0
	next := func() string { id++; return fmt.Sprintf("e%d", id) }
	type spec struct {
		n       int
		nEdits  int
		maxEdit int // longest single edit; 0 = 20000
	}
	var specs []spec
	if r.tier == "thorough" {
		for i := 0; i < 60; i++ {
			specs = append(specs, spec{n: 100000 + g.intn(3000000), nEdits: g.intn(7)})
		}
		specs = append(specs, spec{n: 9 << 20, nEdits: 3}, spec{n: 17<<20 + 12345, nEdits: 5}, spec{n: 33 << 20, nEdits: 2})
		for i := 0; i < 15; i++ { // long unmatched runs (well beyond block length + chunk size) with unchanged data behind them
			specs = append(specs, spec{n: 1000000 + g.intn(2000000), nEdits: 1 + g.intn(3), maxEdit: 60000 + g.intn(700000)})
		}
	} else {
		for i := 0; i < 9; i++ {
			specs = append(specs, spec{n: 100000 + g.intn(1100000), nEdits: g.intn(5)})
		}
		specs = append(specs, spec{n: 2<<20 + 777}, spec{n: 3 << 20, nEdits: 2})
		// long unmatched runs (well beyond block length + chunk size) with unchanged data behind them
		specs = append(specs, spec{n: 1500000, nEdits: 1, maxEdit: 700000}, spec{n: 2000000, nEdits: 3, maxEdit: 120000}, spec{n: 1200000, nEdits: 2, maxEdit: 400000})
	}
	for _, sp := range specs {
		basis := g.bytes(sp.n) // high entropy
		blen := verifhook.SumSizesSqroot(int64(sp.n)).BlockLength
		if g.chance(40) {
			blen = []int32{700, 1024, 2048, 8192, 16384, 65536}[g.intn(6)]
		}
		var target []byte
		edited, nEd := 0, sp.nEdits
		kind := "edits"
		if sp.nEdits == 0 {
			target = append([]byte{}, basis...)
			kind = "identical"
		} else if sp.maxEdit == 0 && g.chance(25) {
			// prepend a weak-checksum collision of the first block: same S1/S2, other bytes
			blk := append([]byte{}, basis[:blen]...)
			p := g.intn(int(blen) - 2)
			for blk[p] == 0xff || blk[p+1] < 2 || blk[p+2] == 0xff || blk[p] == 0x7f || blk[p+1] == 0x80 || blk[p+1] == 0x81 || blk[p+2] == 0x7f {
				p = g.intn(int(blen) - 2)
			}
			blk[p]++
			blk[p+1] -= 2
			blk[p+2]++
			if verifhook.Checksum1(blk) != verifhook.Checksum1(basis[:blen]) {
				return fmt.Errorf("weak collision construction broken")
			}
			target = append(blk, basis...)
			edited, nEd = int(blen), 1
			kind = "weakcoll-prepend"
		} else {
			var eds []edit
			if sp.maxEdit > 0 {
				// one long run of new data in the middle (inserted, or replacing as many bytes), then short edits
				kind = "long-edits"
				pos := len(basis)/4 + g.intn(len(basis)/2)
				run := g.bytes(sp.maxEdit)
				rest := basis[pos:]
				if g.bool() && len(rest) > sp.maxEdit {
					rest = rest[sp.maxEdit:]
				}
				long := append(append(append([]byte{}, basis[:pos]...), run...), rest...)
				target, edited, eds = editData(g, long, sp.nEdits-1, 20000)
				edited += sp.maxEdit
			} else {
				target, edited, eds = editData(g, basis, sp.nEdits, 20000)
			}
			_ = eds
		}
		c := &senderCase{seed: int32(g.next()), basis: basis, target: target, kind: kind}
		c.head, c.sum1, c.sum2 = legalSums(c.seed, basis, blen, 16)
		cid := next()
		var so *senderOut
		if len(target) <= 3<<20 {
			so, _ = runSenderCase(r, cid, c) // also feeds the model correspondence
		} else {
			out, err := verifhook.SenderRun(c.seed, c.request(), c.target)
			if err == nil {
				so, err = parseSenderOutput(out)
			}
			if err != nil {
				r.oracleFail(cid, "sender failed: "+err.Error(), map[string]any{"n": sp.n, "blen": blen})
				continue
			}
			r.count("oracle-only-large")
		}
		if so == nil {
			continue
		}
		lit, refs := literalBytes(so)
		bound := edited + 2*int(blen)*(nEd+1)
		if kind == "identical" {
			bound = 0
		}
		r.count(fmt.Sprintf("%s/edits=%d", kind, nEd))
		r.notes[cid] = fmt.Sprintf("%s n=%d blen=%d edits=%d edited=%d literal=%d refs=%d bound=%d", kind, sp.n, blen, nEd, edited, lit, refs, bound)
		if lit > bound {
			r.oracleFail(cid, fmt.Sprintf("unchanged data re-sent: %d literal bytes for %d edited bytes in %d edits (block length %d, bound %d)", lit, edited, nEd, blen, bound),
				map[string]any{"seed": c.seed, "kind": kind, "basis_len": len(basis), "target_len": len(target), "blen": blen,
					"regenerate": fmt.Sprintf("VERIF_SEED=%d ./check C16 (case %s of component edits)", r.seed, cid)})
		}
	}
	return nil
}

func init() { components["edits"] = runEdits }
