package main

import (
	"bytes"
	"fmt"
	"io"
	"os"
	"path/filepath"
	"sort"
	"strings"

	"github.com/gokrazy/rsync/verifhook"
)

// stepReader hands out wire up to the next boundary; when the consumer asks
// for more at a boundary it first calls at(i) — the consumer is then blocked
// reading the byte after boundary i. cut >= 0: the stream ends (EOF) at that
// boundary.
type stepReader struct {
	wire  []byte
	pos   int
	bound []int // ascending offsets
	next  int
	cut   int // index into bound, -1 = none
	at    func(i int)
}

func (s *stepReader) Read(p []byte) (int, error) {
	for s.next < len(s.bound) && s.pos == s.bound[s.next] {
		s.at(s.next)
		if s.cut == s.next {
			s.next++
			s.wire = s.wire[:s.pos]
			return 0, io.ErrUnexpectedEOF
		}
		s.next++
	}
	if s.pos >= len(s.wire) {
		return 0, io.EOF
	}
	lim := len(s.wire)
	if s.next < len(s.bound) && s.bound[s.next] < lim {
		lim = s.bound[s.next]
	}
	n := copy(p, s.wire[s.pos:lim])
	s.pos += n
	return n, nil
}

// observeDir: content of the target and of every other file in dir (pending files)
func observeDir(dir, name string) string {
	tgt := "-"
	if fi, err := os.Lstat(filepath.Join(dir, name)); err == nil {
		if fi.Mode().IsRegular() {
			b, _ := os.ReadFile(filepath.Join(dir, name))
			tgt = "f" + hexOrDash(b)
		} else {
			tgt = "other"
		}
	}
	ents, _ := os.ReadDir(dir)
	var temps []string
	for _, e := range ents {
		if e.Name() == name {
			continue
		}
		b, _ := os.ReadFile(filepath.Join(dir, e.Name()))
		temps = append(temps, hexOrDash(b))
	}
	sort.Strings(temps)
	t := "none"
	if len(temps) > 0 {
		t = strings.Join(temps, "+")
	}
	return tgt + "|" + t
}

// atomic (C04, unit): the destination while recvFile1 is blocked at every
// token boundary, and after it returned (success, checksum mismatch, stream cut).
func runAtomic(r *run) error {
	g := newRng(r.seed, "atomic")
	base, err := mkTemp("atomic")
	if err != nil {
		return err
	}
	defer rmTemp(base)
	n := 700
	if r.tier == "thorough" {
		n = 12000
	}
	for i := 0; i < n; i++ {
		id := fmt.Sprintf("at%d", i)
		dir := filepath.Join(base, id)
		os.Mkdir(dir, 0o755)
		seed := int32(g.intn(1 << 16))
		var basis []byte
		prior := "none"
		blen := 4 + g.intn(6)
		if g.chance(65) {
			basis = g.bytes(blen*(1+g.intn(4)) + g.intn(blen))
			os.WriteFile(filepath.Join(dir, "f"), basis, 0o644)
			prior = hexOrDash(basis)
			if len(basis) == 0 {
				prior = "empty"
			}
		}
		h := layoutHead(len(basis), int32(blen))
		nch := g.intn(5)
		var toks []tok
		var chunks [][]byte
		for k := 0; k < nch; k++ {
			if basis != nil && h.count > 0 && g.bool() {
				b := int32(g.intn(int(h.count)))
				end := int(b+1) * blen
				if end > len(basis) {
					end = len(basis)
				}
				toks = append(toks, tok{ref: b})
				chunks = append(chunks, basis[int(b)*blen:end])
			} else {
				d := g.bytes(1 + g.intn(12))
				toks = append(toks, tok{lit: d})
				chunks = append(chunks, d)
			}
		}
		full := bytes.Join(chunks, nil)
		good := !g.chance(25)
		var w bytes.Buffer
		w.Write(encHead(h))
		bound := []int{w.Len()}
		for _, t := range toks {
			w.Write(encToks([]tok{t}))
			bound = append(bound, w.Len())
		}
		w.Write(le32(0))
		sum := fileSum(seed, full)
		if !good {
			sum = append([]byte{}, sum...)
			sum[3] ^= 0x10
		}
		w.Write(sum)
		cut := -1
		if g.chance(30) {
			cut = g.intn(len(bound))
		}
		var obs []string
		sr := &stepReader{wire: w.Bytes(), bound: bound, cut: cut, at: func(int) { obs = append(obs, observeDir(dir, "f")) }}
		rerr := verifhook.ReceiverRecvStream(seed, dir, "f", 0o100644, 1_000_000_000, sr, verifhook.ReceiverOpts{PreservePerms: true, PreserveTimes: true})
		obs = append(obs, observeDir(dir, "f"))
		ch := make([]string, len(chunks))
		for k, c := range chunks {
			ch[k] = hexOrDash(c)
		}
		r.count(fmt.Sprintf("prior=%v/good=%v/cut=%v/err=%v", basis != nil, good, cut >= 0, rerr != nil))
		r.emit("atomic", id, []string{prior, strings.Join(ch, ";"), fmt.Sprint(cut), b01(good)}, strings.Join(obs, ","), nch > 0)
		// property oracle: at every instant the target is the complete old or the complete new content
		old := "-"
		if basis != nil {
			old = "f" + hexOrDash(basis)
		}
		neu := "f" + hexOrDash(full)
		for k, o := range obs {
			tgt := strings.SplitN(o, "|", 2)[0]
			if tgt != old && !(tgt == neu && good && cut < 0 && k == len(obs)-1) {
				r.oracleFail(id, fmt.Sprintf("target holds neither its previous nor the verified new content at observation %d: %s", k, clipStr(tgt, 80)), map[string]any{"prior_hex": clipHex(basis), "new_hex": clipHex(full), "good": good, "cut": cut, "observations": obs})
				break
			}
		}
		if last := obs[len(obs)-1]; !strings.HasSuffix(last, "|none") {
			r.oracleFail(id, "pending file left behind after recvFile1 returned: "+clipStr(last, 100), map[string]any{"good": good, "cut": cut, "err": fmt.Sprint(rerr)})
		}
		// the stream ends inside the checksum header: nothing may be created
		if i%10 == 0 {
			before := observeDir(dir, "f")
			hb := []int{g.intn(16)}
			sr := &stepReader{wire: w.Bytes(), bound: hb, cut: 0, at: func(int) {}}
			verifhook.ReceiverRecvStream(seed, dir, "f", 0o100644, 1_000_000_000, sr, verifhook.ReceiverOpts{PreservePerms: true, PreserveTimes: true})
			r.count("cut-inside-header")
			if after := observeDir(dir, "f"); after != before {
				r.oracleFail(id+"-head", "stream ended inside the header: destination directory changed: "+clipStr(before, 60)+" -> "+clipStr(after, 60), map[string]any{"cut_offset": hb[0]})
			}
		}
		os.RemoveAll(dir)
	}
	return nil
}

func clipStr(s string, n int) string {
	if len(s) > n {
		return s[:n] + "…"
	}
	return s
}

func init() { components["atomic"] = runAtomic }
