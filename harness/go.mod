module verifharness

go 1.26.8

require (
	github.com/gokrazy/rsync v0.0.0
	github.com/google/shlex v0.0.0-20191202100458-e7afc7fbc510
	golang.org/x/crypto v0.46.0
)

require (
	github.com/BurntSushi/toml v1.6.0 // indirect
	github.com/coreos/go-systemd v0.0.0-20191104093116-d3cd4ed1dbcf // indirect
	github.com/google/renameio/v2 v2.0.2 // indirect
	github.com/landlock-lsm/go-landlock v0.0.0-20250303204525-1544bccde3a3 // indirect
	github.com/mmcloughlin/md4 v0.1.2 // indirect
	golang.org/x/sync v0.19.0 // indirect
	golang.org/x/sys v0.39.0 // indirect
	kernel.org/pub/linux/libs/security/libcap/psx v1.2.70 // indirect
)

replace github.com/gokrazy/rsync => /repo
