package main

import (
	"bytes"

	"fmt"
	"github.com/gokrazy/rsync/verifhook"
	"os"
	"path/filepath"
	"strings"
	"sync"
	"syscall"
	"time"
)

func inodeOf(p string) uint64 {
	fi, err := os.Lstat(p)
	if err != nil {
		return 0
	}
	return fi.Sys().(*syscall.Stat_t).Ino
}

// C12: the decision table, embedded in one tree per option set, through real sessions.
func runUpdate(r *run) error {
	g := newRng(r.seed, "update")
	base, err := mkTemp("update")
	if err != nil {
		return err
	}
	defer rmTemp(base)
	pool := newSessionPool(8)
	defer pool.close()

	type cell struct {
		name          string
		dstKind       string // missing | file | other
		sizeDiff      int    // 0 same, +n / -n
		mtimeDeltaNs  int64  // destination mtime - source mtime, in ns
		contentEqual  bool
		srcData, dstD []byte
	}
	const M = int64(1_600_000_000)
	var cells []cell
	mtimes := map[string]int64{"equal": 0, "plus1s": 1e9, "minus1s": -1e9, "subsecond+0.4": 4e8, "subsecond+0.9": 9e8, "far": 86400e9, "minus0.3s": -3e8}
	for mn, md := range mtimes {
		for _, sd := range []int{0, 1, -1} {
			for _, ce := range []bool{true, false} {
				if sd != 0 && ce {
					continue
				}
				src := g.bytes(40 + g.intn(40))
				dst := append([]byte{}, src...)
				if sd > 0 {
					dst = append(dst, 0x41)
				} else if sd < 0 {
					dst = dst[:len(dst)-1]
				} else if !ce {
					dst[len(dst)/2] ^= 0x20
				}
				cells = append(cells, cell{name: fmt.Sprintf("c_%s_size%+d_eq%v", mn, sd, ce), dstKind: "file", sizeDiff: sd, mtimeDeltaNs: md, contentEqual: ce, srcData: src, dstD: dst})
			}
		}
	}
	cells = append(cells, cell{name: "c_missing", dstKind: "missing", srcData: g.bytes(50)})
	cells = append(cells, cell{name: "c_symlink", dstKind: "other", srcData: g.bytes(50)})
	cells = append(cells, cell{name: "c_dir", dstKind: "otherdir", srcData: g.bytes(50)})
	r.notes["decision_table_cells"] = len(cells)

	optsets := [][]string{{}, {"-c"}, {"-I"}, {"-c", "-I"}}
	arrs := []string{"pull", "local", "push"}
	var wg sync.WaitGroup
	var mu sync.Mutex
	sid := 0
	for _, os_ := range optsets {
		for _, tflag := range []bool{true, false} {
			for _, arr := range arrs {
				sid++
				id := fmt.Sprintf("upd%d", sid)
				args := append([]string{"-r"}, os_...)
				if tflag {
					args = append(args, "-t")
				}
				srcRoot := filepath.Join(base, id+"-src")
				dest := filepath.Join(base, id+"-dst")
				os.MkdirAll(srcRoot, 0o755)
				os.MkdirAll(dest, 0o755)
				// embed the table in a small random tree
				extra := genSourceTree(g, 3, false)
				extra.materialise(srcRoot)
				for _, c := range cells {
					sp := filepath.Join(srcRoot, "tbl", c.name)
					os.MkdirAll(filepath.Dir(sp), 0o755)
					os.WriteFile(sp, c.srcData, 0o644)
					os.Chtimes(sp, time.Unix(M, 0), time.Unix(M, 0))
					dp := filepath.Join(dest, "tbl", c.name)
					os.MkdirAll(filepath.Dir(dp), 0o755)
					switch c.dstKind {
					case "file":
						os.WriteFile(dp, c.dstD, 0o644)
						mt := time.Unix(M, 0).Add(time.Duration(c.mtimeDeltaNs))
						os.Chtimes(dp, mt, mt)
					case "other":
						os.Symlink("elsewhere", dp)
					case "otherdir":
						os.Mkdir(dp, 0o755)
					}
				}
				os.Chtimes(filepath.Join(srcRoot, "tbl"), time.Unix(M, 0), time.Unix(M, 0))
				before := map[string]uint64{}
				for _, c := range cells {
					before[c.name] = inodeOf(filepath.Join(dest, "tbl", c.name))
					if c.dstKind != "file" {
						before[c.name] = 0 // replaced by a regular file = transferred (inode numbers get reused)
					}
				}
				wg.Add(1)
				go func(id, arr string, args []string, os_ []string, srcRoot, dest string) {
					defer wg.Done()
					res := pool.run(sessionSpec{ID: id, Arr: arr, Args: args, SrcRoot: srcRoot, Srcs: []string{""}, Dest: dest, TimeoutMs: 60000})
					mu.Lock()
					defer mu.Unlock()
					if res.Outcome != "ok" {
						r.oracleFail(id, "decision-table session failed: "+res.Err, map[string]any{"args": args, "arr": arr})
						return
					}
					ac, it := false, false
					for _, o := range os_ {
						if o == "-c" {
							ac = true
						}
						if o == "-I" {
							it = true
						}
					}
					for _, c := range cells {
						dp := filepath.Join(dest, "tbl", c.name)
						transferred := inodeOf(dp) != before[c.name]
						// the property's rule, evaluated directly
						want := true
						if c.dstKind == "file" {
							dstSec := floorDiv(M*1e9+c.mtimeDeltaNs, 1e9)
							switch {
							case c.sizeDiff != 0:
								want = true
							case ac:
								want = !c.contentEqual
							case it:
								want = true
							default:
								want = dstSec != M
							}
						}
						got, _ := os.ReadFile(dp)
						obs := "skip"
						if transferred {
							obs = "transfer"
						}
						// model case: gen_decision over the same facts
						d := "missing"
						if c.dstKind == "file" {
							d = fmt.Sprintf("file:%d:%d:%s", len(c.dstD), floorDiv(M*1e9+c.mtimeDeltaNs, 1e9), hexOrDash(c.dstD))
						} else if c.dstKind != "missing" {
							d = "other"
						}
						r.count(fmt.Sprintf("table/%s/%s", strings.Join(os_, ""), obs))
						r.emit("decision", id+"-"+c.name, []string{b01(ac), b01(it), d, fmt.Sprint(len(c.srcData)), fmt.Sprint(M), hexOrDash(plainMD4(c.srcData))}, obs, true)
						if transferred != want {
							r.oracleFail(id+"-"+c.name, fmt.Sprintf("update rule violated: file was %s but the rule says %v", obs, want),
								map[string]any{"args": args, "arr": arr, "cell": c.name, "dst_mtime_delta_ns": c.mtimeDeltaNs, "size_diff": c.sizeDiff, "content_equal": c.contentEqual})
						}
						if transferred && !bytes.Equal(got, c.srcData) {
							r.oracleFail(id+"-"+c.name, "file was transferred but does not hold the source bytes", map[string]any{"args": args, "arr": arr, "cell": c.name})
						}
					}
				}(id, arr, args, os_, srcRoot, dest)
			}
		}
	}
	wg.Wait()

	// unit leg: the generator's checksum header and block checksums vs the model
	for i, n := range []int{0, 1, 2, 699, 700, 701, 1399, 1400, 1401, 4900, 489999, 490000, 490001, 491401, 491402, 1000000, 1002001} {
		if r.tier != "thorough" && n > 500000 {
			continue
		}
		data := genData(g, n)
		seed := int32(g.next())
		wire, err := verifhook.GenerateSums(seed, data)
		obs := hexOrDash(wire)
		if err != nil {
			obs = "ERR:" + err.Error()
		}
		r.emit("gensums", fmt.Sprintf("gs%d", i), []string{fmt.Sprint(seed), hexOrDash(data)}, obs, n > 700)
	}

	// repeat-sync idempotence on random trees
	nTrees := 6
	if r.tier == "thorough" {
		nTrees = 40
	}
	for t := 0; t < nTrees; t++ {
		src := genSourceTree(g, 5+g.intn(6), false)
		srcRoot := filepath.Join(base, fmt.Sprintf("rs%d-src", t))
		dest := filepath.Join(base, fmt.Sprintf("rs%d-dst", t))
		src.materialise(srcRoot)
		args := [][]string{{"-a"}, {"-rt"}, {"-rtc"}, {"-rlpt"}}[g.intn(4)]
		arr := []string{"pull", "local", "push", "libpull"}[g.intn(4)]
		id := fmt.Sprintf("resync%d", t)
		res1 := pool.run(sessionSpec{ID: id + "a", Arr: arr, Args: args, SrcRoot: srcRoot, Srcs: []string{""}, Dest: dest, TimeoutMs: 60000})
		s1 := takeSnapshot(dest)
		res2 := pool.run(sessionSpec{ID: id + "b", Arr: arr, Args: args, SrcRoot: srcRoot, Srcs: []string{""}, Dest: dest, TimeoutMs: 60000})
		s2 := takeSnapshot(dest)
		r.count("resync/" + arr + "/" + res1.Outcome + "/" + res2.Outcome)
		if res1.Outcome != "ok" || res2.Outcome != "ok" {
			r.oracleFail(id, "repeat sync failed: "+res1.Err+" / "+res2.Err, map[string]any{"args": args, "arr": arr})
			continue
		}
		moved := 0
		for p, e := range s2 {
			if e.Type == "f" && s1[p].Ino != e.Ino {
				moved++
			}
		}
		// directories are outside this property (their mtimes are set on the next run)
		files := func(s snapshot) snapshot {
			out := snapshot{}
			for p, e := range s {
				if e.Type != "d" {
					out[p] = e
				}
			}
			return out
		}
		if moved > 0 || files(s1).canon("tcmT") != files(s2).canon("tcmT") {
			r.oracleFail(id, fmt.Sprintf("an immediately repeated sync was not a no-op: %d file(s) re-transferred", moved), map[string]any{"args": args, "arr": arr})
		}
	}
	return nil
}

func floorDiv(a, b int64) int64 {
	q := a / b
	if (a%b != 0) && ((a < 0) != (b < 0)) {
		q--
	}
	return q
}

func b01(b bool) string {
	if b {
		return "1"
	}
	return "0"
}

func init() { components["update"] = runUpdate }
