package main

import (
	"bytes"
	"context"
	"crypto/ecdsa"
	"crypto/ed25519"
	"crypto/elliptic"
	"crypto/rand"
	"crypto/rsa"
	"fmt"
	"io"
	"net"
	"os"
	"path/filepath"
	"strings"
	"time"

	"github.com/gokrazy/rsync/rsyncd"
	"github.com/gokrazy/rsync/verifhook"
	"github.com/google/shlex"
	"golang.org/x/crypto/ssh"
)

type sshKey struct {
	name   string
	signer ssh.Signer
}

func genSSHKeys() ([]sshKey, error) {
	var out []sshKey
	for i := 0; i < 3; i++ {
		_, priv, err := ed25519.GenerateKey(rand.Reader)
		if err != nil {
			return nil, err
		}
		s, err := ssh.NewSignerFromKey(priv)
		if err != nil {
			return nil, err
		}
		out = append(out, sshKey{fmt.Sprintf("ed25519-%d", i), s})
	}
	rk, err := rsa.GenerateKey(rand.Reader, 2048)
	if err != nil {
		return nil, err
	}
	rs, err := ssh.NewSignerFromKey(rk)
	if err != nil {
		return nil, err
	}
	out = append(out, sshKey{"rsa-2048", rs})
	for _, c := range []elliptic.Curve{elliptic.P256(), elliptic.P384()} {
		ek, err := ecdsa.GenerateKey(c, rand.Reader)
		if err != nil {
			return nil, err
		}
		es, err := ssh.NewSignerFromKey(ek)
		if err != nil {
			return nil, err
		}
		out = append(out, sshKey{"ecdsa-" + c.Params().Name, es})
	}
	return out, nil
}

func sshDial(addr string, k sshKey) (*ssh.Client, error) {
	cfg := &ssh.ClientConfig{User: "anyone", Auth: []ssh.AuthMethod{ssh.PublicKeys(k.signer)}, HostKeyCallback: ssh.InsecureIgnoreHostKey(), Timeout: 5 * time.Second}
	return ssh.Dial("tcp", addr, cfg)
}

// sshExec: what a session answers to an exec request: "greeting" (the daemon
// protocol's first line), "refused" (request denied / error text / non-zero
// exit without protocol bytes), or "other:<first bytes>".
func sshExec(cl *ssh.Client, cmd string, stdin []byte) (string, []byte) {
	sess, err := cl.NewSession()
	if err != nil {
		return "no-session", nil
	}
	defer sess.Close()
	var out, errb bytes.Buffer
	sess.Stdout, sess.Stderr = &out, &errb
	wr, _ := sess.StdinPipe()
	if err := sess.Start(cmd); err != nil {
		return "refused", []byte(err.Error())
	}
	if wr != nil {
		wr.Write(stdin)
	}
	done := make(chan error, 1)
	go func() { done <- sess.Wait() }()
	var werr error
	select {
	case werr = <-done:
	case <-time.After(1500 * time.Millisecond):
		if wr != nil {
			wr.Close()
		}
		select {
		case werr = <-done:
		case <-time.After(2 * time.Second):
			werr = fmt.Errorf("still running")
		}
	}
	b := out.Bytes()
	switch {
	case bytes.HasPrefix(b, []byte("@RSYNCD: ")):
		return "greeting", b
	case len(b) == 0 && werr != nil:
		return "refused", append(errb.Bytes(), []byte(" / "+werr.Error())...)
	case len(b) == 0:
		return "silent-success", errb.Bytes()
	}
	return "other", b
}

// C20: SSH listeners.
func runSSH(r *run) error {
	g := newRng(r.seed, "ssh")
	base, err := mkTemp("ssh")
	if err != nil {
		return err
	}
	defer rmTemp(base)
	keys, err := genSSHKeys()
	if err != nil {
		return err
	}
	modDir := filepath.Join(base, "module")
	secretDir := filepath.Join(base, "not-a-module")
	const canary = "CANARY-SSH-77aa-outside-any-module"
	treeSpec{{Path: "inside.txt", Type: "f", Data: []byte("inside"), Mode: 0o644, Mtime: 1_500_000_000}}.materialise(modDir)
	treeSpec{{Path: "secret.txt", Type: "f", Data: []byte(canary), Mode: 0o644, Mtime: 1_500_000_000}}.materialise(secretDir)
	mods := []rsyncd.Module{{Name: "mod", Path: modDir}}
	authLine := func(k sshKey) string {
		return strings.TrimSpace(string(ssh.MarshalAuthorizedKey(k.signer.PublicKey())))
	}
	type listenerCase struct {
		name   string
		file   *string // nil = anonymous
		listed map[string]bool
		both   bool // the listener section also sets anon_ssh
	}
	mk := func(name, content string, listed ...string) listenerCase {
		l := map[string]bool{}
		for _, x := range listed {
			l[x] = true
		}
		return listenerCase{name, &content, l, false}
	}
	cases := []listenerCase{
		{"anonymous", nil, nil, false},
		mk("empty-file", ""),
		mk("only-comments", "# nobody\n\n   \n# still nobody\n"),
		mk("one-key", authLine(keys[0])+"\n", keys[0].name),
		mk("multi-key", "# team keys\n\n"+authLine(keys[1])+" alice@example\n   \n# second\n"+authLine(keys[3])+"\n"+authLine(keys[4])+" bob\n", keys[1].name, keys[3].name, keys[4].name),
		func() listenerCase {
			c := mk("one-key-and-anon_ssh-set", authLine(keys[0])+"\n", keys[0].name)
			c.both = true
			return c
		}(),
		mk("cert-authority-line", "cert-authority "+authLine(keys[5])+" ca\n"+`cert-authority,no-pty `+authLine(keys[4])+"\n"+authLine(keys[1])+"\n", keys[5].name, keys[4].name, keys[1].name),
		mk("with-options", `command="x",no-pty `+authLine(keys[2])+" carol\n"+authLine(keys[5])+"\n", keys[2].name, keys[5].name),
	}
	hostKey := filepath.Join(base, "hostkey")
	for ci, lc := range cases {
		ctx, cancel := context.WithCancel(context.Background())
		ln, err := net.Listen("tcp", "127.0.0.1:0")
		if err != nil {
			cancel()
			return err
		}
		akPath := ""
		if lc.file != nil {
			akPath = filepath.Join(base, fmt.Sprintf("authorized_keys.%d", ci))
			os.WriteFile(akPath, []byte(*lc.file), 0o600)
		}
		var stderr bytes.Buffer
		srvErr := make(chan error, 1)
		alsoAnon := ""
		if lc.both {
			alsoAnon = "127.0.0.1:1"
		}
		go func() { srvErr <- verifhook.ServeSSHListener(ctx, ln, hostKey, akPath, alsoAnon, mods, &stderr) }()
		time.Sleep(30 * time.Millisecond)
		select {
		case e := <-srvErr:
			r.oracleFail("ssh-listener-"+lc.name, "the SSH listener did not start: "+fmt.Sprint(e), map[string]any{"authorized_keys": lc.file})
			cancel()
			continue
		default:
		}
		addr := ln.Addr().String()
		var admitted *ssh.Client
		for _, k := range keys {
			cl, derr := sshDial(addr, k)
			got := derr == nil
			want := lc.file == nil || lc.listed[k.name]
			r.count(fmt.Sprintf("handshake/%s/admitted=%v", lc.name, got))
			r.emit("sshkey", fmt.Sprintf("k-%s-%s", lc.name, k.name), []string{b01(lc.file == nil), b01(lc.listed[k.name])}, b01(got), true)
			if got != want {
				r.oracleFail("ssh-key-"+lc.name+"-"+k.name, fmt.Sprintf("listener %s: key %s admitted=%v, expected %v", lc.name, k.name, got, want), map[string]any{"authorized_keys": lc.file, "dial_error": fmt.Sprint(derr)})
			}
			if cl != nil {
				if admitted == nil {
					admitted = cl
				} else {
					cl.Close()
				}
			}
		}
		if lc.name == "cert-authority-line" {
			// a certificate for an unlisted key that merely names the listed authority as its issuer (junk signature)
			for _, k := range []sshKey{keys[0], keys[3]} {
				cert := &ssh.Certificate{Key: k.signer.PublicKey(), CertType: ssh.UserCert, KeyId: "forged", ValidPrincipals: []string{"anyone"},
					ValidBefore: ssh.CertTimeInfinity, SignatureKey: keys[5].signer.PublicKey(),
					Signature: &ssh.Signature{Format: keys[5].signer.PublicKey().Type(), Blob: bytes.Repeat([]byte{0x42}, 96)}}
				cs, cerr := ssh.NewCertSigner(cert, k.signer)
				if cerr != nil {
					continue
				}
				cl, derr := sshDial(addr, sshKey{"forged-cert-" + k.name, cs})
				r.count(fmt.Sprintf("handshake/%s/forged-certificate-admitted=%v", lc.name, derr == nil))
				r.emit("sshkey", "k-forged-"+k.name, []string{"0", "0"}, b01(derr == nil), true)
				if derr == nil {
					cl.Close()
					r.oracleFail("ssh-forged-cert-"+k.name, "an unlisted key presenting a certificate with a junk signature was admitted on an authorised listener", map[string]any{"authorized_keys": lc.file})
				}
			}
		}
		if lc.file == nil && admitted != nil {
			// what an anonymous session may run
			target := filepath.Join(base, "planted")
			lines := []string{
				"rsync --server --daemon .", "rsync --daemon --server .", "rsync --server --daemon -v .", "/usr/bin/rsync --server --daemon .", "rsync --server  --daemon   .",
				"rsync --server --sender -r . " + secretDir + "/", "rsync --server --sender -vlogDtpre.iLsfxC . " + secretDir + "/secret.txt", "rsync --server -r . " + target,
				"rsync --server --sender . /", "rsync -a " + secretDir + "/ " + target, "rsync -r " + secretDir + "/ " + target + "/", "rsync " + secretDir + "/secret.txt",
				"rsync -e 'touch " + target + "' host:/x " + target + "2", "rsync --rsh='touch " + target + "' host:/x " + target + "3", "rsync -a rsync://127.0.0.1:1/mod/ " + target,
				"rsync host::mod/ " + target, "sh -c id", "/bin/sh", "id", "rsync", "", "rsync --help", "rsync --version", "rsync --daemon", "rsync --daemon --help", "rsync --daemon --no-detach",
				"rsync --daemon --gokr.listen=127.0.0.1:0", "rsync --server", "rsync --server --daemon --sender .", "rsync --server --daemon " + secretDir, "rsync --sender --server --daemon .",
				"rsync --server --daemon --config=" + filepath.Join(base, "x.toml") + " .", "rsync --no-such-option", "rsync --server --daemon . extra " + secretDir,
				"rsync --daemon . --server", "rsync -- --server --daemon .", "rsync --server --daemon '", "rsync --info=help", "rsync --server --daemon --port=1 .", "scp -f /etc/passwd",
			}
			evil := filepath.Join(base, "evil.toml")
			os.WriteFile(evil, []byte("[[listener]]\nanon_ssh = \"127.0.0.1:1\"\n[[module]]\nname = \"evil\"\npath = \""+secretDir+"\"\n"), 0o644)
			lines = append(lines, "rsync --server --daemon --gokr.config="+evil+" .", "rsync --gokr.config="+evil+" --server --daemon .", "rsync --server --daemon --gokr.modulemap=evil="+secretDir+" .")
			// random lines over the same vocabulary
			vocab := []string{"--server", "--daemon", "--sender", "-e", "sh", "--rsh=sh", "-a", "-r", ".", secretDir + "/", "host:/p", "rsync://h/m", "-v", "--help", "--config=/x", "--no-detach", target}
			nr := 40
			if r.tier == "thorough" {
				nr = 600
			}
			for k := 0; k < nr; k++ {
				w := []string{"rsync"}
				for j := 0; j < 1+g.intn(5); j++ {
					w = append(w, vocab[g.intn(len(vocab))])
				}
				lines = append(lines, strings.Join(w, " "))
			}
			for li, line := range lines {
				class, first := sshExec(admitted, line, []byte("@RSYNCD: 27\n#list\n"))
				args, serr := shlex.Split(line)
				daemonFlag, serverFlag, perr := "0", "0", "split"
				if serr == nil && len(args) > 0 {
					opts, _, e := verifhook.ParseOpts(args[1:])
					perr = "ok"
					if e != nil {
						perr = "err"
					} else {
						daemonFlag, serverFlag = b01(opts.Daemon()), b01(opts.Server())
					}
				} else if serr == nil {
					perr = "empty"
				}
				obs := "refused"
				if class == "greeting" {
					obs = "daemon-protocol"
				}
				hexargs := make([]string, len(args))
				for i, a := range args {
					hexargs[i] = hx(a)
				}
				r.count("exec/" + class)
				r.emit("sshexec", fmt.Sprintf("x%d", li), []string{perr, strings.Join(hexargs, ","), daemonFlag + serverFlag}, obs, class == "greeting")
				detail := map[string]any{"command": line, "class": class, "first_bytes": clipStr(string(first), 200), "stderr": tailStr(stderr.String(), 400)}
				if class == "greeting" && bytes.Contains(first, []byte("evil")) {
					r.oracleFail(fmt.Sprintf("ssh-exec-%d", li), "an anonymous SSH session made the daemon serve a module that is not configured: "+line, detail)
				}
				if bytes.Contains(first, []byte(canary)) {
					r.oracleFail(fmt.Sprintf("ssh-exec-%d", li), "an anonymous SSH session returned data from outside the configured modules: "+line, detail)
				}
				if class == "other" || class == "silent-success" {
					r.oracleFail(fmt.Sprintf("ssh-exec-%d", li), "an anonymous SSH session ran something other than the rsync daemon protocol ("+class+"): "+line, detail)
				}
				ents, _ := os.ReadDir(base)
				for _, e := range ents {
					if strings.HasPrefix(e.Name(), "planted") {
						r.oracleFail(fmt.Sprintf("ssh-exec-%d", li), "an anonymous SSH session modified the host file system ("+e.Name()+" created): "+line, detail)
						os.RemoveAll(filepath.Join(base, e.Name()))
					}
				}
			}
			// other request and channel types
			for _, rt := range []string{"shell", "subsystem", "pty-req", "x11-req", "auth-agent-req@openssh.com", "signal", "window-change"} {
				sess, err := admitted.NewSession()
				if err != nil {
					continue
				}
				payload := []byte{}
				if rt == "subsystem" {
					payload = ssh.Marshal(struct{ Name string }{"sftp"})
				}
				ok, rerr := sess.SendRequest(rt, true, payload)
				r.count(fmt.Sprintf("request/%s/accepted=%v", rt, ok))
				r.emit("noop", "ssh-req-"+rt, []string{rt}, "ok", true)
				if ok && rerr == nil {
					r.oracleFail("ssh-request-"+rt, "session request "+rt+" was accepted on an anonymous listener", nil)
				}
				sess.Close()
			}
			for _, ct := range []string{"direct-tcpip", "forwarded-tcpip", "x11", "bogus"} {
				ch, _, err := admitted.OpenChannel(ct, nil)
				r.count(fmt.Sprintf("channel/%s/opened=%v", ct, err == nil))
				r.emit("noop", "ssh-chan-"+ct, []string{ct}, "ok", true)
				if err == nil {
					ch.Close()
					r.oracleFail("ssh-channel-"+ct, "channel type "+ct+" was accepted", nil)
				}
			}
			_ = io.Discard
		}
		if admitted != nil {
			admitted.Close()
		}
		cancel()
		ln.Close()
	}
	return nil
}

func init() { components["ssh"] = runSSH }
