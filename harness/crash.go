package main

import (
	"fmt"
	"path/filepath"
	"sort"
	"strings"
	"sync"
	"time"
)

func canonLines(c string) map[string]string {
	m := map[string]string{}
	for _, l := range strings.Split(strings.TrimSpace(c), "\n") {
		if l == "" {
			continue
		}
		var name string
		if _, err := fmt.Sscanf(l, "%q", &name); err != nil {
			continue
		}
		m[name] = l
	}
	return m
}

// C04 end to end: the destination while the receiving side is blocked at
// byte N, after the stream was cut at byte N (error return), and after the
// receiving process was killed at byte N.
func runCrash(r *run) error {
	g := newRng(r.seed, "crash")
	base, err := mkTemp("crash")
	if err != nil {
		return err
	}
	defer rmTemp(base)
	pool := newSessionPool(8)
	defer pool.close()
	nTrees, nFreeze, nCut, nKill := 3, 80, 6, 4
	if r.tier == "thorough" {
		nTrees, nFreeze, nCut, nKill = 12, 1500, 40, 25
	}
	var wg sync.WaitGroup
	var mu sync.Mutex
	for t := 0; t < nTrees; t++ {
		// source: several regular files (some of many tokens), symlinks; prior: old versions
		var src, prior treeSpec
		src = append(src, nodeSpec{Path: "sub", Type: "d", Mode: 0o755, Mtime: 1_500_000_000})
		prior = append(prior, nodeSpec{Path: "sub", Type: "d", Mode: 0o755, Mtime: 1_500_000_000})
		nf := 4 + g.intn(4)
		for i := 0; i < nf; i++ {
			p := fmt.Sprintf("f%d", i)
			if i%2 == 1 {
				p = "sub/" + p
			}
			sz := []int{100, 3000, 40000, 300000, 70000, 1500}[g.intn(6)]
			d := genFileData(g, sz)
			src = append(src, nodeSpec{Path: p, Type: "f", Data: d, Mode: 0o644, Mtime: 1_500_000_000 + int64(i)})
			switch g.intn(4) {
			case 0: // new file
			case 1:
				e, _, _ := editData(g, d, 1+g.intn(3), 200)
				prior = append(prior, nodeSpec{Path: p, Type: "f", Data: e, Mode: 0o600, Mtime: 1_400_000_000})
			case 2:
				prior = append(prior, nodeSpec{Path: p, Type: "f", Data: g.bytes(500 + g.intn(5000)), Mode: 0o600, Mtime: 1_400_000_000})
			case 3:
				prior = append(prior, nodeSpec{Path: p, Type: "f", Data: d[:len(d)/2], Mode: 0o644, Mtime: 1_400_000_000})
			}
		}
		for i := 0; i < 2+g.intn(2); i++ {
			p := fmt.Sprintf("l%d", i)
			src = append(src, nodeSpec{Path: p, Type: "l", Link: fmt.Sprintf("new-target-%d", i)})
			if g.bool() {
				prior = append(prior, nodeSpec{Path: p, Type: "l", Link: "old-target"})
			}
		}
		srcRoot := filepath.Join(base, fmt.Sprintf("src%d", t))
		if err := src.materialise(srcRoot); err != nil {
			return err
		}
		listed := map[string]bool{".": true}
		for _, n := range src {
			listed[n.Path] = true
		}
		for _, arr := range []string{"libpull", "libpush"} {
			mk := func(tag string) (sessionSpec, error) {
				id := fmt.Sprintf("crash-t%d-%s-%s", t, arr, tag)
				dest := filepath.Join(base, id)
				if err := prior.materialise(dest); err != nil {
					return sessionSpec{}, err
				}
				return sessionSpec{ID: id, Arr: arr, Args: []string{"-rlt"}, SrcRoot: srcRoot, Srcs: []string{""}, Dest: dest, TimeoutMs: 60000}, nil
			}
			// reference run: total bytes towards the receiver, old and new renderings
			ref, err := mk("ref")
			if err != nil {
				return err
			}
			oldL := canonLines(takeSnapshot(ref.Dest).canon("tc"))
			res := pool.run(ref)
			if res.Outcome != "ok" {
				r.oracleFail(ref.ID, "uninterrupted reference session failed: "+res.Err, map[string]any{"stderr": tailStr(res.Stderr, 400)})
				continue
			}
			newL := canonLines(takeSnapshot(ref.Dest).canon("tc"))
			total := res.ToReceiver
			r.count(fmt.Sprintf("reference/%s/bytes>=%dk", arr, total/100000*100))
			judge := func(id, when string, lines map[string]string, afterReturn bool, detail map[string]any) {
				var names []string
				for n := range lines {
					names = append(names, n)
				}
				sort.Strings(names)
				for p := range listed {
					got, ok := lines[p]
					o, hadOld := oldL[p]
					if !ok {
						if hadOld {
							detail["path"], detail["when"] = p, when
							r.oracleFail(id, fmt.Sprintf("%s: %s existed before and is absent", when, p), detail)
							return
						}
						continue
					}
					if got != newL[p] && !(hadOld && got == o) {
						detail["path"], detail["when"], detail["got"], detail["old"], detail["new"] = p, when, got, o, newL[p]
						r.oracleFail(id, fmt.Sprintf("%s: %s holds neither its complete previous nor the complete new content: %s", when, p, got), detail)
						return
					}
				}
				if afterReturn {
					for _, n := range names {
						if !listed[n] {
							if _, was := oldL[n]; !was {
								detail["leftover"], detail["when"] = n, when
								r.oracleFail(id, fmt.Sprintf("%s: temporary entry %s left behind", when, n), detail)
								return
							}
						}
					}
				}
			}
			launch := func(sp sessionSpec, kind string, off int64) {
				wg.Add(1)
				go func() {
					defer wg.Done()
					res := pool.run(sp)
					final := canonLines(takeSnapshot(sp.Dest).canon("tc"))
					if kind == "cut" || kind == "cutback" {
						// the other goroutine of the receiving side finishes in the background once
						// the connection is closed: allow it a moment to run its deferred clean-up
						for try := 0; try < 200 && len(final) > 0; try++ {
							extra := false
							for n := range final {
								if _, was := oldL[n]; !listed[n] && !was {
									extra = true
								}
							}
							if !extra {
								break
							}
							time.Sleep(50 * time.Millisecond)
							final = canonLines(takeSnapshot(sp.Dest).canon("tc"))
						}
					}
					mu.Lock()
					defer mu.Unlock()
					r.count(fmt.Sprintf("%s/%s/%s", kind, arr, res.Outcome))
					r.emit("noop", sp.ID, []string{kind, fmt.Sprint(off)}, "ok", true)
					detail := map[string]any{"arrangement": arr, "kind": kind, "offset": off, "total_to_receiver": total, "err": res.Err,
						"regenerate": fmt.Sprintf("VERIF_SEED=%d ./check C04 (session %s)", r.seed, sp.ID)}
					switch kind {
					case "freeze":
						if res.Outcome != "ok" {
							r.oracleFail(sp.ID, "session with observation points failed: "+res.Err, detail)
							return
						}
						r.notes["snapshots"] = intNote(r.notes["snapshots"]) + len(res.MidSnaps)
						for i, ms := range res.MidSnaps {
							judge(sp.ID, fmt.Sprintf("receiver blocked at byte %d", sp.FreezeAt[i]), canonLines(ms), false, detail)
						}
						judge(sp.ID, "after completion", final, true, detail)
					case "cut", "cutback":
						if res.Outcome == "timeout" || res.Outcome == "died" {
							r.oracleFail(sp.ID, "session did not return after the stream ended at byte "+fmt.Sprint(off)+": "+res.Outcome, detail)
							return
						}
						judge(sp.ID, fmt.Sprintf("after error return (stream ended at byte %d, outcome %s)", off, res.Outcome), final, true, detail)
					case "kill":
						judge(sp.ID, fmt.Sprintf("after SIGKILL at byte %d", off), final, false, detail)
					}
				}()
			}
			fz, err := mk("freeze")
			if err != nil {
				return err
			}
			for i := 0; i < nFreeze; i++ {
				fz.FreezeAt = append(fz.FreezeAt, total*int64(i)/int64(nFreeze)+int64(g.intn(int(total/int64(nFreeze))+1)))
			}
			sort.Slice(fz.FreezeAt, func(i, j int) bool { return fz.FreezeAt[i] < fz.FreezeAt[j] })
			launch(fz, "freeze", 0)
			for i := 0; i < nCut; i++ {
				sp, err := mk(fmt.Sprintf("cut%d", i))
				if err != nil {
					return err
				}
				sp.CutAt = 1 + int64(g.intn(int(total)))
				launch(sp, "cut", sp.CutAt)
			}
			for i := 0; i < nCut/2; i++ {
				sp, err := mk(fmt.Sprintf("cutback%d", i))
				if err != nil {
					return err
				}
				sp.CutBack = 1 + int64(g.intn(2000))
				launch(sp, "cutback", sp.CutBack)
			}
			for i := 0; i < nKill; i++ {
				sp, err := mk(fmt.Sprintf("kill%d", i))
				if err != nil {
					return err
				}
				sp.KillAt = 1 + int64(g.intn(int(total)))
				launch(sp, "kill", sp.KillAt)
			}
		}
	}
	wg.Wait()
	r.emit("noop", "crash-summary", []string{fmt.Sprint(nTrees)}, "ok", true)
	return nil
}

func intNote(v any) int {
	if i, ok := v.(int); ok {
		return i
	}
	return 0
}

func init() { components["crash"] = runCrash }
