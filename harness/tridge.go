package main

import (
	"bytes"
	"encoding/binary"
	"fmt"
	"io"
	"os"
	"os/exec"
	"path/filepath"
	"sort"
	"time"
)

// Optional independent leg: tridge rsync (if installed) as a protocol-27
// sender; its file list (prefix compression, SAME_* flags) must be decoded by
// the real receiver and by the model into the entries of the tree.
func tridgeFileList(dir string, serverArgs string) ([]byte, error) {
	bin, err := exec.LookPath("rsync")
	if err != nil {
		return nil, err
	}
	cmd := exec.Command(bin, "--server", "--sender", serverArgs, ".", dir+"/")
	in, _ := cmd.StdinPipe()
	out, _ := cmd.StdoutPipe()
	cmd.Stderr = io.Discard
	if err := cmd.Start(); err != nil {
		return nil, err
	}
	defer func() { cmd.Process.Kill(); cmd.Wait() }()
	in.Write(le32(27))
	hdr := make([]byte, 8) // server version, checksum seed
	if _, err := io.ReadFull(out, hdr); err != nil {
		return nil, err
	}
	in.Write(le32(0)) // empty filter list
	// demultiplex until the server goes quiet (it then waits for our requests)
	var data bytes.Buffer
	frames := make(chan []byte)
	go func() {
		defer close(frames)
		for {
			var h [4]byte
			if _, err := io.ReadFull(out, h[:]); err != nil {
				return
			}
			v := binary.LittleEndian.Uint32(h[:])
			p := make([]byte, v&0xffffff)
			if _, err := io.ReadFull(out, p); err != nil {
				return
			}
			if byte(v>>24)-7 == 0 {
				frames <- p
			}
		}
	}()
	for {
		select {
		case p, ok := <-frames:
			if !ok {
				return data.Bytes(), nil
			}
			data.Write(p)
		case <-time.After(400 * time.Millisecond):
			return data.Bytes(), nil
		}
	}
}

func runTridge(r *run, g *rng) error {
	if _, err := exec.LookPath("rsync"); err != nil {
		r.notes["tridge_leg"] = "skipped: no rsync binary in this environment"
		return nil
	}
	base, err := mkTemp("tridge")
	if err != nil {
		return err
	}
	defer rmTemp(base)
	n := 3
	if r.tier == "thorough" {
		n = 12
	}
	ok := 0
	for t := 0; t < n; t++ {
		root := filepath.Join(base, fmt.Sprintf("t%d", t))
		if err := buildTree(g, root); err != nil {
			return err
		}
		// many siblings with a long common prefix: exercises prefix compression and short names
		os.MkdirAll(filepath.Join(root, "prefix-directory-with-a-long-name"), 0o755)
		for i := 0; i < 40; i++ {
			os.WriteFile(filepath.Join(root, "prefix-directory-with-a-long-name", fmt.Sprintf("common-stem-%03d.dat", i)), g.bytes(i), 0o644)
		}
		for _, sa := range []struct {
			args string
			o    fopts
		}{
			{"-logDtpr", fopts{uid: true, gid: true, links: true, devices: true, specials: true}},
			{"-ltpr", fopts{links: true}},
			{"-r", fopts{}},
		} {
			wire, err := tridgeFileList(root, sa.args)
			if err != nil || len(wire) == 0 {
				r.notes["tridge_leg_error"] = fmt.Sprint(err)
				continue
			}
			var order []string
			walkOrder(root, ".", &order)
			var es []fentry
			for _, rel := range order {
				e, err := lstatEntry(root, rel, rel)
				if err != nil {
					return err
				}
				if !sa.o.uid {
					e.uid = 0
				}
				if !sa.o.gid {
					e.gid = 0
				}
				if !hasRdevField(sa.o, e.mode) {
					e.rdev = 0
				}
				if !(sa.o.links && typeIs(e.mode, sIFLNK)) {
					e.link = nil
				}
				if typeIs(e.mode, sIFDIR) || !typeIs(e.mode, sIFREG) && !typeIs(e.mode, sIFLNK) {
					e.length = -1 // directory / special sizes differ between implementations: not compared
				}
				es = append(es, e)
			}
			cid := fmt.Sprintf("tridge%d%s", t, sa.args)
			// the id lists and io-error flag follow; decode with the real receiver and the model
			ents, _, _, _, _, derr := receiveForTridge(sa.o, wire)
			if derr != nil {
				r.oracleFail(cid, "tridge rsync's protocol-27 file list was rejected: "+derr.Error(), map[string]any{"args": sa.args, "wire_hex": clipHex(wire)})
				continue
			}
			want := sortedEntries(es)
			good := len(want) == len(ents)
			for i := 0; good && i < len(want); i++ {
				w, gt := want[i], ents[i]
				if w.length < 0 {
					gt.length = -1
				}
				if w.dump(sa.o) != gt.dump(sa.o) {
					good = false
					r.notes["tridge_first_diff"] = w.dump(sa.o) + " vs " + gt.dump(sa.o)
				}
			}
			if !good {
				r.oracleFail(cid, "tridge rsync's protocol-27 file list was not decoded into the entries of the source tree", map[string]any{"args": sa.args, "wire_hex": clipHex(wire)})
				continue
			}
			ok++
			// same bytes through the model (id lists / trailer included)
			runFlistDecCase(r, cid, sa.o, wire, "tridge", nil, nil, nil, 0)
		}
	}
	r.notes["tridge_leg"] = fmt.Sprintf("%d file lists from tridge rsync decoded correctly", ok)
	return nil
}

func receiveForTridge(o fopts, wire []byte) ([]fentry, []idname, []idname, int32, int, error) {
	ents, us, gs, ioe, consumed, err := hookReceive(o, wire)
	return ents, us, gs, ioe, consumed, err
}

var _ = sort.Ints
