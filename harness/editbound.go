package main

import (
	"bytes"
	"fmt"
	"strings"

	"github.com/gokrazy/rsync/verifhook"
)

// ---- C16: the edit bound and its hypothesis on concrete edit scripts ----
//
// Small files with small (foreign) block lengths, so that no_accident — the
// hypothesis of the theorem edit_bound — can be decided outright for every
// case: by the extracted Coq definition on the model side and by an
// independent enumeration here.  Oracle: whenever the hypothesis holds, the
// real sender's literal bytes are within the theorem's bound.

type ebPiece struct {
	ins  []byte // new bytes, or
	c, l int    // basis[c, c+l)
	copy bool
}

func runEditBound(r *run) error {
	g := newRng(r.seed, "editbound")
	n := 400
	if r.tier == "thorough" {
		n = 6000
	}
	for i := 0; i < n; i++ {
		blen := []int{4, 8, 16, 32, 64}[g.intn(5)]
		size := blen*(3+g.intn(30)) + g.intn(blen)
		var basis []byte
		lowEntropy := g.chance(25)
		if lowEntropy {
			basis = make([]byte, size)
			alpha := 2 + g.intn(3)
			for j := range basis {
				basis[j] = byte(g.intn(alpha))
			}
		} else {
			basis = g.bytes(size)
		}
		// an edit script: alternating stretches of the basis and new bytes
		var ps []ebPiece
		np := 1 + g.intn(5)
		pos := 0
		for k := 0; k < np; k++ {
			if g.chance(65) {
				c := pos
				if g.chance(40) {
					c = g.intn(size)
				}
				l := g.intn(size - c + 1)
				if g.chance(30) && size-c > 2*blen {
					l = 2*blen + g.intn(size-c-2*blen+1)
				}
				ps = append(ps, ebPiece{copy: true, c: c, l: l})
				pos = c + l
			} else {
				var ins []byte
				if lowEntropy {
					ins = make([]byte, g.intn(3*blen+1))
					for j := range ins {
						ins[j] = byte(g.intn(3))
					}
				} else {
					ins = g.bytes(g.intn(3*blen + 1))
				}
				ps = append(ps, ebPiece{ins: ins})
				if g.chance(50) {
					pos += g.intn(2 * blen) // the edit also deletes something
					if pos > size {
						pos = size
					}
				}
			}
		}
		var target []byte
		insBytes, copies := 0, 0
		var enc []string
		for _, p := range ps {
			if p.copy {
				target = append(target, basis[p.c:p.c+p.l]...)
				copies++
				enc = append(enc, fmt.Sprintf("C%d:%d", p.c, p.l))
			} else {
				target = append(target, p.ins...)
				insBytes += len(p.ins)
				enc = append(enc, "I"+hexOrDash(p.ins))
			}
		}
		if len(target) == 0 {
			continue
		}
		seed := int32(g.next())
		slen := int32([]int{2, 16, 16}[g.intn(3)])
		head, s1, s2 := legalSums(seed, basis, int32(blen), slen)
		c := &senderCase{seed: seed, basis: basis, target: target, kind: "editscript", head: head, sum1: s1, sum2: s2}

		// independent evaluation of the hypothesis and of the bound
		isStart := func(p int) bool {
			u := 0
			for _, pc := range ps {
				if pc.copy {
					if u <= p && p+blen <= u+pc.l && (pc.c+p-u)%blen == 0 {
						return true
					}
					u += pc.l
				} else {
					u += len(pc.ins)
				}
			}
			return false
		}
		noAccident := true
		for p := 0; p+blen <= len(target) && noAccident; p++ {
			w := target[p : p+blen]
			var w1 uint32
			var w2 []byte
			for bi := range s1 {
				if int(blockLen(head, int32(bi))) != blen {
					continue
				}
				if w2 == nil {
					w1, w2 = verifhook.Checksum1(w), verifhook.Checksum2(seed, w)[:slen]
				}
				if s1[bi] == w1 && bytes.Equal(s2[bi], w2) && !isStart(p) {
					noAccident = false
					break
				}
			}
		}
		bound := insBytes + 2*(blen-1)*copies

		id := fmt.Sprintf("eb%d", i)
		out, err := verifhook.SenderRun(seed, c.request(), target)
		obs := ""
		implLits := -1
		if err != nil {
			obs = "ERR:" + errClass(err)
		} else if so, perr := parseSenderOutput(out); perr != nil {
			obs = "BADOUT:" + perr.Error()
		} else {
			implLits = 0
			for _, t := range so.toks {
				implLits += len(t.lit)
			}
			obs = fmt.Sprintf("lits=%d|na=%v|bound=%d", implLits, b2i(noAccident), bound)
		}
		r.count(fmt.Sprintf("editscript/lowentropy=%v/no_accident=%v/pieces=%d", lowEntropy, noAccident, len(ps)))
		fields := append(c.modelFields()[:3], hexOrDash(basis), strings.Join(enc, ";"))
		r.emit("editbound", id, fields, obs, noAccident && implLits > 0 && copies > 0)
		if implLits < 0 {
			r.oracleFail(id, "sender failed on a legal checksum set: "+obs, map[string]any{"basis_hex": clipHex(basis), "script": enc, "blen": blen})
			continue
		}
		if noAccident && implLits > bound {
			r.oracleFail(id, fmt.Sprintf("literal data %d exceeds new bytes + 2*(blen-1) per unedited stretch = %d although no window matches a block by accident", implLits, bound),
				map[string]any{"basis_hex": clipHex(basis), "script": enc, "blen": blen, "slen": slen, "seed": seed, "target_len": len(target)})
		}
	}
	return nil
}

func b2i(b bool) int {
	if b {
		return 1
	}
	return 0
}

func init() { components["editbound"] = runEditBound }
