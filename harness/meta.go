package main

import (
	"bytes"
	"fmt"
	"os"
	"os/user"
	"path/filepath"
	"strconv"
	"strings"
	"sync"
)

func hasShort(args []string, c byte) bool {
	for _, a := range args {
		if strings.HasPrefix(a, "-") && !strings.HasPrefix(a, "--") && strings.IndexByte(a, c) >= 0 {
			return true
		}
	}
	return false
}

func hasLong(args []string, l string) bool {
	for _, a := range args {
		if a == l {
			return true
		}
	}
	return false
}

// C11: lstat of every destination entry vs the source entry, per option subset.
func runMeta(r *run) error {
	g := newRng(r.seed, "meta")
	base, err := mkTemp("meta")
	if err != nil {
		return err
	}
	defer rmTemp(base)
	pool := newSessionPool(8)
	defer pool.close()
	nTrees := 8
	if r.tier == "thorough" {
		nTrees = 100
	}
	arrs := []string{"pull", "push", "local", "libpull", "libpush"}
	type job struct {
		sp    sessionSpec
		src   treeSpec
		prior map[string]nodeSpec
		sit   map[string]string
	}
	var jobs []job
	for t := 0; t < nTrees; t++ {
		src := genMixedTree(g, 6+g.intn(8), 0)
		srcRoot := filepath.Join(base, fmt.Sprintf("src%d", t))
		if err := src.materialise(srcRoot); err != nil {
			return err
		}
		for k := 0; k < 5; k++ {
			arr := arrs[(t+k)%len(arrs)]
			args := append([]string{"-r"}, pickOpts(g, []string{"-l", "-p", "-t", "-g", "-o", "-D"})...)
			switch g.intn(8) {
			case 0:
				args = []string{"-a"}
			case 1:
				args = append(args, "--devices")
			case 2:
				args = append(args, "--specials")
			case 3:
				args = []string{"-rlptgoD"}
			}
			if g.chance(25) {
				args = append(args, "-c")
			}
			id := fmt.Sprintf("meta-t%d-%d-%s", t, k, arr)
			dest := filepath.Join(base, id)
			prior, sit := mixedPrior(g, src)
			// a directory in the way of a non-directory is a (reported) failure, not a metadata question
			var kept treeSpec
			pm := map[string]nodeSpec{}
			for _, n := range prior {
				if n.Type == "d" && sit[n.Path] == "wrong-type" {
					n.Type, n.Data = "f", []byte("in the way")
				}
				if strings.HasPrefix(n.Path, "extra") {
					continue
				}
				kept = append(kept, n)
				pm[n.Path] = n
			}
			if err := kept.materialise(dest); err != nil {
				return err
			}
			sp := sessionSpec{ID: id, Arr: arr, Args: args, SrcRoot: srcRoot, Srcs: []string{""}, Dest: dest, TimeoutMs: 60000}
			jobs = append(jobs, job{sp, src, pm, sit})
		}
	}
	var wg sync.WaitGroup
	var mu sync.Mutex
	for _, j := range jobs {
		wg.Add(1)
		go func(j job) {
			defer wg.Done()
			res := pool.run(j.sp)
			after := takeSnapshot(j.sp.Dest)
			mu.Lock()
			defer mu.Unlock()
			args := j.sp.Args
			r.count("meta/" + j.sp.Arr + "/" + res.Outcome)
			r.emit("noop", j.sp.ID, []string{strings.Join(args, " ")}, "ok", true)
			detail := map[string]any{"arrangement": j.sp.Arr, "args": args, "err": res.Err, "stderr": tailStr(res.Stderr, 400),
				"regenerate": fmt.Sprintf("VERIF_SEED=%d ./check C11 (session %s)", r.seed, j.sp.ID)}
			if res.Outcome != "ok" {
				r.oracleFail(j.sp.ID, "metadata session did not succeed ("+res.Outcome+"): "+res.Err, detail)
				return
			}
			all := hasShort(args, 'a')
			links := all || hasShort(args, 'l')
			perms := all || hasShort(args, 'p')
			times := all || hasShort(args, 't')
			owner := all || hasShort(args, 'o')
			group := all || hasShort(args, 'g')
			devs := all || hasShort(args, 'D') || hasLong(args, "--devices")
			specs := all || hasShort(args, 'D') || hasLong(args, "--specials")
			var bad []string
			for _, n := range j.src {
				transferred := n.Type == "f" || n.Type == "d" || (n.Type == "l" && links) || ((n.Type == "c" || n.Type == "b") && devs) || ((n.Type == "p" || n.Type == "s") && specs)
				got, ok := after[n.Path]
				pr, hadPrior := j.prior[n.Path]
				if !transferred {
					continue
				}
				r.count("entry/" + n.Type + "/" + j.sit[n.Path])
				if !ok {
					bad = append(bad, n.Path+": missing")
					continue
				}
				if got.Type != n.Type {
					bad = append(bad, fmt.Sprintf("%s: type %s, source %s", n.Path, got.Type, n.Type))
					continue
				}
				if n.Type != "l" {
					want := n.Mode
					if n.Type == "f" && !perms && hadPrior && pr.Type == "f" {
						want = pr.Mode
					}
					if got.Mode != want {
						bad = append(bad, fmt.Sprintf("%s: mode %04o, want %04o (prior %v)", n.Path, got.Mode, want, hadPrior))
					}
				}
				if times && n.Type != "l" && n.Type != "d" && got.Mtime != n.Mtime {
					bad = append(bad, fmt.Sprintf("%s: mtime %d, source %d", n.Path, got.Mtime, n.Mtime))
				}
				if owner && int(got.Uid) != n.Uid {
					bad = append(bad, fmt.Sprintf("%s: uid %d, source %d", n.Path, got.Uid, n.Uid))
				}
				if group && int(got.Gid) != n.Gid {
					bad = append(bad, fmt.Sprintf("%s: gid %d, source %d", n.Path, got.Gid, n.Gid))
				}
				if n.Type == "l" && got.Link != n.Link {
					bad = append(bad, fmt.Sprintf("%s: target %q, source %q", n.Path, got.Link, n.Link))
				}
				if (n.Type == "c" || n.Type == "b") && got.Rdev != uint64(n.Rdev) {
					bad = append(bad, fmt.Sprintf("%s: rdev %d, source %d", n.Path, got.Rdev, n.Rdev))
				}
			}
			if len(bad) > 0 {
				if len(bad) > 6 {
					bad = bad[:6]
				}
				detail["wrong"] = bad
				r.oracleFail(j.sp.ID, "destination metadata differs from the source: "+strings.Join(bad, "; "), detail)
			}
		}(j)
	}
	wg.Wait()
	// owner and group by name: a hand-written sender lists ids with names
	if nb, err1 := user.Lookup("nobody"); err1 == nil {
		if ng, err2 := user.LookupGroup("nogroup"); err2 == nil {
			wantU, _ := strconv.Atoi(nb.Uid)
			wantG, _ := strconv.Atoi(ng.Gid)
			for _, side := range []string{"client", "daemon"} {
				id := "meta-idnames-" + side
				dest := filepath.Join(base, id)
				os.MkdirAll(dest, 0o755)
				var after bytes.Buffer
				refEncodeIDs(&after, []idname{{4242, []byte("nobody")}, {5151, []byte("no-such-user-zzz")}})
				refEncodeIDs(&after, []idname{{4343, []byte("nogroup")}, {5252, []byte("no-such-group-zzz")}})
				after.Write(le32(0))
				file := func(n string, u, gid int32) hEntry {
					return hEntry{NameHex: hx(n), Mode: sIFREG | 0o644, Len: 4, Mtime: 1_500_000_000, DataHex: hx("data"), Uid: u, Gid: gid}
				}
				sp := sessionSpec{Kind: "hostile", ID: id, Args: []string{"-rlptgo"}, Dest: dest, TimeoutMs: 20000,
					Hostile: &hostileSpec{Target: side, Seed: 9, AfterFlist: fmt.Sprintf("%x", after.Bytes()), Entries: []hEntry{
						{NameHex: hx("."), Mode: sIFDIR | 0o755, Len: 4096, Mtime: 1_500_000_000},
						file("byname", 4242, 4343), file("unknownname", 5151, 5252), file("notlisted", 6161, 6262)}}}
				res := pool.run(sp)
				got := takeSnapshot(dest)
				r.count("idnames/" + side + "/" + res.Outcome)
				r.emit("noop", id, []string{side}, "ok", true)
				detail := map[string]any{"side": side, "err": res.Err, "log": res.Log, "dest": got.canon("to"), "local_nobody": wantU, "local_nogroup": wantG}
				if res.Outcome != "ok" {
					r.oracleFail(id, "session with id lists did not succeed: "+res.Err, detail)
					continue
				}
				for _, w := range []struct {
					n    string
					u, g int
				}{{"byname", wantU, wantG}, {"unknownname", 5151, 5252}, {"notlisted", 6161, 6262}} {
					if e := got[w.n]; int(e.Uid) != w.u || int(e.Gid) != w.g {
						r.oracleFail(id, fmt.Sprintf("%s: owner %d:%d, expected %d:%d (ids listed with a locally known name map to the local id, others are kept)", w.n, e.Uid, e.Gid, w.u, w.g), detail)
					}
				}
			}
		}
	}
	r.emit("noop", "meta-summary", []string{fmt.Sprint(len(jobs))}, "ok", true)
	r.notes["sessions"] = len(jobs)
	return nil
}

func init() { components["meta"] = runMeta }
