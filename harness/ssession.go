package main

import (
	"bytes"
	"encoding/hex"
	"fmt"
	"strings"

	"github.com/gokrazy/rsync/verifhook"
)

// ssession: the sender's whole request loop (SendFiles) over multi-file
// sessions, normal and dry-run, well-formed and truncated/hostile request
// streams. Observable: everything written, bytes consumed, error or not.
func runSSession(r *run) error {
	g := newRng(r.seed, "ssession")
	n := 1500
	if r.tier == "thorough" {
		n = 20000
	}
	for i := 0; i < n; i++ {
		id := fmt.Sprintf("ss%d", i)
		seed := int32(g.intn(1 << 20))
		dry := g.chance(40)
		nf := 1 + g.intn(4)
		files := make([][]byte, nf)
		for k := range files {
			files[k] = g.bytes(g.intn(1800))
			if g.chance(10) {
				files[k] = nil
			}
		}
		var req bytes.Buffer
		nreq := g.intn(5)
		kind := "wellformed"
		for k := 0; k < nreq; k++ {
			idx := int32(g.intn(nf))
			if g.chance(6) {
				idx = []int32{int32(nf), -2, 1 << 30, -1 << 31}[g.intn(4)]
				kind = "badindex"
			}
			if g.chance(8) && k > 0 {
				req.Write(le32(-1)) // phase change in the middle
			}
			req.Write(le32(idx))
			if dry {
				continue
			}
			switch g.intn(3) {
			case 0: // full-file request
				req.Write(le32(0))
				req.Write(le32(0))
				req.Write(le32(0))
				req.Write(le32(0))
			default:
				var basis []byte
				if idx >= 0 && int(idx) < nf {
					basis = mutate(g, files[idx])
				} else {
					basis = g.bytes(100)
				}
				blen := int32(8 + g.intn(56)) // distinct blocks: the choice among identical blocks depends on an unstable sort
				if g.chance(30) {
					blen = 700
				}
				h, s1, s2 := legalSums(seed, basis, blen, int32([]int{2, 16, 16}[g.intn(3)]))
				if g.chance(4) {
					h.blen = 0
					kind = "blen0"
				}
				if g.chance(3) {
					h.slen = 17
					kind = "badhead"
				}
				req.Write(le32(h.count))
				req.Write(le32(h.blen))
				req.Write(le32(h.slen))
				req.Write(le32(h.rem))
				for j := range s1 {
					req.Write(le32(int32(s1[j])))
					req.Write(s2[j])
				}
			}
		}
		req.Write(le32(-1))
		req.Write(le32(-1))
		rb := req.Bytes()
		if g.chance(15) {
			rb = rb[:g.intn(len(rb))]
			kind = "truncated"
		}
		if g.chance(5) {
			rb = append(rb, g.bytes(8)...) // trailing bytes after the end of the session
		}
		out, consumed, err := verifhook.SenderSession(seed, dry, files, rb)
		obs := fmt.Sprintf("OK:%d:%s", consumed, hex.EncodeToString(out))
		if err != nil {
			obs = "ERR:" + hex.EncodeToString(out)
		}
		fh := make([]string, nf)
		for k := range files {
			fh[k] = hexOrDash(files[k])
		}
		r.count(fmt.Sprintf("%s/dry=%v/err=%v", kind, dry, err != nil))
		r.emit("ssession", id, []string{fmt.Sprint(seed), b01(dry), strings.Join(fh, ";"), hexOrDash(rb)}, obs, err == nil && nreq > 0)
		if dry {
			// C10: a dry-run sender only echoes what it read; nothing derived from file content
			if !bytes.Equal(out, rb[:min(len(rb), len(out))]) || (err == nil && len(out) != consumed) {
				r.oracleFail(id, "dry-run sender wrote something other than the echoed indices", map[string]any{"req_hex": clipHex(rb), "out_hex": clipHex(out), "files": nf})
			}
		}
	}
	return nil
}

func mutate(g *rng, b []byte) []byte {
	c := append([]byte{}, b...)
	if len(c) == 0 {
		return c
	}
	switch g.intn(4) {
	case 0:
	case 1:
		c[g.intn(len(c))] ^= 0x55
	case 2:
		p := g.intn(len(c))
		c = append(append(append([]byte{}, c[:p]...), g.bytes(1+g.intn(40))...), c[p:]...)
	case 3:
		p := g.intn(len(c))
		c = c[p:]
	}
	return c
}

func init() { components["ssession"] = runSSession }
