package main

import (
	"fmt"
	"os"
	"path/filepath"
	"strings"
	"syscall"
	"time"

	"github.com/gokrazy/rsync/verifhook"
)

type priorState struct {
	kind    string // none reg dir lnk fifo sock chr blk
	perm    uint32
	mtime   int64
	uid     int
	gid     int
	link    string
	content []byte
	rdev    int
	nsec    int64
}

func makePrior(path string, p priorState) {
	switch p.kind {
	case "none":
		return
	case "reg":
		os.WriteFile(path, p.content, 0o644)
	case "dir":
		os.Mkdir(path, 0o755)
	case "dir-nonempty":
		os.Mkdir(path, 0o755)
		os.WriteFile(filepath.Join(path, "inside"), []byte("x"), 0o644)
	case "lnk":
		os.Symlink(p.link, path)
		if p.uid != 0 || p.gid != 0 {
			os.Lchown(path, p.uid, p.gid)
		}
		return
	case "fifo":
		syscall.Mkfifo(path, 0o644)
	case "sock":
		fd, err := syscall.Socket(syscall.AF_UNIX, syscall.SOCK_DGRAM, 0)
		if err == nil {
			syscall.Bind(fd, &syscall.SockaddrUnix{Name: path})
			syscall.Close(fd)
		}
	case "chr":
		syscall.Mknod(path, syscall.S_IFCHR|0o644, p.rdev)
	case "blk":
		syscall.Mknod(path, syscall.S_IFBLK|0o644, p.rdev)
	}
	os.Lchown(path, p.uid, p.gid)
	os.Chmod(path, os.FileMode(p.perm))
	mt := time.Unix(p.mtime, p.nsec)
	os.Chtimes(path, mt, mt)
}

// canonical lstat tuple: kind:perm:mtime:uid:gid:link:rdev  (mtime "now" when within the last minutes)
func lstatTuple(path string, started time.Time) string {
	fi, err := os.Lstat(path)
	if err != nil {
		return "absent"
	}
	st := fi.Sys().(*syscall.Stat_t)
	kind := "reg"
	link := ""
	rdev := uint64(0)
	switch {
	case fi.Mode()&os.ModeSymlink != 0:
		kind = "lnk"
		link, _ = os.Readlink(path)
	case fi.IsDir():
		kind = "dir"
	case fi.Mode()&os.ModeNamedPipe != 0:
		kind = "fifo"
	case fi.Mode()&os.ModeSocket != 0:
		kind = "sock"
	case fi.Mode()&os.ModeCharDevice != 0:
		kind, rdev = "chr", uint64(st.Rdev)
	case fi.Mode()&os.ModeDevice != 0:
		kind, rdev = "blk", uint64(st.Rdev)
	}
	mt := fmt.Sprint(fi.ModTime().Unix())
	if !fi.ModTime().Before(started.Add(-2*time.Second)) && fi.ModTime().Before(started.Add(time.Hour)) {
		mt = "now"
	}
	perm := fmt.Sprintf("%o", fi.Mode().Perm())
	if kind == "lnk" {
		perm, mt = "777", "-" // symlink mode and mtime are never set
	}
	return fmt.Sprintf("%s:%s:%s:%d:%d:%s:%d", kind, perm, mt, st.Uid, st.Gid, hexOrDash([]byte(link)), rdev)
}

func typeBits(kind string) int32 {
	switch kind {
	case "reg":
		return sIFREG
	case "dir":
		return sIFDIR
	case "lnk":
		return sIFLNK
	case "fifo":
		return sIFIFO
	case "sock":
		return sIFSOCK
	case "chr":
		return sIFCHR
	case "blk":
		return sIFBLK
	}
	return 0
}

func runGenOps(r *run) error {
	g := newRng(r.seed, "genops")
	base, err := mkTemp("genops")
	if err != nil {
		return err
	}
	defer rmTemp(base)
	umask := syscall.Umask(0o022)
	defer syscall.Umask(umask)
	umask = 0o022
	if os.Getuid() != 0 {
		return fmt.Errorf("genops needs root (mknod, chown)")
	}
	n := 2500
	if r.tier == "thorough" {
		n = 40000
	}
	kinds := []string{"reg", "reg", "reg", "dir", "lnk", "fifo", "sock", "chr", "blk"}
	priors := []string{"none", "none", "reg", "reg", "reg", "dir", "lnk", "fifo", "chr", "blk", "sock"}
	for i := 0; i < n; i++ {
		o := verifhook.GenOpts{DryRun: g.chance(15), PreserveLinks: g.chance(75), PreserveDevices: g.chance(60), PreserveSpecials: g.chance(60),
			PreservePerms: g.bool(), PreserveTimes: g.bool(), PreserveUid: g.bool(), PreserveGid: g.bool(), AlwaysChecksum: g.chance(25), IgnoreTimes: g.chance(15)}
		ek := kinds[g.intn(len(kinds))]
		content := g.bytes(20 + g.intn(30))
		e := verifhook.FileEntry{Name: "e", Length: int64(len(content)), ModTime: []int64{0, 1_500_000_000, -86400, 2_000_000_000, 1}[g.intn(5)],
			Mode: typeBits(ek) | int32(g.intn(0o1000)), Uid: int32([]int{0, 1234, 65534}[g.intn(3)]), Gid: int32([]int{0, 4321, 65534}[g.intn(3)])}
		if ek == "lnk" {
			e.LinkTarget = []string{"target", "../x", "/abs", "t\xff", "a/../b", "./c", "d//e", "f/"}[g.intn(8)]
		}
		if ek == "chr" || ek == "blk" {
			e.Rdev = int32(1<<8 | g.intn(200))
		}
		e.Checksum = plainMD4(content)
		if ek == "dir" {
			e.Length = 4096
		}
		p := priorState{kind: priors[g.intn(len(priors))], perm: uint32(g.intn(0o1000)), mtime: []int64{e.ModTime, e.ModTime, 1_400_000_000, e.ModTime + 1}[g.intn(4)],
			uid: []int{0, int(e.Uid), 1234}[g.intn(3)], gid: []int{0, int(e.Gid), 4321}[g.intn(3)], link: []string{e.LinkTarget, "other"}[g.intn(2)], rdev: 1<<8 | g.intn(200)}
		p.nsec = []int64{0, 0, 500_000_000, 999_999_999, 250_000_000}[g.intn(5)]
		if g.chance(20) {
			p.mtime = e.ModTime - 1 // less than a second before the listed time when nsec > 0
		}
		if p.link == "" {
			p.link = "other"
		}
		if p.kind == "reg" {
			switch g.intn(3) {
			case 0:
				p.content = content
			case 1:
				p.content = append([]byte{}, content...)
				p.content[0] ^= 1
			case 2:
				p.content = g.bytes(len(content) + 1 + g.intn(5))
			}
		}
		if p.kind == "dir" && ek != "dir" && g.chance(30) {
			p.kind = "dir-nonempty"
		}
		id := fmt.Sprintf("go%d", i)
		dir := filepath.Join(base, id)
		os.Mkdir(dir, 0o755)
		path := filepath.Join(dir, "e")
		makePrior(path, p)
		started := time.Now()
		before := lstatTuple(path, started.Add(-time.Hour))
		wire, gerr := verifhook.RecvGenerator(dir, o, e, true)
		after := lstatTuple(path, started)
		req := "none"
		switch {
		case len(wire) == 4:
			req = "dry-request"
		case len(wire) == 20 && strings.Count(string(wire[4:]), "\x00") == 16:
			req = "full"
		case len(wire) > 20:
			req = "delta"
		case len(wire) > 0:
			req = fmt.Sprintf("wire%d", len(wire))
		}
		obs := after + "|" + req
		if gerr != nil {
			obs = "ERR"
			r.count("error: " + fsErrClass(gerr))
		}
		os.RemoveAll(dir)
		bits := func(bs ...bool) string {
			s := ""
			for _, b := range bs {
				s += b01(b)
			}
			return s
		}
		prior := p.kind
		if p.kind != "none" {
			prior = fmt.Sprintf("%s:%d:%d:%d:%d:%s:%d:%s", p.kind, p.perm, p.mtime, p.uid, p.gid, hexOrDash([]byte(p.link)), p.rdev, hexOrDash(p.content))
		}
		ent := fmt.Sprintf("%d:%d:%d:%d:%d:%d:%s:%s", e.Length, e.ModTime, e.Mode, e.Uid, e.Gid, e.Rdev, hexOrDash([]byte(e.LinkTarget)), hexOrDash(e.Checksum))
		r.count(fmt.Sprintf("%s<-%s/dry=%v", ek, strings.SplitN(p.kind, "-", 2)[0], o.DryRun))
		r.emit("genops", id, []string{bits(o.DryRun, o.PreserveLinks, o.PreserveDevices, o.PreserveSpecials, o.PreservePerms, o.PreserveTimes, o.PreserveUid, o.PreserveGid, o.AlwaysChecksum, o.IgnoreTimes), fmt.Sprint(umask), ent, prior}, obs, before != after)
		// C11 oracle on the unit level: an entry the generator completes by itself has the listed metadata
		if gerr == nil && !o.DryRun && req == "none" {
			handled := ek == "dir" || (ek == "lnk" && o.PreserveLinks) || ((ek == "chr" || ek == "blk") && o.PreserveDevices) ||
				((ek == "fifo" || ek == "sock") && o.PreserveSpecials) || (ek == "reg" && p.kind == "reg")
			if handled {
				parts := strings.Split(after, ":")
				var bad []string
				if parts[0] != ek {
					bad = append(bad, "type "+parts[0])
				} else {
					wantPerm := fmt.Sprintf("%o", e.Mode&0o777)
					if ek == "reg" && !o.PreservePerms {
						wantPerm = fmt.Sprintf("%o", p.perm)
					}
					if ek != "lnk" && parts[1] != wantPerm {
						bad = append(bad, "perm "+parts[1]+" want "+wantPerm)
					}
					if ek != "lnk" && o.PreserveTimes && parts[2] != fmt.Sprint(e.ModTime) {
						bad = append(bad, "mtime "+parts[2])
					}
					if o.PreserveUid && parts[3] != fmt.Sprint(e.Uid) {
						bad = append(bad, "uid "+parts[3])
					}
					if o.PreserveGid && parts[4] != fmt.Sprint(e.Gid) {
						bad = append(bad, "gid "+parts[4])
					}
					if ek == "lnk" && parts[5] != hexOrDash([]byte(e.LinkTarget)) {
						bad = append(bad, "target")
					}
					if (ek == "chr" || ek == "blk") && parts[6] != fmt.Sprint(e.Rdev) {
						bad = append(bad, "rdev "+parts[6])
					}
				}
				if len(bad) > 0 {
					r.oracleFail(id, "C11: entry left with wrong metadata: "+strings.Join(bad, ", "), map[string]any{"opts": fmt.Sprintf("%+v", o), "entry_kind": ek, "entry_mode": fmt.Sprintf("%o", e.Mode), "prior": p.kind, "after": after})
				}
			}
		}
		// C10 oracle on the unit level: a dry run changes nothing
		if o.DryRun && before != after && gerr == nil {
			r.oracleFail(id, "dry run changed the destination entry: "+before+" -> "+after, map[string]any{"opts": fmt.Sprintf("%+v", o), "entry_kind": ek, "prior": p.kind})
		}
	}
	return nil
}

func init() { components["genops"] = runGenOps }

func fsErrClass(err error) string {
	s := err.Error()
	for _, k := range []string{"directory not empty", "is a directory", "file exists", "address already in use", "not a directory", "permission denied"} {
		if strings.Contains(s, k) {
			return k
		}
	}
	return "other"
}
