package main

import (
	"fmt"
	"os"
	"path/filepath"
	"strings"
	"sync"
)

// C18 (first half): every transfer completes whatever the transport's
// capacity and chunking per direction, including sessions that end in an error.
func runInterleave(r *run) error {
	g := newRng(r.seed, "interleave")
	base, err := mkTemp("interleave")
	if err != nil {
		return err
	}
	defer rmTemp(base)
	pool := newSessionPool(8)
	defer pool.close()
	bigSize := 1 << 20
	if r.tier == "thorough" {
		bigSize = 2 << 20
	}
	type tree struct {
		name       string
		src, prior treeSpec
		heavy      bool
	}
	var trees []tree
	{ // many tiny files
		var t treeSpec
		for i := 0; i < 250; i++ {
			t = append(t, nodeSpec{Path: fmt.Sprintf("d%d/t%03d", i%7, i), Type: "f", Data: g.bytes(g.intn(40)), Mode: 0o644, Mtime: 1_500_000_000})
		}
		trees = append(trees, tree{"tiny", t, nil, false})
	}
	{ // huge literal: a new incompressible file
		d := g.bytes(bigSize)
		trees = append(trees, tree{"literal", treeSpec{{Path: "big.bin", Type: "f", Data: d, Mode: 0o644, Mtime: 1_500_000_000}}, nil, false})
	}
	{ // huge checksum list: 16 MiB already present with small edits (about 4000 block checksums, 80 kB of requests)
		d := genData(g, 16<<20)
		e := append([]byte{}, d...)
		for k := 0; k < 5; k++ {
			e[g.intn(len(e))] ^= 0x55
		}
		trees = append(trees, tree{"sums", treeSpec{{Path: "huge.bin", Type: "f", Data: d, Mode: 0o644, Mtime: 1_500_000_000}},
			treeSpec{{Path: "huge.bin", Type: "f", Data: e, Mode: 0o644, Mtime: 1_400_000_000}}, true})
	}
	{ // mix
		var t, p treeSpec
		for i := 0; i < 60; i++ {
			t = append(t, nodeSpec{Path: fmt.Sprintf("m/t%03d", i), Type: "f", Data: g.bytes(g.intn(100)), Mode: 0o644, Mtime: 1_500_000_000})
		}
		d := g.bytes(bigSize / 2)
		t = append(t, nodeSpec{Path: "m/mid.bin", Type: "f", Data: d, Mode: 0o644, Mtime: 1_500_000_000})
		e, _, _ := editData(g, d, 3, 500)
		p = append(p, nodeSpec{Path: "m/mid.bin", Type: "f", Data: e, Mode: 0o644, Mtime: 1_400_000_000})
		t = append(t, nodeSpec{Path: "m/new.bin", Type: "f", Data: g.bytes(bigSize / 3), Mode: 0o644, Mtime: 1_500_000_000})
		trees = append(trees, tree{"mix", t, p, false})
	}
	{ // many stale files: every request carries a checksum list while earlier answers carry data
		var t, p treeSpec
		for i := 0; i < 12; i++ {
			d := g.bytes(bigSize / 4)
			e, _, _ := editData(g, d, 2, 300)
			t = append(t, nodeSpec{Path: fmt.Sprintf("s/f%02d.bin", i), Type: "f", Data: d, Mode: 0o644, Mtime: 1_500_000_000})
			p = append(p, nodeSpec{Path: fmt.Sprintf("s/f%02d.bin", i), Type: "f", Data: e, Mode: 0o644, Mtime: 1_400_000_000})
		}
		trees = append(trees, tree{"stale", t, p, false})
	}
	for i := range trees {
		if err := trees[i].src.materialise(filepath.Join(base, "src-"+trees[i].name)); err != nil {
			return err
		}
	}
	caps := []int{0, 1, 19, 65536, -1}
	chunks := []int{0, 1, 7, 4096}
	type job struct {
		sp    sessionSpec
		t     tree
		wantE bool
		desc  string
	}
	var jobs []job
	n := 0
	for _, t := range trees {
		for _, arr := range []string{"libpull", "libpush"} {
			for _, c1 := range caps {
				for _, c2 := range caps {
					n++
					ch := chunks[g.intn(len(chunks))]
					if t.heavy {
						// the 16 MiB tree is there for the 64 KiB capacity; byte-sized capacities on it take minutes
						if !((c1 == 65536 || c1 == -1 || c1 == 0) && (c2 == 65536 || c2 == -1 || c2 == 0)) {
							continue
						}
						if ch == 1 || ch == 7 {
							ch = 4096
						}
					}
					if r.tier != "thorough" && !t.heavy && (n+int(r.seed))%3 != 0 {
						continue
					}
					if (c1 == 1 || c2 == 1 || c1 == 19 || c2 == 19 || ch == 1 || ch == 7) && t.name != "tiny" && r.tier != "thorough" && g.chance(60) {
						continue
					}
					id := fmt.Sprintf("il-%s-%s-%d-%d-%d", t.name, arr, c1, c2, ch)
					dest := filepath.Join(base, id)
					if err := t.prior.materialise(dest); err != nil {
						return err
					}
					os.MkdirAll(dest, 0o755)
					to := 120000
					if c1 == 1 || c2 == 1 || c1 == 19 || c2 == 19 || ch == 1 || ch == 7 {
						to = 900000 // megabytes through byte-sized buffers in byte-sized chunks are slow, not stuck
					}
					sp := sessionSpec{ID: id, Arr: arr, Args: []string{"-rt"}, SrcRoot: filepath.Join(base, "src-"+t.name), Srcs: []string{""}, Dest: dest,
						CapC2S: c1, CapS2C: c2, Chunk: ch, DelayUs: 30 * g.intn(2), TimeoutMs: to}
					jobs = append(jobs, job{sp, t, false, fmt.Sprintf("%s tree, %s, capacity client->server %d / server->client %d, chunks <= %d", t.name, arr, c1, c2, ch)})
				}
			}
		}
		if !t.heavy {
			id := "il-" + t.name + "-local"
			dest := filepath.Join(base, id)
			t.prior.materialise(dest)
			os.MkdirAll(dest, 0o755)
			jobs = append(jobs, job{sessionSpec{ID: id, Arr: "local", Args: []string{"-rt"}, SrcRoot: filepath.Join(base, "src-"+t.name), Srcs: []string{""}, Dest: dest, TimeoutMs: 120000}, t, false, t.name + " tree, local copy (in-process server over unbuffered pipes)"})
		}
	}
	// sessions that must end in an error, over rendezvous and tiny transports
	errSrc := treeSpec{{Path: "a/f1", Type: "f", Data: g.bytes(70000), Mode: 0o644, Mtime: 1_500_000_000}, {Path: "a/f2", Type: "f", Data: g.bytes(90000), Mode: 0o644, Mtime: 1_500_000_000},
		{Path: "blocked", Type: "f", Data: g.bytes(50000), Mode: 0o644, Mtime: 1_500_000_000}, {Path: "z/f3", Type: "f", Data: g.bytes(60000), Mode: 0o644, Mtime: 1_500_000_000}}
	if err := errSrc.materialise(filepath.Join(base, "src-err")); err != nil {
		return err
	}
	for _, arr := range []string{"libpull", "libpush", "local"} {
		for _, c := range []int{0, 1, 65536} {
			if arr == "local" && c != 0 {
				continue
			}
			for _, kind := range []string{"dir-in-the-way", "wildcard-rule"} {
				id := fmt.Sprintf("il-err-%s-%s-%d", kind, arr, c)
				dest := filepath.Join(base, id)
				args := []string{"-rt"}
				var prior treeSpec
				if kind == "dir-in-the-way" { // a non-empty directory where a regular file must go: the receiving side fails
					prior = treeSpec{{Path: "blocked", Type: "d", Mode: 0o755, Mtime: 1}, {Path: "blocked/inner", Type: "f", Data: []byte("x"), Mode: 0o644, Mtime: 1}}
				} else {
					args = append(args, "--exclude=*f2") // the sending side rejects wildcard rules
				}
				prior.materialise(dest)
				os.MkdirAll(dest, 0o755)
				sp := sessionSpec{ID: id, Arr: arr, Args: args, SrcRoot: filepath.Join(base, "src-err"), Srcs: []string{""}, Dest: dest, CapC2S: c, CapS2C: c, TimeoutMs: 30000}
				jobs = append(jobs, job{sp, tree{name: "err"}, true, fmt.Sprintf("failing session (%s), %s, capacity %d", kind, arr, c)})
			}
		}
	}
	var wg sync.WaitGroup
	var mu sync.Mutex
	for _, j := range jobs {
		wg.Add(1)
		go func(j job) {
			defer wg.Done()
			res := pool.run(j.sp)
			mu.Lock()
			defer mu.Unlock()
			r.count("interleave/" + j.t.name + "/" + res.Outcome)
			r.emit("noop", j.sp.ID, []string{j.desc}, "ok", true)
			detail := map[string]any{"case": j.desc, "err": res.Err, "srv_err": res.SrvErr, "stderr": tailStr(res.Stderr, 3000), "elapsed_ms": res.Elapsed,
				"regenerate": fmt.Sprintf("VERIF_SEED=%d ./check C18 (session %s)", r.seed, j.sp.ID)}
			switch {
			case res.Outcome == "timeout" || res.Outcome == "died":
				r.oracleFail(j.sp.ID, "the session did not run to completion ("+res.Outcome+"): "+j.desc, detail)
			case strings.Contains(res.SrvErr, "still running"):
				r.oracleFail(j.sp.ID, "the server side of the session never finished: "+j.desc, detail)
			case j.wantE && res.Outcome == "ok":
				r.count("interleave/err-case-succeeded")
			case !j.wantE && res.Outcome != "ok":
				r.oracleFail(j.sp.ID, "a transfer that succeeds over an unbounded transport failed over this one ("+clipStr(res.Err, 150)+"): "+j.desc, detail)
			case !j.wantE:
				for _, nsp := range j.t.src {
					got, err := readRegular(filepath.Join(j.sp.Dest, nsp.Path))
					if err != nil || string(got) != string(nsp.Data) {
						detail["file"] = nsp.Path
						r.oracleFail(j.sp.ID, "destination content differs from the source after the session: "+j.desc, detail)
						break
					}
				}
			}
			os.RemoveAll(j.sp.Dest)
		}(j)
	}
	wg.Wait()
	r.notes["sessions"] = len(jobs)
	return nil
}

func init() { components["interleave"] = runInterleave }
