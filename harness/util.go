package main

import (
	xmd4pkg "golang.org/x/crypto/md4"
	"hash"
	"os"
)

func mkTemp(prefix string) (string, error) {
	base := os.Getenv("VERIF_TMP")
	if base == "" {
		base = os.TempDir()
	}
	return os.MkdirTemp(base, "verif-"+prefix+"-")
}

func rmTemp(dir string) {
	// directories may have been made read-only by tests
	os.RemoveAll(dir)
}

func init() {
	components["acl"] = runACL
}

func plainMD4(b []byte) []byte {
	h := xmd4New()
	h.Write(b)
	return h.Sum(nil)
}

func xmd4New() hash.Hash { return xmd4pkg.New() }
