package main

import (
	"os"
)

func mkTemp(prefix string) (string, error) {
	base := os.Getenv("VERIF_TMP")
	if base == "" {
		base = os.TempDir()
	}
	return os.MkdirTemp(base, "verif-"+prefix+"-")
}

func rmTemp(dir string) {
	// directories may have been made read-only by tests
	os.RemoveAll(dir)
}

func init() {
	components["acl"] = runACL
}
