package main

import (
	"bufio"
	"bytes"
	"context"
	"encoding/binary"
	"fmt"
	"io"
	"os"
	"path/filepath"
	"regexp"
	"runtime"
	"sort"
	"strings"
	"sync"
	"time"

	"github.com/gokrazy/rsync/rsyncclient"
	"github.com/gokrazy/rsync/rsyncd"
)

// ---- scripted sessions: the byte stream a well-behaved peer would send,
// split into labelled fields, one of which is then mutated ----

type hfield struct {
	label string
	kind  byte // 'i' int32, 'c' count-like int32, 'f' flag byte, 'n' byte string, 'l' text line, 'm' multiplex header
	b     []byte
}

type hostile2Spec struct {
	Role     string `json:"role"`                // daemon-pull | daemon-push | client-pull | client-push
	Field    int    `json:"field"`               // index of the mutated field (-1: none)
	Variant  int    `json:"variant"`             // which mutation of that field
	Truncate int    `json:"truncate"`            // cut the stream after this many bytes (-1: no)
	Noise    int64  `json:"noise"`               // non-zero: overwrite a random slice with random bytes (seeded)
	ExtraArg string `json:"extra_arg,omitempty"` // daemon roles: an additional argument line
	NoServer bool   `json:"no_server,omitempty"` // daemon roles: the --server argument line is left out
}

var hostileData = struct{ a, big, big2 []byte }{
	a:    []byte("hello, world\n"),
	big:  bytes.Repeat([]byte("0123456789abcdefghijklmnopqrstuvwxyz-block-data-"), 60),
	big2: append(bytes.Repeat([]byte("0123456789abcdefghijklmnopqrstuvwxyz-block-data-"), 59), []byte("a different tail that is literal data in the delta..")...),
}

func fI(label string, v int32) hfield  { return hfield{label, 'i', le32(v)} }
func fC(label string, v int32) hfield  { return hfield{label, 'c', le32(v)} }
func fN(label string, b []byte) hfield { return hfield{label, 'n', b} }

// requests of a receiving peer: full request for index 0, delta request with real block sums for index of big.bin
func requestFields(seed int32, idxSmall, idxBig int32) []hfield {
	var fs []hfield
	fs = append(fs, fI("req.index", idxSmall), fC("req.head.count", 0), fC("req.head.blen", 0), fC("req.head.slen", 0), fC("req.head.rem", 0))
	h, s1, s2 := legalSums(seed, hostileData.big2, 700, 16)
	fs = append(fs, fI("req2.index", idxBig), fC("req2.head.count", h.count), fC("req2.head.blen", h.blen), fC("req2.head.slen", h.slen), fC("req2.head.rem", h.rem))
	for j := range s1 {
		fs = append(fs, fI(fmt.Sprintf("req2.sum1[%d]", j), int32(s1[j])), fN(fmt.Sprintf("req2.sum2[%d]", j), s2[j]))
	}
	fs = append(fs, fI("phase1.end", -1), fI("phase2.end", -1), fI("goodbye", -1))
	return fs
}

// file list + file data of a sending peer (options -rlt)
func sendFields(seed int32, withFilterList bool) []hfield {
	var fs []hfield
	if withFilterList {
		fs = append(fs, fC("filter.len", 4), fN("filter.rule", []byte("- zz")), fC("filter.end", 0))
	}
	type ent struct {
		name string
		mode int32
		len  int64
		link string
		data []byte
	}
	ents := []ent{{".", sIFDIR | 0o755, 4096, "", nil}, {"a.txt", sIFREG | 0o644, int64(len(hostileData.a)), "", hostileData.a},
		{"big.bin", sIFREG | 0o600, int64(len(hostileData.big)), "", hostileData.big}, {"d", sIFDIR | 0o755, 4096, "", nil},
		{"d/x", sIFREG | 0o644, 3, "", []byte("xyz")}, {"ln", sIFLNK | 0o777, 5, "a.txt", nil}}
	for i, e := range ents {
		p := fmt.Sprintf("flist[%d].", i)
		fs = append(fs, hfield{p + "flags", 'f', []byte{xLongName}}, fC(p+"namelen", int32(len(e.name))), fN(p+"name", []byte(e.name)),
			fI(p+"size", int32(e.len)), fI(p+"mtime", 1_500_000_000), fI(p+"mode", e.mode))
		if e.link != "" {
			fs = append(fs, fC(p+"linklen", int32(len(e.link))), fN(p+"link", []byte(e.link)))
		}
	}
	fs = append(fs, hfield{"flist.end", 'f', []byte{0}}, fI("flist.ioerrors", 0))
	// file data in index order of the sorted list: ".", "a.txt", "big.bin", "d", "d/x", "ln"
	for _, x := range []struct {
		idx  int32
		data []byte
	}{{1, hostileData.a}, {2, hostileData.big}, {4, []byte("xyz")}} {
		p := fmt.Sprintf("file[%d].", x.idx)
		fs = append(fs, fI(p+"index", x.idx), fC(p+"head.count", 0), fC(p+"head.blen", 0), fC(p+"head.slen", 0), fC(p+"head.rem", 0))
		half := len(x.data) / 2
		fs = append(fs, fC(p+"tok1.len", int32(half+1)), fN(p+"tok1.data", x.data[:half+1]))
		if len(x.data) > half+1 {
			fs = append(fs, fC(p+"tok2.len", int32(len(x.data)-half-1)), fN(p+"tok2.data", x.data[half+1:]))
		}
		fs = append(fs, fI(p+"tok.end", 0), fN(p+"sum", fileSum(seed, x.data)))
	}
	fs = append(fs, fI("phase1.end", -1), fI("phase2.end", -1))
	return fs
}

func statsFields() []hfield {
	var b1, b2, b3 bytes.Buffer
	wI64(&b1, 100)
	wI64(&b2, 200)
	wI64(&b3, 300)
	return []hfield{fN("stats.read", b1.Bytes()), fN("stats.written", b2.Bytes()), fN("stats.size", b3.Bytes())}
}

// frames wraps groups of fields into multiplexed data frames whose headers are fields too.
func frames(fs []hfield, per int) []hfield {
	var out []hfield
	for i := 0; i < len(fs); i += per {
		j := i + per
		if j > len(fs) {
			j = len(fs)
		}
		n := 0
		for _, f := range fs[i:j] {
			n += len(f.b)
		}
		var hd [4]byte
		binary.LittleEndian.PutUint32(hd[:], uint32(7)<<24|uint32(n))
		out = append(out, hfield{fmt.Sprintf("mux[%d].header", i/per), 'm', hd[:]})
		out = append(out, fs[i:j]...)
	}
	return out
}

// hostileScript: text-phase lines (daemon roles) and the binary fields for a seed.
func hostileScript(role string, seed int32) (lines []hfield, bin []hfield) {
	L := func(label, s string) hfield { return hfield{label, 'l', []byte(s + "\n")} }
	switch role {
	case "daemon-pull":
		lines = []hfield{L("greeting", "@RSYNCD: 27"), L("module", "mod"), L("arg.server", "--server"), L("arg.sender", "--sender"), L("arg.opts", "-rlt"), L("arg.dot", "."), L("arg.path", "mod/"), L("arg.end", "")}
		bin = append([]hfield{fC("filter.len", 4), fN("filter.rule", []byte("- zz")), fC("filter.end", 0)}, requestFields(seed, 1, 2)...)
	case "daemon-push":
		lines = []hfield{L("greeting", "@RSYNCD: 27"), L("module", "mod"), L("arg.server", "--server"), L("arg.opts", "-rlt"), L("arg.delete", "--delete"), L("arg.dot", "."), L("arg.path", "mod/up"), L("arg.end", "")}
		bin = sendFields(seed, true)
	case "client-pull": // we are the server sending to a receiving client
		bin = append([]hfield{fI("version", 27), fI("seed", seed)}, frames(append(sendFields(seed, false), statsFields()...), 7)...)
	case "client-push": // we are the server receiving from a sending client
		bin = append([]hfield{fI("version", 27), fI("seed", seed)}, frames(requestFields(seed, 1, 2), 5)...)
	}
	return
}

func mutations(f hfield) [][]byte {
	var out [][]byte
	switch f.kind {
	case 'i', 'c':
		v := int32(binary.LittleEndian.Uint32(f.b))
		vals := []int32{-1, -2, -1 << 31, 0, 1, v - 1, v + 1}
		if f.kind == 'i' {
			vals = append(vals, 0x7fffffff, 1<<20)
		} else {
			vals = append(vals, 1<<20-1, 65536) // count-like fields stay below 2^20 unless negative
		}
		for _, x := range vals {
			if x != v {
				out = append(out, le32(x))
			}
		}
	case 'f':
		for bit := 0; bit < 8; bit++ {
			out = append(out, []byte{f.b[0] ^ 1<<bit})
		}
		out = append(out, []byte{0xff}, []byte{0})
	case 'n':
		out = append(out, nil, f.b[:len(f.b)/2], append(append([]byte{}, f.b...), f.b...), bytes.Repeat([]byte{0}, len(f.b)), bytes.Repeat([]byte{0xff}, len(f.b)),
			[]byte("../../../../etc/passwd"), []byte("/"), bytes.Repeat([]byte("A/"), 2100))
	case 'l':
		s := strings.TrimSuffix(string(f.b), "\n")
		out = append(out, nil, []byte("\n"), []byte(s), []byte(s+"\x00\n"), []byte(strings.Repeat("A", 70000)+"\n"), []byte("@RSYNCD: 99999999999999999999\n"), []byte("@ERROR\n"),
			[]byte(s+" \n"), []byte("\xff\xfe\n"), []byte("#list\n"))
	case 'm':
		v := binary.LittleEndian.Uint32(f.b)
		for _, x := range []uint32{0, v & 0xffffff, uint32(8)<<24 | v&0xffffff, uint32(9)<<24 | 5, uint32(7)<<24 | 0xffffff, uint32(7)<<24 | (v&0xffffff + 1), uint32(7)<<24 | (v&0xffffff - 1), 0xffffffff, uint32(7+86)<<24 | v&0xffffff} {
			var b [4]byte
			binary.LittleEndian.PutUint32(b[:], x)
			out = append(out, b[:])
		}
		// a complete frame one byte longer than the client's read buffer (padding in front of the
		// frame's own bytes): refused as long as the frame limit does not exceed that buffer
		if n, big := int(v&0xffffff), genConst("c_clientBufioSize", 262144)+1; big > n && big <= 0xffffff {
			b := make([]byte, 4+big-n)
			binary.LittleEndian.PutUint32(b[:4], uint32(7)<<24|uint32(big))
			out = append(out, b)
		}
	}
	return out
}

func joinFields(fs []hfield, mutIdx int, variant int, base int) []byte {
	var b bytes.Buffer
	for i, f := range fs {
		if base+i == mutIdx {
			ms := mutations(f)
			b.Write(ms[variant%len(ms)])
			continue
		}
		b.Write(f.b)
	}
	return b.Bytes()
}

func applyStreamFaults(b []byte, h *hostile2Spec) []byte {
	if h.Noise != 0 && len(b) > 0 {
		g := newRng(uint64(h.Noise), "noise")
		b = append([]byte{}, b...)
		at := g.intn(len(b))
		n := 1 + g.intn(24)
		for i := at; i < at+n && i < len(b); i++ {
			b[i] = byte(g.intn(256))
		}
		if g.chance(20) {
			b = append(b, g.bytes(1+g.intn(64))...)
		}
	}
	if h.Truncate >= 0 && h.Truncate < len(b) {
		b = b[:h.Truncate]
	}
	return b
}

// the module / destination the target works on
func hostileTree(dir string) error {
	t := treeSpec{{Path: "a.txt", Type: "f", Data: hostileData.a, Mode: 0o644, Mtime: 1_500_000_000}, {Path: "big.bin", Type: "f", Data: hostileData.big, Mode: 0o600, Mtime: 1_500_000_000},
		{Path: "d", Type: "d", Mode: 0o755, Mtime: 1_500_000_000}, {Path: "d/x", Type: "f", Data: []byte("xyz"), Mode: 0o644, Mtime: 1_500_000_000}, {Path: "ln", Type: "l", Link: "a.txt"}}
	return t.materialise(dir)
}

func withDeadline(d time.Duration, f func()) bool {
	done := make(chan struct{})
	go func() { f(); close(done) }()
	select {
	case <-done:
		return true
	case <-time.After(d):
		return false
	}
}

// runHostile2 (inside a worker): one hostile session, then a canonical valid one against the same daemon.
func runHostile2(sp sessionSpec, res *sessionResult) error {
	h := sp.Hostile2
	var stderr bytes.Buffer
	ctx, cancel := context.WithCancel(context.Background())
	defer cancel()
	defer func() { res.Stderr = tailStr(stderr.String(), 6000) }()
	dir := sp.Dest
	switch h.Role {
	case "daemon-pull", "daemon-push":
		srv, err := rsyncd.NewServer([]rsyncd.Module{{Name: "mod", Path: dir, Writable: h.Role == "daemon-push"}}, rsyncd.DontRestrict(), rsyncd.WithStderr(&stderr))
		if err != nil {
			return err
		}
		c2s, s2c := newBufPipe(), newBufPipe()
		handlerDone := make(chan error, 1)
		go func() {
			handlerDone <- srv.HandleDaemonConn(ctx, rsyncd.NewConnection(c2s, s2c, "127.0.0.1:9"))
			s2c.Close()
		}()
		lines, _ := hostileScript(h.Role, 0)
		if h.ExtraArg != "" {
			// before "." (the end of the options)
			var nl []hfield
			for _, l := range lines {
				if l.label == "arg.dot" {
					nl = append(nl, hfield{"arg.extra", 'l', []byte(h.ExtraArg + "\n")})
				}
				nl = append(nl, l)
			}
			lines = nl
		}
		if h.NoServer {
			var nl []hfield
			for _, l := range lines {
				if l.label != "arg.server" {
					nl = append(nl, l)
				}
			}
			lines = nl
		}
		phase := "text"
		withDeadline(4*time.Second, func() {
			br := bufio.NewReader(s2c)
			br.ReadString('\n') // daemon greeting
			text := joinFields(lines, h.Field, h.Variant, 0)
			nbin := 0
			if h.Field < len(lines) || h.Truncate < 0 || h.Truncate >= len(text) {
				// the whole text phase goes out at once (a pipelining client)
			}
			total := applyStreamFaults(text, &hostile2Spec{Truncate: minInt(h.Truncate, len(text)), Noise: 0})
			if h.Truncate >= 0 && h.Truncate < len(text) {
				c2s.Write(total)
				c2s.Close()
				return
			}
			c2s.Write(text)
			// wait for OK and the seed (or the end of the connection)
			for {
				l, err := br.ReadString('\n')
				if err != nil {
					return
				}
				if strings.HasPrefix(l, "@RSYNCD: OK") {
					break
				}
				if strings.HasPrefix(l, "@ERROR") || strings.HasPrefix(l, "@RSYNCD: EXIT") {
					return
				}
			}
			seed, err := rdI32(br)
			if err != nil {
				return
			}
			phase = "binary"
			go io.Copy(io.Discard, br)
			_, bin := hostileScript(h.Role, seed)
			b := joinFields(bin, h.Field, h.Variant, len(lines))
			hb := *h
			if hb.Truncate >= 0 {
				hb.Truncate -= len(text)
			}
			b = applyStreamFaults(b, &hb)
			_ = nbin
			c2s.Write(b)
			c2s.Close()
		})
		c2s.Close()
		select {
		case e := <-handlerDone:
			if e != nil {
				res.SrvErr = clipStr(e.Error(), 200)
			}
		case <-time.After(8 * time.Second):
			res.Parse = "handler-hang:" + phase
			st := allStacks()
			if hugeAllocation(st) {
				res.Parse = "declared-huge-size"
			}
			stderr.WriteString(st)
			return nil
		}
		// the same daemon still serves a canonical valid request
		r, _ := pullExchange(ctx, srv, "mod", []string{"--server", "--sender", "-rlt", ".", "mod/"}, true)
		if !strings.HasPrefix(r, "listed|") || !strings.Contains(r, fmt.Sprintf("%x", "a.txt")) {
			res.Parse = "daemon-not-serving-afterwards:" + clipStr(r, 80)
			return nil
		}
		res.Parse = "session-ended:" + phase
		if res.SrvErr == "" {
			res.Parse = "session-ok:" + phase
		}
		return nil
	case "client-pull", "client-push":
		args := []string{"-rlt"}
		var opts []rsyncclient.Option
		opts = append(opts, rsyncclient.DontRestrict(), rsyncclient.WithStderr(&stderr))
		paths := []string{dir}
		if h.Role == "client-push" {
			opts = append(opts, rsyncclient.WithSender())
			paths = []string{dir + "/"}
		}
		cl, err := rsyncclient.New(args, opts...)
		if err != nil {
			return err
		}
		c2s, s2c := newBufPipe(), newBufPipe()
		_, bin := hostileScript(h.Role, 77)
		b := applyStreamFaults(joinFields(bin, h.Field, h.Variant, 0), h)
		go func() {
			s2c.Write(b)
			s2c.Close()
			io.Copy(io.Discard, c2s)
		}()
		var rerr error
		ok := withDeadline(10*time.Second, func() {
			_, rerr = cl.Run(ctx, struct {
				io.Reader
				io.Writer
			}{s2c, c2s}, paths)
		})
		c2s.Close()
		if !ok {
			res.Parse = "client-hang"
			st := allStacks()
			if hugeAllocation(st) {
				res.Parse = "declared-huge-size"
			}
			stderr.WriteString(st)
			return nil
		}
		if rerr != nil {
			res.Parse = "client-error"
			res.Err = clipStr(rerr.Error(), 200)
		} else {
			res.Parse = "client-ok"
		}
		return nil
	}
	return fmt.Errorf("unknown role %q", h.Role)
}

// hugeAllocation: a goroutine of the implementation is busy (not blocked) allocating or filling
// the buffer for a literal token whose declared length is enormous — the resource-exhaustion
// class that the property (and the project) excludes.
func hugeAllocation(stacks string) bool {
	for _, g := range strings.Split(stacks, "\n\n") {
		// the three places that allocate for a peer-declared 32-bit size: literal tokens (token.go),
		// symlink targets (receiver/flist.go) and the checksum list (sender.go receiveSums)
		lines := strings.Split(g, "\n")
		for i := 0; i+1 < len(lines); i++ {
			if strings.HasPrefix(lines[i], "goroutine ") && (strings.Contains(lines[i], "[runnable]") || strings.Contains(lines[i], "[running]")) &&
				(strings.Contains(lines[i+1], "recvToken") || strings.Contains(lines[i+1], "receiveFileEntry") || strings.Contains(lines[i+1], "receiveSums")) {
				return true
			}
		}
		if false {
			return true
		}
	}
	return false
}

func allStacks() string {
	buf := make([]byte, 1<<20)
	n := runtime.Stack(buf, true)
	var keep []string
	for _, g := range strings.Split(string(buf[:n]), "\n\n") {
		if strings.Contains(g, "gokrazy/rsync/") && !strings.Contains(g, "allStacks") {
			keep = append(keep, g)
		}
	}
	return "\n--- goroutines inside gokrazy/rsync ---\n" + strings.Join(keep, "\n\n")
}

func minInt(a, b int) int {
	if a < b {
		return a
	}
	return b
}

// parserOptions: every option the parser's table knows (from the generated Coq table).
func parserOptions() []string {
	b, err := os.ReadFile(filepath.Join(os.Getenv("VERIF_ROOT"), "coq", "Gen", "OptTable.v"))
	if err != nil {
		return nil
	}
	re := regexp.MustCompile(`(?m)^  \("([^"]*)", "([^"]*)", (\d+), "[^"]*", -?\d+\)`)
	var out []string
	for _, m := range re.FindAllStringSubmatch(string(b), -1) {
		withArg := m[3] != "0" && m[3] != "7" && m[3] != "6"
		if m[1] != "" {
			out = append(out, "--"+m[1])
			if withArg {
				out = append(out, "--"+m[1]+"=1", "--"+m[1]+"=help", "--"+m[1]+"=-5")
			}
		}
		if m[2] != "" {
			out = append(out, "-"+m[2])
		}
	}
	sort.Strings(out)
	return out
}

// C08: structure-aware mutations of valid sessions, truncation at every offset, noise.
func runHostileInput(r *run) error {
	g := newRng(r.seed, "hostile")
	base, err := mkTemp("hostile")
	if err != nil {
		return err
	}
	defer rmTemp(base)
	pool := newSessionPool(6)
	defer pool.close()
	type job struct {
		sp   sessionSpec
		desc string
	}
	var jobs []job
	n := 0
	stride := 6
	if r.tier == "thorough" {
		stride = 1
	}
	add := func(h hostile2Spec, desc string, always bool) error {
		n++
		if !always && (n+int(r.seed))%stride != 0 {
			return nil
		}
		id := fmt.Sprintf("h%d", n)
		dir := filepath.Join(base, id)
		if strings.HasPrefix(h.Role, "daemon") || h.Role == "client-push" {
			if err := hostileTree(dir); err != nil {
				return err
			}
		} else {
			os.MkdirAll(dir, 0o755)
		}
		hh := h
		jobs = append(jobs, job{sessionSpec{Kind: "hostile2", ID: id, Dest: dir, TimeoutMs: 30000, Hostile2: &hh}, desc})
		return nil
	}
	for _, role := range []string{"daemon-pull", "daemon-push", "client-pull", "client-push"} {
		lines, bin := hostileScript(role, 1)
		all := append(append([]hfield{}, lines...), bin...)
		// control: the unmutated script is a valid session
		if err := add(hostile2Spec{Role: role, Field: -1, Truncate: -1}, role+": unmutated control", true); err != nil {
			return err
		}
		for i, f := range all {
			for v := range mutations(f) {
				if err := add(hostile2Spec{Role: role, Field: i, Variant: v, Truncate: -1}, fmt.Sprintf("%s: field %s variant %d", role, f.label, v), false); err != nil {
					return err
				}
			}
		}
		total := 0
		for _, f := range all {
			total += len(f.b)
		}
		step := 1
		if r.tier != "thorough" {
			step = 17
		}
		for off := int(r.seed) % step; off < total; off += step {
			if err := add(hostile2Spec{Role: role, Field: -1, Truncate: off}, fmt.Sprintf("%s: stream truncated at byte %d of %d", role, off, total), true); err != nil {
				return err
			}
		}
		nNoise := 15
		if r.tier == "thorough" {
			nNoise = 400
		}
		for k := 0; k < nNoise; k++ {
			if err := add(hostile2Spec{Role: role, Field: -1, Truncate: -1, Noise: int64(1 + g.intn(1<<30))}, fmt.Sprintf("%s: random noise", role), true); err != nil {
				return err
			}
		}
	}
	// every option the parser knows, as an argument line of a daemon request
	for _, o := range parserOptions() {
		for _, role := range []string{"daemon-pull", "daemon-push"} {
			if err := add(hostile2Spec{Role: role, Field: -1, Truncate: -1, ExtraArg: o}, role+": extra argument line "+o, role == "daemon-pull" || r.tier == "thorough"); err != nil {
				return err
			}
			// ... and the same without --server (the daemon then believes it talks to a command line user)
			if err := add(hostile2Spec{Role: role, Field: -1, Truncate: -1, ExtraArg: o, NoServer: true}, role+": no --server, extra argument line "+o, role == "daemon-push" || r.tier == "thorough"); err != nil {
				return err
			}
		}
	}
	var wg sync.WaitGroup
	var mu sync.Mutex
	for _, j := range jobs {
		wg.Add(1)
		go func(j job) {
			defer wg.Done()
			res := pool.run(j.sp)
			mu.Lock()
			defer mu.Unlock()
			obs := res.Parse
			if res.Outcome != "ok" {
				obs = "process:" + res.Outcome
			}
			cls := strings.SplitN(obs, ":", 2)[0]
			r.count(j.sp.Hostile2.Role + "/" + cls)
			r.emit("noop", j.sp.ID, []string{clipStr(j.desc, 120)}, "ok", cls == "session-ended" || cls == "client-error")
			detail := map[string]any{"case": j.desc, "spec": j.sp.Hostile2, "observed": obs, "err": res.Err, "srv_err": res.SrvErr, "stderr": tailStr(res.Stderr, 6000),
				"regenerate": fmt.Sprintf("VERIF_SEED=%d ./check C08 (session %s)", r.seed, j.sp.ID)}
			switch {
			case res.Outcome == "died" && (strings.Contains(res.Stderr, "out of memory") || strings.Contains(res.Stderr, "cannot allocate memory")):
				r.count("out-of-scope/declared-huge-size-oom")
			case res.Outcome == "died":
				r.oracleFail(j.sp.ID, "the process crashed or exited on hostile input ("+res.Err+"): "+j.desc, detail)
			case res.Outcome == "timeout" || cls == "handler-hang" || cls == "client-hang":
				r.oracleFail(j.sp.ID, "the session did not end after the peer closed the connection: "+j.desc, detail)
			case cls == "daemon-not-serving-afterwards":
				r.oracleFail(j.sp.ID, "after the hostile session the daemon no longer answers a valid request ("+obs+"): "+j.desc, detail)
			case strings.Contains(j.desc, "unmutated control") && cls != "session-ok" && cls != "client-ok":
				r.oracleFail(j.sp.ID, "harness control: the unmutated scripted session is not accepted as valid ("+obs+" "+res.Err+res.SrvErr+")", detail)
			}
			os.RemoveAll(j.sp.Dest)
		}(j)
	}
	wg.Wait()
	r.notes["sessions"] = len(jobs)
	return nil
}

func init() { components["hostile"] = runHostileInput }
