package main

import (
	"bufio"
	"bytes"
	"context"
	"crypto/sha256"
	"encoding/hex"
	"encoding/json"
	"fmt"
	"io"
	"io/fs"
	"net"
	"os"
	"os/exec"
	"path/filepath"
	"sort"
	"strings"
	"sync"
	"sync/atomic"
	"syscall"
	"time"

	"github.com/gokrazy/rsync/rsyncclient"
	"github.com/gokrazy/rsync/rsynccmd"
	"github.com/gokrazy/rsync/rsyncd"
)

// A sessionSpec describes one complete transfer through public APIs only.
// It is executed inside a worker subprocess so that a panic or os.Exit in
// the implementation is an observable outcome, not a harness failure.
type sessionSpec struct {
	Kind string   `json:"kind"` // "" = transfer session, "parse" = option parser only
	ID   string   `json:"id"`
	Arr  string   `json:"arr"`  // pull | push | local | libpull | libpush
	Args []string `json:"args"` // rsync options
	// Sources are given relative to SrcRoot ("" = the root itself), each with
	// or without a trailing slash, exactly as a user would type them.
	SrcRoot string   `json:"src_root"`
	Srcs    []string `json:"srcs"`
	Dest    string   `json:"dest"`
	// daemon module options (pull: module = SrcRoot, push: module = Dest)
	ReadOnly  bool   `json:"read_only"`
	ModSubdir string `json:"mod_subdir"` // push: rsync://host/mod/<subdir>
	FaultyDir string `json:"faulty_dir"` // pull: serve the module through an fs.FS whose ReadDir fails for this directory
	TimeoutMs int    `json:"timeout_ms"`
	// interruption of the byte stream towards the receiving side (library arrangements):
	// snapshots of Dest while the receiver is blocked at each of FreezeAt (ascending),
	// end of that stream at CutAt, SIGKILL of the whole process at KillAt (-1/0 = off)
	FreezeAt []int64 `json:"freeze_at,omitempty"`
	CutAt    int64   `json:"cut_at,omitempty"`
	KillAt   int64   `json:"kill_at,omitempty"`
	CutBack  int64   `json:"cut_back,omitempty"` // end of the stream from the receiving side at this offset
	// transport between client and server in the library arrangements: capacity per direction
	// (0 = rendezvous as io.Pipe, n > 0 = at most n buffered bytes, -1 = unbounded), writes split
	// into chunks of at most Chunk bytes (0 = unsplit) with up to DelayUs microseconds between them
	CapC2S  int `json:"cap_c2s,omitempty"`
	CapS2C  int `json:"cap_s2c,omitempty"`
	Chunk   int `json:"chunk,omitempty"`
	DelayUs int `json:"delay_us,omitempty"`
	// a hand-written sending peer (kind = "hostile")
	Hostile *hostileSpec `json:"hostile,omitempty"`
	// a raw daemon-protocol exchange (kind = "daemonreq")
	DaemonReq *daemonReqSpec `json:"daemon_req,omitempty"`
	// a hand-written receiving client against a real daemon (kind = "pullraw")
	PullRaw *pullRawSpec `json:"pull_raw,omitempty"`
	// a scripted, mutated peer (kind = "hostile2")
	Hostile2 *hostile2Spec `json:"hostile2,omitempty"`
	// N simultaneous clients against one daemon (kind = "concurrent")
	Concurrent *concurrentSpec `json:"concurrent,omitempty"`
}

type sessionResult struct {
	Parse   string `json:"parse,omitempty"` // kind=parse: canonical parser observable
	ID      string `json:"id"`
	Err     string `json:"err"`     // "" = success
	Outcome string `json:"outcome"` // ok | error | died | timeout
	Stderr  string `json:"stderr"`  // tail
	SrvErr  string `json:"srv_err"` // server-side handler error, if observable
	Elapsed int    `json:"elapsed_ms"`
	Bytes   int64  `json:"bytes"` // bytes on the wire, both directions (-1: not observable, local copies)
	// bytes that reached the receiving side, and the snapshots taken at FreezeAt
	ToReceiver int64    `json:"to_receiver"`
	MidSnaps   []string `json:"mid_snaps,omitempty"`
	Log        []string `json:"log,omitempty"`
}

// gateReader counts the bytes towards one side and interrupts at byte offsets.
type gateReader struct {
	r        io.Reader
	n        int64
	freezeAt []int64
	cutAt    int64
	killAt   int64
	onFreeze func()
	onCut    func()
}

func (g *gateReader) Read(p []byte) (int, error) {
	for len(g.freezeAt) > 0 && g.freezeAt[0] <= g.n {
		g.onFreeze()
		g.freezeAt = g.freezeAt[1:]
	}
	if g.killAt > 0 && g.n >= g.killAt {
		syscall.Kill(os.Getpid(), syscall.SIGKILL)
		select {}
	}
	if g.cutAt > 0 && g.n >= g.cutAt {
		if g.onCut != nil {
			g.onCut()
		}
		return 0, io.ErrUnexpectedEOF
	}
	lim := int64(len(p))
	for _, b := range []int64{g.cutAt, g.killAt} {
		if b > 0 && b-g.n < lim {
			lim = b - g.n
		}
	}
	if len(g.freezeAt) > 0 && g.freezeAt[0]-g.n < lim {
		lim = g.freezeAt[0] - g.n
	}
	n, err := g.r.Read(p[:lim])
	g.n += int64(n)
	return n, err
}

type countConn struct {
	net.Conn
	n *atomic.Int64
}

func (c countConn) Read(p []byte) (int, error) {
	n, err := c.Conn.Read(p)
	c.n.Add(int64(n))
	return n, err
}
func (c countConn) Write(p []byte) (int, error) {
	n, err := c.Conn.Write(p)
	c.n.Add(int64(n))
	return n, err
}

type countLn struct {
	net.Listener
	n *atomic.Int64
}

func (l countLn) Accept() (net.Conn, error) {
	c, err := l.Listener.Accept()
	if err != nil {
		return nil, err
	}
	return countConn{c, l.n}, nil
}

type countRW struct {
	r io.Reader
	w io.Writer
	n *atomic.Int64
}

func (c countRW) Read(p []byte) (int, error) { n, err := c.r.Read(p); c.n.Add(int64(n)); return n, err }
func (c countRW) Write(p []byte) (int, error) {
	n, err := c.w.Write(p)
	c.n.Add(int64(n))
	return n, err
}

func runSessionInProcess(sp sessionSpec) (res sessionResult) {
	res.ID = sp.ID
	if sp.Kind == "parse" {
		res.Parse, res.Outcome = parseObservable(sp.Args), "ok"
		return res
	}
	if sp.Kind == "concurrent" {
		if err := runConcurrent(sp, &res); err != nil {
			res.Err, res.Outcome = err.Error(), "error"
		} else {
			res.Outcome = "ok"
		}
		return res
	}
	if sp.Kind == "hostile2" {
		if err := runHostile2(sp, &res); err != nil {
			res.Err, res.Outcome = err.Error(), "error"
		} else {
			res.Outcome = "ok"
		}
		return res
	}
	if sp.Kind == "pullraw" {
		if err := runPullRaw(sp, &res); err != nil {
			res.Err, res.Outcome = err.Error(), "error"
		} else {
			res.Outcome = "ok"
		}
		return res
	}
	if sp.Kind == "daemonreq" {
		if err := runDaemonReq(sp, &res); err != nil {
			res.Err, res.Outcome = err.Error(), "error"
		} else {
			res.Outcome = "ok"
		}
		return res
	}
	if sp.Kind == "hostile" {
		if err := runHostile(sp, &res); err != nil {
			res.Err, res.Outcome = err.Error(), "error"
		} else {
			res.Outcome = "ok"
		}
		return res
	}
	var stderr bytes.Buffer
	clientStderr := "" // of a stock client, kept apart from the daemon's log
	ctx, cancel := context.WithCancel(context.Background())
	defer cancel()
	var err error
	var wire atomic.Int64
	defer func() {
		res.Bytes = wire.Load()
		if sp.Arr == "local" {
			res.Bytes = -1
		}
	}()
	switch sp.Arr {
	case "local":
		var srcs []string
		for _, s := range sp.Srcs {
			srcs = append(srcs, filepath.Join(sp.SrcRoot, s)+trailing(s))
		}
		args := append(append([]string{}, sp.Args...), srcs...)
		args = append(args, sp.Dest)
		cmd := rsynccmd.Command("rsync", args...)
		cmd.Stdout, cmd.Stderr, cmd.DontRestrict = io.Discard, &stderr, true
		_, err = cmd.Run(ctx)
	case "pull", "push", "tridgepull":
		mod := rsyncd.Module{Name: "mod", Path: sp.SrcRoot}
		if sp.Arr == "pull" && sp.FaultyDir != "" {
			mod = rsyncd.Module{Name: "mod", FS: faultFS{os.DirFS(sp.SrcRoot), sp.FaultyDir}}
		}
		if sp.Arr == "push" {
			mod = rsyncd.Module{Name: "mod", Path: sp.Dest, Writable: !sp.ReadOnly}
		}
		srv, serr := rsyncd.NewServer([]rsyncd.Module{mod}, rsyncd.DontRestrict(), rsyncd.WithStderr(&stderr))
		if serr != nil {
			res.Err, res.Outcome = "NewServer: "+serr.Error(), "error"
			return
		}
		ln, lerr := net.Listen("tcp", "127.0.0.1:0")
		if lerr != nil {
			res.Err, res.Outcome = lerr.Error(), "error"
			return
		}
		go srv.Serve(ctx, countLn{ln, &wire})
		url := "rsync://" + ln.Addr().String() + "/mod/"
		var args []string
		if sp.Arr == "pull" {
			args = append(args, sp.Args...)
			for _, s := range sp.Srcs {
				args = append(args, url+s)
			}
			args = append(args, sp.Dest)
		} else {
			args = append(args, sp.Args...)
			for _, s := range sp.Srcs {
				args = append(args, filepath.Join(sp.SrcRoot, s)+trailing(s))
			}
			args = append(args, url+sp.ModSubdir)
		}
		if sp.Arr == "tridgepull" {
			// the stock rsync client pulls from the daemon under test
			targs := append([]string{}, sp.Args...)
			for _, s := range sp.Srcs {
				targs = append(targs, url+s)
			}
			targs = append(targs, sp.Dest)
			c := exec.CommandContext(ctx, "rsync", targs...)
			var cliErr bytes.Buffer
			c.Stdout, c.Stderr = io.Discard, &cliErr
			err = c.Run()
			clientStderr = tailStr(cliErr.String(), 600)
			break
		}
		cmd := rsynccmd.Command("rsync", args...)
		cmd.Stdout, cmd.Stderr, cmd.DontRestrict = io.Discard, &stderr, true
		_, err = cmd.Run(ctx)
	case "libpull", "libpush":
		var opts []rsyncclient.Option
		opts = append(opts, rsyncclient.DontRestrict(), rsyncclient.WithStderr(&stderr))
		if sp.Arr == "libpush" {
			opts = append(opts, rsyncclient.WithSender())
		}
		cl, cerr := rsyncclient.New(sp.Args, opts...)
		if cerr != nil {
			res.Err, res.Outcome = "client.New: "+cerr.Error(), "error"
			return
		}
		srv, _ := rsyncd.NewServer(nil, rsyncd.DontRestrict(), rsyncd.WithStderr(&stderr))
		c2sR, c2sW := capPipe(sp.CapC2S, sp.Chunk, sp.DelayUs, sp.ID+"c2s")
		s2cR, s2cW := capPipe(sp.CapS2C, sp.Chunk, sp.DelayUs, sp.ID+"s2c")
		var paths []string
		var sargs []string
		if sp.Arr == "libpull" {
			var remote []string
			for _, s := range sp.Srcs {
				remote = append(remote, filepath.Join(sp.SrcRoot, s)+trailing(s))
			}
			sargs = cl.ServerCommandOptions(remote[0], remote[1:]...)
			paths = []string{sp.Dest}
		} else {
			sargs = cl.ServerCommandOptions(sp.Dest)
			for _, s := range sp.Srcs {
				paths = append(paths, filepath.Join(sp.SrcRoot, s)+trailing(s))
			}
		}
		closeAll := func() { c2sW.Close(); s2cW.Close(); c2sR.Close(); s2cR.Close() }
		toRecv := &gateReader{freezeAt: sp.FreezeAt, cutAt: sp.CutAt, killAt: sp.KillAt, onCut: closeAll,
			onFreeze: func() { res.MidSnaps = append(res.MidSnaps, takeSnapshot(sp.Dest).canon("tc")) }}
		toSend := &gateReader{cutAt: sp.CutBack, onCut: closeAll}
		var cliR, srvR io.Reader = s2cR, c2sR
		if sp.Arr == "libpull" {
			toRecv.r, toSend.r = s2cR, c2sR
			cliR, srvR = toRecv, toSend
		} else {
			toRecv.r, toSend.r = c2sR, s2cR
			cliR, srvR = toSend, toRecv
		}
		defer func() { res.ToReceiver = toRecv.n }()
		srvDone := make(chan error, 1)
		go func() {
			conn := rsyncd.NewConnection(srvR, s2cW, "lib")
			e := srv.HandleConnArgs(ctx, conn, nil, sargs)
			s2cW.Close()
			c2sR.Close()
			srvDone <- e
		}()
		_, err = cl.Run(ctx, countRW{cliR, c2sW, &wire}, paths)
		c2sW.Close()
		s2cR.Close()
		select {
		case e := <-srvDone:
			if e != nil {
				res.SrvErr = e.Error()
			}
		case <-time.After(2 * time.Second):
			res.SrvErr = "server handler still running 2s after the client returned"
		}
	default:
		err = fmt.Errorf("unknown arrangement %q", sp.Arr)
	}
	res.Stderr = tailStr(stderr.String(), 1500) + clientStderr
	if err != nil {
		res.Err, res.Outcome = err.Error(), "error"
	} else {
		res.Outcome = "ok"
	}
	return res
}

// faultFS serves inner, but reading the directory bad fails (an unreadable
// source directory, which root cannot produce with chmod).
type faultFS struct {
	inner fs.FS
	bad   string
}

func (f faultFS) Open(name string) (fs.File, error) { return f.inner.Open(name) }
func (f faultFS) ReadDir(name string) ([]fs.DirEntry, error) {
	if name == f.bad {
		return nil, &fs.PathError{Op: "readdir", Path: name, Err: fs.ErrPermission}
	}
	return fs.ReadDir(f.inner, name)
}
func (f faultFS) ReadLink(name string) (string, error) {
	if rl, ok := f.inner.(fs.ReadLinkFS); ok {
		return rl.ReadLink(name)
	}
	return "", fs.ErrInvalid
}
func (f faultFS) Lstat(name string) (fs.FileInfo, error) {
	if rl, ok := f.inner.(fs.ReadLinkFS); ok {
		return rl.Lstat(name)
	}
	return fs.Stat(f.inner, name)
}

func trailing(s string) string {
	if strings.HasSuffix(s, "/") || s == "" {
		return "/"
	}
	return ""
}

// sessionWorkerMain: read specs (one JSON object per line), run, answer.
func sessionWorkerMain() {
	in := bufio.NewReaderSize(os.Stdin, 1<<20)
	out := bufio.NewWriter(os.Stdout)
	for {
		line, err := in.ReadBytes('\n')
		if len(line) > 0 {
			var sp sessionSpec
			if json.Unmarshal(line, &sp) == nil {
				t0 := time.Now()
				res := runSessionInProcess(sp)
				res.Elapsed = int(time.Since(t0) / time.Millisecond)
				b, _ := json.Marshal(res)
				// the implementation may print to stdout (e.g. --help): mark result lines
				out.WriteString("\n@@RES@@")
				out.Write(b)
				out.WriteByte('\n')
				out.Flush()
			}
		}
		if err != nil {
			return
		}
	}
}

type worker struct {
	cmd    *exec.Cmd
	in     io.WriteCloser
	out    *bufio.Reader
	stderr *syncBuffer
}

func startWorker() (*worker, error) {
	cmd := exec.Command(os.Args[0], "-component", "_sessionworker")
	cmd.Env = os.Environ()
	in, _ := cmd.StdinPipe()
	outp, _ := cmd.StdoutPipe()
	eb := &syncBuffer{}
	cmd.Stderr = eb
	if err := cmd.Start(); err != nil {
		return nil, err
	}
	return &worker{cmd: cmd, in: in, out: bufio.NewReaderSize(outp, 1<<20), stderr: eb}, nil
}

func (w *worker) kill() {
	w.in.Close()
	w.cmd.Process.Kill()
	w.cmd.Wait()
}

type sessionPool struct {
	mu   sync.Mutex
	idle []*worker
	sem  chan struct{}
}

func newSessionPool(n int) *sessionPool { return &sessionPool{sem: make(chan struct{}, n)} }

func (p *sessionPool) close() {
	p.mu.Lock()
	defer p.mu.Unlock()
	for _, w := range p.idle {
		w.kill()
	}
	p.idle = nil
}

// run executes one session in some worker; a dying or hanging worker is an outcome.
func (p *sessionPool) run(sp sessionSpec) sessionResult {
	p.sem <- struct{}{}
	defer func() { <-p.sem }()
	p.mu.Lock()
	var w *worker
	// a session that kills its own process gets a process of its own: an idle worker may still
	// be finishing the asynchronous clean-up of an earlier session
	if n := len(p.idle); n > 0 && sp.KillAt <= 0 {
		w, p.idle = p.idle[n-1], p.idle[:n-1]
	}
	p.mu.Unlock()
	if w == nil {
		var err error
		if w, err = startWorker(); err != nil {
			return sessionResult{ID: sp.ID, Outcome: "error", Err: "cannot start worker: " + err.Error()}
		}
	}
	b, _ := json.Marshal(sp)
	w.in.Write(append(b, '\n'))
	type rd struct {
		line []byte
		err  error
	}
	ch := make(chan rd, 1)
	go func() {
		for {
			l, err := w.out.ReadBytes('\n')
			if bytes.HasPrefix(l, []byte("@@RES@@")) {
				ch <- rd{l[len("@@RES@@"):], nil}
				return
			}
			if err != nil {
				ch <- rd{nil, err}
				return
			}
		}
	}()
	to := time.Duration(sp.TimeoutMs) * time.Millisecond
	if to == 0 {
		to = 30 * time.Second
	}
	select {
	case r := <-ch:
		if r.err != nil || len(r.line) == 0 {
			w.cmd.Wait()
			st := "?"
			if ws, ok := w.cmd.ProcessState.Sys().(syscall.WaitStatus); ok {
				if ws.Signaled() {
					st = "signal " + ws.Signal().String()
				} else {
					st = fmt.Sprintf("exit status %d", ws.ExitStatus())
				}
			}
			return sessionResult{ID: sp.ID, Outcome: "died", Err: "process " + st, Stderr: tailStr(w.stderr.String(), 2000)}
		}
		var res sessionResult
		json.Unmarshal(r.line, &res)
		if ps := w.stderr.String(); strings.Contains(ps, "DATA RACE") {
			res.Stderr += "\n[worker process stderr]\n" + tailStr(ps, 8000)
			w.stderr.Reset()
		}
		p.mu.Lock()
		p.idle = append(p.idle, w)
		p.mu.Unlock()
		return res
	case <-time.After(to):
		// goroutine dump for the replay, then kill
		w.cmd.Process.Signal(syscall.SIGQUIT)
		time.Sleep(150 * time.Millisecond)
		w.kill()
		return sessionResult{ID: sp.ID, Outcome: "timeout", Err: fmt.Sprintf("no completion within %v", to), Stderr: tailStr(w.stderr.String(), 3000)}
	}
}

// ---- snapshots ----

type snapEnt struct {
	Type  string // f d l p s c b
	Mode  uint32 // permission bits
	Size  int64
	Mtime int64
	Nsec  int64
	Uid   uint32
	Gid   uint32
	Rdev  uint64
	Link  string
	Sum   string
	Ino   uint64
}

type snapshot map[string]snapEnt

func takeSnapshot(root string) snapshot {
	snap := snapshot{}
	filepath.Walk(root, func(p string, fi os.FileInfo, err error) error {
		if err != nil {
			return nil
		}
		rel, _ := filepath.Rel(root, p)
		st := fi.Sys().(*syscall.Stat_t)
		e := snapEnt{Mode: uint32(fi.Mode().Perm()), Size: fi.Size(), Mtime: fi.ModTime().Unix(), Nsec: int64(fi.ModTime().Nanosecond()), Uid: st.Uid, Gid: st.Gid, Ino: st.Ino}
		switch {
		case fi.Mode()&os.ModeSymlink != 0:
			e.Type = "l"
			e.Link, _ = os.Readlink(p)
		case fi.IsDir():
			e.Type = "d"
			e.Size = 0
		case fi.Mode()&os.ModeNamedPipe != 0:
			e.Type = "p"
		case fi.Mode()&os.ModeSocket != 0:
			e.Type = "s"
		case fi.Mode()&os.ModeCharDevice != 0:
			e.Type, e.Rdev = "c", uint64(st.Rdev)
		case fi.Mode()&os.ModeDevice != 0:
			e.Type, e.Rdev = "b", uint64(st.Rdev)
		default:
			e.Type = "f"
			if b, err := os.ReadFile(p); err == nil {
				h := sha256.Sum256(b)
				e.Sum = hex.EncodeToString(h[:8])
			} else {
				e.Sum = "unreadable"
			}
		}
		snap[rel] = e
		return nil
	})
	return snap
}

// canon renders the snapshot; fields selects what is compared:
// t type, c content (size+sum+link target), m mode, T mtime (seconds), o owner, r rdev, i inode
func (s snapshot) canon(fields string) string {
	var names []string
	for n := range s {
		names = append(names, n)
	}
	sort.Strings(names)
	var sb strings.Builder
	for _, n := range names {
		e := s[n]
		fmt.Fprintf(&sb, "%q", n)
		for _, f := range fields {
			switch f {
			case 't':
				fmt.Fprintf(&sb, " %s", e.Type)
			case 'c':
				fmt.Fprintf(&sb, " %d:%s%s", e.Size, e.Sum, e.Link)
			case 'm':
				fmt.Fprintf(&sb, " %04o", e.Mode)
			case 'T':
				fmt.Fprintf(&sb, " @%d", e.Mtime)
			case 'N':
				fmt.Fprintf(&sb, " .%d", e.Nsec)
			case 'o':
				fmt.Fprintf(&sb, " %d:%d", e.Uid, e.Gid)
			case 'r':
				fmt.Fprintf(&sb, " r%d", e.Rdev)
			case 'i':
				fmt.Fprintf(&sb, " i%d", e.Ino)
			}
		}
		sb.WriteByte('\n')
	}
	return sb.String()
}

func digest(s string) string {
	h := sha256.Sum256([]byte(s))
	return hex.EncodeToString(h[:6])
}

func init() {
	components["_sessionworker"] = func(*run) error { sessionWorkerMain(); return nil }
}

// ---- transports of a given capacity ----

type rc interface {
	io.Reader
	Close() error
}
type wc interface {
	io.Writer
	Close() error
}

type boundedPipe struct {
	mu     sync.Mutex
	cond   *sync.Cond
	buf    []byte
	cap    int
	closed bool
}

func (p *boundedPipe) Write(b []byte) (int, error) {
	p.mu.Lock()
	defer p.mu.Unlock()
	n := 0
	for len(b) > 0 {
		for len(p.buf) >= p.cap && !p.closed {
			p.cond.Wait()
		}
		if p.closed {
			return n, io.ErrClosedPipe
		}
		k := p.cap - len(p.buf)
		if k > len(b) {
			k = len(b)
		}
		p.buf = append(p.buf, b[:k]...)
		b = b[k:]
		n += k
		p.cond.Broadcast()
	}
	return n, nil
}
func (p *boundedPipe) Read(b []byte) (int, error) {
	p.mu.Lock()
	defer p.mu.Unlock()
	for len(p.buf) == 0 {
		if p.closed {
			return 0, io.EOF
		}
		p.cond.Wait()
	}
	n := copy(b, p.buf)
	p.buf = p.buf[n:]
	p.cond.Broadcast()
	return n, nil
}
func (p *boundedPipe) Close() error {
	p.mu.Lock()
	defer p.mu.Unlock()
	p.closed = true
	p.cond.Broadcast()
	return nil
}

type chunkWriter struct {
	w     wc
	max   int
	delay int
	g     *rng
}

func (c *chunkWriter) Write(b []byte) (int, error) {
	n := 0
	for len(b) > 0 {
		k := 1 + c.g.intn(c.max)
		if k > len(b) {
			k = len(b)
		}
		m, err := c.w.Write(b[:k])
		n += m
		if err != nil {
			return n, err
		}
		b = b[k:]
		if c.delay > 0 && c.g.chance(10) {
			time.Sleep(time.Duration(c.g.intn(c.delay)) * time.Microsecond)
		}
	}
	return n, nil
}
func (c *chunkWriter) Close() error { return c.w.Close() }

func capPipe(capacity, chunk, delayUs int, tag string) (rc, wc) {
	var r rc
	var w wc
	switch {
	case capacity == 0:
		pr, pw := io.Pipe()
		r, w = pr, pw
	case capacity < 0:
		p := newBufPipe()
		r, w = p, p
	default:
		p := &boundedPipe{cap: capacity}
		p.cond = sync.NewCond(&p.mu)
		r, w = p, p
	}
	if chunk > 0 {
		w = &chunkWriter{w: w, max: chunk, delay: delayUs, g: newRng(uint64(len(tag))*7919+uint64(capacity+2), tag)}
	}
	return r, w
}

type syncBuffer struct {
	mu sync.Mutex
	b  bytes.Buffer
}

func (s *syncBuffer) Write(p []byte) (int, error) {
	s.mu.Lock()
	defer s.mu.Unlock()
	return s.b.Write(p)
}
func (s *syncBuffer) String() string { s.mu.Lock(); defer s.mu.Unlock(); return s.b.String() }
func (s *syncBuffer) Reset()         { s.mu.Lock(); defer s.mu.Unlock(); s.b.Reset() }
