package main

import (
	"bytes"
	"fmt"
	"os"
	"os/exec"
	"path/filepath"
	"sort"
	"strings"
	"sync"
	"syscall"
	"time"

	"github.com/gokrazy/rsync/verifhook"
)

// ---- tree specifications (materialised on disk before a session) ----

type nodeSpec struct {
	Path  string // relative
	Type  string // f d l p s c b
	Data  []byte
	Mode  uint32
	Mtime int64
	Nsec  int64
	Link  string
	Rdev  int
	Uid   int
	Gid   int
}

type treeSpec []nodeSpec

func (t treeSpec) materialise(root string) error {
	if err := os.MkdirAll(root, 0o755); err != nil {
		return err
	}
	// directories first (parents before children), metadata last (deepest first)
	sorted := append(treeSpec{}, t...)
	sort.SliceStable(sorted, func(i, j int) bool { return sorted[i].Path < sorted[j].Path })
	for _, n := range sorted {
		p := filepath.Join(root, n.Path)
		os.MkdirAll(filepath.Dir(p), 0o755)
		switch n.Type {
		case "d":
			os.MkdirAll(p, 0o755)
		case "f":
			if err := os.WriteFile(p, n.Data, 0o644); err != nil {
				return err
			}
		case "l":
			os.Symlink(n.Link, p)
		case "p":
			syscall.Mkfifo(p, 0o644)
		case "s":
			fd, err := syscall.Socket(syscall.AF_UNIX, syscall.SOCK_DGRAM, 0)
			if err == nil {
				syscall.Bind(fd, &syscall.SockaddrUnix{Name: p})
				syscall.Close(fd)
			}
		case "c":
			syscall.Mknod(p, syscall.S_IFCHR|0o644, n.Rdev)
		case "b":
			syscall.Mknod(p, syscall.S_IFBLK|0o644, n.Rdev)
		}
	}
	for i := len(sorted) - 1; i >= 0; i-- {
		n := sorted[i]
		p := filepath.Join(root, n.Path)
		if n.Uid != 0 || n.Gid != 0 {
			os.Lchown(p, n.Uid, n.Gid)
		}
		if n.Type != "l" {
			os.Chmod(p, os.FileMode(n.Mode))
			mt := time.Unix(n.Mtime, n.Nsec)
			os.Chtimes(p, mt, mt)
		}
	}
	return nil
}

var sizePool = []int{0, 1, 2, 699, 700, 701, 1399, 1400, 1401, 4096, 7000, 65536, 262143, 262144, 262145}

func genFileData(g *rng, n int) []byte {
	if n <= 4096 {
		return g.bytes(n)
	}
	return genData(g, n)
}

func genSourceTree(g *rng, nFiles int, big bool) treeSpec {
	var t treeSpec
	dirs := []string{""}
	nd := 1 + g.intn(4)
	for i := 0; i < nd; i++ {
		parent := dirs[g.intn(len(dirs))]
		d := filepath.Join(parent, []string{"d", "sub", "x y", "\xc3\xa4\xc3\xb6", "dir-" + fmt.Sprint(i)}[g.intn(5)]+fmt.Sprint(i))
		dirs = append(dirs, d)
		t = append(t, nodeSpec{Path: d, Type: "d", Mode: uint32([]int{0o755, 0o700, 0o775, 0o750}[g.intn(4)]), Mtime: 1_400_000_000 + int64(g.intn(1e8))})
	}
	for i := 0; i < nFiles; i++ {
		d := dirs[g.intn(len(dirs))]
		name := fmt.Sprintf("f%02d%s", i, []string{"", ".txt", " sp", "\xff", "-\xe2\x82\xac"}[g.intn(5)])
		sz := sizePool[g.intn(len(sizePool))]
		if big && g.chance(12) {
			sz = []int{700 * 1000, 1000 * 1000, 1 << 20, 700000 + g.intn(600000)}[g.intn(4)]
		}
		t = append(t, nodeSpec{Path: filepath.Join(d, name), Type: "f", Data: genFileData(g, sz),
			Mode: uint32([]int{0o644, 0o600, 0o755, 0o640, 0o444}[g.intn(5)]), Mtime: 1_300_000_000 + int64(g.intn(3e8))})
	}
	return t
}

// derivePrior builds a prior destination state for the files of src (relative paths already mapped).
func derivePrior(g *rng, files []nodeSpec) (treeSpec, map[string]string) {
	var t treeSpec
	kinds := map[string]string{}
	for _, f := range files {
		if f.Type != "f" {
			continue
		}
		k := []string{"absent", "absent", "identical", "identical-old-mtime", "unrelated", "edited", "emptied", "truncated", "extended", "symlink-in-the-way", "emptydir-in-the-way", "fifo-in-the-way", "tail-kept", "same-size-just-before"}[g.intn(14)]
		kinds[f.Path] = k
		n := nodeSpec{Path: f.Path, Type: "f", Mode: 0o644, Mtime: f.Mtime - 1000}
		switch k {
		case "absent":
			continue
		case "identical":
			n.Data, n.Mtime, n.Mode = f.Data, f.Mtime, f.Mode
		case "identical-old-mtime":
			n.Data = f.Data
		case "unrelated":
			n.Data = genFileData(g, len(f.Data)/7+g.intn(100000))
		case "edited":
			n.Data, _, _ = editData(g, f.Data, 1+g.intn(3), 300)
		case "emptied":
			n.Data = []byte{}
		case "truncated":
			n.Data = f.Data[:len(f.Data)/2]
		case "extended":
			n.Data = append(append([]byte{}, f.Data...), g.bytes(1+g.intn(2000))...)
		case "tail-kept": // same size, first bytes changed, tail (last block) unchanged
			n.Data = append([]byte{}, f.Data...)
			for i := 0; i < len(n.Data)/3 && i < 50; i++ {
				n.Data[i] ^= 0x55
			}
		case "same-size-just-before": // same size, other content, mtime a fraction of a second before the source's second
			n.Data = append([]byte{}, f.Data...)
			if len(n.Data) > 0 {
				n.Data[len(n.Data)/2] ^= 0x21
			}
			n.Mtime, n.Nsec = f.Mtime-1, []int64{500_000_000, 999_999_999, 1_000}[g.intn(3)]
		case "symlink-in-the-way":
			n = nodeSpec{Path: f.Path, Type: "l", Link: "nowhere"}
		case "emptydir-in-the-way":
			n = nodeSpec{Path: f.Path, Type: "d", Mode: 0o755, Mtime: 1_000_000_000}
		case "fifo-in-the-way":
			n = nodeSpec{Path: f.Path, Type: "p", Mode: 0o600, Mtime: 1_000_000_000}
		}
		t = append(t, n)
	}
	return t, kinds
}

// destPathsFor maps the source arguments to destination-relative paths of the
// selected regular files (standard rsync semantics: "dir/" copies the
// contents, "dir" copies the directory itself).
func destPathsFor(src treeSpec, args []string) map[string]nodeSpec {
	out := map[string]nodeSpec{}
	for _, a := range args {
		base := strings.TrimSuffix(a, "/")
		for _, n := range src {
			if n.Type != "f" {
				continue
			}
			var rel string
			switch {
			case base == "" || base == ".":
				rel = n.Path
			case n.Path == base:
				rel = filepath.Base(base)
			case strings.HasPrefix(n.Path, base+"/"):
				if strings.HasSuffix(a, "/") {
					rel = strings.TrimPrefix(n.Path, base+"/")
				} else {
					rel = filepath.Join(filepath.Base(base), strings.TrimPrefix(n.Path, base+"/"))
				}
			default:
				continue
			}
			out[rel] = n
		}
	}
	return out
}

// readRegular reads a file only if it is a regular file (a fifo left in the way would block the open).
func readRegular(p string) ([]byte, error) {
	st, err := os.Lstat(p)
	if err != nil {
		return nil, err
	}
	if !st.Mode().IsRegular() {
		return nil, fmt.Errorf("%s is not a regular file (%v)", p, st.Mode())
	}
	return os.ReadFile(p)
}

// ---- C01: sync ----

func runSync(r *run) error {
	g := newRng(r.seed, "sync")
	base, err := mkTemp("sync")
	if err != nil {
		return err
	}
	defer rmTemp(base)
	pool := newSessionPool(8)
	defer pool.close()
	nTrees := 10
	if r.tier == "thorough" {
		nTrees = 90
	}
	optSets := [][]string{{"-r"}, {"-rt"}, {"-a"}, {"-rlpt"}, {"-rc"}, {"-rtI"}, {"-a", "-c"}, {"-rlptgoD"}, {"-rtc", "-I"}, {"-rp"}}
	arrs := []string{"pull", "push", "local", "libpull", "libpush"}
	if _, err := exec.LookPath("rsync"); err == nil {
		arrs = append(arrs, "tridgepull") // stock rsync as the client of the daemon under test
		r.notes["stock_rsync_client"] = "present"
	} else {
		r.notes["stock_rsync_client"] = "absent (tridgepull arrangement skipped)"
	}
	var wg sync.WaitGroup
	var mu sync.Mutex
	type job struct {
		id     string
		sp     sessionSpec
		src    treeSpec
		srcArg []string
		kinds  map[string]string
		args   []string
	}
	var jobs []job
	for t := 0; t < nTrees; t++ {
		src := genSourceTree(g, 4+g.intn(7), t%3 == 0)
		// the edge shapes seeded defects tend to need
		if t == 1 {
			d := genData(g, 1000*1000)
			src = append(src, nodeSpec{Path: "square.bin", Type: "f", Data: d, Mode: 0o644, Mtime: 1_500_000_000})
			src = append(src, nodeSpec{Path: "blocks1400.bin", Type: "f", Data: g.bytes(1400), Mode: 0o644, Mtime: 1_500_000_000})
		}
		if t == 2 {
			src = append(src, nodeSpec{Path: "big-over-unrelated.bin", Type: "f", Data: g.bytes(713933), Mode: 0o644, Mtime: 1_500_000_000})
		}
		// a directory two levels down, requested on its own below
		nestedDir := fmt.Sprintf("nest%d/in ner", t)
		src = append(src, nodeSpec{Path: fmt.Sprintf("nest%d", t), Type: "d", Mode: 0o755, Mtime: 1_400_000_000},
			nodeSpec{Path: nestedDir, Type: "d", Mode: 0o755, Mtime: 1_400_000_001},
			nodeSpec{Path: nestedDir + "/deep.bin", Type: "f", Data: genFileData(g, 700+g.intn(3000)), Mode: 0o644, Mtime: 1_450_000_000},
			nodeSpec{Path: nestedDir + "/more/leaf.txt", Type: "f", Data: g.bytes(1 + g.intn(300)), Mode: 0o600, Mtime: 1_450_000_001})
		src = append(src, nodeSpec{Path: nestedDir + "/more", Type: "d", Mode: 0o755, Mtime: 1_400_000_002})
		srcRoot := filepath.Join(base, fmt.Sprintf("src%d", t))
		if err := src.materialise(srcRoot); err != nil {
			return err
		}
		// source argument shapes
		var dirs []string
		for _, n := range src {
			if n.Type == "d" && !strings.Contains(n.Path, "/") {
				dirs = append(dirs, n.Path)
			}
		}
		shapes := [][]string{{""}}
		if len(dirs) > 0 {
			shapes = append(shapes, []string{dirs[0] + "/"}, []string{dirs[0]})
		}
		if len(dirs) > 1 {
			shapes = append(shapes, []string{dirs[0], dirs[1] + "/"})
		}
		shapes = append(shapes, []string{nestedDir + "/"}, []string{nestedDir})
		if len(dirs) > 0 {
			// several sources without trailing slash whose parent directories differ
			shapes = append(shapes, []string{dirs[0], nestedDir}, []string{nestedDir + "/more", dirs[0]})
		}
		nJobs := 6
		// the first tree also runs the nested directory through every puller, with and without
		// trailing slash, in every run (the latter is the listed known finding)
		type forcedJob struct {
			arr   string
			shape []string
		}
		var forced []forcedJob
		if t == 0 {
			for _, a := range arrs {
				if a == "pull" || a == "tridgepull" {
					forced = append(forced, forcedJob{a, []string{nestedDir + "/"}}, forcedJob{a, []string{nestedDir}}, forcedJob{a, []string{""}})
				}
			}
		}
		for k := 0; k < nJobs+len(forced); k++ {
			arr := arrs[g.intn(len(arrs))]
			if k < len(arrs) {
				arr = arrs[(t+k)%len(arrs)]
			}
			shape := shapes[g.intn(len(shapes))]
			if k >= nJobs {
				arr, shape = forced[k-nJobs].arr, forced[k-nJobs].shape
			}
			if (arr == "pull" || arr == "tridgepull") && len(shape) > 1 {
				shape = shape[:1] // one remote source per pull (hostspec per argument)
			}
			args := optSets[g.intn(len(optSets))]
			id := fmt.Sprintf("sync-t%d-%d-%s", t, k, arr)
			dest := filepath.Join(base, id)
			want := destPathsFor(src, shape)
			var files []nodeSpec
			for rel, n := range want {
				n.Path = rel
				files = append(files, n)
			}
			sort.Slice(files, func(i, j int) bool { return files[i].Path < files[j].Path })
			prior, kinds := derivePrior(g, files)
			if t == 1 {
				for i := range prior {
					if strings.HasSuffix(prior[i].Path, "square.bin") || strings.HasSuffix(prior[i].Path, "blocks1400.bin") {
						for _, f := range files {
							if f.Path == prior[i].Path {
								d := append([]byte{}, f.Data...)
								d[3] ^= 1
								prior[i] = nodeSpec{Path: f.Path, Type: "f", Data: d, Mode: 0o644, Mtime: f.Mtime - 77}
								kinds[f.Path] = "tail-kept"
							}
						}
					}
				}
			}
			if t == 2 {
				for _, f := range files {
					if strings.HasSuffix(f.Path, "big-over-unrelated.bin") {
						var kept treeSpec
						for _, p := range prior {
							if p.Path != f.Path {
								kept = append(kept, p)
							}
						}
						prior = append(kept, nodeSpec{Path: f.Path, Type: "f", Data: g.bytes(100000), Mode: 0o644, Mtime: f.Mtime - 5})
						kinds[f.Path] = "unrelated"
					}
				}
			}
			if err := prior.materialise(dest); err != nil {
				return err
			}
			sp := sessionSpec{ID: id, Arr: arr, Args: args, SrcRoot: srcRoot, Srcs: shape, Dest: dest, TimeoutMs: 60000}
			jobs = append(jobs, job{id, sp, src, shape, kinds, args})
		}
	}
	r.notes["sessions"] = len(jobs)
	for _, j := range jobs {
		wg.Add(1)
		go func(j job) {
			defer wg.Done()
			res := pool.run(j.sp)
			want := destPathsFor(j.src, j.srcArg)
			mu.Lock()
			defer mu.Unlock()
			r.count("sync/" + j.sp.Arr + "/" + res.Outcome)
			detail := map[string]any{"arrangement": j.sp.Arr, "args": j.args, "sources": j.srcArg, "err": res.Err, "stderr": tailStr(res.Stderr, 500),
				"regenerate": fmt.Sprintf("VERIF_SEED=%d ./check C01 (session %s)", r.seed, j.id)}
			// a daemon asked for a nested path without trailing slash (see known-findings.txt)
			nestedNoSlash := ""
			if j.sp.Arr == "pull" || j.sp.Arr == "tridgepull" {
				for _, a := range j.srcArg {
					if strings.Contains(a, "/") && !strings.HasSuffix(a, "/") {
						nestedNoSlash = a
					}
				}
			}
			if res.Outcome != "ok" {
				if nestedNoSlash != "" && strings.Contains(res.Stderr, "rejecting unrequested file-list name: "+nestedNoSlash) {
					detail["shape"] = "daemon-sender nested-source-without-trailing-slash keeps module-relative names (stock client rejects the list)"
				}
				r.oracleFail(j.id, "a transfer of a static source tree did not succeed ("+res.Outcome+"): "+res.Err, detail)
				return
			}
			usesChecksum, ignoreTimes := false, false
			for _, a := range j.args {
				if !strings.HasPrefix(a, "--") && strings.Contains(a, "c") {
					usesChecksum = true
				}
				if !strings.HasPrefix(a, "--") && strings.Contains(a, "I") {
					ignoreTimes = true
				}
			}
			bad := 0
			for rel, n := range want {
				got, err := readRegular(filepath.Join(j.sp.Dest, rel))
				if err == nil && bytes.Equal(got, n.Data) {
					continue
				}
				// the update rule may have declared the old file up to date
				k := j.kinds[rel]
				if err == nil && !usesChecksum && !ignoreTimes && k == "tail-kept-same-mtime" {
					continue
				}
				bad++
				detail["file"] = rel
				detail["prior_state"] = k
				detail["size"] = len(n.Data)
			}
			if bad > 0 {
				if nestedNoSlash != "" {
					// exactly the known shape: every selected file sits, intact, under its module-relative path instead
					all := true
					for _, n := range j.src {
						if n.Type == "f" && strings.HasPrefix(n.Path, nestedNoSlash+"/") {
							got, err := readRegular(filepath.Join(j.sp.Dest, n.Path))
							if err != nil || !bytes.Equal(got, n.Data) {
								all = false
							}
						}
					}
					if all {
						detail["shape"] = "daemon-sender nested-source-without-trailing-slash keeps module-relative names (files land under " + nestedNoSlash + ")"
					}
				}
				r.oracleFail(j.id, fmt.Sprintf("success reported but %d selected file(s) are missing or differ from the source at the destination", bad), detail)
			}
		}(j)
	}
	wg.Wait()
	r.emit("noop", "sync-summary", []string{fmt.Sprint(len(jobs))}, "ok", true)
	r.emit("noop", "sync-summary2", []string{fmt.Sprint(nTrees)}, "ok", true)
	return nil
}

var _ = verifhook.Checksum1

func init() { components["sync"] = runSync }
