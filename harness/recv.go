package main

import (
	"bytes"
	"fmt"
	"os"
	"path/filepath"
	"strings"

	"github.com/gokrazy/rsync/verifhook"
)

type recvCase struct {
	seed     int32
	hasBasis bool
	basis    []byte
	wire     []byte
	kind     string
	// for the oracle: what an honest sender meant (nil if unknown)
	intended []byte
	// for the oracle: a valid stream (tokens denote expect, trailer right): must commit expect
	expect    []byte
	hasExpect bool
}

func recvErrClass(err error) string {
	s := err.Error()
	switch {
	case strings.Contains(s, "file corruption"):
		return "corruption"
	case strings.Contains(s, "EOF"):
		return "eof"
	case strings.Contains(s, "invalid checksum count"), strings.Contains(s, "invalid block length"),
		strings.Contains(s, "invalid checksum length"), strings.Contains(s, "invalid remainder length"):
		return "head"
	case strings.Contains(s, "not open for copying"):
		return "nobasis"
	}
	if len(s) > 80 {
		s = s[:80]
	}
	return "other:" + s
}

// runRecvCase runs the real receiver on one case inside dir (fresh per case).
// Observable: C:<content hex> when the transfer of the file succeeded, else
// E:<class>.  The file-system half of C03 is checked here, directly.
func runRecvCase(r *run, comp, id string, c *recvCase, base string) {
	dir := filepath.Join(base, id)
	os.MkdirAll(dir, 0o755)
	defer os.RemoveAll(dir)
	fn := filepath.Join(dir, "f")
	if c.hasBasis {
		os.WriteFile(fn, c.basis, 0o644)
	}
	consumed, err := verifhook.ReceiverRecvFile(c.seed, dir, "f", 0o100644, 1_000_000_000, c.wire, verifhook.ReceiverOpts{PreservePerms: true, PreserveTimes: true})
	after, rerr := os.ReadFile(fn)
	obs := ""
	if c.hasExpect && (err != nil || !bytes.Equal(after, c.expect)) {
		r.oracleFail(id, "valid token stream: the receiver did not write exactly the bytes the stream denotes", c.detail())
	}
	if err == nil {
		obs = "C:" + hexOrDash(after)
		if rerr != nil {
			r.oracleFail(id, "success reported but destination missing", c.detail())
		}
		// only data that passes the whole-file checksum replaces the file:
		// the 16 bytes consumed as trailer must be the sum of what was committed
		if consumed < 16 || consumed > len(c.wire) || !bytes.Equal(c.wire[consumed-16:consumed], fileSum(c.seed, after)) {
			r.oracleFail(id, "committed content does not match the whole-file checksum trailer of the stream", c.detail())
		}
		if c.intended != nil && !bytes.Equal(after, c.intended) && !bytes.Equal(fileSum(c.seed, after), fileSum(c.seed, c.intended)) {
			r.oracleFail(id, "a damaged stream was reported as a successful transfer of different content", c.detail())
		}
	} else {
		obs = "E:" + recvErrClass(err)
		// the destination keeps its previous content or stays absent
		if c.hasBasis {
			if rerr != nil || !bytes.Equal(after, c.basis) {
				r.oracleFail(id, "transfer failed but the destination no longer holds its previous content", c.detail())
			}
		} else if rerr == nil {
			r.oracleFail(id, "transfer failed but a destination file was created", c.detail())
		}
	}
	// temp files are cleaned up on return (deferred Cleanup)
	ents, _ := os.ReadDir(dir)
	for _, e := range ents {
		if e.Name() != "f" {
			r.oracleFail(id, "temporary file left behind: "+e.Name(), c.detail())
		}
	}
	b := "none"
	if c.hasBasis {
		b = hexOrDash(c.basis)
	}
	r.count(c.kind + "/" + strings.SplitN(obs, ":", 2)[0] + ":" + func() string {
		if err != nil {
			return recvErrClass(err)
		}
		return "commit"
	}())
	r.emit(comp, id, []string{fmt.Sprint(c.seed), b, hexOrDash(c.wire)}, obs, err == nil || strings.Contains(obs, "corruption"))
}

func (c *recvCase) detail() map[string]any {
	return map[string]any{"seed": c.seed, "has_basis": c.hasBasis, "basis_hex": clipHex(c.basis), "wire_hex": clipHex(c.wire), "kind": c.kind, "intended_hex": clipHex(c.intended)}
}

func encHead(h sumHead) []byte {
	var b bytes.Buffer
	b.Write(le32(h.count))
	b.Write(le32(h.blen))
	b.Write(le32(h.slen))
	b.Write(le32(h.rem))
	return b.Bytes()
}

func encToks(toks []tok) []byte {
	var b bytes.Buffer
	for _, t := range toks {
		if t.lit != nil {
			b.Write(le32(int32(len(t.lit))))
			b.Write(t.lit)
		} else {
			b.Write(le32(-(t.ref + 1)))
		}
	}
	return b.Bytes()
}

func layoutHead(n int, blen int32) sumHead {
	if blen <= 0 {
		return sumHead{}
	}
	return sumHead{count: (int32(n) + blen - 1) / blen, blen: blen, slen: 16, rem: int32(n) % blen}
}

func runRecv(r *run) error {
	g := newRng(r.seed, "recv")
	base, err := mkTemp("recv")
	if err != nil {
		return err
	}
	defer rmTemp(base)
	id := 0
	next := func() string { id++; return fmt.Sprintf("r%d", id) }

	// (1) bounded-exhaustive: every token list of length 0..3 over a pool, against small bases
	pool := []tok{{lit: []byte{0x01}}, {lit: []byte{0xff, 0x80}}, {ref: 0}, {ref: 1}, {ref: 2}, {ref: 5}}
	maxT := 3
	bases := [][]byte{nil, {}, {0x41}, {0x41, 0x42, 0x43}, {0x41, 0x42, 0x43, 0x44}, {1, 2, 3, 4, 5}}
	var lists [][]tok
	var rec func(p []tok)
	rec = func(p []tok) {
		lists = append(lists, append([]tok{}, p...))
		if len(p) == maxT {
			return
		}
		for _, t := range pool {
			rec(append(p, t))
		}
	}
	rec(nil)
	r.notes["exhaustive_recv"] = fmt.Sprintf("%d token lists (length 0..%d over a pool of %d tokens) x %d bases x block lengths {1,2,3} x {right,wrong} trailer", len(lists), maxT, len(pool), len(bases))
	for bi, basis := range bases {
		for _, blen := range []int32{1, 2, 3} {
			if basis == nil && blen > 1 {
				continue
			}
			h := layoutHead(len(basis), blen)
			for _, ts := range lists {
				den, derr := applyTokens(basis, h, ts)
				for _, good := range []bool{true, false} {
					var wire bytes.Buffer
					wire.Write(encHead(h))
					wire.Write(encToks(ts))
					wire.Write(le32(0))
					if derr == nil && good {
						wire.Write(fileSum(9, den))
					} else if good {
						continue
					} else {
						wire.Write(bytes.Repeat([]byte{0x5a}, 16))
					}
					c := &recvCase{seed: 9, hasBasis: bi != 0, basis: basis, wire: wire.Bytes(), kind: "exh"}
					if derr == nil && good && (bi != 0 || allLits(ts)) {
						c.expect, c.hasExpect = den, true
					}
					runRecvCase(r, "recv", next(), c, base)
				}
			}
		}
	}

	// (2) random streams: valid token lists in any order/chunking, plus malformed ones
	n := 2500
	if r.tier == "thorough" {
		n = 40000
	}
	for i := 0; i < n; i++ {
		hasBasis := g.chance(85)
		var basis []byte
		if hasBasis {
			basis = g.bytes(g.intn(200))
		}
		blen := int32(1 + g.intn(50))
		h := layoutHead(len(basis), blen)
		if g.chance(10) { // header not matching the basis (the receiver trusts the echoed header)
			h = sumHead{count: int32(g.intn(8)), blen: int32(g.intn(64)), slen: int32(g.intn(17)), rem: 0}
			if h.blen > 0 {
				h.rem = int32(g.intn(int(h.blen) + 1))
			}
		}
		var ts []tok
		for k := g.intn(12); k > 0; k-- {
			if g.chance(45) {
				ts = append(ts, tok{lit: g.bytes(1 + g.intn(40))})
			} else {
				ref := int32(g.intn(int(h.count) + 2))
				if g.chance(3) {
					ref = int32(g.next())
					if ref < 0 {
						ref = -ref - 1
					}
				}
				ts = append(ts, tok{ref: ref})
			}
		}
		seed := int32(g.next())
		den, derr := applyTokens(basis, h, ts)
		var wire bytes.Buffer
		wire.Write(encHead(h))
		wire.Write(encToks(ts))
		wire.Write(le32(0))
		kind := "rnd-valid"
		valid := false
		if derr == nil && hasBasis || derr == nil && allLits(ts) {
			wire.Write(fileSum(seed, den))
			valid = true
		} else {
			wire.Write(g.bytes(16))
			kind = "rnd-badref"
		}
		wire.Write(g.bytes(g.intn(5))) // following bytes belong to the next file
		w := wire.Bytes()
		switch g.intn(10) {
		case 0: // truncated
			w = w[:g.intn(len(w))]
			kind = "rnd-truncated"
		case 1: // a corrupted byte somewhere (keep lengths sane: see faults component)
			p := 16 + g.intn(len(w)-16)
			w = append([]byte{}, w...)
			w[p] ^= byte(1 << g.intn(3))
			kind = "rnd-flip"
		}
		c := &recvCase{seed: seed, hasBasis: hasBasis, basis: basis, wire: w, kind: kind}
		if valid && kind == "rnd-valid" {
			c.expect, c.hasExpect = den, true
		}
		if saneLengths(w) {
			runRecvCase(r, "recv", next(), c, base)
		}
	}
	return nil
}

func allLits(ts []tok) bool {
	for _, t := range ts {
		if t.lit == nil {
			return false
		}
	}
	return true
}

// saneLengths reports whether the stream keeps every count-like field the
// receiver allocates from below 2^20 (C08's stated carve-out: declared
// multi-gigabyte sizes are not covered).
func saneLengths(w []byte) bool {
	if len(w) < 16 {
		return true
	}
	rd := func(p int) int32 {
		return int32(uint32(w[p]) | uint32(w[p+1])<<8 | uint32(w[p+2])<<16 | uint32(w[p+3])<<24)
	}
	if bl := rd(4); bl > 1<<20 {
		return false
	}
	if rm := rd(12); rm > 1<<20 {
		return false
	}
	p := 16
	for p+4 <= len(w) {
		t := rd(p)
		p += 4
		if t == 0 {
			return true
		}
		if t > 1<<20 {
			return false
		}
		if t > 0 {
			p += int(t)
		}
	}
	return true
}

// ---- C03: fault injection on honest sender streams ----

func runFaults(r *run) error {
	g := newRng(r.seed, "faults")
	base, err := mkTemp("faults")
	if err != nil {
		return err
	}
	defer rmTemp(base)
	id := 0
	next := func() string { id++; return fmt.Sprintf("f%d", id) }
	skipped := 0

	type session struct {
		name   string
		basis  []byte
		has    bool
		target []byte
		blen   int32
	}
	mk := func(n int) []byte { return g.bytes(n) }
	b1 := mk(60)
	var sessions []session
	sessions = append(sessions,
		session{"whole-new", nil, false, mk(40), 0},
		session{"whole-over-unrelated", mk(30), true, mk(35), 0},
		session{"pure-delta-identical", b1, true, append([]byte{}, b1...), 8},
		session{"pure-delta-permuted", b1, true, append(append(append([]byte{}, b1[16:32]...), b1[0:16]...), b1[48:56]...), 8},
		session{"mixed-insert", b1, true, append(append(append([]byte{}, b1[:21]...), mk(9)...), b1[21:]...), 8},
		session{"mixed-tail", b1, true, append(append([]byte{}, b1[:40]...), mk(17)...), 7},
		session{"emptied", b1, true, []byte{}, 8},
	)
	if r.tier == "thorough" {
		for i := 0; i < 25; i++ {
			b := mk(50 + g.intn(400))
			t, _, _ := editData(g, b, 1+g.intn(3), 30)
			sessions = append(sessions, session{fmt.Sprintf("rnd%d", i), b, true, t, int32(4 + g.intn(40))})
		}
	}
	for _, s := range sessions {
		seed := int32(g.next())
		sc := &senderCase{seed: seed, basis: s.basis, target: s.target}
		if s.has && s.blen > 0 && len(s.basis) > 0 {
			sc.head, sc.sum1, sc.sum2 = legalSums(seed, s.basis, s.blen, 16)
		}
		out, err := verifhook.SenderRun(seed, sc.request(), s.target)
		if err != nil {
			return fmt.Errorf("honest sender failed: %v", err)
		}
		// data segment of this file: after the 4-byte index, before the two phase markers
		seg := out[4 : len(out)-8]
		so, err := parseSenderOutput(out)
		if err != nil {
			return err
		}
		// the unfaulted stream must commit the target
		runRecvCase(r, "recv", next(), &recvCase{seed: seed, hasBasis: s.has, basis: s.basis, wire: seg, kind: s.name + "/clean", intended: s.target}, base)
		// every single-bit flip
		for pos := 0; pos < len(seg); pos++ {
			for bit := 0; bit < 8; bit++ {
				w := append([]byte{}, seg...)
				w[pos] ^= 1 << bit
				if !saneLengths(w) {
					skipped++
					continue
				}
				runRecvCase(r, "recv", next(), &recvCase{seed: seed, hasBasis: s.has, basis: s.basis, wire: w, kind: s.name + "/bitflip", intended: s.target}, base)
			}
		}
		// structural faults on the token list
		head := encHead(so.head)
		emit := func(kind string, ts []tok) {
			var w bytes.Buffer
			w.Write(head)
			w.Write(encToks(ts))
			w.Write(le32(0))
			w.Write(so.trailer)
			runRecvCase(r, "recv", next(), &recvCase{seed: seed, hasBasis: s.has, basis: s.basis, wire: w.Bytes(), kind: s.name + "/" + kind, intended: s.target}, base)
		}
		for i, t := range so.toks {
			if t.lit == nil {
				// substitute the reference by every other valid one
				for j := int32(0); j < so.head.count; j++ {
					if j != t.ref {
						ts := append([]tok{}, so.toks...)
						ts[i] = tok{ref: j}
						emit("ref-substituted", ts)
					}
				}
			}
			// drop / duplicate token i
			emit("token-dropped", append(append([]tok{}, so.toks[:i]...), so.toks[i+1:]...))
			emit("token-duplicated", append(append(append([]tok{}, so.toks[:i+1]...), t), so.toks[i+1:]...))
			if i+1 < len(so.toks) {
				ts := append([]tok{}, so.toks...)
				ts[i], ts[i+1] = ts[i+1], ts[i]
				emit("tokens-swapped", ts)
			}
			if t.lit != nil && len(t.lit) > 1 {
				ts := append([]tok{}, so.toks...)
				ts[i] = tok{lit: t.lit[:len(t.lit)-1]}
				emit("literal-truncated", ts)
			}
		}
		// basis changed after its sums were sent
		if s.has && len(s.basis) > 0 {
			for k := 0; k < 12; k++ {
				nb := append([]byte{}, s.basis...)
				nb[g.intn(len(nb))] ^= byte(1 + g.intn(255))
				if g.chance(25) {
					nb = nb[:g.intn(len(nb))]
				}
				runRecvCase(r, "recv", next(), &recvCase{seed: seed, hasBasis: true, basis: nb, wire: seg, kind: s.name + "/basis-changed", intended: s.target}, base)
			}
		}
	}
	r.notes["flips_skipped_length_over_2^20"] = skipped
	return nil
}

func init() {
	components["recv"] = runRecv
	components["faults"] = runFaults
}
