package main

import (
	"bytes"
	"fmt"
	"os"
	"path/filepath"
	"time"

	"github.com/gokrazy/rsync/verifhook"
)

// recvmeta: metadata of a file after recvFile1 (commit + setPerms), against
// the model's recv_ops interpreted on the one-path state.
func runRecvMeta(r *run) error {
	g := newRng(r.seed, "recvmeta")
	base, err := mkTemp("recvmeta")
	if err != nil {
		return err
	}
	defer rmTemp(base)
	n := 1200
	if r.tier == "thorough" {
		n = 20000
	}
	for i := 0; i < n; i++ {
		id := fmt.Sprintf("rm%d", i)
		dir := filepath.Join(base, id)
		os.Mkdir(dir, 0o755)
		o := verifhook.ReceiverOpts{PreservePerms: g.bool(), PreserveTimes: g.bool(), DryRun: g.chance(12)}
		perm := int32(g.intn(0o1000))
		mtime := []int64{0, 1, -1, -86400 * 365 * 30, 1_500_000_000, 2147483647, -2147483648, 2_100_000_000}[g.intn(8)]
		data := g.bytes(1 + g.intn(60))
		seed := int32(g.intn(1 << 16))
		prior := "none"
		var pperm uint32
		var pmtime int64
		fn := filepath.Join(dir, "f")
		if g.chance(55) {
			pperm, pmtime = uint32(g.intn(0o1000)), []int64{mtime, 1_234_567_890}[g.intn(2)]
			pd := g.bytes(10)
			os.WriteFile(fn, pd, 0o600)
			os.Chmod(fn, os.FileMode(pperm))
			os.Chtimes(fn, time.Unix(pmtime, 0), time.Unix(pmtime, 0))
			prior = fmt.Sprintf("reg:%d:%d:0:0:-:0:%s", pperm, pmtime, hexOrDash(pd))
		}
		good := !g.chance(20)
		var w bytes.Buffer
		w.Write(encHead(sumHead{}))
		w.Write(encToks([]tok{{lit: data}}))
		w.Write(le32(0))
		sum := fileSum(seed, data)
		if !good {
			sum = append([]byte{}, sum...)
			sum[g.intn(16)] ^= 1
		}
		w.Write(sum)
		started := time.Now()
		before := lstatTuple(fn, started.Add(-time.Hour))
		_, rerr := verifhook.ReceiverRecvFile(seed, dir, "f", 0o100000|perm, mtime, w.Bytes(), o)
		after := lstatTuple(fn, started)
		content, _ := os.ReadFile(fn)
		obs := after + "|" + hexOrDash(content)
		r.count(fmt.Sprintf("prior=%v/good=%v/dry=%v/err=%v", prior != "none", good, o.DryRun, rerr != nil))
		r.emit("recvmeta", id, []string{b01(o.DryRun) + b01(o.PreservePerms) + b01(o.PreserveTimes), fmt.Sprint(perm), fmt.Sprint(mtime), prior, hexOrDash(data), b01(good)}, obs, rerr == nil && !o.DryRun)
		if o.DryRun && before != after {
			r.oracleFail(id, "dry run: recvFile1 changed the destination: "+before+" -> "+after, map[string]any{"opts": fmt.Sprintf("%+v", o)})
		}
		if !o.DryRun && good && rerr == nil {
			// C11 for a transferred file
			wantPerm := fmt.Sprintf("%o", perm)
			if prior != "none" && !o.PreservePerms {
				wantPerm = fmt.Sprintf("%o", pperm)
			}
			want := fmt.Sprintf("reg:%s:", wantPerm)
			if after[:len(want)] != want || !bytes.Equal(content, data) {
				r.oracleFail(id, "C11: transferred file has wrong permissions or content: "+after+" want "+want, map[string]any{"opts": fmt.Sprintf("%+v", o), "prior": prior})
			}
			if o.PreserveTimes {
				fi, _ := os.Lstat(fn)
				if fi == nil || fi.ModTime().Unix() != mtime {
					r.oracleFail(id, fmt.Sprintf("C11: -t: transferred file mtime %v, listed %d", fi.ModTime().Unix(), mtime), map[string]any{"opts": fmt.Sprintf("%+v", o)})
				}
			}
		}
		os.RemoveAll(dir)
	}
	return nil
}

func init() { components["recvmeta"] = runRecvMeta }
